(* C17 - concurrent instances do not interfere.
   What the regenerated dispatch model shows about shared state: the kernel tables are process-global, so an instance runs with the
   kernels selected by whichever instance was initialised last. That cannot change any output only because the variants are
   bit-exact (C06 / C07); the other process-wide state of the library (block geometry tables, decoder memory map, processor
   groups, film-grain register) is not modelled: interference through it is exhibited by the concurrent runs of the check. *)
From Coq Require Import ZArith List Bool.
From SV Require Import Dispatch.
From SVG Require Import DispatchGen.
Import ListNotations.
Local Open Scope Z_scope.

(* the tables after an initialisation with `flags`, and after two initialisations in sequence *)
Definition install (flags : Z) : list nat := map (select flags) table.
Definition install_twice (first second : Z) : list nat := let _ := install first in install second.

Theorem c17_dispatch_tables_are_process_global : forall fa fb, install_twice fa fb = install fb.
Proof. reflexivity. Qed.

(* ... and the two selections really differ for the current tables (C only vs everything up to AVX2) *)
Theorem c17_last_initialisation_wins_witness : install 0 <> install 511.
Proof. vm_compute. discriminate. Qed.
