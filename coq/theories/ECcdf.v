From Coq Require Import ZArith Lia List Bool.
From SV Require Import ECideal.
Import ListNotations.
Local Open Scope Z_scope.

(* ---- concrete thresholds of od_ec_encode_q15 / od_ec_decode_cdf_q15 ---- *)
Fixpoint thr_aux (r8 : Z) (icdf : list Z) (rem : Z) : list Z :=
  match icdf with
  | [] => []
  | f :: rest => (Z.shiftr (r8 * Z.shiftr f 6) 1 + 4 * rem) :: thr_aux r8 rest (rem - 1)
  end.
Definition thr_cdf (icdf : list Z) (R : Z) : list Z :=
  thr_aux (Z.shiftr R 8) icdf (Z.of_nat (length icdf) - 1).

(* valid inverse CDF: non-increasing, entries in [0,32768), last entry 0, 2..16 symbols *)
Fixpoint noninc (l : list Z) : Prop :=
  match l with
  | a :: ((b :: _) as t) => b <= a /\ noninc t
  | _ => True
  end.
Definition icdf_ok (icdf : list Z) : Prop :=
  (2 <= length icdf <= 16)%nat /\ noninc icdf /\ Forall (fun x => 0 <= x < 32768) icdf /\ last icdf 1 = 0.

Definition term (r8 f : Z) : Z := Z.shiftr (r8 * Z.shiftr f 6) 1.

Lemma term_mono r8 a b : 0 <= r8 -> 0 <= b <= a -> term r8 b <= term r8 a.
Proof.
  intros Hr Hab. unfold term. rewrite !Z.shiftr_div_pow2 by lia.
  change (2^6) with 64. change (2^1) with 2.
  apply Z.div_le_mono; [lia|]. apply Z.mul_le_mono_nonneg_l; [lia|]. apply Z.div_le_mono; lia.
Qed.
Lemma term_nonneg r8 f : 0 <= r8 -> 0 <= f -> 0 <= term r8 f.
Proof.
  intros. unfold term. rewrite !Z.shiftr_div_pow2 by lia. apply Z.div_pos; [|reflexivity].
  apply Z.mul_nonneg_nonneg; [lia|]. apply Z.div_pos; [lia|reflexivity].
Qed.
Lemma term_zero r8 : term r8 0 = 0.
Proof. unfold term. cbn. rewrite Z.mul_0_r. reflexivity. Qed.

(* the first threshold is below R *)
Lemma term_lt_R R f rem : 32768 <= R < 65536 -> 0 <= f < 32768 -> 0 <= rem <= 15 ->
  term (Z.shiftr R 8) f + 4 * rem < R.
Proof.
  intros HR Hf Hrem. unfold term. rewrite !Z.shiftr_div_pow2 by lia.
  change (2^8) with 256. change (2^6) with 64. change (2^1) with 2.
  set (q := R / 256). set (x := f / 64).
  assert (Hq: 128 <= q < 256) by (unfold q; split; [apply Z.div_le_lower_bound; lia | apply Z.div_lt_upper_bound; lia]).
  assert (Hx: 0 <= x < 512) by (unfold x; split; [apply Z.div_pos; lia | apply Z.div_lt_upper_bound; lia]).
  assert (HRq: 256 * q <= R) by (unfold q; apply Z.mul_div_le; lia).
  assert (Hd: (q * x) / 2 <= q * 511 / 2) by (apply Z.div_le_mono; nia).
  assert (2 * (q * 511 / 2) <= q * 511) by (apply Z.mul_div_le; lia).
  nia.
Qed.

(* generalised: the list built by thr_aux from a valid tail is strictly decreasing below any bound above its head *)
Lemma thr_aux_dec r8 : 0 <= r8 -> forall icdf rem bound,
  icdf <> [] -> noninc icdf -> Forall (fun x => 0 <= x) icdf -> last icdf 1 = 0 ->
  rem = Z.of_nat (length icdf) - 1 ->
  term r8 (hd 0 icdf) + 4 * rem < bound ->
  dec_from bound (thr_aux r8 icdf rem).
Proof.
  intros Hr. induction icdf as [|f rest IH]; intros rem bound Hne Hni Hpos Hlast Hrem Hb; [congruence|].
  inversion Hpos as [|? ? Hf Hrest]; subst.
  destruct rest as [|g rest'].
  - cbn in Hlast. subst f. cbn [hd length] in Hb.
    change (thr_aux r8 [0] (Z.of_nat (length [0]) - 1)) with [term r8 0 + 4 * (Z.of_nat 1 - 1)].
    rewrite term_zero in *. cbn [dec_from]. change (Z.of_nat 1) with 1 in *. lia.
  - cbn [thr_aux]. fold (term r8 f). cbn [hd] in Hb.
    destruct Hni as [Hgf Hni'].
    inversion Hrest as [|? ? Hg Hrest']; subst.
    change (dec_from bound ((term r8 f + 4 * (Z.of_nat (length (f :: g :: rest')) - 1)) :: thr_aux r8 (g :: rest') (Z.of_nat (length (f :: g :: rest')) - 1 - 1))).
    cbn [dec_from thr_aux]. fold (term r8 g).
    assert (Hlen: Z.of_nat (length (f :: g :: rest')) - 1 - 1 = Z.of_nat (length (g :: rest')) - 1) by (cbn [length]; lia).
    pose proof (term_nonneg r8 f Hr Hf). 
    assert (0 <= Z.of_nat (length (f :: g :: rest')) - 1) by (cbn [length]; lia).
    split; [lia|].
    specialize (IH (Z.of_nat (length (f :: g :: rest')) - 1 - 1) (term r8 f + 4 * (Z.of_nat (length (f :: g :: rest')) - 1))).
    cbn [thr_aux] in IH. fold (term r8 g) in IH. apply IH; auto; try discriminate.
    cbn [hd]. pose proof (term_mono r8 f g Hr ltac:(lia)). lia.
Qed.

Lemma icdf_ok_op_ok icdf s : icdf_ok icdf -> (s < length icdf)%nat -> op_ok (thr_cdf icdf, s).
Proof.
  intros [Hlen [Hni [Hrange Hlast]]] Hs R HR. cbn [fst snd]. unfold thr_cdf.
  assert (Hr8: 0 <= Z.shiftr R 8) by (apply Z.shiftr_nonneg; lia).
  split.
  - destruct icdf as [|f rest]; [cbn in Hlen; lia|].
    apply thr_aux_dec; auto; try discriminate.
    + eapply Forall_impl; [|exact Hrange]. cbn; intros; lia.
    + cbn [hd]. inversion Hrange; subst. apply term_lt_R; auto. cbn [length] in *. lia.
  - assert (L: forall l r8 rem, length (thr_aux r8 l rem) = length l) by (induction l; intros; cbn; auto).
    rewrite L. exact Hs.
Qed.
Print Assumptions icdf_ok_op_ok.

