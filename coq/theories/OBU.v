(* C02: an AV1 OBU / temporal-unit parser written from the AV1 bitstream syntax (independent of the encoder's
   writer): OBU framing with leb128 sizes, the complete sequence header syntax incl. trailing bits, the part
   of the frame header that says whether a frame is displayed, and the temporal-unit conditions of C02.
   Extracted and applied to every packet the real encoder emits. *)
From Coq Require Import ZArith List Bool Lia.
From SV Require Import Leb128.
Import ListNotations.
Local Open Scope Z_scope.

(* ---------- bits ---------- *)
Definition byte_bits (b : Z) : list bool := map (fun i => Z.testbit b i) [7; 6; 5; 4; 3; 2; 1; 0].
Definition bits_of (bs : list Z) : list bool := flat_map byte_bits bs.

Fixpoint read_bits (n : nat) (acc : Z) (l : list bool) : option (Z * list bool) :=
  match n with
  | O => Some (acc, l)
  | S k => match l with [] => None | b :: r => read_bits k (2 * acc + (if b then 1 else 0)) r end
  end.
Definition f (n : nat) (l : list bool) : option (Z * list bool) := read_bits n 0 l.

Notation "'do' ( x , r ) <- e ; k" := (match e with Some (x, r) => k | None => None end) (at level 200, x name, r name, e at level 100, k at level 200).

(* ---------- OBU framing ---------- *)
Record obu := { o_type : Z; o_ext : bool; o_header : list Z; o_sizebytes : list Z; o_size : Z; o_payload : list Z }.
Definition obu_raw (o : obu) : list Z := o_header o ++ o_sizebytes o ++ o_payload o.

Definition OBU_SEQUENCE_HEADER := 1. Definition OBU_TEMPORAL_DELIMITER := 2. Definition OBU_FRAME_HEADER := 3.
Definition OBU_TILE_GROUP := 4. Definition OBU_METADATA := 5. Definition OBU_FRAME := 6.
Definition OBU_REDUNDANT_FRAME_HEADER := 7. Definition OBU_TILE_LIST := 8. Definition OBU_PADDING := 15.

Definition parse_obu (bs : list Z) : option (obu * list Z) :=
  match bs with
  | [] => None
  | b0 :: r0 =>
    if Z.testbit b0 7 then None                             (* obu_forbidden_bit *)
    else if Z.testbit b0 0 then None                        (* obu_reserved_1bit *)
    else if negb (Z.testbit b0 1) then None                 (* the encoder always writes obu_has_size_field = 1 *)
    else
      let ty := Z.land (Z.shiftr b0 3) 15 in
      let ext := Z.testbit b0 2 in
      let hdr_rest := if ext then match r0 with e :: r1 => Some ([b0; e], r1) | [] => None end else Some ([b0], r0) in
      match hdr_rest with
      | None => None
      | Some (hdr, r1) =>
        match leb_dec 8 0 r1 with
        | None => None
        | Some (sz, r2) =>
          let nsz := (length r1 - length r2)%nat in
          if (sz <? 0) || (Z.of_nat (length r2) <? sz) then None
          else Some ({| o_type := ty; o_ext := ext; o_header := hdr; o_sizebytes := firstn nsz r1; o_size := sz;
                        o_payload := firstn (Z.to_nat sz) r2 |}, skipn (Z.to_nat sz) r2)
        end
      end
  end.

Fixpoint parse_obus (fuel : nat) (bs : list Z) : option (list obu) :=
  match bs with
  | [] => Some []
  | _ => match fuel with
         | O => None
         | S k => match parse_obu bs with
                  | None => None
                  | Some (o, rest) => match parse_obus k rest with Some l => Some (o :: l) | None => None end
                  end
         end
  end.

(* ---------- sequence header (AV1 spec 5.5), complete syntax, trailing bits included ---------- *)
Record seqhdr := { sh_profile : Z; sh_still : Z; sh_reduced : Z; sh_width_bits : Z; sh_height_bits : Z; sh_max_w : Z; sh_max_h : Z;
                   sh_frame_ids : Z; sh_delta_id_len : Z; sh_add_id_len : Z; sh_sb128 : Z; sh_filter_intra : Z; sh_intra_edge : Z;
                   sh_interintra : Z; sh_masked : Z; sh_warped : Z; sh_dual : Z; sh_order_hint : Z; sh_jnt : Z; sh_refmvs : Z;
                   sh_force_sct : Z; sh_force_imv : Z; sh_oh_bits : Z; sh_superres : Z; sh_cdef : Z; sh_lr : Z;
                   sh_bitdepth : Z; sh_mono : Z; sh_subx : Z; sh_suby : Z; sh_film_grain : Z; sh_decoder_model : Z; sh_equal_interval : Z }.

(* operating points: idc(12) level(5) [tier(1) if level > 7]; decoder-model / display-delay extras are not used by this encoder *)
Fixpoint parse_ops (n : nat) (delay_present : Z) (l : list bool) : option (unit * list bool) :=
  match n with
  | O => Some (tt, l)
  | S k =>
    do (idc, l1) <- f 12 l;
    do (lvl, l2) <- f 5 l1;
    do (tier, l3) <- (if lvl >? 7 then f 1 l2 else Some (0, l2));
    do (dd, l4) <- (if delay_present =? 1 then (do (p, l') <- f 1 l3; if p =? 1 then f 4 l' else Some (0, l')) else Some (0, l3));
    parse_ops k delay_present l4
  end.

Definition parse_color_config (profile : Z) (l : list bool) : option ((Z * Z * Z * Z) * list bool) :=
  do (hbd, l1) <- f 1 l;
  do (twelve, l2) <- (if (profile =? 2) && (hbd =? 1) then f 1 l1 else Some (0, l1));
  let bitdepth := if (profile =? 2) && (hbd =? 1) then (if twelve =? 1 then 12 else 10) else (if hbd =? 1 then 10 else 8) in
  do (mono, l3) <- (if profile =? 1 then Some (0, l2) else f 1 l2);
  do (cdp, l4) <- f 1 l3;
  do (cp, l5) <- (if cdp =? 1 then f 8 l4 else Some (2, l4));
  do (tc, l6) <- (if cdp =? 1 then f 8 l5 else Some (2, l5));
  do (mc, l7) <- (if cdp =? 1 then f 8 l6 else Some (2, l6));
  if mono =? 1 then
    do (range, l8) <- f 1 l7; Some ((bitdepth, 1, 1, 1), l8)
  else if (cp =? 1) && (tc =? 13) && (mc =? 0) then
    do (sep, l8) <- f 1 l7; Some ((bitdepth, 0, 0, 0), l8)
  else
    do (range, l8) <- f 1 l7;
    do (sxy, l9) <- (if profile =? 0 then Some (3, l8)
                    else if profile =? 1 then Some (0, l8)
                    else if bitdepth =? 12 then (do (sx, la) <- f 1 l8; if sx =? 1 then (do (sy, lb) <- f 1 la; Some (2 + sy, lb)) else Some (0, la))
                    else Some (2, l8));
    let subx := sxy / 2 in let suby := sxy mod 2 in
    do (csp, l10) <- (if (subx =? 1) && (suby =? 1) then f 2 l9 else Some (0, l9));
    do (sep, l11) <- f 1 l10;
    Some ((bitdepth, 0, subx, suby), l11).

Definition all_false (l : list bool) : bool := forallb negb l.

(* trailing_bits: a one bit, then zero bits up to the end of the payload; nothing else may follow *)
Definition trailing_ok (l : list bool) : bool :=
  match l with
  | true :: r => all_false r && (Nat.ltb (length r) 8)
  | _ => false
  end.

Definition parse_seq_header (payload : list Z) : option seqhdr :=
  let l := bits_of payload in
  do (profile, l1) <- f 3 l;
  do (still, l2) <- f 1 l1;
  do (reduced, l3) <- f 1 l2;
  if reduced =? 1 then None else        (* reduced still-picture headers are not produced by this encoder *)
  do (timing, l4) <- f 1 l3;
  if timing =? 1 then None else         (* timing / decoder model info is not produced by this encoder *)
  do (delay, l5) <- f 1 l4;
  do (opcnt, l6) <- f 5 l5;
  do (u, l7) <- parse_ops (Z.to_nat opcnt + 1) delay l6;
  do (wb, l8) <- f 4 l7;
  do (hb, l9) <- f 4 l8;
  do (mw, l10) <- f (Z.to_nat wb + 1) l9;
  do (mh, l11) <- f (Z.to_nat hb + 1) l10;
  do (fid, l12) <- f 1 l11;
  do (dlen, l13) <- (if fid =? 1 then f 4 l12 else Some (0, l12));
  do (alen, l14) <- (if fid =? 1 then f 3 l13 else Some (0, l13));
  do (sb128, l15) <- f 1 l14;
  do (fi, l16) <- f 1 l15;
  do (ie, l17) <- f 1 l16;
  do (ii, l18) <- f 1 l17;
  do (masked, l19) <- f 1 l18;
  do (warped, l20) <- f 1 l19;
  do (dual, l21) <- f 1 l20;
  do (oh, l22) <- f 1 l21;
  do (jnt, l23) <- (if oh =? 1 then f 1 l22 else Some (0, l22));
  do (refmvs, l24) <- (if oh =? 1 then f 1 l23 else Some (0, l23));
  do (choose_sct, l25) <- f 1 l24;
  do (fsct, l26) <- (if choose_sct =? 1 then Some (2, l25) else f 1 l25);
  do (fimv, l27) <- (if fsct >? 0 then (do (ch, l') <- f 1 l26; if ch =? 1 then Some (2, l') else f 1 l') else Some (2, l26));
  do (ohb, l28) <- (if oh =? 1 then f 3 l27 else Some (0, l27));
  do (sr, l29) <- f 1 l28;
  do (cdef, l30) <- f 1 l29;
  do (lr, l31) <- f 1 l30;
  match parse_color_config profile l31 with
  | None => None
  | Some ((bd, mono, sx, sy), l32) =>
    do (fg, l33) <- f 1 l32;
    if trailing_ok l33 then
      Some {| sh_profile := profile; sh_still := still; sh_reduced := reduced; sh_width_bits := wb + 1; sh_height_bits := hb + 1;
              sh_max_w := mw + 1; sh_max_h := mh + 1; sh_frame_ids := fid; sh_delta_id_len := dlen + 2; sh_add_id_len := alen + 1;
              sh_sb128 := sb128; sh_filter_intra := fi; sh_intra_edge := ie; sh_interintra := ii; sh_masked := masked; sh_warped := warped;
              sh_dual := dual; sh_order_hint := oh; sh_jnt := jnt; sh_refmvs := refmvs; sh_force_sct := fsct; sh_force_imv := fimv;
              sh_oh_bits := (if oh =? 1 then ohb + 1 else 0); sh_superres := sr; sh_cdef := cdef; sh_lr := lr;
              sh_bitdepth := bd; sh_mono := mono; sh_subx := sx; sh_suby := sy; sh_film_grain := fg; sh_decoder_model := 0; sh_equal_interval := 0 |}
    else None
  end.

(* ---------- the beginning of a frame header: is this frame displayed? ---------- *)
Inductive shown := ShowExisting (idx : Z) | ShownFrame (ftype : Z) | HiddenFrame (ftype : Z).
Definition parse_frame_start (payload : list Z) : option shown :=
  let l := bits_of payload in
  do (sef, l1) <- f 1 l;
  if sef =? 1 then (do (idx, l2) <- f 3 l1; Some (ShowExisting idx))
  else
    do (ft, l2) <- f 2 l1;
    do (sf, l3) <- f 1 l2;
    Some (if sf =? 1 then ShownFrame ft else HiddenFrame ft).

(* ---------- the temporal-unit conditions of C02 ---------- *)
Definition is_frame (o : obu) : bool := (o_type o =? OBU_FRAME) || (o_type o =? OBU_FRAME_HEADER).
Definition displayed (o : obu) : bool :=
  is_frame o && match parse_frame_start (o_payload o) with Some (ShowExisting _) | Some (ShownFrame _) => true | _ => false end.
Definition key_shown (o : obu) : bool :=
  is_frame o && match parse_frame_start (o_payload o) with Some (ShownFrame 0) => true | _ => false end.
Definition frame_parses (o : obu) : bool :=
  negb (is_frame o) || match parse_frame_start (o_payload o) with Some _ => true | None => false end.
Definition known_type (o : obu) : bool :=
  (1 <=? o_type o) && (o_type o <=? 8) || (o_type o =? 15).
Definition count {A} (p : A -> bool) (l : list A) : nat := length (filter p l).
Definition seq_payloads (l : list obu) : list (list Z) := map o_payload (filter (fun o => o_type o =? OBU_SEQUENCE_HEADER) l).
Fixpoint list_Z_eqb (a b : list Z) : bool :=
  match a, b with [], [] => true | x :: r, y :: s => (x =? y) && list_Z_eqb r s | _, _ => false end.

(* one packet: parsed OBUs [l]; [refseq] = payload of the sequence header returned by the stream-header call *)
Definition tu_ok_b (refseq : list Z) (first_packet : bool) (l : list obu) : bool :=
  match l with
  | [] => false
  | o0 :: rest =>
    (o_type o0 =? OBU_TEMPORAL_DELIMITER) && (o_size o0 =? 0) &&
    Nat.eqb (count (fun o => o_type o =? OBU_TEMPORAL_DELIMITER) l) 1 &&
    forallb known_type l && forallb frame_parses l &&
    Nat.eqb (count displayed l) 1 &&
    forallb (fun p => list_Z_eqb p refseq) (seq_payloads l) &&
    forallb (fun p => match parse_seq_header p with Some _ => true | None => false end) (seq_payloads l) &&
    (* a shown key frame (and the first packet) comes with the sequence header, placed before the first frame *)
    (negb (existsb key_shown l || first_packet) ||
     match filter (fun o => (o_type o =? OBU_SEQUENCE_HEADER) || is_frame o) l with
     | s :: _ => o_type s =? OBU_SEQUENCE_HEADER
     | [] => false
     end)
  end.

Definition check_packet (refseq : list Z) (first_packet : bool) (bytes : list Z) : bool :=
  match parse_obus (S (length bytes)) bytes with
  | Some l => tu_ok_b refseq first_packet l
  | None => false
  end.
