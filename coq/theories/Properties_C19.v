(* C19 — intra refresh follows the configured period; key frames are random-access points. *)
From Coq Require Import Arith ZArith List Bool.
From SV Require Import Monitors IntraPlacement.
Import ListNotations.

(* the intra-period counter of picture decision: picture k is flagged intra iff k is a multiple of P+1 (P >= 1) *)
Theorem c19_intra_placement : forall P, 1 <= P -> forall k, flagged P k (pos_at P k) = true <-> k mod (P + 1) = 0.
Proof. exact intra_placement. Qed.

(* random access, for ANY decoding function F: if every frame of a suffix only reads reference slots written since the
   random-access point, decoding the suffix gives the same pictures whatever the decoder state was before it *)
Theorem c19_closed_gop_suffix : forall (pic payload : Type) (F : payload -> list (option pic) -> pic) fs known d1 d2,
  (forall i, In i known -> d1 i = d2 i) -> closed payload known fs -> decode pic payload F d1 fs = decode pic payload F d2 fs.
Proof. exact closed_gop_suffix. Qed.

(* in particular after a key frame, which reads nothing and refreshes every slot *)
Theorem c19_key_frame_suffix : forall (pic payload : Type) (F : payload -> list (option pic) -> pic) pl shown rest d1 d2 (all : list nat),
  closed payload all rest ->
  decode pic payload F d1 (Coded payload pl [] all shown :: rest) = decode pic payload F d2 (Coded payload pl [] all shown :: rest).
Proof. exact key_frame_suffix. Qed.

(* the monitor applied to the frame types of real streams *)
Theorem c19_placement_monitor_sound : forall n period intra,
  check_c19_placement n period intra = true <-> C19_placement_spec n period intra.
Proof. exact check_c19_placement_sound. Qed.
