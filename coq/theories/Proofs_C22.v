(* Proofs for C22 over the regenerated helper copies. *)
From Coq Require Import ZArith List Lia Bool.
From SV Require Import CInt RelDistSpec.
From SVG Require Import RelDistGen.
Import ListNotations.
Local Open Scope Z_scope.

(* bits ranges over what a C int shift admits (AV1 itself has order_hint_bits <= 8) *)
Definition rel_dist_contract (f : Z -> Z -> Z -> Z -> Z) : Prop :=
  forall en bits a b, 1 <= bits <= 31 ->
    (en <> 0 -> let r := f en bits a b in
                (r - (a - b)) mod 2 ^ bits = 0 /\ - 2 ^ (bits - 1) <= r < 2 ^ (bits - 1)) /\
    (en = 0 -> f en bits a b = 0).

(* The canonical shape: disabled -> 0, else the bit formula proved in RelDistSpec. *)
Definition canonical (en bits a b : Z) : Z := if en =? 0 then 0 else rel_dist bits a b.

Lemma canonical_ok : rel_dist_contract canonical.
Proof.
  intros en bits a b Hb. unfold canonical. split.
  - intros Hen. destruct (Z.eqb_spec en 0) as [E|_]; [contradiction|]. apply rel_dist_spec. lia.
  - intros ->. reflexivity.
Qed.

Lemma contract_ext f : (forall en bits a b, 1 <= bits <= 31 -> f en bits a b = canonical en bits a b) -> rel_dist_contract f.
Proof.
  intros E en bits a b Hb. rewrite E by exact Hb. apply canonical_ok. exact Hb.
Qed.

(* the machine form of  1 << (bits - 1)  (count masked to 5 bits, result as a 32-bit int) is 2^(bits-1) in range *)
Lemma shift_count_ok k : 0 <= k <= 30 -> wrapS 32 (Z.shiftl 1 (Z.land k 31)) = Z.shiftl 1 k.
Proof.
  intros Hk. assert (E : Z.land k 31 = k).
  { change 31 with (Z.ones 5). rewrite Z.land_ones by lia. apply Z.mod_small. change (2 ^ 5) with 32. lia. }
  rewrite E. apply wrapS_id; [lia|]. rewrite Z.shiftl_1_l.
  assert (0 < 2 ^ k) by (apply Z.pow_pos_nonneg; lia).
  assert (2 ^ k <= 2 ^ 30) by (apply Z.pow_le_mono_r; lia).
  change (2 ^ (32 - 1)) with (2 * 2 ^ 30). lia.
Qed.

(* Each regenerated copy is shown equal to the canonical shape; the tactic tolerates
   let-bindings, double negations and the order of the enable test. *)
Ltac copy_is_canonical :=
  intros en bits a b Hbits; unfold canonical, rel_dist; cbv zeta;
  rewrite ?(shift_count_ok (bits - 1)) by lia;
  destruct (Z.eqb_spec en 0) as [->|Hne]; cbn [negb Z.eqb];
  [ reflexivity
  | try (destruct (Z.eqb_spec en 0) as [E0|_]; [contradiction|]); cbn [negb]; try reflexivity; try lia ].

Lemma copies_ok : Forall rel_dist_contract rel_dist_copies.
Proof.
  unfold rel_dist_copies.
  repeat (apply Forall_cons; [apply contract_ext; unfold rel_dist_enc_common, rel_dist_enc_mvp, rel_dist_enc_pd, rel_dist_enc_mdc, rel_dist_dec_utils; copy_is_canonical|]).
  apply Forall_nil.
Qed.

Lemma copies_nonempty : length rel_dist_copies = 5%nat.
Proof. reflexivity. Qed.

(* non-vacuity: a concrete instance with wrap-around (bits 7, a = 2, b = 126: distance +4) *)
Example wrap_instance : Forall (fun f => f 1 7 2 126 = 4 /\ f 1 7 126 2 = -4 /\ f 0 7 2 126 = 0) rel_dist_copies.
Proof. repeat constructor. Qed.
