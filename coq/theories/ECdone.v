From Coq Require Import ZArith Lia List Bool.
From SV Require Import ECideal ECcdf.
Import ListNotations.
Local Open Scope Z_scope.

(* arithmetic reading of enc_done's  e = ((L + 0x3FFF) & ~0x3FFF) | 0x4000 :
   round L up to a multiple of 2^14, then force bit 14 *)
Definition done_ar (L : Z) : Z :=
  let k := (L + 16383) / 16384 in 16384 * (k + 1 - k mod 2).

Lemma done_ar_bounds L : 0 <= L -> L <= done_ar L < L + 32768 /\ done_ar L mod 16384 = 0.
Proof.
  intros HL. unfold done_ar. set (k := (L + 16383) / 16384).
  assert (H1: 16384 * k <= L + 16383 < 16384 * k + 16384).
  { unfold k. pose proof (Z.div_mod (L + 16383) 16384 ltac:(lia)).
    pose proof (Z.mod_pos_bound (L + 16383) 16384 ltac:(lia)). lia. }
  pose proof (Z.mod_pos_bound k 2 ltac:(lia)).
  split; [lia|]. rewrite Z.mul_comm. apply Z.mod_mul. lia.
Qed.

(* the transmitted value lies in the final interval, at any precision P that covers the stream *)
Lemma final_in_interval st P : wf st -> 0 <= eL st -> 0 <= P - 15 - eS st ->
  inI st P (done_ar (eL st) * 2 ^ (P - 15 - eS st)).
Proof.
  intros Hw HL Hk. unfold inI. split; [exact Hk|].
  destruct (done_ar_bounds (eL st) HL) as [Hb _]. unfold wf in Hw.
  assert (0 < 2 ^ (P - 15 - eS st)) by (apply Z.pow_pos_nonneg; lia).
  nia.
Qed.

(* eL stays non-negative *)
Lemma enc_step_L_nonneg st o : wf st -> op_ok o -> 0 <= eL st -> 0 <= eL (enc_step st o).
Proof.
  intros Hw Ho HL. pose proof (step_facts st o Hw Ho) as H. cbn zeta in H.
  unfold enc_step; cbn [eL].
  set (u := upper _ _ _) in *. set (v := lower _ _) in *.
  apply Z.mul_nonneg_nonneg; [lia|]. apply Z.pow_nonneg; lia.
Qed.

Lemma fold_wf_L ops : Forall op_ok ops -> forall st, wf st -> 0 <= eL st ->
  wf (fold_left enc_step ops st) /\ 0 <= eL (fold_left enc_step ops st).
Proof.
  induction ops as [|o ops IH]; intros Hok st Hw HL; cbn [fold_left]; [auto|].
  inversion Hok; subst. apply IH; auto using enc_step_wf, enc_step_L_nonneg.
Qed.

(* ---- the round trip for real symbol sequences ---- *)
Definition sym_op := (list Z * nat)%type.             (* inverse CDF, symbol *)
Definition sym_ok (o : sym_op) := icdf_ok (fst o) /\ (snd o < length (fst o))%nat.
Definition to_op (o : sym_op) : op := (thr_cdf (fst o), snd o).

Definition encode_all (ops : list sym_op) : est := fold_left enc_step (map to_op ops) est0.
Definition code_value (ops : list sym_op) (P : Z) : Z :=
  let st := encode_all ops in done_ar (eL st) * 2 ^ (P - 15 - eS st).

Theorem ec_roundtrip_ideal (ops : list sym_op) (P : Z) :
  Forall sym_ok ops -> 15 + eS (encode_all ops) <= P ->
  decode_all (dst0 P (code_value ops P)) (map (fun o => thr_cdf (fst o)) ops) = map snd ops.
Proof.
  intros Hok HP.
  assert (Hops: Forall op_ok (map to_op ops)).
  { apply Forall_forall. intros o Ho. apply in_map_iff in Ho. destruct Ho as [x [<- Hx]].
    eapply Forall_forall in Hok; [|exact Hx]. destruct Hok. apply icdf_ok_op_ok; auto. }
  assert (Hw0: wf est0) by (unfold wf, est0; cbn; lia).
  destruct (fold_wf_L _ Hops est0 Hw0 ltac:(cbn; lia)) as [Hwf HLf].
  assert (HS0: 0 <= eS (encode_all ops)).
  { unfold encode_all. clear -Hops Hw0.
    assert (G: forall l st, Forall op_ok l -> wf st -> eS st <= eS (fold_left enc_step l st)).
    { induction l as [|o l IH]; intros st Hl Hw; cbn [fold_left]; [lia|]. inversion Hl; subst.
      etransitivity; [|apply IH; auto using enc_step_wf].
      pose proof (step_facts st o Hw H1) as F. cbn zeta in F. unfold enc_step; cbn [eS]. lia. }
    specialize (G _ est0 Hops Hw0). cbn in G. exact G. }
  pose proof (ideal_roundtrip (map to_op ops) Hops est0 (dst0 P (code_value ops P)) P (code_value ops P) Hw0) as RT.
  rewrite !map_map in RT. cbn [to_op fst snd] in RT. apply RT.
  - apply rel0. lia.
  - unfold code_value. apply final_in_interval; auto. fold (encode_all ops). lia.
Qed.
Print Assumptions ec_roundtrip_ideal.

