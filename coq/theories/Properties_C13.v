(* C13 — the library's default configuration is complete and well defined.
   SVG.DefaultsGen.init_param is regenerated from svt_svt_enc_init_parameter on every run: one term per
   configuration cell; a cell the function does not assign is the caller's prior memory. Statements only. *)
From Coq Require Import ZArith Bool List.
From SV Require Import Proofs_C13.
From SVG Require Import VerifyGen DefaultsGen.
Import ListNotations.
Local Open Scope Z_scope.

(* whatever the caller's configuration memory held before handle creation, the returned defaults are the same *)
Theorem defaults_independent : forall prior1 prior2 : config, init_param prior1 = init_param prior2.
Proof. exact init_param_independent. Qed.

Theorem every_cell_assigned : unassigned_cells = [].
Proof. exact no_unassigned_cells. Qed.

(* with any picture size of the accepted range filled in (even, 64..4096 x 64..2160), the defaults pass validation
   (regenerated model of set_parameter, all sizes at once) and are inside the modelled scope *)
Theorem defaults_accepted : forall w h, 64 <= w <= 4096 -> 64 <= h <= 2160 -> Z.rem w 2 = 0 -> Z.rem h 2 = 0 ->
  sp_rejects (with_size defaults w h) defaults = false /\ sp_in_scope (with_size defaults w h) defaults = true.
Proof. exact defaults_accepted_all. Qed.

(* the same by evaluation at a few sizes (kept as a regression example) *)
Theorem defaults_accepted_examples_hold :
  forallb (fun wh => negb (sp_rejects (with_size defaults (fst wh) (snd wh)) defaults) && sp_in_scope (with_size defaults (fst wh) (snd wh)) defaults)
          [(64, 64); (66, 64); (640, 480); (1280, 720); (1920, 1080); (3840, 2160); (4096, 2160); (4096, 64); (64, 2160)] = true.
Proof. exact defaults_accepted_examples. Qed.
