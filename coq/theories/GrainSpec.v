(* C08 - the film grain random number process of the AV1 specification (7.18.3.2): a 16-bit LFSR with taps 0, 1, 3, 12. *)
From Coq Require Import ZArith List Bool Lia.
From SV Require Import CInt.
From SVG Require Import GrainGen.
Import ListNotations.
Local Open Scope Z_scope.
Ltac Zify.zify_post_hook ::= Z.div_mod_to_equations.

Definition spec_rand (r bits : Z) : Z * Z :=
  let bit := xorb (xorb (xorb (Z.testbit r 0) (Z.testbit r 1)) (Z.testbit r 3)) (Z.testbit r 12) in
  let r' := r / 2 + (if bit then 32768 else 0) in
  ((r' / 2 ^ (16 - bits)) mod 2 ^ bits, r').

Fixpoint zlist (k : nat) (start : Z) : list Z := match k with O => [] | S k' => start :: zlist k' (start + 1) end.
Definition Zupto (n : Z) : list Z := zlist (Z.to_nat n) 0.
Lemma zlist_in k : forall s x, s <= x < s + Z.of_nat k -> In x (zlist k s).
Proof.
  induction k as [|k IH]; intros s x H; [lia|]. cbn [zlist]. destruct (Z.eq_dec x s) as [->|Hn]; [left; reflexivity|].
  right. apply IH. lia.
Qed.
Lemma Zupto_in n x : 0 <= x < n -> In x (Zupto n).
Proof. intros H. unfold Zupto. apply zlist_in. lia. Qed.

(* the register update does not depend on the number of bits asked for: one sweep over the 65536 register values *)
Lemma state_sweep_ok : forallb (fun r => snd (grain_rand r 1) =? snd (spec_rand r 1)) (Zupto 65536) = true.
Proof. vm_compute. reflexivity. Qed.

Lemma grain_state r bits : snd (grain_rand r bits) = snd (grain_rand r 1).
Proof. reflexivity. Qed.
Lemma grain_value r bits : fst (grain_rand r bits) = Z.land (Z.shiftr (snd (grain_rand r bits)) (Z.land (16 - bits) 31)) (wrapS 32 (Z.shiftl 1 (Z.land bits 31)) - 1).
Proof. reflexivity. Qed.

Lemma extract_bits x bits : 0 <= x -> 1 <= bits <= 16 ->
  Z.land (Z.shiftr x (Z.land (16 - bits) 31)) (wrapS 32 (Z.shiftl 1 (Z.land bits 31)) - 1) = (x / 2 ^ (16 - bits)) mod 2 ^ bits.
Proof.
  intros Hx Hb.
  assert (Hc : bits = 1 \/ bits = 2 \/ bits = 3 \/ bits = 4 \/ bits = 5 \/ bits = 6 \/ bits = 7 \/ bits = 8 \/ bits = 9 \/ bits = 10 \/ bits = 11 \/ bits = 12 \/ bits = 13 \/ bits = 14 \/ bits = 15 \/ bits = 16) by lia.
  repeat (destruct Hc as [-> | Hc]); try subst bits;
    match goal with |- Z.land (Z.shiftr x ?a) (?m - 1) = (x / 2 ^ ?c) mod 2 ^ ?b =>
      let a' := eval vm_compute in a in let m' := eval vm_compute in m in change a with a'; change m with m'; change c with a';
      change (m' - 1) with (Z.ones b); rewrite Z.land_ones, Z.shiftr_div_pow2 by lia; reflexivity end.
Qed.

Theorem grain_rand_matches_spec r bits : 0 <= r < 65536 -> 1 <= bits <= 16 -> grain_rand r bits = spec_rand r bits.
Proof.
  intros Hr Hb. pose proof state_sweep_ok as H. rewrite forallb_forall in H. specialize (H r (Zupto_in 65536 r ltac:(lia))). apply Z.eqb_eq in H.
  assert (Hs : snd (grain_rand r bits) = snd (spec_rand r bits)) by (rewrite grain_state; exact H).
  assert (Hv : fst (grain_rand r bits) = fst (spec_rand r bits)).
  { rewrite grain_value, Hs. unfold spec_rand. cbn [fst snd]. apply extract_bits; [|exact Hb]. destruct (xorb _ _); lia. }
  destruct (grain_rand r bits), (spec_rand r bits). cbn [fst snd] in *. congruence.
Qed.

(* the register stays a 16-bit value and the sequence is periodic with the maximal period only if it never reaches 0 from a non-zero seed *)
Lemma spec_rand_state_range r bits : 0 <= r < 65536 -> 0 <= snd (spec_rand r bits) < 65536.
Proof. intros H. unfold spec_rand. cbn [snd]. destruct (xorb _ _); lia. Qed.
