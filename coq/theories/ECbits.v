From Coq Require Import ZArith Lia List Bool.
From SV Require Import ECideal ECcdf ECdone.
Local Open Scope Z_scope.

Lemma lor_one k : 0 <= k -> Z.lor k 1 = k + 1 - k mod 2.
Proof.
  intros Hk. pose proof (Z.mod_pos_bound k 2 ltac:(lia)) as Hm.
  assert (Hl: forall a, 0 <= a -> a mod 2 = 0 -> Z.lor a 1 = a + 1).
  { intros a Ha E.
    assert (Hd: Z.land a 1 = 0) by (change 1 with (Z.ones 1); rewrite Z.land_ones by lia; change (2^1) with 2; exact E).
    rewrite <- (Z.lxor_lor a 1 Hd). symmetry. apply Z.add_nocarry_lxor. exact Hd. }
  destruct (Z.eq_dec (k mod 2) 0) as [E|E].
  - rewrite E. rewrite Hl; auto. lia.
  - assert (E1: k mod 2 = 1) by lia. rewrite E1.
    assert (Hk1: (k - 1) mod 2 = 0).
    { pose proof (Z.div_mod k 2 ltac:(lia)). replace (k - 1) with (2 * (k / 2)) by lia.
      rewrite Z.mul_comm. apply Z.mod_mul. lia. }
    assert (Hpos: 0 <= k - 1).
    { pose proof (Z.div_mod k 2 ltac:(lia)). pose proof (Z.div_pos k 2 Hk ltac:(lia)). lia. }
    replace k with ((k - 1) + 1) at 1 by lia.
    rewrite <- (Hl (k - 1) Hpos Hk1). rewrite <- Z.lor_assoc. rewrite Z.lor_diag. rewrite (Hl (k - 1) Hpos Hk1). lia.
Qed.

Theorem done_e_is_done_ar L : 0 <= L -> done_e L = done_ar L.
Proof.
  intros HL. unfold done_e, done_ar.
  change 16383 with (Z.ones 14). rewrite <- Z.ldiff_land. rewrite Z.ldiff_ones_r by lia.
  rewrite Z.shiftr_div_pow2 by lia. change (2 ^ 14) with 16384.
  set (k := (L + Z.ones 14) / 16384).
  assert (Hk: 0 <= k) by (apply Z.div_pos; [change (Z.ones 14) with 16383; lia | lia]).
  change 16384 with (Z.shiftl 1 14) at 1. rewrite <- Z.shiftl_lor. rewrite lor_one by lia.
  rewrite Z.shiftl_mul_pow2 by lia. change (2 ^ 14) with 16384. lia.
Qed.
Print Assumptions done_e_is_done_ar.

