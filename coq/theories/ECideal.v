From Coq Require Import ZArith Lia List Bool.
Import ListNotations.
Local Open Scope Z_scope.

(* Generic ideal range coder over a threshold function.
   thr R : list of thresholds t_0 = R > t_1 > ... > t_n = 0; symbol s <-> [t_{s+1}, t_s). *)

Fixpoint ilog_pos (p : positive) : Z :=
  match p with xH => 1 | xO q | xI q => 1 + ilog_pos q end.
Definition ilog (z : Z) : Z := match z with Zpos p => ilog_pos p | _ => 0 end.

Lemma pow2_succ n : 0 <= n -> 2 ^ (n + 1) = 2 * 2 ^ n.
Proof. intros. rewrite Z.pow_add_r by lia. change (2^1) with 2. lia. Qed.

Lemma ilog_pos_bounds p : 2 ^ (ilog_pos p - 1) <= Zpos p < 2 ^ (ilog_pos p) /\ 1 <= ilog_pos p.
Proof.
  induction p as [q IH|q IH|]; cbn [ilog_pos].
  - destruct IH as [[H1 H2] H3]. set (m := ilog_pos q) in *.
    assert (E: 2^m = 2 * 2^(m-1)) by (rewrite <- pow2_succ by lia; f_equal; lia).
    replace (1 + m - 1) with m by lia. replace (1 + m) with (m + 1) by lia.
    rewrite pow2_succ by lia. pose proof (Pos2Z.inj_xI q). lia.
  - destruct IH as [[H1 H2] H3]. set (m := ilog_pos q) in *.
    assert (E: 2^m = 2 * 2^(m-1)) by (rewrite <- pow2_succ by lia; f_equal; lia).
    replace (1 + m - 1) with m by lia. replace (1 + m) with (m + 1) by lia.
    rewrite pow2_succ by lia. pose proof (Pos2Z.inj_xO q). lia.
  - cbn. lia.
Qed.

Definition norm_shift (r : Z) : Z := 16 - ilog r.

Lemma norm_shift_spec r : 1 <= r < 65536 ->
  0 <= norm_shift r /\ 32768 <= r * 2 ^ norm_shift r < 65536.
Proof.
  intros Hr. unfold norm_shift. destruct r as [|p|p]; try lia. cbn [ilog].
  destruct (ilog_pos_bounds p) as [[H1 H2] H3].
  assert (Hle: ilog_pos p <= 16).
  { destruct (Z_le_gt_dec (ilog_pos p) 16); auto.
    assert (2^16 <= 2^(ilog_pos p - 1)) by (apply Z.pow_le_mono_r; lia).
    change (2^16) with 65536 in *. lia. }
  split; [lia|].
  set (n := ilog_pos p) in *.
  assert (E: 2^16 = 2^n * 2^(16-n)) by (rewrite <- Z.pow_add_r by lia; f_equal; lia).
  assert (E2: 2^15 = 2^(n-1) * 2^(16-n)) by (rewrite <- Z.pow_add_r by lia; f_equal; lia).
  change (2^16) with 65536 in E. change (2^15) with 32768 in E2.
  assert (0 < 2^(16-n)) by (apply Z.pow_pos_nonneg; lia).
  nia.
Qed.

(* ---------- generic ideal coder ---------- *)
Definition op := ((Z -> list Z) * nat)%type.   (* threshold function of R, symbol index *)

Fixpoint dec_from (R : Z) (ts : list Z) : Prop :=   (* R > t1 > t2 > ... and all >= 0, last = 0 *)
  match ts with
  | [] => False
  | [t] => t = 0 /\ t < R
  | t :: rest => 0 <= t < R /\ dec_from t rest
  end.

Definition upper (R : Z) (ts : list Z) (s : nat) : Z :=
  match s with O => R | S s' => nth s' ts 0 end.
Definition lower (ts : list Z) (s : nat) : Z := nth s ts 0.

Record est := { eL : Z; eR : Z; eS : Z }.
Record dst := { dD : Z; dR : Z; dK : Z }.

Definition enc_step (st : est) (o : op) : est :=
  let ts := fst o (eR st) in
  let u := upper (eR st) ts (snd o) in
  let v := lower ts (snd o) in
  let r' := u - v in
  let d := norm_shift r' in
  {| eL := (eL st + eR st - u) * 2 ^ d; eR := r' * 2 ^ d; eS := eS st + d |}.

Fixpoint find (c : Z) (ts : list Z) (i : nat) : nat :=
  match ts with
  | [] => i
  | t :: rest => if c <? t then find c rest (S i) else i
  end.

Definition dec_step (st : dst) (f : Z -> list Z) : nat * dst :=
  let ts := f (dR st) in
  let c := dD st / 2 ^ dK st in
  let s := find c ts 0 in
  let u := upper (dR st) ts s in
  let v := lower ts s in
  let r' := u - v in
  let d := norm_shift r' in
  (s, {| dD := dD st - v * 2 ^ dK st; dR := r' * 2 ^ d; dK := dK st - d |}).

Definition op_ok (o : op) : Prop :=
  forall R, 32768 <= R < 65536 -> dec_from R (fst o R) /\ (snd o < length (fst o R))%nat.

(* facts about strictly decreasing threshold lists *)
Lemma dec_from_nonempty R ts : dec_from R ts -> ts <> [].
Proof. destruct ts; cbn; auto; discriminate. Qed.

Lemma dec_from_bounds R ts s : dec_from R ts -> (s < length ts)%nat ->
  0 <= lower ts s < upper R ts s /\ upper R ts s <= R.
Proof.
  revert R s. induction ts as [|t rest IH]; intros R s H Hs; [cbn in Hs; lia|].
  destruct rest as [|t2 rest'].
  - cbn in H. destruct s; [|cbn in Hs; lia]. cbn. lia.
  - destruct H as [Ht Hrest]. destruct s as [|s'].
    + cbn. lia.
    + cbn in Hs. specialize (IH t s' Hrest ltac:(cbn; lia)).
      unfold lower, upper in *. cbn [nth]. destruct s' as [|s'']; cbn [nth] in *; lia.
Qed.

Lemma find_correct R ts c s i : dec_from R ts -> (s < length ts)%nat ->
  lower ts s <= c < upper R ts s -> c < R -> find c ts i = (i + s)%nat.
Proof.
  revert R s i. induction ts as [|t rest IH]; intros R s i H Hs Hc HcR; [cbn in Hs; lia|].
  destruct rest as [|t2 rest'].
  - cbn in H. destruct s; [|cbn in Hs; lia]. cbn in *. 
    destruct (Z.ltb_spec c t); [lia|]. lia.
  - destruct H as [Ht Hrest]. destruct s as [|s'].
    + cbn in Hc. cbn [find]. destruct (Z.ltb_spec c t); [lia|]. lia.
    + change (find c (t :: t2 :: rest') i) with (if c <? t then find c (t2 :: rest') (S i) else i).
      assert (Hb := dec_from_bounds t (t2 :: rest') s' Hrest ltac:(cbn in Hs |- *; lia)).
      assert (Hlt: c < t).
      { unfold upper, lower in Hc. cbn [nth] in Hc. 
        unfold upper in Hb. destruct s'; cbn [nth] in *; lia. }
      destruct (Z.ltb_spec c t); [|lia].
      rewrite (IH t s' (S i) Hrest); [lia| cbn in Hs |- *; lia | | lia].
      unfold upper, lower in *. cbn [nth] in Hc. destruct s'; cbn [nth] in *; lia.
Qed.

Definition wf (st : est) := 32768 <= eR st < 65536.
Definition inI (st : est) (P V : Z) :=
  let k := P - 15 - eS st in 0 <= k /\ eL st * 2 ^ k <= V < (eL st + eR st) * 2 ^ k.
Definition rel (st : est) (ds : dst) (P V : Z) :=
  dR ds = eR st /\ dK ds = P - 15 - eS st /\ dD ds = (eL st + eR st) * 2 ^ (dK ds) - 1 - V.

Lemma step_facts st o : wf st -> op_ok o ->
  let ts := fst o (eR st) in
  let u := upper (eR st) ts (snd o) in let v := lower ts (snd o) in
  0 <= v < u /\ u <= eR st /\ 0 <= norm_shift (u - v) /\ 32768 <= (u - v) * 2 ^ norm_shift (u - v) < 65536.
Proof.
  intros Hw Ho. destruct (Ho (eR st) Hw) as [Hd Hs]. cbn zeta.
  pose proof (dec_from_bounds _ _ _ Hd Hs) as [Hb1 Hb2].
  unfold wf in Hw.
  set (u := upper (eR st) (fst o (eR st)) (snd o)) in *.
  set (v := lower (fst o (eR st)) (snd o)) in *.
  assert (Hr: 1 <= u - v < 65536) by lia.
  pose proof (norm_shift_spec (u - v) Hr). lia.
Qed.

Lemma enc_step_wf st o : wf st -> op_ok o -> wf (enc_step st o).
Proof. intros Hw Ho. pose proof (step_facts st o Hw Ho) as H. cbn zeta in H. unfold wf, enc_step; cbn [eR]. lia. Qed.

Lemma pow_split k d : 0 <= d -> 0 <= k - d -> 2 ^ k = 2 ^ d * 2 ^ (k - d).
Proof. intros. rewrite <- Z.pow_add_r by lia. f_equal. lia. Qed.

Lemma nest st o P V : wf st -> op_ok o -> inI (enc_step st o) P V -> inI st P V.
Proof.
  intros Hw Ho. pose proof (step_facts st o Hw Ho) as H. cbn zeta in H.
  unfold inI, enc_step; cbn [eL eR eS].
  set (u := upper _ _ _) in *. set (v := lower _ _) in *. set (d := norm_shift _) in *.
  intros [Hk HV].
  set (k := P - 15 - eS st). replace (P - 15 - (eS st + d)) with (k - d) in * by lia.
  assert (Hk0: 0 <= k) by lia. split; [exact Hk0|].
  rewrite (pow_split k d) by lia.
  assert (0 < 2 ^ d) by (apply Z.pow_pos_nonneg; lia).
  assert (0 < 2 ^ (k - d)) by (apply Z.pow_pos_nonneg; lia).
  set (a := 2 ^ d) in *. set (b := 2 ^ (k - d)) in *.
  nia.
Qed.

Lemma dec_step_correct st ds o P V : wf st -> op_ok o -> rel st ds P V ->
  inI (enc_step st o) P V ->
  fst (dec_step ds (fst o)) = snd o /\ rel (enc_step st o) (snd (dec_step ds (fst o))) P V.
Proof.
  intros Hw Ho [HR [HK HD]] Hin.
  pose proof (step_facts st o Hw Ho) as H. cbn zeta in H.
  destruct (Ho (eR st) Hw) as [Hd Hs].
  unfold inI, enc_step in Hin; cbn [eL eR eS] in Hin.
  unfold dec_step. rewrite HR. cbn [fst snd].
  set (ts := fst o (eR st)) in *.
  set (u := upper (eR st) ts (snd o)) in *. set (v := lower ts (snd o)) in *.
  set (d := norm_shift (u - v)) in *.
  destruct Hin as [Hk HV].
  set (k := dK ds) in *. replace (P - 15 - (eS st + d)) with (k - d) in * by lia.
  assert (Hk0: 0 <= k) by lia.
  assert (Hpk: 0 < 2 ^ k) by (apply Z.pow_pos_nonneg; lia).
  assert (Hsplit := pow_split k d ltac:(lia) ltac:(lia)).
  assert (Hpd: 0 < 2 ^ d) by (apply Z.pow_pos_nonneg; lia).
  assert (Hpkd: 0 < 2 ^ (k - d)) by (apply Z.pow_pos_nonneg; lia).
  (* bounds on D *)
  assert (HDlo: v * 2 ^ k <= dD ds) by (rewrite HD, Hsplit; nia).
  assert (HDhi: dD ds < u * 2 ^ k) by (rewrite HD, Hsplit; nia).
  assert (Hc: v <= dD ds / 2 ^ k < u).
  { split; [apply Z.div_le_lower_bound; lia | apply Z.div_lt_upper_bound; lia]. }
  assert (Hfind: find (dD ds / 2 ^ k) ts 0 = snd o).
  { rewrite (find_correct (eR st) ts _ (snd o) 0%nat Hd Hs); [reflexivity| fold u v; lia | lia]. }
  rewrite Hfind. fold u v d.
  split; [reflexivity|].
  unfold rel, enc_step; cbn [dD dR dK eL eR eS]. fold ts u v d.
  split; [reflexivity|]. split; [lia|].
  rewrite HD, Hsplit. set (a := 2 ^ d) in *. set (b := 2 ^ (k - d)) in *. nia.
Qed.

Fixpoint decode_all (ds : dst) (fs : list (Z -> list Z)) : list nat :=
  match fs with
  | [] => []
  | f :: rest => let r := dec_step ds f in fst r :: decode_all (snd r) rest
  end.

Lemma nest_all ops : Forall op_ok ops -> forall st P V, wf st ->
  inI (fold_left enc_step ops st) P V -> inI st P V.
Proof.
  induction ops as [|o ops IH]; intros Hok st P V Hw Hin; cbn [fold_left] in *; [exact Hin|].
  inversion Hok as [|? ? Ho Hoks]; subst.
  apply (nest st o); auto. apply IH; auto. apply enc_step_wf; auto.
Qed.

Theorem ideal_roundtrip ops : Forall op_ok ops -> forall st ds P V,
  wf st -> rel st ds P V -> inI (fold_left enc_step ops st) P V ->
  decode_all ds (map fst ops) = map snd ops.
Proof.
  induction ops as [|o ops IH]; intros Hok st ds P V Hw Hrel Hin; cbn [fold_left map decode_all] in *.
  - reflexivity.
  - inversion Hok as [|? ? Ho Hoks]; subst.
    assert (Hin1: inI (enc_step st o) P V).
    { apply (nest_all ops Hoks); auto. apply enc_step_wf; auto. }
    destruct (dec_step_correct st ds o P V Hw Ho Hrel Hin1) as [Hs Hrel'].
    cbn zeta. rewrite Hs. f_equal.
    apply (IH Hoks (enc_step st o) _ P V); auto. apply enc_step_wf; auto.
Qed.
Print Assumptions ideal_roundtrip.

(* initial states and termination value *)
Definition est0 := {| eL := 0; eR := 32768; eS := 0 |}.
Definition dst0 (P V : Z) := {| dD := 2 ^ P - 1 - V; dR := 32768; dK := P - 15 |}.
Lemma rel0 P V : 15 <= P -> rel est0 (dst0 P V) P V.
Proof.
  intros. unfold rel, est0, dst0; cbn [dD dR dK eL eR eS]. split; [reflexivity|]. split; [lia|].
  replace (2 ^ P) with (2 ^ 15 * 2 ^ (P - 15)) by (rewrite <- Z.pow_add_r by lia; f_equal; lia).
  change (2^15) with 32768. lia.
Qed.

(* the value chosen by enc_done, at the encoder's scale *)
Definition done_e (L : Z) : Z := Z.lor (Z.land (L + 16383) (Z.lnot 16383)) 16384.

