From Coq Require Import ZArith Lia List Bool.
Import ListNotations.
Local Open Scope Z_scope.

(* C18: the decision tree after rate control in rate_control_kernel (EbRateControlProcess.c ~7320-7480),
   with everything rate control computes left universally quantified. *)
Definition qidx_table : list Z :=
  [0;4;8;12;16;20;24;28;32;36;40;44;48;52;56;60;64;68;72;76;80;84;88;92;96;100;104;108;112;116;120;124;
   128;132;136;140;144;148;152;156;160;164;168;172;176;180;184;188;192;196;200;204;208;212;216;220;224;228;232;236;240;244;249;255].
Definition qidx (qp : Z) : Z := nth (Z.to_nat qp) qidx_table 255.
Definition clip3 (lo hi x : Z) : Z := if x <? lo then lo else if hi <? x then hi else x.

Inductive branch :=
| CqpFixed                    (* rc 0, no scaling, no offsets: base_q_idx = qidx[picture_qp] *)
| CqpOffsets (off : Z)        (* rc 0, use_fixed_qindex_offsets: qidx[qp] + offset, clipped *)
| CqpScaling (new_qindex : Z) (* rc 0, qp scaling: whatever cqp_qindex_calc* / rc_pick_q_and_bounds / find_fp_qindex return *)
| CqpOnTheFly (pic_qp : Z)    (* qp file *)
| Vbr2Pass (new_qindex : Z)   (* rc 1 with stats or look-ahead: rc_pick_q_and_bounds *)
| VbrCvbr (rc_qp : Z).        (* rc 1 / rc 2 one pass: frame_level_rc_input_picture_* result *)

Definition base_q_idx (minqp maxqp qp : Z) (b : branch) : Z :=
  match b with
  | CqpFixed => qidx qp
  | CqpOffsets off => clip3 (qidx minqp) (qidx maxqp) (qidx qp + off)
  | CqpScaling nq => clip3 (qidx minqp) (qidx maxqp) nq
  | CqpOnTheFly pq => qidx (clip3 minqp maxqp pq)
  | Vbr2Pass nq => clip3 (qidx minqp) (qidx maxqp) nq
  | VbrCvbr rq => qidx (clip3 minqp maxqp rq)
  end.

Lemma clip3_range lo hi x : lo <= hi -> lo <= clip3 lo hi x <= hi.
Proof. intros. unfold clip3. destruct (Z.ltb_spec x lo); [lia|]. destruct (Z.ltb_spec hi x); lia. Qed.

(* the table is monotone on 0..63 (finite check, lifted) *)
Definition idx := map Z.of_nat (seq 0 64).
Lemma qidx_mono_b : forallb (fun a => forallb (fun b => if a <=? b then qidx a <=? qidx b else true) idx) idx = true.
Proof. vm_compute. reflexivity. Qed.
Lemma in_idx a : 0 <= a <= 63 -> In a idx.
Proof. intros H. unfold idx. apply in_map_iff. exists (Z.to_nat a). split; [lia|]. apply in_seq. lia. Qed.
Lemma qidx_mono a b : 0 <= a -> a <= b -> b <= 63 -> qidx a <= qidx b.
Proof.
  intros Ha Hab Hb. pose proof qidx_mono_b as H. rewrite forallb_forall in H.
  specialize (H a (in_idx a ltac:(lia))). rewrite forallb_forall in H.
  specialize (H b (in_idx b ltac:(lia))). destruct (Z.leb_spec a b); [|lia]. apply Z.leb_le. exact H.
Qed.

Definition rc_branch (b : branch) : bool := match b with CqpFixed => false | _ => true end.

(* whenever rate control, scaling, offsets or the qp file choose the quantizer, it stays inside the configured bounds *)
Theorem qidx_in_bounds minqp maxqp qp b : 0 <= minqp -> minqp <= maxqp -> maxqp <= 63 ->
  rc_branch b = true -> qidx minqp <= base_q_idx minqp maxqp qp b <= qidx maxqp.
Proof.
  intros H0 H1 H2 Hb. pose proof (qidx_mono minqp maxqp H0 H1 H2) as Hm.
  destruct b; cbn in Hb |- *; try discriminate; try (apply clip3_range; exact Hm).
  - pose proof (clip3_range minqp maxqp pic_qp H1). split; apply qidx_mono; lia.
  - pose proof (clip3_range minqp maxqp rc_qp H1). split; apply qidx_mono; lia.
Qed.

(* fixed-QP coding without scaling uses exactly the configured quantizer index *)
Theorem cqp_exact minqp maxqp qp : base_q_idx minqp maxqp qp CqpFixed = qidx qp.
Proof. reflexivity. Qed.

(* with min = max every chosen quantizer is forced to that value: the scenario the correspondence uses *)
Corollary min_eq_max_forces q qp b : 0 <= q <= 63 -> rc_branch b = true -> base_q_idx q q qp b = qidx q.
Proof. intros Hq Hb. pose proof (qidx_in_bounds q q qp b ltac:(lia) ltac:(lia) ltac:(lia) Hb). lia. Qed.
Print Assumptions qidx_in_bounds.
