(* C21: the input copy (copy_frame_buffer: `stride` bytes per row into the internal picture) followed by the padding
   regeneration (pad to a multiple of 8, then replicate edges into the borders), modelled as IN-PLACE range writes on
   lists - horizontally on a row of samples, vertically on a list of rows (same polymorphic functions).
   Theorem: every element of the result is determined by the visible samples alone, whatever the caller had in the
   stride padding and whatever the internal buffer held before. *)
From Coq Require Import Arith Lia List.
Import ListNotations.

Section Ranges.
Variable A : Type.
Variable d : A.

(* in-place writes *)
Definition overwrite (l src : list A) (a : nat) : list A := firstn a l ++ src ++ skipn (a + length src) l.
Definition fill (l : list A) (a n : nat) (v : A) : list A := firstn a l ++ repeat v n ++ skipn (a + n) l.

(* L = leading border, W = visible extent, Wal = extent padded to the block size, R = trailing border *)
Definition regen (l : list A) (L W Wal R : nat) : list A :=
  let r1 := fill l (L + W) (Wal - W) (nth (L + W - 1) l d) in          (* replicate the last visible element up to the aligned extent *)
  let r2 := fill r1 0 L (nth L r1 d) in                                  (* leading border := first element *)
  fill r2 (L + Wal) R (nth (L + Wal - 1) r2 d).                          (* trailing border := last element of the aligned extent *)

Definition canon (vis : list A) (L W Wal R : nat) : list A :=
  repeat (nth 0 vis d) L ++ vis ++ repeat (nth (W - 1) vis d) (Wal - W) ++ repeat (nth (W - 1) vis d) R.

Lemma fill_length l a n v : a + n <= length l -> length (fill l a n v) = length l.
Proof. intros H. unfold fill. rewrite !app_length, firstn_length, repeat_length, skipn_length. lia. Qed.

Lemma overwrite_length l src a : a + length src <= length l -> length (overwrite l src a) = length l.
Proof. intros H. unfold overwrite. rewrite !app_length, firstn_length, skipn_length. lia. Qed.

Lemma nth_app_at (l1 l2 : list A) i : nth (length l1 + i) (l1 ++ l2) d = nth i l2 d.
Proof. rewrite app_nth2 by lia. f_equal. lia. Qed.

Lemma firstn_app_exact (a b : list A) n : n = length a -> firstn n (a ++ b) = a.
Proof. intros ->. rewrite firstn_app, firstn_all, Nat.sub_diag. cbn. apply app_nil_r. Qed.
Lemma skipn_app_exact (a b : list A) n : n = length a -> skipn n (a ++ b) = b.
Proof. intros ->. rewrite skipn_app, skipn_all, Nat.sub_diag. reflexivity. Qed.

Lemma nth_repeat_lt (v : A) : forall n k, k < n -> nth k (repeat v n) d = v.
Proof. induction n as [|n IH]; intros k Hk; [lia|]. destruct k; cbn; [reflexivity|apply IH; lia]. Qed.

Lemma skipn_add (l : list A) : forall a b, skipn a (skipn b l) = skipn (b + a) l.
Proof.
  intros a b. revert l. induction b as [|b IH]; intros l; [reflexivity|].
  destruct l as [|x r]; [rewrite !skipn_nil; reflexivity|]. cbn [skipn plus]. apply IH.
Qed.

(* filling the middle piece of a three-piece list *)
Lemma fill_mid (a b c : list A) pos n v : pos = length a -> n = length b -> fill (a ++ b ++ c) pos n v = a ++ repeat v n ++ c.
Proof.
  intros -> ->. unfold fill. rewrite firstn_app_exact by reflexivity. f_equal. f_equal.
  rewrite app_assoc. apply skipn_app_exact. rewrite app_length. reflexivity.
Qed.

Theorem regen_canon l src L W Wal R :
  length l = L + Wal + R -> W <= length src -> length src <= Wal + R -> 1 <= W -> W <= Wal ->
  regen (overwrite l src L) L W Wal R = canon (firstn W src) L W Wal R.
Proof.
  intros Hl HWs Hs HW1 HWal.
  set (vis := firstn W src).
  assert (Hvis : length vis = W) by (unfold vis; rewrite firstn_length; lia).
  (* the row after the copy, cut at the offsets the regeneration uses:
     pre (L) ++ vis (W) ++ mid (Wal - W) ++ trail (R) *)
  set (row0 := overwrite l src L).
  assert (Hrow0 : length row0 = L + Wal + R) by (unfold row0; rewrite overwrite_length; lia).
  set (pre := firstn L row0).
  set (mid := firstn (Wal - W) (skipn (L + W) row0)).
  set (trail := skipn (L + Wal) row0).
  assert (Hpre : length pre = L) by (unfold pre; rewrite firstn_length; lia).
  assert (Hmid : length mid = Wal - W) by (unfold mid; rewrite firstn_length, skipn_length; lia).
  assert (Htrail : length trail = R) by (unfold trail; rewrite skipn_length; lia).
  assert (Evis : firstn W (skipn L row0) = vis).
  { unfold row0, overwrite. rewrite skipn_app_exact by (rewrite firstn_length; lia).
    rewrite firstn_app. replace (W - length src) with 0 by lia. cbn [firstn]. rewrite app_nil_r. reflexivity. }
  assert (E0 : row0 = pre ++ vis ++ mid ++ trail).
  { unfold pre, mid, trail. rewrite <- Evis.
    rewrite <- (firstn_skipn L row0) at 1. f_equal.
    rewrite <- (firstn_skipn W (skipn L row0)) at 1. f_equal.
    rewrite (skipn_add row0 W L). rewrite <- (firstn_skipn (Wal - W) (skipn (L + W) row0)) at 1. f_equal.
    rewrite (skipn_add row0 (Wal - W) (L + W)). f_equal. lia. }
  unfold regen. fold row0. rewrite E0.
  set (lastv := nth (W - 1) vis d).
  assert (N1 : nth (L + W - 1) (pre ++ vis ++ mid ++ trail) d = lastv).
  { replace (L + W - 1) with (length pre + (W - 1)) by lia. rewrite nth_app_at. rewrite app_nth1 by lia. reflexivity. }
  rewrite N1.
  assert (F1 : fill (pre ++ vis ++ mid ++ trail) (L + W) (Wal - W) lastv = pre ++ vis ++ repeat lastv (Wal - W) ++ trail).
  { replace (pre ++ vis ++ mid ++ trail) with ((pre ++ vis) ++ mid ++ trail) by (rewrite <- app_assoc; reflexivity).
    rewrite fill_mid by (rewrite ?app_length; lia). rewrite <- app_assoc. reflexivity. }
  rewrite F1.
  set (r1 := pre ++ vis ++ repeat lastv (Wal - W) ++ trail).
  assert (N2 : nth L r1 d = nth 0 vis d).
  { unfold r1. replace L with (length pre + 0) by lia. rewrite nth_app_at. rewrite app_nth1 by lia. reflexivity. }
  rewrite N2.
  assert (F2 : fill r1 0 L (nth 0 vis d) = repeat (nth 0 vis d) L ++ vis ++ repeat lastv (Wal - W) ++ trail).
  { unfold r1. change (pre ++ vis ++ repeat lastv (Wal - W) ++ trail) with ([] ++ pre ++ (vis ++ repeat lastv (Wal - W) ++ trail)).
    rewrite fill_mid by (cbn; lia). reflexivity. }
  rewrite F2.
  set (r2 := repeat (nth 0 vis d) L ++ vis ++ repeat lastv (Wal - W) ++ trail).
  assert (N3 : nth (L + Wal - 1) r2 d = lastv).
  { unfold r2. replace (L + Wal - 1) with (length (repeat (nth 0 vis d) L) + (Wal - 1)) by (rewrite repeat_length; lia).
    rewrite nth_app_at. destruct (Nat.eq_dec Wal W) as [->|Hne].
    - rewrite app_nth1 by lia. reflexivity.
    - replace (Wal - 1) with (length vis + (Wal - W - 1)) by lia. rewrite nth_app_at.
      rewrite app_nth1 by (rewrite repeat_length; lia). apply nth_repeat_lt. lia. }
  rewrite N3.
  unfold r2, canon. fold vis lastv.
  replace (repeat (nth 0 vis d) L ++ vis ++ repeat lastv (Wal - W) ++ trail)
    with ((repeat (nth 0 vis d) L ++ vis ++ repeat lastv (Wal - W)) ++ trail ++ []) by (rewrite app_nil_r, <- !app_assoc; reflexivity).
  rewrite fill_mid by (rewrite ?app_length, ?repeat_length; lia).
  rewrite app_nil_r, <- !app_assoc. reflexivity.
Qed.
End Ranges.

(* ---------- the picture: horizontally per row, then vertically over the rows ---------- *)
Definition row := list nat.

(* internal picture: T top-border rows, Hal rows of the aligned picture, B bottom-border rows; every row has pitch L + Wal + R *)
Definition copy_and_regen_rows (internal : list row) (src_rows : list row) (T L W Wal R : nat) : list row :=
  (* copy_frame_buffer: row i of the caller (stride samples) over internal row T+i at column L; then the horizontal regeneration of that row *)
  let written := map (fun p => regen nat 0 (overwrite nat (fst p) (snd p) L) L W Wal R)
                     (combine (firstn (length src_rows) (skipn T internal)) src_rows) in
  overwrite row internal written T.

Definition process_picture (internal : list row) (src_rows : list row) (T L W Wal R H Hal B : nat) : list row :=
  regen row [] (copy_and_regen_rows internal src_rows T L W Wal R) T H Hal B.

Definition visible (src_rows : list row) (W : nat) : list row := map (firstn W) src_rows.

Theorem picture_visible_only internal1 internal2 src1 src2 T L W Wal R H Hal B stride :
  length internal1 = T + Hal + B -> length internal2 = T + Hal + B ->
  Forall (fun r => length r = L + Wal + R) internal1 -> Forall (fun r => length r = L + Wal + R) internal2 ->
  length src1 = H -> length src2 = H -> Forall (fun r => length r = stride) src1 -> Forall (fun r => length r = stride) src2 ->
  W <= stride -> stride <= Wal + R -> 1 <= W -> W <= Wal -> 1 <= H -> H <= Hal ->
  visible src1 W = visible src2 W ->
  process_picture internal1 src1 T L W Wal R H Hal B = process_picture internal2 src2 T L W Wal R H Hal B.
Proof.
  intros Hi1 Hi2 Fi1 Fi2 Hs1 Hs2 Fs1 Fs2 HWs Hst HW1 HWal HH1 HHal Hvis.
  assert (Rows : forall internal src, length internal = T + Hal + B -> Forall (fun r => length r = L + Wal + R) internal ->
            length src = H -> Forall (fun r => length r = stride) src ->
            map (fun p => regen nat 0 (overwrite nat (fst p) (snd p) L) L W Wal R) (combine (firstn (length src) (skipn T internal)) src)
            = map (fun v => canon nat 0 v L W Wal R) (visible src W)).
  { intros internal src Hi Fi Hs Fs. unfold visible. rewrite map_map.
    assert (Hlen : length (firstn (length src) (skipn T internal)) = length src) by (rewrite firstn_length, skipn_length; lia).
    assert (Fd : Forall (fun r => length r = L + Wal + R) (firstn (length src) (skipn T internal))).
    { apply Forall_forall. intros r Hr. rewrite Forall_forall in Fi. apply Fi.
      rewrite <- (firstn_skipn T internal). apply in_or_app. right.
      rewrite <- (firstn_skipn (length src) (skipn T internal)). apply in_or_app. left. exact Hr. }
    revert Hlen Fd Fs. generalize (firstn (length src) (skipn T internal)) as ds. clear -HWs Hst HW1 HWal.
    induction src as [|s rest IH]; intros ds Hlen Fd Fs; destruct ds as [|dd ds']; cbn in Hlen; try lia; [reflexivity|].
    cbn [combine map fst snd]. inversion Fd; subst. inversion Fs; subst. f_equal.
    - apply regen_canon; lia.
    - apply IH; auto. }
  unfold process_picture, copy_and_regen_rows. cbv zeta. unfold row in *.
  rewrite (Rows internal1 src1 Hi1 Fi1 Hs1 Fs1), (Rows internal2 src2 Hi2 Fi2 Hs2 Fs2). rewrite Hvis.
  set (rows := map (fun v => canon nat 0 v L W Wal R) (visible src2 W)).
  assert (Hrows : length rows = H) by (unfold rows, visible; rewrite !map_length; exact Hs2).
  rewrite (regen_canon (list nat) [] internal1 rows T H Hal B) by lia.
  rewrite (regen_canon (list nat) [] internal2 rows T H Hal B) by lia.
  reflexivity.
Qed.

(* non-vacuity: a 3x2 picture copied with stride 5 (two garbage samples per row) into a 1+4+2 by 1+2+1 internal buffer *)
Example copy_example :
  process_picture (repeat (repeat 99 7) 4) [[1; 2; 3; 77; 88]; [4; 5; 6; 66; 55]] 1 1 3 4 2 2 2 1
  = [[1; 1; 2; 3; 3; 3; 3]; [1; 1; 2; 3; 3; 3; 3]; [4; 4; 5; 6; 6; 6; 6]; [4; 4; 5; 6; 6; 6; 6]].
Proof. reflexivity. Qed.
(* a stride beyond the regenerated area is outside the theorem: the garbage of the last row survives in the next row *)
Example stride_too_large_leaks :
  process_picture (repeat (repeat 99 7) 4) [[1; 2; 3; 77; 88; 11; 12; 13]; [4; 5; 6; 66; 55; 44; 33; 22]] 1 1 3 4 2 2 2 1
  <> process_picture (repeat (repeat 99 7) 4) [[1; 2; 3; 0; 0; 0; 0; 0]; [4; 5; 6; 0; 0; 0; 0; 0]] 1 1 3 4 2 2 2 1.
Proof. cbv. discriminate. Qed.
