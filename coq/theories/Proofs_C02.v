(* C02: what the OBU parser's acceptance means. *)
From Coq Require Import ZArith List Bool Lia Arith.
From SV Require Import Leb128 OBU.
Import ListNotations.
Local Open Scope Z_scope.

(* leb_dec consumes a non-empty prefix of at most [fuel] bytes of its input *)
Lemma leb_dec_suffix fuel : forall shift bs v rest, leb_dec fuel shift bs = Some (v, rest) ->
  exists p, bs = p ++ rest /\ (1 <= length p <= fuel)%nat /\ forall tail, leb_dec fuel shift (p ++ tail) = Some (v, tail).
Proof.
  induction fuel as [|k IH]; intros shift bs v rest H; cbn [leb_dec] in H; [discriminate|].
  destruct bs as [|b r]; [discriminate|].
  destruct (b <? 128) eqn:Eb.
  - inversion H; subst. exists [b]. split; [reflexivity|]. split; [cbn; lia|].
    intros tail. cbn [app leb_dec]. rewrite Eb. reflexivity.
  - destruct (leb_dec k (shift + 7) r) as [[v' r']|] eqn:E; [|discriminate]. inversion H; subst.
    destruct (IH _ _ _ _ E) as [p [Hp [Hl Ht]]]. exists (b :: p). split; [cbn; rewrite Hp; reflexivity|]. split; [cbn; lia|].
    intros tail. cbn [app leb_dec]. rewrite Eb, Ht. reflexivity.
Qed.

(* one OBU: the input is exactly header ++ size bytes ++ payload ++ rest; the size field (a leb128 of 1..8 bytes)
   decodes to the payload length *)
Lemma parse_obu_raw bs o rest : parse_obu bs = Some (o, rest) ->
  bs = obu_raw o ++ rest /\ o_size o = Z.of_nat (length (o_payload o)) /\
  (forall tail, leb_dec 8 0 (o_sizebytes o ++ tail) = Some (o_size o, tail)) /\
  (1 <= length (o_sizebytes o) <= 8)%nat /\ (1 <= length (o_header o) <= 2)%nat.
Proof.
  unfold parse_obu. destruct bs as [|b0 r0]; [discriminate|].
  destruct (Z.testbit b0 7); [discriminate|]. destruct (Z.testbit b0 0); [discriminate|].
  destruct (negb (Z.testbit b0 1)); [discriminate|].
  set (hr := if Z.testbit b0 2 then match r0 with e :: r1 => Some ([b0; e], r1) | [] => None end else Some ([b0], r0)).
  destruct hr as [[hdr r1]|] eqn:Ehr; [|discriminate].
  assert (Hh : b0 :: r0 = hdr ++ r1 /\ (1 <= length hdr <= 2)%nat).
  { unfold hr in Ehr. destruct (Z.testbit b0 2).
    - destruct r0 as [|e r0']; [discriminate|]. inversion Ehr; subst. cbn. split; [reflexivity|lia].
    - inversion Ehr; subst. cbn. split; [reflexivity|lia]. }
  destruct (leb_dec 8 0 r1) as [[sz r2]|] eqn:El; [|discriminate].
  destruct (Z.ltb_spec sz 0) as [Hneg|Hnn]; [discriminate|].
  destruct (Z.ltb_spec (Z.of_nat (length r2)) sz) as [Hlt|Hge]; [discriminate|].
  cbn [orb]. intros H. inversion H; subst o rest. clear H.
  destruct (leb_dec_suffix _ _ _ _ _ El) as [p [Hp [Hpl Hpt]]].
  assert (Hn : (length r1 - length r2)%nat = length p) by (rewrite Hp, app_length; lia).
  assert (Hfp : firstn (length r1 - length r2) r1 = p).
  { rewrite Hn, Hp. rewrite firstn_app, firstn_all, Nat.sub_diag. cbn. apply app_nil_r. }
  unfold obu_raw; cbn [o_header o_sizebytes o_payload o_size].
  rewrite Hfp. destruct Hh as [Hh1 Hh2]. repeat split; try lia.
  - rewrite Hh1. rewrite <- !app_assoc. f_equal. rewrite Hp at 1. f_equal. symmetry. apply firstn_skipn.
  - rewrite firstn_length. rewrite Nat.min_l by lia. lia.
  - exact Hpt.
Qed.

(* the whole packet: the parsed OBUs, laid end to end, are exactly the packet bytes *)
Lemma parse_obus_concat fuel : forall bs l, parse_obus fuel bs = Some l ->
  bs = flat_map obu_raw l /\ Forall (fun o => o_size o = Z.of_nat (length (o_payload o))) l.
Proof.
  induction fuel as [|k IH]; intros bs l H.
  - destruct bs; cbn in H; [inversion H; subst; split; [reflexivity|constructor]|discriminate].
  - destruct bs as [|b r].
    + cbn in H. inversion H; subst. split; [reflexivity|constructor].
    + cbn [parse_obus] in H. destruct (parse_obu (b :: r)) as [[o rest]|] eqn:Eo; [|discriminate].
      destruct (parse_obus k rest) as [l'|] eqn:El; [|discriminate]. inversion H; subst l.
      destruct (parse_obu_raw _ _ _ Eo) as [Hraw [Hsz _]]. destruct (IH _ _ El) as [Hc Hf].
      split; [cbn [flat_map]; rewrite Hraw, Hc; reflexivity | constructor; assumption].
Qed.

(* the temporal-unit conditions, as propositions *)
Definition TU_ok (refseq : list Z) (first_packet : bool) (l : list obu) : Prop :=
  (exists o0 rest, l = o0 :: rest /\ o_type o0 = OBU_TEMPORAL_DELIMITER /\ o_size o0 = 0) /\
  count (fun o => o_type o =? OBU_TEMPORAL_DELIMITER) l = 1%nat /\
  count displayed l = 1%nat /\
  (forall o, In o l -> o_type o = OBU_SEQUENCE_HEADER -> o_payload o = refseq /\ exists sh, parse_seq_header (o_payload o) = Some sh).

Lemma list_Z_eqb_eq a : forall b, list_Z_eqb a b = true -> a = b.
Proof.
  induction a as [|x r IH]; intros [|y s] H; cbn in H; try discriminate; [reflexivity|].
  apply andb_true_iff in H. destruct H as [H1 H2]. apply Z.eqb_eq in H1. apply IH in H2. subst. reflexivity.
Qed.

Lemma tu_ok_sound refseq fp l : tu_ok_b refseq fp l = true -> TU_ok refseq fp l.
Proof.
  unfold tu_ok_b, TU_ok. destruct l as [|o0 rest]; [discriminate|]. intros H.
  repeat (apply andb_true_iff in H; destruct H as [H ?]).
  match goal with Hs : forallb (fun p => list_Z_eqb p refseq) _ = true |- _ => rename Hs into Hseq end.
  match goal with Hs : forallb (fun p => match parse_seq_header p with Some _ => true | None => false end) _ = true |- _ => rename Hs into Hparse end.
  match goal with Hs : Nat.eqb (count displayed _) 1 = true |- _ => apply Nat.eqb_eq in Hs; rename Hs into Hdisp end.
  match goal with Hs : Nat.eqb (count (fun o => o_type o =? OBU_TEMPORAL_DELIMITER) _) 1 = true |- _ => apply Nat.eqb_eq in Hs; rename Hs into Htd end.
  match goal with Hs : (o_size o0 =? 0) = true |- _ => apply Z.eqb_eq in Hs; rename Hs into Hsz end.
  apply Z.eqb_eq in H.
  split; [exists o0, rest; auto|]. split; [exact Htd|]. split; [exact Hdisp|].
  intros o Hin Hty. unfold seq_payloads in Hseq, Hparse. rewrite forallb_forall in Hseq, Hparse.
  assert (Hm : In (o_payload o) (map o_payload (filter (fun o => o_type o =? OBU_SEQUENCE_HEADER) (o0 :: rest)))).
  { apply in_map. apply filter_In. split; [exact Hin|apply Z.eqb_eq; exact Hty]. }
  split; [apply list_Z_eqb_eq; apply Hseq; exact Hm|].
  specialize (Hparse _ Hm). destruct (parse_seq_header (o_payload o)) as [sh|]; [exists sh; reflexivity|discriminate].
Qed.

Theorem check_packet_sound refseq fp bytes : check_packet refseq fp bytes = true ->
  exists l, bytes = flat_map obu_raw l /\ Forall (fun o => o_size o = Z.of_nat (length (o_payload o))) l /\ TU_ok refseq fp l.
Proof.
  unfold check_packet. destruct (parse_obus (S (length bytes)) bytes) as [l|] eqn:E; [|discriminate].
  intros H. exists l. destruct (parse_obus_concat _ _ _ E) as [A B]. split; [exact A|]. split; [exact B|]. apply tu_ok_sound. exact H.
Qed.

(* non-vacuity: a concrete well-formed temporal unit (TD, sequence header of the pinned encoder at 128x96, one tiny
   "frame" OBU whose first bits say show_existing_frame) is accepted *)
Example accepts_example :
  check_packet [0; 0; 0; 3; 55; 251; 226; 23; 192; 2] true
               [18; 0; 10; 10; 0; 0; 0; 3; 55; 251; 226; 23; 192; 2; 50; 1; 128] = true.
Proof. vm_compute. reflexivity. Qed.
