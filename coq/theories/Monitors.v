(* Verified monitors: decision procedures applied (extracted) to histories produced by the real library.
   Each [check_*] is a boolean function with a proved equivalence to the specification it decides. *)
From Coq Require Import ZArith List Bool Lia Arith.
Import ListNotations.
Local Open Scope Z_scope.

(* ---------- generic: decidable equality of lists ---------- *)
Fixpoint eqb_list {A} (eqb : A -> A -> bool) (l1 l2 : list A) : bool :=
  match l1, l2 with
  | [], [] => true
  | a :: r1, b :: r2 => eqb a b && eqb_list eqb r1 r2
  | _, _ => false
  end.

Lemma eqb_list_spec {A} (eqb : A -> A -> bool) (Heq : forall a b, eqb a b = true <-> a = b) l1 l2 :
  eqb_list eqb l1 l2 = true <-> l1 = l2.
Proof.
  revert l2. induction l1 as [|a r1 IH]; intros [|b r2]; cbn [eqb_list]; split; intros H; try reflexivity; try discriminate.
  - apply andb_true_iff in H. destruct H as [H1 H2]. apply Heq in H1. apply IH in H2. subst. reflexivity.
  - inversion H; subst. apply andb_true_iff. split; [apply Heq; reflexivity | apply IH; reflexivity].
Qed.

Definition Zrange (n : nat) : list Z := map Z.of_nat (seq 0 n).

(* ---------- C03: one packet per submitted picture, in order, timestamps, EOS ---------- *)
Record pkt := { p_pts : Z; p_dts : Z; p_eos : bool }.
Definition pkt_eqb (a b : pkt) : bool := (p_pts a =? p_pts b) && (p_dts a =? p_dts b) && Bool.eqb (p_eos a) (p_eos b).
Lemma pkt_eqb_spec a b : pkt_eqb a b = true <-> a = b.
Proof.
  destruct a as [a1 a2 a3], b as [b1 b2 b3]. unfold pkt_eqb; cbn. rewrite !andb_true_iff, !Z.eqb_eq, Bool.eqb_true_iff.
  split; [intros [[-> ->] ->]; reflexivity | intros E; inversion E; auto].
Qed.

(* what the application must observe for n pictures submitted with pts(k) = base + step * k *)
Definition expected_packets (n : nat) (base step : Z) : list pkt :=
  map (fun k => {| p_pts := base + step * k; p_dts := base + step * k; p_eos := (k =? Z.of_nat n - 1) |}) (Zrange n).

(* recon pictures: exactly n of them, exactly one per display position 0..n-1 (delivery order is not constrained) *)
Definition one_per_position (n : nat) (r : list Z) : Prop :=
  length r = n /\ forall k, In k (Zrange n) -> count_occ Z.eq_dec r k = 1%nat.
Definition one_per_position_b (n : nat) (r : list Z) : bool :=
  Nat.eqb (length r) n && forallb (fun k => Nat.eqb (count_occ Z.eq_dec r k) 1) (Zrange n).
Lemma one_per_position_spec n r : one_per_position_b n r = true <-> one_per_position n r.
Proof.
  unfold one_per_position_b, one_per_position. rewrite andb_true_iff, Nat.eqb_eq, forallb_forall.
  split; intros [A B]; split; auto; intros k Hk; specialize (B k Hk); apply Nat.eqb_eq; exact B.
Qed.

Definition C03_spec (n : nat) (base step : Z) (packets : list pkt) (recon : option (list Z)) : Prop :=
  packets = expected_packets n base step /\
  match recon with None => True | Some r => one_per_position n r end.

Definition check_c03 (n : nat) (base step : Z) (packets : list pkt) (recon : option (list Z)) : bool :=
  eqb_list pkt_eqb packets (expected_packets n base step) &&
  match recon with None => true | Some r => one_per_position_b n r end.

Theorem check_c03_sound n base step packets recon :
  check_c03 n base step packets recon = true <-> C03_spec n base step packets recon.
Proof.
  unfold check_c03, C03_spec. rewrite andb_true_iff, (eqb_list_spec pkt_eqb pkt_eqb_spec).
  destruct recon as [r|]; [rewrite one_per_position_spec|]; tauto.
Qed.

(* consequences spelled out: count, strict order, exactly the last packet carries EOS *)
Lemma expected_length n base step : length (expected_packets n base step) = n.
Proof. unfold expected_packets, Zrange. rewrite !map_length, seq_length. reflexivity. Qed.

Lemma C03_count n base step packets recon : C03_spec n base step packets recon -> length packets = n.
Proof. intros [-> _]. apply expected_length. Qed.

Lemma C03_nth n base step packets recon k : C03_spec n base step packets recon -> (k < n)%nat ->
  exists p, nth_error packets k = Some p /\ p_pts p = base + step * Z.of_nat k /\ p_dts p = p_pts p /\
            (p_eos p = true <-> k = (n - 1)%nat).
Proof.
  intros [-> _] Hk. unfold expected_packets, Zrange. rewrite !map_map.
  eexists. split.
  - rewrite nth_error_map. rewrite (nth_error_nth' _ 0%nat) by (rewrite seq_length; exact Hk).
    rewrite seq_nth by exact Hk. cbn. reflexivity.
  - cbn. split; [reflexivity|]. split; [reflexivity|]. rewrite Z.eqb_eq. lia.
Qed.

(* ---------- C19: intra frames exactly at display positions that are multiples of P+1 ---------- *)
(* intra : per display position, whether the frame shown there is intra coded (key or intra-only) *)
Definition expected_intra (n : nat) (period : Z) : list bool :=
  map (fun k => if period =? -1 then (k =? 0) else (k mod (period + 1) =? 0)) (Zrange n).
Definition C19_placement_spec (n : nat) (period : Z) (intra : list bool) : Prop := intra = expected_intra n period.
Definition check_c19_placement (n : nat) (period : Z) (intra : list bool) : bool := eqb_list Bool.eqb intra (expected_intra n period).
Theorem check_c19_placement_sound n period intra :
  check_c19_placement n period intra = true <-> C19_placement_spec n period intra.
Proof. unfold check_c19_placement, C19_placement_spec. apply eqb_list_spec. intros a b. apply Bool.eqb_true_iff. Qed.

(* ---------- C18: every coded frame's base_q_idx within the indices of the configured QP bounds ---------- *)
Definition C18_bounds_spec (lo hi : Z) (qidx : list Z) : Prop := Forall (fun q => lo <= q <= hi) qidx.
Definition check_c18_bounds (lo hi : Z) (qidx : list Z) : bool := forallb (fun q => (lo <=? q) && (q <=? hi)) qidx.
Theorem check_c18_bounds_sound lo hi qidx : check_c18_bounds lo hi qidx = true <-> C18_bounds_spec lo hi qidx.
Proof.
  unfold check_c18_bounds, C18_bounds_spec. rewrite forallb_forall, Forall_forall.
  split; intros H q Hq; specialize (H q Hq).
  - apply andb_true_iff in H. destruct H as [A B]. apply Z.leb_le in A, B. lia.
  - apply andb_true_iff. split; apply Z.leb_le; lia.
Qed.

(* ---------- C26: reported SSE equals the recomputed one, as 32-bit values ---------- *)
Definition C26_spec (reported recomputed : list (Z * Z * Z)) : Prop :=
  reported = map (fun t => (fst (fst t) mod 2 ^ 32, snd (fst t) mod 2 ^ 32, snd t mod 2 ^ 32)) recomputed.
Definition triple_eqb (a b : Z * Z * Z) : bool := (fst (fst a) =? fst (fst b)) && (snd (fst a) =? snd (fst b)) && (snd a =? snd b).
Lemma triple_eqb_spec a b : triple_eqb a b = true <-> a = b.
Proof.
  destruct a as [[a1 a2] a3], b as [[b1 b2] b3]. unfold triple_eqb; cbn. rewrite !andb_true_iff, !Z.eqb_eq.
  split; [intros [[-> ->] ->]; reflexivity | intros E; inversion E; auto].
Qed.
Definition check_c26 (reported recomputed : list (Z * Z * Z)) : bool :=
  eqb_list triple_eqb reported (map (fun t => (fst (fst t) mod 2 ^ 32, snd (fst t) mod 2 ^ 32, snd t mod 2 ^ 32)) recomputed).
Theorem check_c26_sound reported recomputed : check_c26 reported recomputed = true <-> C26_spec reported recomputed.
Proof. unfold check_c26, C26_spec. apply eqb_list_spec. exact triple_eqb_spec. Qed.
