(* C-level models of the three LEB128 routines of the library, statement by statement, with the C types written out:
     svt_aom_uleb_size_in_bytes / svt_aom_uleb_encode   (Source/Lib/Encoder/Codec/EbEntropyCoding.c)
     dec_get_bits_leb128                                (Source/Lib/Decoder/Codec/EbDecBitstream.c)
   They are tied to the real functions by the correspondence run of check C02 (harness/unit/leb_harness.c runs the
   sliced C text of the encoder side and the decoder's EbDecBitstream.c on the same values / byte strings and the
   extracted definitions of this file must give the same answers).  The theorems connect them to the mathematical
   coder of Leb128.v (leb_enc / leb_dec) and state the round trip at the level of the C functions. *)
From Coq Require Import ZArith Lia List Bool.
From SV Require Import Leb128.
Import ListNotations.
Local Open Scope Z_scope.

(* uint64_t value.   size_t size = 0; do { ++size; } while ((value >>= 7) != 0); return size;
   ten iterations exhaust any 64-bit value (2^64 < 128^10); fuel 0 is excluded by the theorems (c_uleb_size_spec) *)
Fixpoint c_uleb_size (fuel : nat) (v : Z) : Z :=
  match fuel with
  | O => 0
  | S f => if v / 128 =? 0 then 1 else 1 + c_uleb_size f (v / 128)
  end.

(* for (i = 0; i < leb_size; ++i) { byte = value & 0x7f; value >>= 7; if (value != 0) byte |= 0x80; coded_value[i] = byte; } *)
Fixpoint c_uleb_loop (n : nat) (v : Z) : list Z :=
  match n with
  | O => []
  | S k => let b := v mod 128 in
           let v' := v / 128 in
           (if v' =? 0 then b else b + 128) :: c_uleb_loop k v'
  end.

Definition k_maximum_leb_128_value : Z := 72057594037927935.   (* 0xFFFFFFFFFFFFFF = 2^56 - 1 *)
Definition k_maximum_leb_128_size : Z := 8.

(* None = the function returns -1 and writes nothing.  (The two pointer arguments are non-NULL in the model.) *)
Definition c_uleb_encode (v avail : Z) : option (list Z) :=
  let s := c_uleb_size 10 v in
  if (v >? k_maximum_leb_128_value) || (s >? k_maximum_leb_128_size) || (s >? avail) then None
  else Some (c_uleb_loop (Z.to_nat s) v).

(* *value = 0; *length = 0;
   for (i = 0; i < 8; i++) { b = dec_get_bits(bs, 8); *value |= ((uint64_t)b & 0x7f) << (i * 7); *length += 1; if (!(b & 0x80)) break; }
   `acc |= x << 7i` is written `acc + x * 2^(7i)`: acc < 2^(7i) at that point (c_leb_read_bound), so the two agree.
   An exhausted byte list stops the model (the C code reads on: see the note in DESIGN.md, finding D6). *)
Fixpoint c_leb_read (n : nat) (i : Z) (bs : list Z) (value len : Z) : Z * Z * list Z :=
  match n with
  | O => (value, len, bs)
  | S k => match bs with
           | [] => (value, len, bs)
           | b :: r => let value' := value + (b mod 128) * 2 ^ (7 * i) in
                       if b <? 128 then (value', len + 1, r) else c_leb_read k (i + 1) r value' (len + 1)
           end
  end.

Definition c_dec_leb128 (bs : list Z) : Z * Z * list Z := c_leb_read 8 0 bs 0 0.

(* ------------------------------------------------------------------ size *)
Lemma c_uleb_size_pos fuel : forall v, 0 <= c_uleb_size fuel v.
Proof. induction fuel as [|f IH]; intros v; cbn [c_uleb_size]; [lia|]. destruct (v / 128 =? 0); [lia|]. specialize (IH (v / 128)). lia. Qed.

Lemma pow128_S (f : nat) : 128 ^ Z.of_nat (S f) = 128 * 128 ^ Z.of_nat f.
Proof. replace (Z.of_nat (S f)) with (Z.of_nat f + 1) by lia. rewrite Z.pow_add_r by lia. lia. Qed.

Lemma c_uleb_size_gen fuel : forall v, (1 <= fuel)%nat -> 0 <= v < 128 ^ Z.of_nat fuel ->
  let s := c_uleb_size fuel v in
  1 <= s <= Z.of_nat fuel /\ v < 128 ^ s /\ (s = 1 \/ 128 ^ (s - 1) <= v).
Proof.
  induction fuel as [|f IH]; intros v Hf Hv; [lia|].
  cbn [c_uleb_size]. rewrite pow128_S in Hv.
  destruct (Z.eqb_spec (v / 128) 0) as [Hz|Hnz].
  - cbn zeta. assert (v < 128) by (pose proof (Z.div_mod v 128 ltac:(lia)); pose proof (Z.mod_pos_bound v 128 ltac:(lia)); lia).
    split; [lia|]. split; [change (128 ^ 1) with 128; lia | left; reflexivity].
  - assert (Hq : 0 <= v / 128 < 128 ^ Z.of_nat f).
    { split; [apply Z.div_pos; lia|]. apply Z.div_lt_upper_bound; lia. }
    assert (Hf1 : (1 <= f)%nat).
    { destruct f; [|lia]. cbn in Hq. lia. }
    specialize (IH (v / 128) Hf1 Hq). cbn zeta in IH |- *.
    set (s := c_uleb_size f (v / 128)) in *. destruct IH as [Hs [Hlt Hmin]].
    pose proof (Z.div_mod v 128 ltac:(lia)) as Hdm. pose proof (Z.mod_pos_bound v 128 ltac:(lia)) as Hmb.
    split; [lia|]. split.
    + replace (1 + s) with (s + 1) by lia. rewrite Z.pow_add_r by lia. change (128 ^ 1) with 128. lia.
    + right. replace (1 + s - 1) with s by lia.
      destruct Hmin as [H1|Hge].
      * rewrite H1. change (128 ^ 1) with 128. lia.
      * replace s with ((s - 1) + 1) by lia. rewrite Z.pow_add_r by lia. change (128 ^ 1) with 128. lia.
Qed.

(* for every 64-bit value the size is the minimal number of 7-bit groups, between 1 and 10 *)
Theorem c_uleb_size_spec v : 0 <= v < 2 ^ 64 ->
  let s := c_uleb_size 10 v in 1 <= s <= 10 /\ v < 128 ^ s /\ (s = 1 \/ 128 ^ (s - 1) <= v).
Proof.
  intros Hv. apply (c_uleb_size_gen 10 v); [lia|]. change (128 ^ Z.of_nat 10) with (2 ^ 70).
  assert (2 ^ 64 < 2 ^ 70) by (apply Z.pow_lt_mono_r; lia). lia.
Qed.

(* ------------------------------------------------------------------ encoder = mathematical coder *)
Lemma c_uleb_loop_is_leb_enc f1 : forall f2 v, (1 <= f1)%nat -> (1 <= f2)%nat ->
  0 <= v < 128 ^ Z.of_nat f1 -> v < 128 ^ Z.of_nat f2 ->
  c_uleb_loop (Z.to_nat (c_uleb_size f1 v)) v = leb_enc f2 v.
Proof.
  induction f1 as [|a IH]; intros f2 v H1 H2 Hv1 Hv2; [lia|].
  destruct f2 as [|b]; [lia|].
  cbn [c_uleb_size leb_enc]. rewrite pow128_S in Hv1, Hv2.
  pose proof (Z.div_mod v 128 ltac:(lia)) as Hdm. pose proof (Z.mod_pos_bound v 128 ltac:(lia)) as Hmb.
  destruct (Z.eqb_spec (v / 128) 0) as [Hz|Hnz].
  - destruct (Z.ltb_spec v 128); [|lia].
    change (Z.to_nat 1) with 1%nat. cbn [c_uleb_loop]. destruct (Z.eqb_spec (v / 128) 0); [|lia].
    f_equal. lia.
  - destruct (Z.ltb_spec v 128) as [Hlt|Hge]; [rewrite Z.div_small in Hnz by lia; lia|].
    assert (Hq1 : 0 <= v / 128 < 128 ^ Z.of_nat a) by (split; [apply Z.div_pos; lia | apply Z.div_lt_upper_bound; lia]).
    assert (Hq2 : v / 128 < 128 ^ Z.of_nat b) by (apply Z.div_lt_upper_bound; lia).
    assert (Ha : (1 <= a)%nat) by (destruct a; [cbn in Hq1; lia | lia]).
    assert (Hb : (1 <= b)%nat) by (destruct b; [cbn in Hq2; lia | lia]).
    pose proof (c_uleb_size_pos a (v / 128)) as Hp.
    replace (Z.to_nat (1 + c_uleb_size a (v / 128))) with (S (Z.to_nat (c_uleb_size a (v / 128)))) by lia.
    cbn [c_uleb_loop]. destruct (Z.eqb_spec (v / 128) 0); [lia|].
    f_equal. apply IH; assumption.
Qed.

(* what the real function accepts: exactly the values below 2^56 whose size fits the space offered *)
Theorem c_uleb_encode_accepts_iff v avail : 0 <= v < 2 ^ 64 ->
  (c_uleb_encode v avail = None <-> (2 ^ 56 <= v \/ avail < c_uleb_size 10 v)).
Proof.
  intros Hv. pose proof (c_uleb_size_spec v Hv) as Hs. cbn zeta in Hs. destruct Hs as [Hs [Hlt Hmin]].
  unfold c_uleb_encode, k_maximum_leb_128_value, k_maximum_leb_128_size.
  change (2 ^ 56) with 72057594037927936.
  set (s := c_uleb_size 10 v) in *.
  destruct (Z.gtb_spec v 72057594037927935) as [H1|H1]; cbn [orb].
  - split; [intros _; left; lia | reflexivity].
  - destruct (Z.gtb_spec s 8) as [H2|H2]; cbn [orb].
    + (* s > 8 with v < 2^56 = 128^8 is impossible *)
      exfalso. destruct Hmin as [E|Hge]; [lia|].
      assert (128 ^ 8 <= 128 ^ (s - 1)) by (apply Z.pow_le_mono_r; lia).
      change (128 ^ 8) with 72057594037927936 in *. lia.
    + destruct (Z.gtb_spec s avail) as [H3|H3].
      * split; [intros _; right; lia | reflexivity].
      * split; [discriminate | intros [H|H]; lia].
Qed.

Theorem c_uleb_encode_is_leb_enc v avail : 0 <= v < 2 ^ 56 -> c_uleb_size 10 v <= avail ->
  c_uleb_encode v avail = Some (leb_enc 8 v).
Proof.
  intros Hv Ha.
  assert (Hv64 : 0 <= v < 2 ^ 64) by (assert (2 ^ 56 < 2 ^ 64) by (apply Z.pow_lt_mono_r; lia); lia).
  assert (En : c_uleb_encode v avail <> None).
  { intros E. apply c_uleb_encode_accepts_iff in E; [lia|exact Hv64]. }
  unfold c_uleb_encode in *. destruct (_ || _ || _); [congruence|]. f_equal.
  apply c_uleb_loop_is_leb_enc; [lia|lia| |change (128 ^ Z.of_nat 8) with (2 ^ 56); lia].
  change (128 ^ Z.of_nat 10) with (2 ^ 70). assert (2 ^ 56 < 2 ^ 70) by (apply Z.pow_lt_mono_r; lia). lia.
Qed.

Lemma leb_enc_length_is_size f1 : forall f2 v, (1 <= f1)%nat -> (1 <= f2)%nat ->
  0 <= v < 128 ^ Z.of_nat f1 -> v < 128 ^ Z.of_nat f2 ->
  Z.of_nat (length (leb_enc f2 v)) = c_uleb_size f1 v.
Proof.
  intros f2 v H1 H2 Hv1 Hv2. rewrite <- (c_uleb_loop_is_leb_enc f1 f2 v H1 H2 Hv1 Hv2).
  pose proof (c_uleb_size_pos f1 v) as Hp. generalize dependent (c_uleb_size f1 v). intros s Hp.
  rewrite <- (Z2Nat.id s Hp) at 2. f_equal. generalize (Z.to_nat s) as n. clear.
  intros n. revert v. induction n as [|k IH]; intros v; cbn [c_uleb_loop length]; [reflexivity|]. f_equal. apply IH.
Qed.

(* ------------------------------------------------------------------ decoder = mathematical decoder *)
Local Arguments Z.mul : simpl never.
Local Arguments Z.add : simpl never.
Local Arguments Z.pow : simpl never.
Lemma triple_eq {A B C} (a a' : A) (b b' : B) (c c' : C) : a = a' -> b = b' -> c = c' -> (a, b, c) = (a', b', c').
Proof. intros; subst; reflexivity. Qed.

Lemma c_leb_read_is_leb_dec fuel : forall i bs v rest acc len, 0 <= i ->
  leb_dec fuel (7 * i) bs = Some (v, rest) ->
  c_leb_read fuel i bs acc len = (acc + v, len + (Z.of_nat (length bs) - Z.of_nat (length rest)), rest).
Proof.
  induction fuel as [|f IH]; intros i bs v rest acc len Hi H; [discriminate|].
  cbn [leb_dec] in H. destruct bs as [|b r]; [discriminate|]. cbn [c_leb_read].
  destruct (b <? 128).
  - injection H as <- <-. apply triple_eq; cbn [length]; try reflexivity; lia.
  - destruct (leb_dec f (7 * i + 7) r) as [[v' rest']|] eqn:E; [|discriminate]. injection H as Hv Hr. subst v rest'.
    replace (7 * i + 7) with (7 * (i + 1)) in E by lia.
    rewrite (IH (i + 1) r v' rest (acc + b mod 128 * 2 ^ (7 * i)) (len + 1) ltac:(lia) E).
    apply triple_eq; cbn [length]; try reflexivity; lia.
Qed.

(* the accumulated value stays below 2^(7i): `|=` and `+` coincide in the real loop *)
Lemma c_leb_read_bound fuel : forall i bs acc len, 0 <= i -> 0 <= acc < 2 ^ (7 * i) ->
  Forall (fun b => 0 <= b < 256) bs ->
  let '(v, _, _) := c_leb_read fuel i bs acc len in 0 <= v < 2 ^ (7 * (i + Z.of_nat fuel)).
Proof.
  induction fuel as [|f IH]; intros i bs acc len Hi Ha Hb; cbn [c_leb_read].
  - replace (i + Z.of_nat 0) with i by lia. exact Ha.
  - destruct bs as [|b r].
    + assert (2 ^ (7 * i) <= 2 ^ (7 * (i + Z.of_nat (S f)))) by (apply Z.pow_le_mono_r; lia). lia.
    + inversion Hb as [|? ? Hb0 Hbr]; subst.
      pose proof (Z.mod_pos_bound b 128 ltac:(lia)) as Hm.
      assert (Hn : 0 <= acc + b mod 128 * 2 ^ (7 * i) < 2 ^ (7 * (i + 1))).
      { replace (7 * (i + 1)) with (7 * i + 7) by lia. rewrite Z.pow_add_r by lia. change (2 ^ 7) with 128. nia. }
      destruct (b <? 128).
      * assert (2 ^ (7 * (i + 1)) <= 2 ^ (7 * (i + Z.of_nat (S f)))) by (apply Z.pow_le_mono_r; lia). lia.
      * specialize (IH (i + 1) r (acc + b mod 128 * 2 ^ (7 * i)) (len + 1) ltac:(lia) Hn Hbr).
        destruct (c_leb_read f (i + 1) r _ _) as [[v l] rr].
        replace (i + Z.of_nat (S f)) with (i + 1 + Z.of_nat f) by lia. exact IH.
Qed.

(* ------------------------------------------------------------------ the round trip of the C functions *)
Theorem c_leb128_roundtrip v avail rest : 0 <= v < 2 ^ 56 -> c_uleb_size 10 v <= avail ->
  exists bytes, c_uleb_encode v avail = Some bytes /\
                Z.of_nat (length bytes) = c_uleb_size 10 v /\ (length bytes <= 8)%nat /\
                Forall (fun b => 0 <= b < 256) bytes /\
                c_dec_leb128 (bytes ++ rest) = (v, Z.of_nat (length bytes), rest).
Proof.
  intros Hv Ha. exists (leb_enc 8 v).
  assert (H70 : 0 <= v < 128 ^ Z.of_nat 10).
  { change (128 ^ Z.of_nat 10) with (2 ^ 70). assert (2 ^ 56 < 2 ^ 70) by (apply Z.pow_lt_mono_r; lia). lia. }
  split; [apply c_uleb_encode_is_leb_enc; assumption|].
  split; [apply (leb_enc_length_is_size 10 8); [lia|lia|exact H70|change (128 ^ Z.of_nat 8) with (2 ^ 56); lia]|].
  split; [apply leb_enc_length|]. split; [apply leb_enc_bytes; lia|].
  unfold c_dec_leb128.
  rewrite (c_leb_read_is_leb_dec 8 0 (leb_enc 8 v ++ rest) v rest 0 0 ltac:(lia) (leb128_roundtrip v rest Hv)).
  rewrite app_length, Nat2Z.inj_add. apply triple_eq; try reflexivity; lia.
Qed.

(* a value the encoder refuses is never written short: at 2^56 and above nothing is emitted *)
Theorem c_uleb_encode_rejects_large v avail : 2 ^ 56 <= v < 2 ^ 64 -> c_uleb_encode v avail = None.
Proof. intros Hv. apply c_uleb_encode_accepts_iff; [|left]; lia. Qed.

(* non-vacuity: boundary values of the one/two/three-byte size fields, and the largest accepted value *)
Example c_leb_examples :
  c_uleb_encode 127 8 = Some [127] /\ c_uleb_encode 128 8 = Some [128; 1] /\ c_uleb_encode 16384 4 = Some [128; 128; 1] /\
  c_uleb_encode 16384 2 = None /\ c_uleb_encode (2 ^ 56 - 1) 8 = Some [255; 255; 255; 255; 255; 255; 255; 127] /\
  c_uleb_encode (2 ^ 56) 16 = None /\ c_dec_leb128 [128; 128; 1; 9] = (16384, 3, [9]) /\
  c_dec_leb128 [255; 255; 255; 255; 255; 255; 255; 255; 1] = (2 ^ 56 - 1, 8, [1]).
Proof. vm_compute. repeat split; reflexivity. Qed.

(* ------------------------------------------------------------------ closing an OBU: obu_mem_move + write_uleb_obu_size *)
(* The writers first lay header and payload end to end in the output buffer, then make room for the size field and write it:
     obu_mem_move:        length_field_size = svt_aom_uleb_size_in_bytes(payload_size);
                          memmove(data + length_field_size + header_size, data + header_size, payload_size);
     write_uleb_obu_size: svt_aom_uleb_encode(payload_size, sizeof(uint32_t) = 4, data + header_size, &coded)
   The buffer is a list of bytes; both steps are total on lists (the theorem states the room they need). *)
Definition c_memmove (data : list Z) (dst src n : nat) : list Z :=
  firstn dst data ++ firstn n (skipn src data) ++ skipn (dst + n) data.
Definition c_write_at (data : list Z) (off : nat) (bs : list Z) : list Z :=
  firstn off data ++ bs ++ skipn (off + length bs) data.
(* result: the buffer and the length-field size the callers advance by; None = AOM_CODEC_ERROR (callers assert) *)
Definition c_finish_obu (data : list Z) (hdr : nat) (psize : Z) : option (list Z * Z) :=
  let lf := c_uleb_size 10 psize in
  let d1 := c_memmove data (Z.to_nat lf + hdr) hdr (Z.to_nat psize) in
  match c_uleb_encode psize 4 with
  | None => None
  | Some bs => Some (c_write_at d1 hdr bs, lf)
  end.

Lemma firstn_app_exact {A} (l1 l2 : list A) n : n = length l1 -> firstn n (l1 ++ l2) = l1.
Proof. intros ->. rewrite firstn_app, Nat.sub_diag, firstn_all. cbn [firstn]. apply app_nil_r. Qed.
Lemma skipn_app_exact {A} (l1 l2 : list A) n : n = length l1 -> skipn n (l1 ++ l2) = l2.
Proof. intros ->. rewrite skipn_app, Nat.sub_diag, skipn_all. reflexivity. Qed.

(* for every header H, payload P (below 2^28 bytes: the four bytes the caller offers) and tail T with room for the size field:
   the buffer becomes H ++ size field ++ P ++ (rest of T), the size field is the minimal LEB128 of |P|, the callers advance by
   its length, and the decoder's reader applied after the header yields |P| and stands at the first payload byte *)
Theorem c_finish_obu_layout H P T : let psize := Z.of_nat (length P) in let lf := c_uleb_size 10 psize in
  psize < 2 ^ 28 -> (Z.to_nat lf <= length T)%nat ->
  exists field, c_finish_obu (H ++ P ++ T) (length H) psize = Some (H ++ field ++ P ++ skipn (Z.to_nat lf) T, lf) /\
                field = leb_enc 8 psize /\ Z.of_nat (length field) = lf /\ 1 <= lf <= 4 /\
                c_dec_leb128 (field ++ P ++ skipn (Z.to_nat lf) T) = (psize, lf, P ++ skipn (Z.to_nat lf) T).
Proof.
  intros psize lf Hp HT.
  assert (Hp0 : 0 <= psize) by (unfold psize; lia).
  assert (H56 : 0 <= psize < 2 ^ 56) by (assert (2 ^ 28 < 2 ^ 56) by (apply Z.pow_lt_mono_r; lia); lia).
  assert (H64 : 0 <= psize < 2 ^ 64) by (assert (2 ^ 56 < 2 ^ 64) by (apply Z.pow_lt_mono_r; lia); lia).
  pose proof (c_uleb_size_spec psize H64) as Hs. cbn zeta in Hs. fold lf in Hs. destruct Hs as [Hs1 [Hs2 Hs3]].
  assert (Hlf4 : lf <= 4).
  { destruct (Z_le_gt_dec lf 4) as [|Hgt]; [assumption|]. destruct Hs3 as [E|Hge]; [lia|].
    assert (128 ^ 4 <= 128 ^ (lf - 1)) by (apply Z.pow_le_mono_r; lia). change (128 ^ 4) with (2 ^ 28) in *. lia. }
  destruct (c_leb128_roundtrip psize 4 (P ++ skipn (Z.to_nat lf) T) H56 ltac:(fold lf; lia)) as [bytes [He [Hl [_ [_ Hd]]]]].
  pose proof (c_uleb_encode_is_leb_enc psize 4 H56 ltac:(fold lf; lia)) as He'.
  assert (Hb : bytes = leb_enc 8 psize) by congruence.
  fold lf in Hl.
  exists bytes. split; [|split; [exact Hb|split; [exact Hl|split; [lia|rewrite Hd, Hl; reflexivity]]]].
  unfold c_finish_obu. fold lf. rewrite He. f_equal. f_equal.
  assert (Hnl : length bytes = Z.to_nat lf) by lia.
  unfold psize. rewrite Nat2Z.id.
  (* the move *)
  unfold c_memmove.
  rewrite (skipn_app_exact H (P ++ T) (length H) eq_refl).
  rewrite (firstn_app_exact P T (length P) eq_refl).
  (* T = T1 ++ T2 with |T1| = lf *)
  rewrite <- (firstn_skipn (Z.to_nat lf) T) at 1 2.
  set (T1 := firstn (Z.to_nat lf) T). set (T2 := skipn (Z.to_nat lf) T).
  assert (HT1 : length T1 = Z.to_nat lf) by (unfold T1; rewrite firstn_length; lia).
  (* prefix of length lf + |H| of H ++ P ++ T1 ++ T2, and the suffix after lf + |H| + |P| *)
  assert (Hpre : exists X, length X = Z.to_nat lf /\ firstn (Z.to_nat lf + length H) (H ++ P ++ T1 ++ T2) = H ++ X).
  { exists (firstn (Z.to_nat lf) (P ++ T1 ++ T2)). split.
    - rewrite firstn_length, !app_length. lia.
    - rewrite firstn_app. rewrite firstn_all2 by lia. f_equal. f_equal. lia. }
  destruct Hpre as [X [HX Hpre]]. rewrite Hpre.
  assert (Hsuf : skipn (Z.to_nat lf + length H + length P) (H ++ P ++ T1 ++ T2) = T2).
  { replace (H ++ P ++ T1 ++ T2) with ((H ++ P ++ T1) ++ T2) by (rewrite <- !app_assoc; reflexivity).
    apply skipn_app_exact. rewrite !app_length. lia. }
  rewrite Hsuf.
  (* the write *)
  unfold c_write_at. rewrite <- app_assoc.
  rewrite (firstn_app_exact H _ (length H) eq_refl).
  replace ((H ++ X ++ P ++ T2)) with ((H ++ X) ++ P ++ T2) by (rewrite <- app_assoc; reflexivity).
  rewrite (skipn_app_exact (H ++ X) (P ++ T2)) by (rewrite app_length; lia).
  reflexivity.
Qed.

(* what the four offered bytes mean: a payload of 2^28 bytes or more is refused, nothing is written over the header *)
Theorem c_finish_obu_refuses_large data hdr psize : 2 ^ 28 <= psize < 2 ^ 64 -> c_finish_obu data hdr psize = None.
Proof.
  intros Hp. unfold c_finish_obu.
  assert (E : c_uleb_encode psize 4 = None).
  { apply c_uleb_encode_accepts_iff; [lia|].
    destruct (Z_lt_ge_dec psize (2 ^ 56)) as [Hlt|Hge]; [right|left; lia].
    pose proof (c_uleb_size_spec psize ltac:(lia)) as Hs. cbn zeta in Hs. destruct Hs as [Hs1 [Hs2 _]].
    destruct (Z_lt_ge_dec 4 (c_uleb_size 10 psize)) as [|Hle]; [assumption|].
    assert (128 ^ c_uleb_size 10 psize <= 128 ^ 4) by (apply Z.pow_le_mono_r; lia). change (128 ^ 4) with (2 ^ 28) in *. lia. }
  rewrite E. reflexivity.
Qed.

Example c_finish_obu_example :
  c_finish_obu ([18; 0] ++ [7; 8; 9] ++ [0; 0; 0]) 2 3 = Some ([18; 0; 3; 7; 8; 9; 0; 0], 1).
Proof. vm_compute. reflexivity. Qed.
