(* C20 - disabled coding tools never appear, and the requested tiling is used.
   A verified monitor: the rules below are the specification (which observation must be zero when which switch is off);
   check_frame is proved equivalent to it, and the expected tile layout is a function of the frame size. *)
From Coq Require Import ZArith List Lia Bool.
Import ListNotations.
Local Open Scope Z_scope.

(* configuration switches (the value the application set) *)
Record cfg := mk_cfg { c_disable_dlf : Z; c_cdef_level : Z; c_restoration : Z; c_palette : Z; c_intrabc : Z; c_global_motion : Z; c_warped : Z;
                       c_obmc : Z; c_filter_intra : Z; c_disable_cfl : Z; c_inter_intra : Z; c_superres : Z; c_tile_cols_log2 : Z; c_tile_rows_log2 : Z }.
(* what the independent parse of one coded frame shows *)
Record obs := mk_obs { o_lf0 : Z; o_lf1 : Z; o_cdef_bits : Z; o_cdef_y : Z; o_cdef_uv : Z; o_lr0 : Z; o_lr1 : Z; o_lr2 : Z; o_pal : Z; o_ibc : Z; o_ibc_flag : Z;
                       o_gm : Z; o_warp : Z; o_obmc : Z; o_fintra : Z; o_cfl : Z; o_interintra : Z; o_sden : Z; o_fw : Z; o_upw : Z;
                       o_tcl : Z; o_trl : Z; o_tcols : Z; o_trows : Z; o_sb128 : Z; o_fh : Z }.

(* smallest k with 2^k >= n, for 1 <= n <= 64 *)
Definition ceil_log2 (n : Z) : Z :=
  if n <=? 1 then 0 else if n <=? 2 then 1 else if n <=? 4 then 2 else if n <=? 8 then 3 else if n <=? 16 then 4 else if n <=? 32 then 5 else 6.
Definition sb_count (pixels sb128 : Z) : Z := if sb128 =? 0 then (pixels + 63) / 64 else (pixels + 127) / 128.
(* uniform spacing: the requested log2 limited by the number of superblocks (at most 64 tiles per direction) *)
Definition expected_log2 (sbs req : Z) : Z := Z.min req (ceil_log2 (Z.min sbs 64)).
Definition expected_tiles (sbs req : Z) : Z :=
  let size := (sbs + 2 ^ expected_log2 sbs req - 1) / 2 ^ expected_log2 sbs req in (sbs + size - 1) / size.

(* the specification: (switch is off, pairs that must then be equal) *)
Definition rules (c : cfg) (o : obs) : list (bool * list (Z * Z)) :=
  [ (c_disable_dlf c =? 1, [(o_lf0 o, 0); (o_lf1 o, 0)]);
    (c_cdef_level c =? 0, [(o_cdef_bits o, 0); (o_cdef_y o, 0); (o_cdef_uv o, 0)]);
    (c_restoration c =? 0, [(o_lr0 o, 0); (o_lr1 o, 0); (o_lr2 o, 0)]);
    (c_palette c =? 0, [(o_pal o, 0)]);
    (c_intrabc c =? 0, [(o_ibc o, 0); (o_ibc_flag o, 0)]);
    (c_global_motion c =? 0, [(o_gm o, 0)]);
    (c_warped c =? 0, [(o_warp o, 0)]);
    (c_obmc c =? 0, [(o_obmc o, 0)]);
    (c_filter_intra c =? 0, [(o_fintra o, 0)]);
    (c_disable_cfl c =? 1, [(o_cfl o, 0)]);
    (c_inter_intra c =? 0, [(o_interintra o, 0)]);
    (c_superres c =? 0, [(o_sden o, 8); (o_upw o, o_fw o)]);
    (true, [(o_tcl o, expected_log2 (sb_count (o_upw o) (o_sb128 o)) (c_tile_cols_log2 c)); (o_tcols o, expected_tiles (sb_count (o_upw o) (o_sb128 o)) (c_tile_cols_log2 c));
            (o_trl o, expected_log2 (sb_count (o_fh o) (o_sb128 o)) (c_tile_rows_log2 c)); (o_trows o, expected_tiles (sb_count (o_fh o) (o_sb128 o)) (c_tile_rows_log2 c))]) ].

Definition frame_ok (c : cfg) (o : obs) : Prop := Forall (fun r => fst r = true -> Forall (fun p => fst p = snd p) (snd r)) (rules c o).
Definition rule_ok_b (r : bool * list (Z * Z)) : bool := negb (fst r) || forallb (fun p => fst p =? snd p) (snd r).
Definition check_frame (c : cfg) (o : obs) : bool := forallb rule_ok_b (rules c o).
Definition C20_spec (c : cfg) (frames : list obs) : Prop := Forall (frame_ok c) frames.
Definition check_c20 (c : cfg) (frames : list obs) : bool := forallb (check_frame c) frames.

(* index of the first rule a frame breaks (for the report) *)
Fixpoint first_bad (rs : list (bool * list (Z * Z))) (k : nat) : option nat :=
  match rs with [] => None | r :: t => if rule_ok_b r then first_bad t (S k) else Some k end.

Lemma rule_ok_b_spec r : rule_ok_b r = true <-> (fst r = true -> Forall (fun p => fst p = snd p) (snd r)).
Proof.
  unfold rule_ok_b. destruct (fst r); cbn [negb orb].
  - rewrite forallb_forall, Forall_forall. split; intros H; [intros _ p Hp; apply Z.eqb_eq; auto | intros p Hp; apply Z.eqb_eq; apply H; auto].
  - split; [intros _ H; discriminate | reflexivity].
Qed.

Theorem check_frame_sound c o : check_frame c o = true <-> frame_ok c o.
Proof.
  unfold check_frame, frame_ok. rewrite forallb_forall, Forall_forall. split; intros H r Hr; apply rule_ok_b_spec; apply H; exact Hr.
Qed.

Theorem check_c20_sound c frames : check_c20 c frames = true <-> C20_spec c frames.
Proof.
  unfold check_c20, C20_spec. rewrite forallb_forall, Forall_forall. split; intros H o Ho; apply check_frame_sound; apply H; exact Ho.
Qed.

(* what the tile rule means *)
Lemma ceil_log2_spec n : 1 <= n <= 64 -> n <= 2 ^ ceil_log2 n /\ (0 < ceil_log2 n -> 2 ^ (ceil_log2 n - 1) < n).
Proof. intros H. unfold ceil_log2. repeat match goal with |- context [if ?b then _ else _] => destruct b eqn:? end; cbn; lia. Qed.

(* the requested layout is used whenever the frame has at least that many superblocks and they divide evenly *)
Theorem requested_tiles_used sbs req : 0 <= req <= 6 -> 1 <= sbs -> (2 ^ req | sbs) -> expected_log2 sbs req = req /\ expected_tiles sbs req = 2 ^ req.
Proof.
  intros Hr Hs [q Hq].
  assert (Hp : 0 < 2 ^ req) by (apply Z.pow_pos_nonneg; lia).
  assert (Hq1 : 1 <= q) by nia.
  assert (E : expected_log2 sbs req = req).
  { unfold expected_log2. apply Z.min_l. destruct (Z_le_gt_dec sbs 64) as [Hle | Hgt].
    - rewrite Z.min_l by lia. destruct (ceil_log2_spec sbs ltac:(lia)) as [H1 _].
      destruct (Z_le_gt_dec req (ceil_log2 sbs)) as [|Hc]; [assumption|]. exfalso.
      assert (2 ^ ceil_log2 sbs < 2 ^ req) by (apply Z.pow_lt_mono_r; unfold ceil_log2 in *; repeat match goal with |- context [if ?b then _ else _] => destruct b end; lia). nia.
    - rewrite Z.min_r by lia. cbn. lia. }
  split; [exact E|]. unfold expected_tiles. rewrite E. subst sbs.
  replace (q * 2 ^ req + 2 ^ req - 1) with (q * 2 ^ req + (2 ^ req - 1)) by lia. rewrite Z.div_add_l by lia. rewrite (Z.div_small (2 ^ req - 1)) by lia.
  replace (q + 0) with q by lia. replace (q * 2 ^ req + q - 1) with (2 ^ req * q + (q - 1)) by lia. rewrite Z.div_add_l by lia. rewrite (Z.div_small (q - 1)) by lia. lia.
Qed.

Example tiles_example : expected_log2 3 1 = 1 /\ expected_tiles 3 1 = 2 /\ expected_log2 2 3 = 1 /\ expected_tiles 2 3 = 2 /\ expected_tiles 5 2 = 3 /\ expected_log2 1 2 = 0.
Proof. repeat split; reflexivity. Qed.
