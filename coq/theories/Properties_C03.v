(* C03 — one packet per submitted picture, in submission order, with timestamps and EOS.
   (i) the verified monitor that decides the property on a real history; (ii) the ordering theorem for
   the mechanism (hierarchical decode order + undisplayed-frame stack => packets in display order, every
   hierarchy depth, every stream length in whole mini-GOPs). Statements only. *)
From Coq Require Import ZArith List Bool.
From SV Require Import Monitors PackOrder.
Import ListNotations.
Local Open Scope Z_scope.

Theorem c03_monitor_sound : forall n base step packets recon,
  check_c03 n base step packets recon = true <-> C03_spec n base step packets recon.
Proof. exact check_c03_sound. Qed.

(* what acceptance by the monitor means, position by position *)
Theorem c03_accepted_means : forall n base step packets recon k,
  C03_spec n base step packets recon -> (k < n)%nat ->
  exists p, nth_error packets k = Some p /\ p_pts p = base + step * Z.of_nat k /\ p_dts p = p_pts p /\
            (p_eos p = true <-> k = (n - 1)%nat).
Proof. exact C03_nth. Qed.

Theorem c03_accepted_count : forall n base step packets recon,
  C03_spec n base step packets recon -> length packets = n.
Proof. exact C03_count. Qed.

(* the packetization mechanism: frames arriving in hierarchical decode order, non-shown frames parked on the
   undisplayed stack and released by show-existing, leave in display order - for every hierarchy depth l and
   every number n of whole mini-GOPs *)
Theorem c03_mechanism_in_display_order : forall l n a out,
  prun (stream l n a) ([], out) = ([], out ++ seq (a + 1) (n * 2 ^ l)).
Proof. exact stream_in_order. Qed.
