From Coq Require Import ZArith Lia List Bool.
Import ListNotations.
Local Open Scope Z_scope.

(* svt_aom_uleb_encode: low 7 bits first, bit 7 = "more bytes follow" *)
Fixpoint leb_enc (fuel : nat) (n : Z) : list Z :=
  match fuel with
  | O => []
  | S f => if n <? 128 then [n] else (n mod 128 + 128) :: leb_enc f (n / 128)
  end.

(* dec_get_bits_leb128: at most 8 bytes; value |= (byte & 0x7f) << (7*i); stop at a byte without bit 7.
   Returns value, number of bytes consumed, remaining bytes; None on truncation or a 9th continuation byte. *)
Fixpoint leb_dec (fuel : nat) (shift : Z) (bs : list Z) : option (Z * list Z) :=
  match fuel with
  | O => None
  | S f => match bs with
           | [] => None
           | b :: rest =>
               let v := (b mod 128) * 2 ^ shift in
               if b <? 128 then Some (v, rest)
               else match leb_dec f (shift + 7) rest with
                    | Some (v', rest') => Some (v + v', rest')
                    | None => None
                    end
           end
  end.

Lemma leb_roundtrip_gen fuel : forall n shift rest, (1 <= fuel)%nat -> 0 <= n < 128 ^ Z.of_nat fuel -> 0 <= shift ->
  leb_dec fuel shift (leb_enc fuel n ++ rest) = Some (n * 2 ^ shift, rest).
Proof.
  induction fuel as [|f IH]; intros n shift rest Hf Hn Hs; [lia|].
  cbn [leb_enc]. destruct (Z.ltb_spec n 128) as [Hlt|Hge].
  - cbn [app leb_dec]. destruct (Z.ltb_spec n 128); [|lia]. rewrite Z.mod_small by lia. reflexivity.
  - cbn [app leb_dec].
    pose proof (Z.mod_pos_bound n 128 ltac:(lia)) as Hm.
    destruct (Z.ltb_spec (n mod 128 + 128) 128); [lia|].
    assert (Hq: 0 <= n / 128 < 128 ^ Z.of_nat f).
    { split; [apply Z.div_pos; lia|]. apply Z.div_lt_upper_bound; [lia|].
      replace (Z.of_nat (S f)) with (Z.of_nat f + 1) in Hn by lia.
      rewrite Z.pow_add_r in Hn by lia. lia. }
    assert (Hf1: (1 <= f)%nat).
    { destruct f; [|lia]. cbn in Hq. assert (n / 128 = 0) by lia.
      pose proof (Z.div_mod n 128 ltac:(lia)). lia. }
    rewrite (IH (n / 128) (shift + 7) rest Hf1 Hq ltac:(lia)).
    f_equal. f_equal.
    replace ((n mod 128 + 128) mod 128) with (n mod 128).
    2:{ rewrite <- Z.add_mod_idemp_r by lia. rewrite Z.mod_same by lia. rewrite Z.add_0_r.
        rewrite Z.mod_mod by lia. reflexivity. }
    rewrite Z.pow_add_r by lia. change (2 ^ 7) with 128.
    pose proof (Z.div_mod n 128 ltac:(lia)). nia.
Qed.

(* the property as used by the OBU layer: any size below 2^56 survives, in at most 8 bytes, whatever follows *)
Theorem leb128_roundtrip n rest : 0 <= n < 2 ^ 56 ->
  leb_dec 8 0 (leb_enc 8 n ++ rest) = Some (n, rest).
Proof.
  intros Hn. rewrite (leb_roundtrip_gen 8 n 0 rest); [f_equal; f_equal; lia|lia| |lia].
  change (128 ^ Z.of_nat 8) with (2 ^ 56). exact Hn.
Qed.

Lemma leb_enc_length fuel n : (length (leb_enc fuel n) <= fuel)%nat.
Proof. revert n. induction fuel as [|f IH]; intros n; cbn; [lia|]. destruct (n <? 128); cbn; [lia|]. specialize (IH (n / 128)). lia. Qed.

Lemma leb_enc_bytes fuel : forall n, 0 <= n -> Forall (fun b => 0 <= b < 256) (leb_enc fuel n).
Proof.
  induction fuel as [|f IH]; intros n Hn; cbn; [constructor|].
  destruct (Z.ltb_spec n 128); [constructor; [lia|constructor]|].
  constructor; [pose proof (Z.mod_pos_bound n 128 ltac:(lia)); lia|]. apply IH. apply Z.div_pos; lia.
Qed.
Print Assumptions leb128_roundtrip.
