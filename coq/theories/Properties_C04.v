(* C04 — deterministic under every thread interleaving. The pipeline is a network of stages connected by the system
   resource manager's FIFOs and by reorder queues. Proved here / imported: objects come out of a single-consumer FIFO in
   posting order for every interleaving (Properties_C23), every superblock sees the same completed neighbours under every
   interleaving of the EncDec workers (Properties_C24), and a reorder queue releases in numeric order for every arrival
   order (below). One multi-producer FIFO does not commute: the rate-control task queue receives packetization feedback
   in arrival order, which is why one-pass VBR / CVBR output is schedule dependent (known finding). *)
From Coq Require Import Arith List Bool.
From SV Require Import Reorder.
Import ListNotations.

Theorem c04_reorder_confluent : forall (D : nat), 0 < D -> forall (V : Type) (val : nat -> V) (N : nat) (arr1 arr2 : list nat),
  NoDup arr1 -> (forall n, In n arr1 <-> n < N) -> in_window D V val (q0 V) arr1 ->
  NoDup arr2 -> (forall n, In n arr2 <-> n < N) -> in_window D V val (q0 V) arr2 ->
  fst (run D V val (q0 V) arr1) = fst (run D V val (q0 V) arr2).
Proof.
  intros D HD V val N arr1 arr2 H1 H2 H3 H4 H5 H6.
  destruct (reorder_in_order D HD V val N arr1 H1 H2 H3) as [E1 _].
  destruct (reorder_in_order D HD V val N arr2 H4 H5 H6) as [E2 _].
  congruence.
Qed.
