(* Surplus releases: an object that went back to its pool by its last release carries EB_ObjectWrapperReleasedValue in
   live_count, and svt_release_object only pushes on the transition to 0.  Theorems over the ring-layer model SRMring
   (the one run in lockstep with EbSystemResourceManager.c): any number (below 2^32 - 2) of further releases of that wrapper
   leaves both queues untouched, so the object is neither duplicated in the pool nor handed to two holders. *)
From Coq Require Import ZArith List Bool Lia Arith.
From SV Require Import SRMring.
Import ListNotations.
Local Open Scope Z_scope.

Lemma nth_error_set_nth_same {A} (l : list A) : forall i x, (i < length l)%nat -> nth_error (set_nth l i x) i = Some x.
Proof.
  intros i x Hi. unfold set_nth. destruct (Nat.ltb_spec i (length l)) as [_|Hge]; [|lia].
  rewrite nth_error_app2 by (rewrite firstn_length; lia).
  rewrite firstn_length, Nat.min_l by lia. rewrite Nat.sub_diag. reflexivity.
Qed.

Lemma set_nth_length' {A} (l : list A) i x : length (set_nth l i x) = length l.
Proof.
  unfold set_nth. destruct (Nat.ltb_spec i (length l)) as [Hlt|Hge]; [|reflexivity].
  rewrite app_length. cbn [length]. rewrite firstn_length, skipn_length. lia.
Qed.

(* one release of a wrapper whose count is above 1 (in particular: the released marker) only decrements the count *)
Theorem release_above_one_keeps_queues s x w : nth_error (wraps s) x = Some w -> 1 < live w ->
  step s (Release x) = ({| emptyq := emptyq s; fullq := fullq s; wraps := set_nth (wraps s) x {| live := live w - 1; ren := ren w |} |}, RNone).
Proof.
  intros Hw Hl. cbn [step]. rewrite Hw.
  destruct (Z.eqb_spec (live w) 0) as [E|_]; [lia|].
  destruct (Z.eqb_spec (live w - 1) 0) as [E|_]; [lia|].
  rewrite andb_false_r. reflexivity.
Qed.

(* the last release (count 1 -> 0, or 0 with release enabled) is the only one that pushes, and it leaves the marker behind *)
Theorem last_release_sets_marker s x w : nth_error (wraps s) x = Some w -> 0 <= live w <= 1 -> ren w = true ->
  nth_error (wraps (fst (step s (Release x)))) x = Some {| live := released_marker; ren := true |}.
Proof.
  intros Hw Hl Hr. cbn [step]. rewrite Hw, Hr.
  assert (Hx : (x < length (wraps s))%nat) by (apply nth_error_Some; congruence).
  destruct (Z.eqb_spec (live w) 0) as [E|E].
  - cbn [andb Z.eqb fst wraps]. apply nth_error_set_nth_same; exact Hx.
  - destruct (Z.eqb_spec (live w - 1) 0) as [_|E2]; [|lia].
    cbn [andb fst wraps]. apply nth_error_set_nth_same; exact Hx.
Qed.

Fixpoint releases (n : nat) (s : sys) (x : nat) : sys :=
  match n with O => s | S k => releases k (fst (step s (Release x))) x end.

Theorem surplus_releases_keep_queues n : forall s x w, nth_error (wraps s) x = Some w -> Z.of_nat n < live w ->
  emptyq (releases n s x) = emptyq s /\ fullq (releases n s x) = fullq s /\
  exists w', nth_error (wraps (releases n s x)) x = Some w' /\ live w' = live w - Z.of_nat n.
Proof.
  induction n as [|k IH]; intros s x w Hw Hl; cbn [releases].
  - repeat split; try reflexivity. exists w. split; [exact Hw | lia].
  - rewrite (release_above_one_keeps_queues s x w Hw ltac:(lia)). cbn [fst].
    assert (Hx : (x < length (wraps s))%nat) by (apply nth_error_Some; congruence).
    set (s1 := {| emptyq := emptyq s; fullq := fullq s; wraps := set_nth (wraps s) x {| live := live w - 1; ren := ren w |} |}).
    destruct (IH s1 x {| live := live w - 1; ren := ren w |}) as [He [Hf [w' [Hw' Hl']]]].
    + subst s1. cbn [wraps]. apply nth_error_set_nth_same; exact Hx.
    + cbn [live]. lia.
    + split; [rewrite He; reflexivity|]. split; [rewrite Hf; reflexivity|].
      exists w'. split; [exact Hw'|]. rewrite Hl'. cbn [live]. lia.
Qed.

(* the property as used: after the release that returned the object, up to 2^32 - 2 surplus releases change neither queue *)
Theorem released_object_is_protected s x w n : nth_error (wraps s) x = Some w -> 0 <= live w <= 1 -> ren w = true ->
  Z.of_nat n < released_marker ->
  let s1 := fst (step s (Release x)) in
  emptyq (releases n s1 x) = emptyq s1 /\ fullq (releases n s1 x) = fullq s1.
Proof.
  intros Hw Hl Hr Hn s1.
  pose proof (last_release_sets_marker s x w Hw Hl Hr) as Hm. fold s1 in Hm.
  destruct (surplus_releases_keep_queues n s1 x _ Hm) as [He [Hf _]]; [cbn [live]; exact Hn|].
  split; assumption.
Qed.

(* non-vacuity: one object, one producer; hand out, release (back to the pool), release twice more: the pool holds it once *)
Example surplus_release_example :
  let s0 := sys_new 1 1 0 in
  let s1 := fst (step s0 (Release 0)) in
  oq (emptyq (releases 2 s1 0)) = oq (emptyq s1).
Proof. vm_compute. reflexivity. Qed.
