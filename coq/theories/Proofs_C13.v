(* C13: the defaults written by svt_svt_enc_init_parameter (regenerated model) do not depend on the caller's
   prior memory, and with any valid picture size they pass the (regenerated) validation. *)
From Coq Require Import ZArith Bool List Lia ZifyBool.
From SV Require Import CInt DocDomain Proofs_C12.
From SVG Require Import VerifyGen DefaultsGen.
Import ListNotations.
Local Open Scope Z_scope.

Lemma init_param_independent c1 c2 : init_param c1 = init_param c2.
Proof. reflexivity. Qed.

Lemma no_unassigned_cells : unassigned_cells = [].
Proof. reflexivity. Qed.

(* the defaults with the caller's picture size filled in *)
Definition with_size (c : config) (w h : Z) : config :=
  config_of_list (map (fun iv => if Nat.eqb (fst iv) 5 then w else if Nat.eqb (fst iv) 6 then h else snd iv)
                      (combine (seq 0 (length (config_to_list c))) (config_to_list c))).

Definition zero_config : config := config_of_list [].
Definition defaults : config := init_param zero_config.

Lemma size_cells : f_source_width (with_size defaults 640 480) = 640 /\ f_source_height (with_size defaults 640 480) = 480.
Proof. vm_compute. split; reflexivity. Qed.

Lemma defaults_accepted_examples :
  forallb (fun wh => negb (sp_rejects (with_size defaults (fst wh) (snd wh)) defaults) && sp_in_scope (with_size defaults (fst wh) (snd wh)) defaults)
          [(64, 64); (66, 64); (640, 480); (1280, 720); (1920, 1080); (3840, 2160); (4096, 2160); (4096, 64); (64, 2160)] = true.
Proof. vm_compute. reflexivity. Qed.

(* ---- every valid picture size ----
   s0 = the effective configuration (what copy_api_from_app leaves in the sequence control set) for the defaults at 64x64;
   the effective configuration for any other size differs only in the two size cells (eff_size: both sides are normalised by
   the kernel with w, h symbolic), and the documented domain / the validation (Proofs_C12) depend on them as stated. *)
Definition s0 : config := Eval vm_compute in effective (with_size defaults 64 64) defaults.
Lemma eff_size w h : effective (with_size defaults w h) defaults = with_size s0 (wrapU 16 w) (wrapU 16 h).
Proof. vm_cast_no_check (eq_refl (with_size s0 (wrapU 16 w) (wrapU 16 h))). Qed.   (* one VM conversion, checked by the kernel at Qed *)

Lemma sized_documented W H : 64 <= W <= 4096 -> 64 <= H <= 2160 -> Z.rem W 2 = 0 -> Z.rem H 2 = 0 ->
  documented (with_size s0 W H) = true.
Proof.
  intros Hw Hh Ew Eh. unfold documented.
  cbv -[Z.leb Z.ltb Z.eqb Z.geb Z.gtb Z.rem wrapU wrapS Z.land Z.shiftl Z.add Z.mul Z.sub forallb andb].
  cbn [forallb].
  repeat (apply andb_true_intro; split).
  all: try (vm_compute; reflexivity).
  all: rewrite ?Ew, ?Eh.
  all: repeat match goal with |- context [if ?b then _ else _] => destruct b eqn:? end; try lia.
Qed.

Lemma sized_in_type W H : 0 <= W <= 4294967295 -> 0 <= H <= 4294967295 -> in_type (with_size s0 W H).
Proof.
  intros Hw Hh. unfold in_type.
  cbv -[Z.le Z.lt Z.leb Z.ltb Z.eqb Z.geb Z.gtb Z.rem wrapU wrapS Z.land Z.shiftl Z.add Z.mul Z.sub].
  repeat split; try lia.
Qed.

Lemma scope_all w h : sp_in_scope (with_size defaults w h) defaults = true.
Proof. vm_compute. reflexivity. Qed.

Lemma defaults_accepted_all w h : 64 <= w <= 4096 -> 64 <= h <= 2160 -> Z.rem w 2 = 0 -> Z.rem h 2 = 0 ->
  sp_rejects (with_size defaults w h) defaults = false /\ sp_in_scope (with_size defaults w h) defaults = true.
Proof.
  intros Hw Hh Ew Eh. split; [|apply scope_all].
  unfold sp_rejects. rewrite eff_size.
  rewrite !wrapU_id by lia.
  rewrite rejects_iff_not_documented by (apply sized_in_type; lia).
  rewrite sized_documented by assumption. reflexivity.
Qed.
