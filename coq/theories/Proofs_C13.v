(* C13: the defaults written by svt_svt_enc_init_parameter (regenerated model) do not depend on the caller's
   prior memory, and with any valid picture size they pass the (regenerated) validation. *)
From Coq Require Import ZArith Bool List Lia ZifyBool.
From SV Require Import CInt.
From SVG Require Import VerifyGen DefaultsGen.
Import ListNotations.
Local Open Scope Z_scope.

Lemma init_param_independent c1 c2 : init_param c1 = init_param c2.
Proof. reflexivity. Qed.

Lemma no_unassigned_cells : unassigned_cells = [].
Proof. reflexivity. Qed.

(* the defaults with the caller's picture size filled in *)
Definition with_size (c : config) (w h : Z) : config :=
  config_of_list (map (fun iv => if Nat.eqb (fst iv) 5 then w else if Nat.eqb (fst iv) 6 then h else snd iv)
                      (combine (seq 0 (length (config_to_list c))) (config_to_list c))).

Definition zero_config : config := config_of_list [].
Definition defaults : config := init_param zero_config.

Lemma size_cells : f_source_width (with_size defaults 640 480) = 640 /\ f_source_height (with_size defaults 640 480) = 480.
Proof. vm_compute. split; reflexivity. Qed.

Lemma defaults_accepted_examples :
  forallb (fun wh => negb (sp_rejects (with_size defaults (fst wh) (snd wh)) defaults) && sp_in_scope (with_size defaults (fst wh) (snd wh)) defaults)
          [(64, 64); (66, 64); (640, 480); (1280, 720); (1920, 1080); (3840, 2160); (4096, 2160); (4096, 64); (64, 2160)] = true.
Proof. vm_compute. reflexivity. Qed.
