(* C23 / C04 - guarded access: LockFlow's analysis with one more statement, [Touch] = an access to state that is shared between
   threads (queue operations, reference counts): it needs some mutex held. Same language, checker and soundness proof otherwise.
   Used on the skeletons of EbSystemResourceManager.c (gen/GuardGen.v): the atomicity the C23 model assumes for its steps - every
   queue operation of an API function happens inside that function's critical section - is decided here for every path.
   Original header: lock discipline of a function, decided on its control-flow skeleton.
   The skeletons (gen/LockGen.v) are regenerated from the C sources on every run: which mutex is taken / released where, the
   branching, loops, breaks and returns around them. The checker below is proved sound for every execution path - any branch
   choices, any number of loop iterations: a function it accepts returns with every mutex it took released, never takes a mutex
   it already holds and never releases one it does not hold. *)
From Coq Require Import Arith List Bool Lia.
Import ListNotations.

Inductive stmt :=
| Skip | Lock (m : nat) | Unlock (m : nat) | Ret | Brk
| Seq (a b : stmt) | If (a b : stmt) | Loop (body : stmt) | Touch
| TouchM (m : nat).   (* an access that, when it happens inside a critical section at all, must be inside the one of mutex m *)

Definition held := list nat.
Inductive outcome := Normal (h : held) | Returned (h : held) | Broke (h : held) | Fault.

Definition memb (m : nat) (h : held) : bool := existsb (Nat.eqb m) h.
Definition drop (m : nat) (h : held) : held := remove Nat.eq_dec m h.

(* every execution path of a statement *)
Inductive exec : stmt -> held -> outcome -> Prop :=
| e_skip h : exec Skip h (Normal h)
| e_lock m h : memb m h = false -> exec (Lock m) h (Normal (m :: h))
| e_relock m h : memb m h = true -> exec (Lock m) h Fault
| e_unlock m h : memb m h = true -> exec (Unlock m) h (Normal (drop m h))
| e_unheld m h : memb m h = false -> exec (Unlock m) h Fault
| e_ret h : exec Ret h (Returned h)
| e_brk h : exec Brk h (Broke h)
| e_seq a b h h' o : exec a h (Normal h') -> exec b h' o -> exec (Seq a b) h o
| e_seq_stop a b h o : exec a h o -> (forall h', o <> Normal h') -> exec (Seq a b) h o
| e_if_l a b h o : exec a h o -> exec (If a b) h o
| e_if_r a b h o : exec b h o -> exec (If a b) h o
| e_loop_exit body h : exec (Loop body) h (Normal h)
| e_loop_iter body h h' o : exec body h (Normal h') -> exec (Loop body) h' o -> exec (Loop body) h o
| e_loop_brk body h h' : exec body h (Broke h') -> exec (Loop body) h (Normal h')
| e_loop_ret body h h' : exec body h (Returned h') -> exec (Loop body) h (Returned h')
| e_loop_fault body h : exec body h Fault -> exec (Loop body) h Fault
| e_touch h : h <> [] -> exec Touch h (Normal h)
| e_touch_bare : exec Touch [] Fault
| e_touchm h m : h = [] \/ memb m h = true -> exec (TouchM m) h (Normal h)
| e_touchm_other h m : h <> [] -> memb m h = false -> exec (TouchM m) h Fault.

(* the sets of mutexes held, compared as sets written in the order of acquisition *)
Fixpoint held_eqb (a b : held) : bool :=
  match a, b with [] , [] => true | x :: a', y :: b' => Nat.eqb x y && held_eqb a' b' | _, _ => false end.
Lemma held_eqb_eq a : forall b, held_eqb a b = true -> a = b.
Proof. induction a as [|x a IH]; intros [|y b] H; cbn in H; try discriminate; [reflexivity|]. apply andb_true_iff in H as [H1 H2]. apply Nat.eqb_eq in H1. f_equal; auto. Qed.

(* result of the analysis: the unique held set on normal exit (None = no normal exit), the unique held set at a break (None = no break) *)
Definition merge (a b : option held) : option (option held) :=
  match a, b with
  | None, x | x, None => Some x
  | Some x, Some y => if held_eqb x y then Some (Some x) else None
  end.

Fixpoint chk (s : stmt) (h : held) : option (option held * option held) :=
  match s with
  | Skip => Some (Some h, None)
  | Lock m => if memb m h then None else Some (Some (m :: h), None)
  | Unlock m => if memb m h then Some (Some (drop m h), None) else None
  | Ret => match h with [] => Some (None, None) | _ => None end
  | Brk => Some (None, Some h)
  | Seq a b =>
      match chk a h with
      | Some (Some h', ba) =>
          match chk b h' with
          | Some (nb, bb) => match merge ba bb with Some br => Some (nb, br) | None => None end
          | None => None
          end
      | Some (None, ba) => Some (None, ba)
      | None => None
      end
  | If a b =>
      match chk a h, chk b h with
      | Some (na, ba), Some (nb, bb) =>
          match merge na nb, merge ba bb with Some n, Some br => Some (n, br) | _, _ => None end
      | _, _ => None
      end
  | Loop body =>
      match chk body h with
      | Some (n, br) =>
          (* the loop head state is an invariant: the body ends, and breaks, with the entry set *)
          let ok o := match o with None => true | Some x => held_eqb x h end in
          if ok n && ok br then Some (Some h, None) else None
      | None => None
      end
  | Touch => match h with [] => None | _ => Some (Some h, None) end
  | TouchM m => match h with [] => Some (Some h, None) | _ => if memb m h then Some (Some h, None) else None end
  end.

Definition fn_ok (body : stmt) : bool :=
  match chk body [] with
  | Some (None, None) => true
  | Some (Some [], None) => true
  | _ => false
  end.

Lemma merge_l a b r x : merge a b = Some r -> a = Some x -> r = Some x.
Proof. intros H ->. destruct b as [y|]; cbn in H; [destruct (held_eqb x y); congruence | congruence]. Qed.
Lemma merge_r a b r y : merge a b = Some r -> b = Some y -> r = Some y.
Proof. intros H ->. destruct a as [x|]; cbn in H; [destruct (held_eqb x y) eqn:E; [apply held_eqb_eq in E; congruence | discriminate] | congruence]. Qed.

Definition body_good (h : held) (o : outcome) : Prop :=
  match o with Normal h' => h' = h | Returned h' => h' = [] | Broke h' => h' = h | Fault => False end.
Definition loop_good (h : held) (o : outcome) : Prop :=
  match o with Normal h' => h' = h | Returned h' => h' = [] | Broke _ => False | Fault => False end.

Lemma loop_sound body : forall L h o, exec L h o -> L = Loop body -> (forall o', exec body h o' -> body_good h o') -> loop_good h o.
Proof.
  intros L h o He. induction He; intros EL Hb; try discriminate; injection EL as ->.
  - reflexivity.
  - pose proof (Hb _ He1) as H1. cbn in H1. subst h'. apply IHHe2; auto.
  - pose proof (Hb _ He) as H1. cbn in H1. subst h'. reflexivity.
  - pose proof (Hb _ He) as H1. cbn in H1. subst h'. reflexivity.
  - pose proof (Hb _ He) as H1. cbn in H1. contradiction.
Qed.

(* soundness: for every execution path *)
Theorem chk_sound s : forall h n br o, chk s h = Some (n, br) -> exec s h o ->
  match o with
  | Normal h' => n = Some h'
  | Returned h' => h' = []
  | Broke h' => br = Some h'
  | Fault => False
  end.
Proof.
  induction s as [| m | m | | | a IHa b IHb | a IHa b IHb | body IH | | m ]; intros h n br o Hc He.
  - inversion He; subst. cbn in Hc |- *. congruence.
  - cbn [chk] in Hc. inversion He; subst; rewrite H0 in Hc; [inversion Hc; reflexivity | discriminate].
  - cbn [chk] in Hc. inversion He; subst; rewrite H0 in Hc; [inversion Hc; reflexivity | discriminate].
  - inversion He; subst. cbn in Hc |- *. destruct h; [reflexivity | discriminate].
  - inversion He; subst. cbn in Hc |- *. congruence.
  - cbn in Hc. destruct (chk a h) as [[[ha|] ba]|] eqn:Ea; try discriminate.
    + destruct (chk b ha) as [[nb bb]|] eqn:Eb; try discriminate. destruct (merge ba bb) as [brr|] eqn:Em; try discriminate. injection Hc as <- <-.
      inversion He; subst.
      * pose proof (IHa _ _ _ _ Ea H1) as Ha. cbn in Ha. injection Ha as <-. pose proof (IHb _ _ _ _ Eb H4) as Hb.
        destruct o; auto. eapply merge_r; eauto.
      * pose proof (IHa _ _ _ _ Ea H1) as Ha. destruct o; auto; [exfalso; eapply H4; reflexivity | eapply merge_l; eauto].
    + injection Hc as <- <-. inversion He; subst.
      * pose proof (IHa _ _ _ _ Ea H1) as Ha. cbn in Ha. discriminate.
      * pose proof (IHa _ _ _ _ Ea H1) as Ha. destruct o; auto; try (exfalso; eapply H4; reflexivity); try discriminate.
  - cbn in Hc. destruct (chk a h) as [[na ba]|] eqn:Ea; try discriminate. destruct (chk b h) as [[nb bb]|] eqn:Eb; try discriminate.
    destruct (merge na nb) as [nn|] eqn:En; try discriminate. destruct (merge ba bb) as [bbr|] eqn:Eb2; try discriminate. injection Hc as <- <-.
    inversion He; subst.
    + pose proof (IHa _ _ _ _ Ea H3) as Ha. destruct o; auto; eapply merge_l; eauto.
    + pose proof (IHb _ _ _ _ Eb H3) as Hb. destruct o; auto; eapply merge_r; eauto.
  - cbn in Hc. destruct (chk body h) as [[nb bb]|] eqn:Eb; try discriminate.
    destruct ((match nb with None => true | Some x => held_eqb x h end) && (match bb with None => true | Some x => held_eqb x h end)) eqn:Eok; try discriminate.
    injection Hc as <- <-. apply andb_true_iff in Eok as [Ok1 Ok2].
    assert (Hb : forall o', exec body h o' -> body_good h o').
    { intros o' He'. pose proof (IH _ _ _ _ Eb He') as S. destruct o'; cbn in S |- *; auto.
      - subst nb. apply held_eqb_eq in Ok1. exact Ok1.
      - subst bb. apply held_eqb_eq in Ok2. exact Ok2. }
    pose proof (loop_sound body _ _ _ He eq_refl Hb) as G. destruct o; cbn in G |- *; auto; try contradiction. congruence.
  - cbn [chk] in Hc. inversion He; subst.
    + destruct h as [|x t]; [exfalso; match goal with H : [] <> [] |- _ => apply H; reflexivity end|]. inversion Hc; reflexivity.
    + discriminate.
  - cbn [chk] in Hc. inversion He; subst.
    + destruct h as [|x t]; [inversion Hc; reflexivity|]. destruct (memb m (x :: t)); [inversion Hc; reflexivity | discriminate].
    + destruct h as [|x t]; [exfalso; match goal with H : [] <> [] |- _ => apply H; reflexivity end|].
      match goal with H : memb m (x :: t) = false |- _ => rewrite H in Hc end. discriminate.
Qed.

(* a function the checker accepts: every path that returns, or falls off the end, holds nothing; no path faults or breaks out *)
Theorem fn_ok_sound body o : fn_ok body = true -> exec body [] o ->
  o = Normal [] \/ o = Returned [].
Proof.
  unfold fn_ok. intros H He. destruct (chk body []) as [[n br]|] eqn:E; try discriminate.
  pose proof (chk_sound _ _ _ _ _ E He) as S.
  destruct n as [[|x t]|]; destruct br; try discriminate; destruct o; cbn in S; try contradiction; try discriminate; subst; auto; injection S as <-; auto.
Qed.

(* every access on every path happens with a mutex held: a Touch that executes never sees the empty set *)
Theorem touch_guarded body : fn_ok body = true -> forall o, exec body [] o -> o <> Fault.
Proof. intros H o He. destruct (fn_ok_sound body o H He) as [-> | ->]; discriminate. Qed.

(* non-vacuity: a queue operation moved behind the unlock is rejected, the original order is accepted *)
Example narrowed_section_rejected : fn_ok (Seq (Lock 0) (Seq (Unlock 0) Touch)) = false.
Proof. reflexivity. Qed.
Example wrong_mutex_rejected : fn_ok (Seq (Lock 0) (Seq (TouchM 1) (Unlock 0))) = false.
Proof. reflexivity. Qed.
Example guarded_accepted : fn_ok (Seq (Lock 0) (Seq Touch (Seq (Loop (Seq Touch (Seq (Lock 1) (Seq Touch (Unlock 1))))) (Unlock 0)))) = true.
Proof. reflexivity. Qed.
