(* C23 executable model of EbSystemResourceManager.c at the data-structure ("ring") layer:
   circular buffers with head/tail/NULL-slot emptiness test, per-process FIFOs with a
   counting semaphore and quit flag, wrappers with live_count / release_enable, and the
   atomic steps (= critical sections) the API functions are made of.
   Definitions only. The deque-layer proofs are in SRM.v / SRMorder.v, the ring/deque
   refinement in Proofs_C23.v; tools/checks/c23.py runs this model step for step
   against the real C code. *)
From Coq Require Import ZArith List Bool Arith.
Import ListNotations.

Definition set_nth {A} (l : list A) (i : nat) (x : A) : list A :=
  if i <? length l then firstn i l ++ x :: skipn (S i) l else l.

(* ---- EbCircularBuffer ---- *)
Record ring := { arr : list (option nat); head : nat; tail : nat; cnt : Z }.
Definition cap (r : ring) : nat := length (arr r).
Definition ring_new (n : nat) : ring := {| arr := repeat None n; head := 0; tail := 0; cnt := 0 |}.
Definition slot (r : ring) (i : nat) : option nat := nth i (arr r) None.
Definition ring_empty (r : ring) : bool :=
  (head r =? tail r) && (match slot r (head r) with None => true | Some _ => false end).
Definition next_idx (r : ring) (i : nat) : nat := if i =? cap r - 1 then 0 else S i.
Definition prev_idx (r : ring) (i : nat) : nat := if i =? 0 then cap r - 1 else i - 1.
Definition pop_front (r : ring) : option nat * ring :=
  (slot r (head r), {| arr := set_nth (arr r) (head r) None; head := next_idx r (head r); tail := tail r; cnt := (cnt r - 1)%Z |}).
Definition push_back (r : ring) (x : nat) : ring :=
  {| arr := set_nth (arr r) (tail r) (Some x); head := head r; tail := next_idx r (tail r); cnt := (cnt r + 1)%Z |}.
Definition push_front (r : ring) (x : nat) : ring :=
  let h := prev_idx r (head r) in
  {| arr := set_nth (arr r) h (Some x); head := h; tail := tail r; cnt := (cnt r + 1)%Z |}.

(* ---- EbFifo ---- *)
Record fifo := { items : list nat; sem : Z; quit : bool }.
Definition fifo0 : fifo := {| items := []; sem := 0; quit := false |}.

(* ---- EbMuxingQueue ---- *)
Record mq := { oq : ring; pq : ring; fifos : list fifo }.
Definition mq_new (nobj nproc : nat) : mq := {| oq := ring_new nobj; pq := ring_new nproc; fifos := repeat fifo0 nproc |}.

Definition give (fs : list fifo) (f o : nat) : list fifo :=
  match nth_error fs f with
  | Some x => set_nth fs f {| items := items x ++ [o]; sem := (sem x + 1)%Z; quit := quit x |}
  | None => fs
  end.

(* svt_muxing_queue_assignation; fuel = an upper bound on the iterations (never reached: see Proofs_C23) *)
Fixpoint assign (fuel : nat) (q : mq) : mq :=
  match fuel with
  | O => q
  | S k =>
    if ring_empty (oq q) || ring_empty (pq q) then q
    else let '(p, pq') := pop_front (pq q) in
         let '(o, oq') := pop_front (oq q) in
         match p, o with
         | Some f, Some x => assign k {| oq := oq'; pq := pq'; fifos := give (fifos q) f x |}
         | _, _ => {| oq := oq'; pq := pq'; fifos := fifos q |}   (* NULL dereference in the C *)
         end
  end.
Definition fuel_of (q : mq) : nat := S (cap (oq q) + cap (pq q)).
Definition assignation (q : mq) : mq := assign (fuel_of q) q.

(* ---- EbObjectWrapper / EbSystemResource ---- *)
Definition released_marker : Z := 4294967295%Z.     (* EB_ObjectWrapperReleasedValue = ~0u *)
Record wrap := { live : Z; ren : bool }.
Record sys := { emptyq : mq; fullq : option mq; wraps : list wrap }.

Fixpoint fill (q : mq) (n k : nat) : mq :=   (* push objects k, k+1, ... (n of them) *)
  match n with O => q | S n' => fill (assignation {| oq := push_back (oq q) k; pq := pq q; fifos := fifos q |}) n' (S k) end.

Definition sys_new (nobj nprod ncons : nat) : sys :=
  {| emptyq := fill (mq_new nobj nprod) nobj 0;
     fullq := if ncons =? 0 then None else Some (mq_new nobj ncons);
     wraps := repeat {| live := 0%Z; ren := true |} nobj |}.

Inductive sop :=
| RelProcE (f : nat) | RelProcF (f : nat)        (* svt_release_process on a producer / consumer fifo *)
| SemWaitE (f : nat) | SemWaitF (f : nat)        (* svt_block_on_semaphore, enabled iff count > 0 *)
| PopE (f : nat) | PopF (f : nat)                (* the locked pop of get_empty / get_full *)
| PeekF (f : nat)                                (* the locked peek of get_full_non_blocking *)
| Post (o : nat) | Release (o : nat) | IncLive (o : nat) (n : Z) | Enable (o : nat) | Disable (o : nat)
| Shutdown.

Inductive res := RNone | RObj (o : nat) | RBlocked | RShutdown | RBool (b : bool) | RErr.

Definition upd_fifo (q : mq) (f : nat) (x : fifo) : mq := {| oq := oq q; pq := pq q; fifos := set_nth (fifos q) f x |}.

Definition rel_proc (q : mq) (f : nat) : mq := assignation {| oq := oq q; pq := push_front (pq q) f; fifos := fifos q |}.

Definition sem_wait (q : mq) (f : nat) : mq * res :=
  match nth_error (fifos q) f with
  | Some x => if (0 <? sem x)%Z then (upd_fifo q f {| items := items x; sem := (sem x - 1)%Z; quit := quit x |}, RNone) else (q, RBlocked)
  | None => (q, RErr)
  end.

Definition wrapU32 (x : Z) : Z := (x mod 4294967296)%Z.

Definition step (s : sys) (o : sop) : sys * res :=
  match o with
  | RelProcE f => ({| emptyq := rel_proc (emptyq s) f; fullq := fullq s; wraps := wraps s |}, RNone)
  | RelProcF f => match fullq s with
                  | Some q => ({| emptyq := emptyq s; fullq := Some (rel_proc q f); wraps := wraps s |}, RNone)
                  | None => (s, RErr) end
  | SemWaitE f => let '(q, r) := sem_wait (emptyq s) f in ({| emptyq := q; fullq := fullq s; wraps := wraps s |}, r)
  | SemWaitF f => match fullq s with
                  | Some q0 => let '(q, r) := sem_wait q0 f in ({| emptyq := emptyq s; fullq := Some q; wraps := wraps s |}, r)
                  | None => (s, RErr) end
  | PopE f => match nth_error (fifos (emptyq s)) f with
              | Some x => match items x with
                          | i :: rest => ({| emptyq := upd_fifo (emptyq s) f {| items := rest; sem := sem x; quit := quit x |};
                                             fullq := fullq s; wraps := set_nth (wraps s) i {| live := 0%Z; ren := true |} |}, RObj i)
                          | [] => (s, RErr) end
              | None => (s, RErr) end
  | PopF f => match fullq s with
              | Some q => match nth_error (fifos q) f with
                          | Some x => if quit x then (s, RShutdown) else
                                      match items x with
                                      | i :: rest => ({| emptyq := emptyq s; fullq := Some (upd_fifo q f {| items := rest; sem := sem x; quit := quit x |}); wraps := wraps s |}, RObj i)
                                      | [] => (s, RErr) end
                          | None => (s, RErr) end
              | None => (s, RErr) end
  | PeekF f => match fullq s with
               | Some q => match nth_error (fifos q) f with
                           | Some x => (s, RBool (if quit x then true else match items x with [] => true | _ => false end))   (* fifo_empty *)
                           | None => (s, RErr) end
               | None => (s, RErr) end
  | Post x => match fullq s with
              | Some q => ({| emptyq := emptyq s; fullq := Some (assignation {| oq := push_back (oq q) x; pq := pq q; fifos := fifos q |}); wraps := wraps s |}, RNone)
              | None => (s, RErr) end
  | Release x => match nth_error (wraps s) x with
                 | Some w => let l := if (live w =? 0)%Z then 0%Z else (live w - 1)%Z in
                             if ren w && (l =? 0)%Z then
                               ({| emptyq := assignation {| oq := push_front (oq (emptyq s)) x; pq := pq (emptyq s); fifos := fifos (emptyq s) |};
                                   fullq := fullq s; wraps := set_nth (wraps s) x {| live := released_marker; ren := ren w |} |}, RNone)
                             else ({| emptyq := emptyq s; fullq := fullq s; wraps := set_nth (wraps s) x {| live := l; ren := ren w |} |}, RNone)
                 | None => (s, RErr) end
  | IncLive x n => match nth_error (wraps s) x with
                   | Some w => ({| emptyq := emptyq s; fullq := fullq s; wraps := set_nth (wraps s) x {| live := wrapU32 (live w + n); ren := ren w |} |}, RNone)
                   | None => (s, RErr) end
  | Enable x => match nth_error (wraps s) x with
                | Some w => ({| emptyq := emptyq s; fullq := fullq s; wraps := set_nth (wraps s) x {| live := live w; ren := true |} |}, RNone)
                | None => (s, RErr) end
  | Disable x => match nth_error (wraps s) x with
                 | Some w => ({| emptyq := emptyq s; fullq := fullq s; wraps := set_nth (wraps s) x {| live := live w; ren := false |} |}, RNone)
                 | None => (s, RErr) end
  | Shutdown => match fullq s with
                | Some q => ({| emptyq := emptyq s;
                                fullq := Some {| oq := oq q; pq := pq q; fifos := map (fun x => {| items := items x; sem := (sem x + 1)%Z; quit := true |}) (fifos q) |};
                                wraps := wraps s |}, RNone)
                | None => (s, RNone) end
  end.
