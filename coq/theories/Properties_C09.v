(* C09 - multi-threaded decoding gives the single-thread result.
   DecWave.v: the reconstruction wavefront inside a tile (rows claimed in order under the tile mutex, spin wait on the parser and on
   the upper-right neighbour), for any number of workers and every interleaving. The other stages (loop filter, CDEF, loop
   restoration, motion-field projection) and data races on picture memory are exhibited only by the runs of the check. *)
From Coq Require Import Arith.
From SV Require Import DecWave.

(* every reachable state satisfies the invariant: a claimed incomplete row has exactly one owner, unclaimed rows are untouched,
   every started row stays behind the row above by the upper-right margin *)
Theorem c09_wavefront_invariant : forall K R W, 1 <= W -> 1 <= K -> forall s, reach K R W s -> Inv K R W s.
Proof. exact reach_inv. Qed.

(* a superblock is decoded only by the owner of its row and only after the superblocks above and above-right of it *)
Theorem c09_decode_after_neighbours : forall K R W, 1 <= W -> 1 <= K -> forall s w r, reach K R W s -> wk s w = Some r -> may_decode W s r ->
  (0 < r -> Nat.min (done s r + 2) W <= done s (r - 1)) /\ (forall w', wk s w' = Some r -> w' = w).
Proof. exact decode_after_neighbours. Qed.

(* the spin waits cannot deadlock: until the tile is complete some step is enabled, for any number of workers *)
Theorem c09_no_deadlock : forall K R W, 1 <= W -> 1 <= K -> forall s, reach K R W s -> ~ complete R W s -> exists s', step K R W s s'.
Proof. exact progress. Qed.

(* every interleaving terminates: each step consumes potential *)
Theorem c09_terminates : forall K R W, 1 <= W -> 1 <= K -> forall s s', reach K R W s -> step K R W s s' -> potential R W s' < potential R W s.
Proof. exact step_decreases. Qed.
