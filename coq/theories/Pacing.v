(* C27 - abstract hand-off between the application and the encoder pipeline.

   The application submits N pictures through a pool of P input buffers; the pipeline keeps pictures until its
   look-ahead window holds D of them (or the end of stream has been signalled), then completes the oldest one, which
   frees its input buffer and queues one packet; the application retrieves packets whenever it likes.
   Events that are not enabled leave the state unchanged (a non-blocking get on an empty queue; a send that would block
   simply has not returned yet). *)
From Coq Require Import Arith List Lia Bool.
Import ListNotations.

Record st := mk_st { sent : nat; held : list nat; eos : bool; outq : list nat; got : list nat }.
Inductive ev := Send | Eos | Work | Get.

Section Pacing.
Variables (N P D : nat).

Definition init := mk_st 0 [] false [] [].

Definition enabled (s : st) (e : ev) : bool :=
  match e with
  | Send => (sent s <? N) && (length (held s) <? P)
  | Eos => (sent s =? N) && negb (eos s)
  | Work => match held s with [] => false | _ :: _ => (D <=? length (held s)) || eos s end
  | Get => match outq s with [] => false | _ :: _ => true end
  end.

Definition apply (s : st) (e : ev) : st :=
  match e with
  | Send => mk_st (S (sent s)) (held s ++ [sent s]) (eos s) (outq s) (got s)
  | Eos => mk_st (sent s) (held s) true (outq s) (got s)
  | Work => match held s with [] => s | x :: r => mk_st (sent s) r (eos s) (outq s ++ [x]) (got s) end
  | Get => match outq s with [] => s | x :: r => mk_st (sent s) (held s) (eos s) r (got s ++ [x]) end
  end.

Definition step (s : st) (e : ev) : st := if enabled s e then apply s e else s.
Definition run (s : st) (es : list ev) : st := fold_left step es s.

Definition finished (s : st) : Prop := eos s = true /\ held s = [] /\ outq s = [].
Definition stuck (s : st) : Prop := forall e, enabled s e = false.

(* every picture is in exactly one place, in submission order *)
Definition Inv (s : st) : Prop :=
  got s ++ outq s ++ held s = seq 0 (sent s) /\ sent s <= N /\ (eos s = true -> sent s = N) /\ length (held s) <= P.

Lemma inv_init : Inv init.
Proof. unfold Inv, init; cbn. repeat split; try lia; try discriminate. Qed.

Lemma inv_step s e : Inv s -> Inv (step s e).
Proof.
  intros (Ho & Hn & He & Hp). unfold step. destruct (enabled s e) eqn:En; [|repeat split; assumption].
  destruct e; cbn in En |- *.
  - apply andb_true_iff in En as [E1 E2]. apply Nat.ltb_lt in E1. apply Nat.ltb_lt in E2.
    unfold Inv; cbn [sent held eos outq got length]. repeat split; try lia.
    + rewrite seq_S, <- Ho. cbn. rewrite <- !app_assoc. reflexivity.
    + intros H. specialize (He H). lia.
    + rewrite app_length; cbn; lia.
  - apply andb_true_iff in En as [E1 _]. apply Nat.eqb_eq in E1. unfold Inv; cbn [sent held eos outq got length]. repeat split; auto.
  - destruct (held s) as [|x r] eqn:Hh; [discriminate|]. unfold Inv; cbn [sent held eos outq got length]. repeat split; auto.
    + rewrite <- Ho. rewrite <- !app_assoc. reflexivity.
    + cbn in Hp. lia.
  - destruct (outq s) as [|x r] eqn:Hq; [discriminate|]. unfold Inv; cbn [sent held eos outq got length]. repeat split; auto.
    rewrite <- Ho. rewrite <- !app_assoc. reflexivity.
Qed.

Lemma inv_run es : forall s, Inv s -> Inv (run s es).
Proof. induction es as [|e es IH]; intros s H; cbn; [exact H|]. apply IH. apply inv_step. exact H. Qed.

(* C27, output part: whatever the order of the application's calls, a run that completes has handed over exactly the
   pictures 0..N-1 in submission order *)
Theorem completed_output_independent es : finished (run init es) -> got (run init es) = seq 0 N.
Proof.
  intros (He & Hh & Hq). destruct (inv_run es init inv_init) as (Ho & _ & Hn & _).
  rewrite Hh, Hq, !app_nil_r in Ho. rewrite Ho. f_equal. apply Hn. exact He.
Qed.

Corollary pacing_independent es1 es2 : finished (run init es1) -> finished (run init es2) -> got (run init es1) = got (run init es2).
Proof. intros H1 H2. rewrite (completed_output_independent _ H1), (completed_output_independent _ H2). reflexivity. Qed.

(* C27, progress part: with a pool at least as large as the window, a state that is not finished always has an enabled event *)
Theorem no_deadlock s : D <= P -> 1 <= P -> Inv s -> stuck s -> finished s.
Proof.
  intros Hd Hp (Ho & Hn & He & Hl) St.
  pose proof (St Send) as S1. pose proof (St Eos) as S2. pose proof (St Work) as S3. pose proof (St Get) as S4. unfold enabled in S1, S2, S3, S4.
  destruct (outq s) as [|q qs] eqn:Hq; [|discriminate].
  destruct (eos s) eqn:Ee.
  - destruct (held s) as [|x r] eqn:Hh; [repeat split; auto|]. rewrite orb_true_r in S3. discriminate.
  - exfalso. rewrite andb_true_r in S2. apply Nat.eqb_neq in S2.
    assert (Hlt : sent s < N) by lia. apply Nat.ltb_lt in Hlt. rewrite Hlt in S1. cbn in S1. apply Nat.ltb_ge in S1.
    destruct (held s) as [|x r] eqn:Hh; [cbn in S1; lia|]. rewrite orb_false_r in S3. apply Nat.leb_gt in S3. cbn in S1, S3, Hl. lia.
Qed.

(* every enabled event consumes potential, so every schedule reaches a stuck state after at most 3N+1 enabled events *)
Definition potential (s : st) : nat := 3 * (N - sent s) + 2 * length (held s) + length (outq s) + (if eos s then 0 else 1).

Lemma potential_decreases s e : Inv s -> enabled s e = true -> potential (step s e) < potential s.
Proof.
  intros (_ & Hn & _ & _) En. unfold step. rewrite En. unfold potential. destruct e; unfold enabled in En; unfold apply.
  - apply andb_true_iff in En as [E1 _]. apply Nat.ltb_lt in E1. cbn [sent held eos outq got]. rewrite app_length; cbn [length]. lia.
  - apply andb_true_iff in En as [_ E2]. apply negb_true_iff in E2. rewrite E2. cbn [sent held eos outq got]. lia.
  - destruct (held s) as [|x r]; [discriminate|]. cbn [sent held eos outq got]. rewrite app_length; cbn [length]. lia.
  - destruct (outq s) as [|x r]; [discriminate|]. cbn [sent held eos outq got length]. lia.
Qed.

Fixpoint all_enabled (s : st) (es : list ev) : bool :=
  match es with [] => true | e :: r => enabled s e && all_enabled (step s e) r end.

Lemma enabled_steps_bounded es : forall s, Inv s -> all_enabled s es = true -> length es + potential (run s es) <= potential s.
Proof.
  induction es as [|e es IH]; intros s Hi Ha; cbn [all_enabled] in Ha; unfold run; cbn [fold_left length]; [lia|].
  apply andb_true_iff in Ha as [E1 E2]. pose proof (potential_decreases s e Hi E1) as Hd.
  specialize (IH (step s e) (inv_step s e Hi) E2). unfold run in IH. lia.
Qed.

(* a schedule of enabled events that can no longer be extended has completed the stream *)
Theorem maximal_schedule_completes es : D <= P -> 1 <= P -> all_enabled init es = true -> stuck (run init es) -> finished (run init es) /\ length es <= 3 * N + 1.
Proof.
  intros Hd Hp Ha St. split.
  - apply no_deadlock; auto. apply inv_run. apply inv_init.
  - pose proof (enabled_steps_bounded es init inv_init Ha). unfold potential in H at 2. cbn in H. lia.
Qed.

(* ... and a pool smaller than the window can never complete a stream longer than the pool *)
Definition ShortInv (s : st) : Prop := sent s <= P /\ eos s = false /\ outq s = [] /\ got s = [] /\ length (held s) = sent s.

Lemma short_step s e : P < D -> P < N -> ShortInv s -> ShortInv (step s e).
Proof.
  intros Hd Hn (H1 & H2 & H3 & H4 & H5). unfold step. destruct (enabled s e) eqn:En; [|repeat split; assumption].
  destruct e; cbn in En |- *.
  - apply andb_true_iff in En as [E1 E2]. apply Nat.ltb_lt in E2. unfold ShortInv; cbn. rewrite app_length; cbn. repeat split; auto; lia.
  - apply andb_true_iff in En as [E1 _]. apply Nat.eqb_eq in E1. lia.
  - destruct (held s) as [|x r] eqn:Hh; [discriminate|]. rewrite H2, orb_false_r in En. apply Nat.leb_le in En. cbn in En, H5. lia.
  - rewrite H3 in En. discriminate.
Qed.

Theorem short_pool_never_completes es : P < D -> P < N -> ~ finished (run init es).
Proof.
  intros Hd Hn.
  assert (H : forall es s, ShortInv s -> ShortInv (run s es)).
  { induction es0 as [|e es0 IH]; intros s Hs; cbn; [exact Hs|]. apply IH. apply short_step; assumption. }
  intros (He & _). destruct (H es init) as (_ & H2 & _); [unfold ShortInv, init; cbn; repeat split; lia|]. congruence.
Qed.

End Pacing.

(* non-vacuity: 5 pictures, pool 3, window 3: draining after every submission completes ... *)
Example drain_after_each_send :
  let es := [Send; Get; Send; Get; Send; Work; Get; Send; Work; Get; Send; Work; Get; Eos; Work; Get; Work; Get] in
  got (run 5 3 3 (init) es) = [0; 1; 2; 3; 4] /\ all_enabled 5 3 3 init (filter (fun e => match e with Get => false | _ => true end) es) = true.
Proof. vm_compute. split; reflexivity. Qed.
(* ... and with pool 2 the third submission never returns *)
Example short_pool_blocks : run 5 2 3 init [Send; Send; Send; Work; Get; Eos] = mk_st 2 [0; 1] false [] [].
Proof. reflexivity. Qed.
