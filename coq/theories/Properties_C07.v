(* C07 - SIMD kernels are bit-exact drop-ins for their C references.
   Proved here (for all sample values): the sum path of every AVX2 variance kernel instantiated in the current source
   (gen/VarianceGen.v, regenerated on every run) is exact - no 16-bit lane can wrap - and the returned value
   sse - sum^2 >> log2(w*h) equals the C reference's sse - sum^2 / (w*h).  All other kernels are decided by the differential
   runs of the check, not by theorems. *)
From Coq Require Import ZArith List Bool.
From SV Require Import CInt LaneSum.
From SVG Require Import VarianceGen.
Import ListNotations.
Local Open Scope Z_scope.

Theorem c07_variance_instances_within_lane_range : forallb instance_ok variance_instances = true.
Proof. vm_compute. reflexivity. Qed.

Theorem c07_variance_sum_exact : forall inst groups, In inst variance_instances ->
  Forall (fun g => Z.of_nat (length g) = depth16 inst /\ Forall byte_diff g) groups ->
  (let '(bw, bh, _, _, _) := inst in Z.of_nat (length groups) * depth16 inst = bw * bh) ->
  kernel_sum groups = sumZ (concat groups).
Proof.
  intros inst groups Hin. apply kernel_sum_exact.
  pose proof c07_variance_instances_within_lane_range as H. rewrite forallb_forall in H. apply H. exact Hin.
Qed.

Theorem c07_variance_value_agrees : forall sse sum w h bits, 0 <= bits -> w * h = 2 ^ bits -> variance_simd sse sum bits = variance_c sse sum w h.
Proof. exact variance_value_agrees. Qed.
