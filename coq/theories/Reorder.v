(* Circular reorder queue (packetization / picture-decision / picture-manager / initial-rate-control reorder
   queues): results arrive in any order, are stored in slot  number mod depth , and are released in numeric
   order.  Theorem: while the numbers in flight span less than the depth, slots never alias and the released
   sequence is 0, 1, 2, ... whatever the arrival order and however long the stream (wrap-around included). *)
From Coq Require Import Arith Lia List Bool PeanoNat.
Import ListNotations.

Section Reorder.
Variable D : nat.
Hypothesis HD : 0 < D.
Variable V : Type.
Variable val : nat -> V.            (* the result carried by picture number n *)

Record q := { slots : nat -> option V; next : nat }.
Definition q0 : q := {| slots := fun _ => None; next := 0 |}.
Definition put (s : q) (n : nat) : q :=
  {| slots := fun i => if i =? n mod D then Some (val n) else slots s i; next := next s |}.
Definition pop (s : q) : q :=
  {| slots := fun i => if i =? next s mod D then None else slots s i; next := S (next s) |}.
Fixpoint drain (fuel : nat) (s : q) : list V * q :=
  match fuel with
  | O => ([], s)
  | S f => match slots s (next s mod D) with
           | Some v => let r := drain f (pop s) in (v :: fst r, snd r)
           | None => ([], s)
           end
  end.
Definition arrive (s : q) (n : nat) : list V * q := drain D (put s n).
Fixpoint run (s : q) (arr : list nat) : list V * q :=
  match arr with
  | [] => ([], s)
  | n :: r => let a := arrive s n in let b := run (snd a) r in (fst a ++ fst b, snd b)
  end.

(* the window discipline: a result may only arrive while its number is within depth of the release point *)
Fixpoint in_window (s : q) (arr : list nat) : Prop :=
  match arr with
  | [] => True
  | n :: r => next s <= n < next s + D /\ in_window (snd (arrive s n)) r
  end.

(* invariant: [pend] = numbers arrived and not yet released *)
Record Inv (s : q) (pend : list nat) : Prop := {
  I_win : forall n, In n pend -> next s <= n < next s + D;
  I_slot : forall i, i < D -> slots s i = match find (fun n => n mod D =? i) pend with Some n => Some (val n) | None => None end;
  I_nodup : NoDup pend
}.

Lemma window_no_alias lo a b : lo <= a < lo + D -> lo <= b < lo + D -> a mod D = b mod D -> a = b.
Proof.
  intros Ha Hb E.
  pose proof (Nat.div_mod a D ltac:(lia)) as Ea. pose proof (Nat.div_mod b D ltac:(lia)) as Eb.
  rewrite E in Ea.
  destruct (Nat.lt_trichotomy (a / D) (b / D)) as [Hl|[He|Hg]].
  - assert (D * (a / D) + D <= D * (b / D)) by nia. pose proof (Nat.mod_upper_bound b D ltac:(lia)). lia.
  - rewrite He in Ea. lia.
  - assert (D * (b / D) + D <= D * (a / D)) by nia. pose proof (Nat.mod_upper_bound b D ltac:(lia)). lia.
Qed.

Lemma find_unique pend lo i n : (forall m, In m pend -> lo <= m < lo + D) -> In n pend -> n mod D = i ->
  find (fun m => m mod D =? i) pend = Some n.
Proof.
  intros Hw. induction pend as [|m r IH]; intros Hin Hi; [contradiction|].
  cbn [find]. destruct (Nat.eqb_spec (m mod D) i) as [E|E].
  - f_equal. apply (window_no_alias lo); [apply Hw; left; reflexivity|apply Hw; exact Hin|congruence].
  - destruct Hin as [->|Hin]; [contradiction|]. apply IH; auto. intros k Hk. apply Hw. right. exact Hk.
Qed.

Lemma find_none pend i : (forall m, In m pend -> m mod D <> i) -> find (fun m => m mod D =? i) pend = None.
Proof.
  induction pend as [|m r IH]; intros H; [reflexivity|]. cbn [find].
  destruct (Nat.eqb_spec (m mod D) i) as [E|E]; [exfalso; apply (H m); [left; reflexivity|exact E]|].
  apply IH. intros k Hk. apply H. right. exact Hk.
Qed.

Lemma inv0 : Inv q0 [].
Proof. constructor; cbn; [intros n []|reflexivity|constructor]. Qed.

Lemma put_inv s pend n : Inv s pend -> next s <= n < next s + D -> ~ In n pend -> Inv (put s n) (n :: pend).
Proof.
  intros [Hw Hs Hn] Hwin Hnin. constructor; cbn [put next slots].
  - intros m [<-|Hm]; [exact Hwin|apply Hw; exact Hm].
  - intros i Hi. cbn [find]. rewrite (Nat.eqb_sym (n mod D) i).
    destruct (Nat.eqb_spec i (n mod D)) as [E|E]; [reflexivity|apply Hs; exact Hi].
  - constructor; assumption.
Qed.

Lemma filter_length_lt (l : list nat) x : In x l -> length (filter (fun m => negb (m =? x)) l) < length l.
Proof.
  induction l as [|a r IH]; intros Hin; [contradiction|]. cbn [filter length].
  destruct (Nat.eqb_spec a x) as [->|Hne]; cbn [negb].
  - assert (Hle : forall (f : nat -> bool) (l0 : list nat), length (filter f l0) <= length l0).
    { intros f l0. induction l0 as [|b t IHt]; cbn [filter length]; [lia|]. destruct (f b); cbn [length]; lia. }
    specialize (Hle (fun m => negb (m =? x)) r). lia.
  - destruct Hin as [->|Hin]; [contradiction|]. cbn [length]. specialize (IH Hin). lia.
Qed.

Definition without (x : nat) (l : list nat) : list nat := filter (fun m => negb (m =? x)) l.
Lemma in_without x l m : In m (without x l) <-> In m l /\ m <> x.
Proof.
  unfold without. rewrite filter_In. split; intros [A B]; split; auto.
  - intro; subst. rewrite Nat.eqb_refl in B. discriminate.
  - destruct (Nat.eqb_spec m x); [contradiction|reflexivity].
Qed.

Lemma pop_inv s pend : Inv s pend -> In (next s) pend -> Inv (pop s) (without (next s) pend).
Proof.
  intros [Hw Hs Hn] Hin. constructor; cbn [pop next slots].
  - intros m Hm. apply in_without in Hm. destruct Hm as [Hm Hne]. specialize (Hw m Hm). lia.
  - intros i Hi.
    assert (Hw' : forall m, In m (without (next s) pend) -> next s <= m < next s + D).
    { intros m Hm. apply in_without in Hm. apply Hw. apply Hm. }
    destruct (Nat.eqb_spec i (next s mod D)) as [E|E].
    + symmetry. rewrite find_none; [reflexivity|]. intros m Hm Em. apply in_without in Hm. destruct Hm as [Hm Hne].
      apply Hne. apply (window_no_alias (next s)); [apply Hw; exact Hm|apply Hw; exact Hin|congruence].
    + rewrite (Hs i Hi).
      destruct (find (fun m => m mod D =? i) pend) as [m|] eqn:F.
      * apply find_some in F. destruct F as [Fm Fe]. apply Nat.eqb_eq in Fe.
        assert (Hne : m <> next s) by (intro; subst m; apply E; symmetry; exact Fe).
        rewrite (find_unique _ (next s) i m Hw'); [reflexivity|apply in_without; split; assumption|exact Fe].
      * symmetry. rewrite find_none; [reflexivity|]. intros m Hm Em. apply in_without in Hm. destruct Hm as [Hm _].
        rewrite (find_unique pend (next s) i m Hw Hm Em) in F. discriminate.
  - unfold without. apply NoDup_filter. exact Hn.
Qed.

(* draining releases exactly the run of consecutive numbers present, in order *)
Lemma drain_spec fuel : forall s pend, Inv s pend -> length pend <= fuel ->
  exists k, fst (drain fuel s) = map val (seq (next s) k) /\ next (snd (drain fuel s)) = next s + k /\
            (forall j, j < k -> In (next s + j) pend) /\ ~ In (next s + k) pend /\
            Inv (snd (drain fuel s)) (filter (fun m => next s + k <=? m) pend).
Proof.
  induction fuel as [|f IH]; intros s pend Hi Hl.
  - destruct pend; [|cbn in Hl; lia]. exists 0. cbn [drain fst snd seq map filter]. rewrite Nat.add_0_r.
    split; [reflexivity|]. split; [reflexivity|]. split; [intros j Hj; lia|]. split; [intros []|exact Hi].
  - cbn [drain]. pose proof Hi as [Hw Hs Hn].
    assert (Hlt : next s mod D < D) by (apply Nat.mod_upper_bound; lia).
    rewrite (Hs _ Hlt).
    destruct (find (fun n => n mod D =? next s mod D) pend) as [m|] eqn:F.
    + apply find_some in F. destruct F as [Fm Fe]. apply Nat.eqb_eq in Fe.
      assert (Em : m = next s).
      { apply (window_no_alias (next s)); [apply Hw; exact Fm|lia|exact Fe]. }
      subst m.
      pose proof (pop_inv s pend Hi Fm) as Hi'.
      assert (Hl' : length (without (next s) pend) <= f).
      { unfold without. pose proof (filter_length_lt pend (next s) Fm) as X. lia. }
      destruct (IH (pop s) _ Hi' Hl') as [k [Ho [Hnx [Hall [Hnot Hinv]]]]].
      exists (S k). cbn [fst snd]. cbn [pop next] in *. split; [cbn [seq map]; f_equal; exact Ho|].
      split; [lia|]. split.
      * intros j Hj. destruct j as [|j]; [rewrite Nat.add_0_r; exact Fm|].
        specialize (Hall j ltac:(lia)). apply in_without in Hall. replace (next s + S j) with (S (next s) + j) by lia. apply Hall.
      * split.
        -- intro Hc. apply Hnot. replace (S (next s) + k) with (next s + S k) by lia. apply in_without. split; [exact Hc|lia].
        -- replace (next s + S k) with (S (next s) + k) by lia.
           assert (Ef : filter (fun m => S (next s) + k <=? m) (without (next s) pend) = filter (fun m => S (next s) + k <=? m) pend).
           { unfold without. clear. induction pend as [|a r IHr]; [reflexivity|]. cbn [filter].
             destruct (Nat.eqb_spec a (next s)) as [->|Hne]; cbn [negb].
             - destruct (Nat.leb_spec (S (next s) + k) (next s)); [lia|]. exact IHr.
             - cbn [filter]. destruct (S (next s) + k <=? a); [f_equal|]; exact IHr. }
           rewrite <- Ef. exact Hinv.
    + exists 0. cbn [fst snd seq map]. rewrite Nat.add_0_r. split; [reflexivity|]. split; [reflexivity|]. split; [intros j Hj; lia|].
      split.
      * intro Hc. rewrite (find_unique pend (next s) (next s mod D) (next s) Hw Hc eq_refl) in F. discriminate.
      * assert (Ef : filter (fun m => next s <=? m) pend = pend).
        { clear -Hw. induction pend as [|a r IHr]; [reflexivity|]. cbn [filter].
          assert (next s <= a) by (apply Hw; left; reflexivity). destruct (Nat.leb_spec (next s) a); [|lia].
          f_equal. apply IHr. intros m Hm. apply Hw. right. exact Hm. }
        rewrite Ef. exact Hi.
Qed.

Lemma window_length pend lo : NoDup pend -> (forall n, In n pend -> lo <= n < lo + D) -> length pend <= D.
Proof.
  intros Hn Hw. rewrite <- (seq_length D lo). apply NoDup_incl_length; [exact Hn|].
  intros n Hin. apply in_seq. apply Hw. exact Hin.
Qed.

(* one arrival: store, then release the consecutive run that became available *)
Lemma arrive_spec s pend n : Inv s pend -> ~ In (next s) pend -> next s <= n < next s + D -> ~ In n pend ->
  exists k, fst (arrive s n) = map val (seq (next s) k) /\ next (snd (arrive s n)) = next s + k /\
            Inv (snd (arrive s n)) (filter (fun m => next s + k <=? m) (n :: pend)) /\
            ~ In (next s + k) (n :: pend) /\ (forall j, j < k -> In (next s + j) (n :: pend)).
Proof.
  intros Hi Hd Hw Hnin. unfold arrive.
  pose proof (put_inv s pend n Hi Hw Hnin) as Hi'.
  assert (Hl : length (n :: pend) <= D).
  { apply (window_length _ (next s)); [apply (I_nodup _ _ Hi')|]. intros m Hm. apply (I_win _ _ Hi'). exact Hm. }
  destruct (drain_spec D (put s n) (n :: pend) Hi' Hl) as [k [Ho [Hn [Hall [Hnot Hinv]]]]].
  cbn [put next] in *. exists k. split; [exact Ho|]. split; [exact Hn|]. split; [exact Hinv|]. split; [exact Hnot|exact Hall].
Qed.

(* the whole stream *)
Lemma run_spec arr : forall s pend, Inv s pend -> ~ In (next s) pend -> NoDup arr -> (forall n, In n arr -> ~ In n pend) ->
  in_window s arr ->
  exists k pend', fst (run s arr) = map val (seq (next s) k) /\ next (snd (run s arr)) = next s + k /\
                  Inv (snd (run s arr)) pend' /\ ~ In (next s + k) pend' /\
                  (forall m, In m pend' <-> (In m pend \/ In m arr) /\ next s + k <= m) /\
                  (forall j, j < k -> In (next s + j) pend \/ In (next s + j) arr).
Proof.
  induction arr as [|n r IH]; intros s pend Hi Hd Hnd Hfresh Hwin.
  - exists 0, pend. cbn [run fst snd seq map]. rewrite Nat.add_0_r.
    split; [reflexivity|]. split; [reflexivity|]. split; [exact Hi|]. split; [exact Hd|]. split.
    + intros m. split.
      * intros Hm. split; [left; exact Hm|apply (I_win _ _ Hi); exact Hm].
      * intros [[Hm|[]] _]. exact Hm.
    + intros j Hj. lia.
  - cbn [in_window] in Hwin. destruct Hwin as [Hw Hwr]. inversion Hnd as [|? ? Hnr Hndr]; subst.
    destruct (arrive_spec s pend n Hi Hd Hw (Hfresh n (or_introl eq_refl))) as [k1 [Ho1 [Hn1 [Hi1 [Hnot1 Hall1]]]]].
    set (s1 := snd (arrive s n)) in *. set (p1 := filter (fun m => next s + k1 <=? m) (n :: pend)) in *.
    assert (Hd1 : ~ In (next s1) p1).
    { rewrite Hn1. unfold p1. intro Hc. apply filter_In in Hc. apply Hnot1. apply Hc. }
    assert (Hf1 : forall m, In m r -> ~ In m p1).
    { intros m Hm Hc. unfold p1 in Hc. apply filter_In in Hc. destruct Hc as [[<-|Hc] _]; [contradiction|].
      apply (Hfresh m); [right; exact Hm|exact Hc]. }
    destruct (IH s1 p1 Hi1 Hd1 Hndr Hf1 Hwr) as [k2 [pend' [Ho2 [Hn2 [Hi2 [Hnot2 [Hmem2 Hall2]]]]]]].
    exists (k1 + k2), pend'. cbn [run fst snd]. fold s1.
    rewrite Ho1, Ho2, Hn1. split; [rewrite seq_app, map_app; reflexivity|].
    split; [rewrite Hn2, Hn1; lia|]. split; [exact Hi2|].
    split; [rewrite Hn1 in Hnot2; replace (next s + (k1 + k2)) with (next s + k1 + k2) by lia; exact Hnot2|].
    split.
    + intros m. rewrite Hmem2. rewrite Hn1. unfold p1. rewrite filter_In. cbn [In].
      split.
      * intros [[[[<-|Hp] Hle]|Hr] Hle2]; (split; [|lia]); auto.
      * intros [[Hp|[<-|Hr]] Hle]; (split; [|lia]); auto.
        -- left. split; [right; exact Hp|apply Nat.leb_le; lia].
        -- left. split; [left; reflexivity|apply Nat.leb_le; lia].
    + intros j Hj. destruct (Nat.lt_ge_cases j k1) as [Hlt|Hge].
      * destruct (Hall1 j Hlt) as [<-|Hp]; [right; left; reflexivity|left; exact Hp].
      * specialize (Hall2 (j - k1) ltac:(lia)). rewrite Hn1 in Hall2. replace (next s + k1 + (j - k1)) with (next s + j) in Hall2 by lia.
        destruct Hall2 as [Hp|Hr]; [|right; right; exact Hr].
        unfold p1 in Hp. apply filter_In in Hp. destruct Hp as [[<-|Hp] _]; [right; left; reflexivity|left; exact Hp].
Qed.

(* main theorem: every arrival order of 0..N-1 that respects the window releases 0, 1, ..., N-1 in order *)
Theorem reorder_in_order (N : nat) (arr : list nat) :
  NoDup arr -> (forall n, In n arr <-> n < N) -> in_window q0 arr ->
  fst (run q0 arr) = map val (seq 0 N) /\ next (snd (run q0 arr)) = N.
Proof.
  intros Hnd Hall Hwin.
  destruct (run_spec arr q0 [] inv0 (fun H => H) Hnd (fun n _ H => H) Hwin) as [k [pend' [Ho [Hn [Hi [Hnot [Hmem Hrel]]]]]]].
  cbn [q0 next] in *. cbn in Ho, Hn, Hnot, Hmem, Hrel.
  assert (Hk : k = N).
  { destruct (Nat.lt_trichotomy k N) as [Hlt|[He|Hgt]]; [|exact He|].
    - exfalso. apply Hnot. apply Hmem. split; [right; apply Hall; exact Hlt|lia].
    - exfalso. destruct (Hrel N Hgt) as [[]|Hin]. apply Hall in Hin. lia. }
  rewrite Hk in Ho, Hn. split; [exact Ho|exact Hn].
Qed.
End Reorder.


(* non-vacuity: depth 4, ten results arriving out of order within the window, with wrap-around *)
Example reorder_example :
  fst (run 4 nat (fun n => n) (q0 nat) [1; 0; 3; 2; 5; 4; 7; 6; 9; 8]) = [0; 1; 2; 3; 4; 5; 6; 7; 8; 9].
Proof. reflexivity. Qed.
(* and what the window hypothesis excludes: with depth 4, result 4 arriving while 0 is still awaited lands in 0's slot *)
Example alias_without_window :
  fst (run 4 nat (fun n => n) (q0 nat) [4; 0; 1; 2; 3]) <> [0; 1; 2; 3; 4].
Proof. cbv. discriminate. Qed.
