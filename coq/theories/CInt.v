(* C integer conversions used by the generated models (translators/cast.py). *)
From Coq Require Import ZArith Lia.
Local Open Scope Z_scope.

Definition wrapU (b : Z) (x : Z) : Z := x mod 2 ^ b.
Definition wrapS (b : Z) (x : Z) : Z := (x + 2 ^ (b - 1)) mod 2 ^ b - 2 ^ (b - 1).

Lemma wrapU_id b x : 0 <= b -> 0 <= x < 2 ^ b -> wrapU b x = x.
Proof. intros Hb Hx. unfold wrapU. apply Z.mod_small. exact Hx. Qed.

Lemma wrapU_range b x : 0 <= b -> 0 <= wrapU b x < 2 ^ b.
Proof. intros Hb. unfold wrapU. apply Z.mod_pos_bound. apply Z.pow_pos_nonneg; lia. Qed.

Lemma wrapS_id b x : 1 <= b -> - 2 ^ (b - 1) <= x < 2 ^ (b - 1) -> wrapS b x = x.
Proof.
  intros Hb Hx. unfold wrapS.
  assert (E : 2 ^ b = 2 ^ (b - 1) * 2).
  { rewrite Z.mul_comm, <- (Z.pow_succ_r 2 (b - 1)) by lia. f_equal. lia. }
  rewrite Z.mod_small by lia. lia.
Qed.

Lemma wrapS_range b x : 1 <= b -> - 2 ^ (b - 1) <= wrapS b x < 2 ^ (b - 1).
Proof.
  intros Hb. unfold wrapS.
  assert (E : 2 ^ b = 2 ^ (b - 1) * 2).
  { rewrite Z.mul_comm, <- (Z.pow_succ_r 2 (b - 1)) by lia. f_equal. lia. }
  assert (0 < 2 ^ (b - 1)) by (apply Z.pow_pos_nonneg; lia).
  pose proof (Z.mod_pos_bound (x + 2 ^ (b - 1)) (2 ^ b) ltac:(lia)). lia.
Qed.
