From Coq Require Import Arith Lia List Bool PeanoNat.
Import ListNotations.

(* Wavefront protocol of assign_enc_dec_segments over an abstract well-formed row grid. *)
Section Proto.
Variables R B : nat.
Variables lo hi : nat -> nat.
Hypothesis HB : 0 < B.
Hypothesis HR : 0 < R.
Hypothesis Hrows : forall r, r < R -> r * B <= lo r /\ lo r <= hi r /\ hi r < (r + 1) * B.
Hypothesis Hup : forall r, 0 < r -> r < R -> lo (r - 1) + B <= lo r /\ lo r <= hi (r - 1) + B.
Hypothesis Hhi : forall r, r + 1 < R -> hi r + B <= hi (r + 1).

Definition row (s : nat) := s / B.
Definition inS (s : nat) := row s < R /\ lo (row s) <= s <= hi (row s).

Definition has_left (s : nat) : bool := lo (row s) <? s.
Definition has_up (s : nat) : bool := (0 <? row s) && (s <=? hi (row s - 1) + B).
Definition dep0 (s : nat) : nat := (if has_left s then 1 else 0) + (if has_up s then 1 else 0).

Inductive phase := NotStarted | Running | Mid (self : bool) | Done.
Definition finished (p : phase) : bool := match p with Mid _ | Done => true | _ => false end.
Definition isdone (p : phase) : bool := match p with Done => true | _ => false end.
Definition started (p : phase) : bool := match p with NotStarted => false | _ => true end.

Record state := { dep : nat -> nat; cur : nat -> nat; st : nat -> phase; pend : list nat }.

Definition upd {A} (f : nat -> A) (k : nat) (v : A) : nat -> A := fun x => if x =? k then v else f x.

Definition start (q : state) (x : nat) : state :=
  {| dep := dep q; cur := upd (cur q) (row x) (S (cur q (row x))); st := upd (st q) x Running; pend := pend q |}.

(* first critical section of completing s: right neighbour.
   (the ghost phase Mid is recorded first; the C has no such field) *)
Definition right_step (q : state) (s : nat) : state :=
  let r := row s in
  if s <? hi r then
    let d := dep q (s + 1) - 1 in
    let q1 := {| dep := upd (dep q) (s + 1) d; cur := cur q; st := upd (st q) s (Mid (d =? 0)); pend := pend q |} in
    if d =? 0 then start q1 (cur q1 r) else q1
  else {| dep := dep q; cur := cur q; st := upd (st q) s (Mid false); pend := pend q |}.

(* second critical section: bottom-left neighbour *)
Definition down_step (q : state) (s : nat) (self : bool) : state :=
  let r := row s in
  let qd := {| dep := dep q; cur := cur q; st := upd (st q) s Done; pend := pend q |} in
  if (r + 1 <? R) && (lo (r + 1) <=? s + B) then
    let d := dep q (s + B) - 1 in
    let q1 := {| dep := upd (dep qd) (s + B) d; cur := cur qd; st := st qd; pend := pend qd |} in
    if d =? 0 then
      if self then {| dep := dep q1; cur := cur q1; st := st q1; pend := (r + 1) :: pend q1 |}
      else start q1 (cur q1 (r + 1))
    else q1
  else qd.

Inductive step : state -> state -> Prop :=
| SRight q s : st q s = Running -> step q (right_step q s)
| SDown q s self : st q s = Mid self -> step q (down_step q s self)
| SFb q r l1 l2 : pend q = l1 ++ r :: l2 ->
    step q (start {| dep := dep q; cur := cur q; st := st q; pend := l1 ++ l2 |} (cur q r)).

Definition init : state :=
  start {| dep := dep0; cur := lo; st := fun _ => NotStarted; pend := [] |} (lo 0).

(* ---------- basic facts about rows ---------- *)
Lemma row_of r s : r * B <= s < (r + 1) * B -> row s = r.
Proof. intros H. unfold row. symmetry. apply Nat.div_unique with (s - r * B); lia. Qed.

Lemma inS_row r s : r < R -> lo r <= s <= hi r -> row s = r.
Proof. intros Hr Hs. destruct (Hrows r Hr) as [H1 [H2 H3]]. apply row_of. lia. Qed.

Lemma inS_intro r s : r < R -> lo r <= s <= hi r -> inS s.
Proof. intros Hr Hs. unfold inS. rewrite (inS_row r s Hr Hs). auto. Qed.

Lemma row_succ s : inS s -> s < hi (row s) -> row (s + 1) = row s /\ inS (s + 1).
Proof.
  intros [Hr Hs] Hlt. assert (E: row (s + 1) = row s) by (apply (inS_row (row s)); auto; lia).
  split; auto. unfold inS. rewrite E. split; auto. lia.
Qed.

Lemma row_down s : inS s -> row s + 1 < R -> lo (row s + 1) <= s + B ->
  row (s + B) = row s + 1 /\ inS (s + B).
Proof.
  intros [Hr Hs] Hr1 Hlo. pose proof (Hhi (row s) Hr1) as Hh.
  assert (E: row (s + B) = row s + 1) by (apply (inS_row (row s + 1)); auto; lia).
  split; auto. unfold inS. rewrite E. split; auto. lia.
Qed.

(* ---------- invariant ---------- *)
Definition lterm (q : state) (s : nat) : nat := if has_left s && finished (st q (s - 1)) then 1 else 0.
Definition uterm (q : state) (s : nat) : nat := if has_up s && isdone (st q (s - B)) then 1 else 0.

Record Inv (q : state) : Prop := {
  I1 : forall r, r < R -> lo r <= cur q r <= hi r + 1;
  I2 : forall s, inS s -> (started (st q s) = true <-> s < cur q (row s));
  I3 : forall s, inS s -> dep q s + lterm q s + uterm q s = dep0 s;
  I4 : forall s, inS s -> started (st q s) = true -> dep q s = 0;
  I5 : NoDup (pend q) /\ forall r, In r (pend q) -> r < R /\ cur q r <= hi r /\ dep q (cur q r) = 0;
  I6 : forall s, inS s -> started (st q s) = false -> dep q s = 0 -> In (row s) (pend q) /\ s = cur q (row s);
  I7 : forall s, ~ inS s -> st q s = NotStarted
}.

Lemma dep0_pos s : inS s -> s <> lo 0 -> 1 <= dep0 s.
Proof.
  intros [Hr Hs] Hne. unfold dep0, has_left, has_up.
  destruct (Nat.ltb_spec (lo (row s)) s) as [Hl|Hl]; [lia|].
  assert (E: s = lo (row s)) by lia.
  destruct (Nat.eq_dec (row s) 0) as [E0|E0]; [rewrite E0 in E; contradiction|].
  destruct (Hup (row s) ltac:(lia) Hr) as [_ H2].
  destruct (Nat.ltb_spec 0 (row s)) as [H0|H0]; [|lia]. cbn [andb].
  destruct (Nat.leb_spec s (hi (row s - 1) + B)) as [Hle|Hle]; lia.
Qed.

Lemma lo0_inS : inS (lo 0).
Proof. destruct (Hrows 0 HR) as [H1 [H2 H3]]. apply (inS_intro 0); auto. Qed.

Lemma init_inv : Inv init.
Proof.
  pose proof lo0_inS as H0. assert (E0: row (lo 0) = 0) by (destruct (Hrows 0 HR) as [H1 [H2 H3]]; apply (inS_row 0); auto).
  unfold init, start; cbn [dep cur st pend]. rewrite E0.
  constructor; cbn [dep cur st pend].
  - intros r Hr. destruct (Hrows r Hr) as [H1 [H2 H3]]. unfold upd. destruct (Nat.eqb_spec r 0); subst; lia.
  - intros s Hs. unfold upd.
    destruct (Nat.eqb_spec s (lo 0)) as [->|Hne].
    + rewrite E0. rewrite Nat.eqb_refl. cbn. split; intros; auto; lia.
    + cbn. destruct Hs as [Hr Hs]. destruct (Nat.eqb_spec (row s) 0) as [Er|Er].
      * rewrite Er in *. split; [discriminate|]. intros. lia.
      * split; [discriminate|]. intros. lia.
  - intros s Hs. unfold lterm, uterm, upd. cbn [st].
    destruct (s - 1 =? lo 0); destruct (s - B =? lo 0); cbn [finished isdone]; rewrite !andb_false_r; lia.
  - intros s Hs. unfold upd. destruct (Nat.eqb_spec s (lo 0)) as [->|Hne]; [|discriminate].
    intros _. unfold dep0, has_left, has_up. rewrite E0. rewrite Nat.ltb_irrefl. cbn. reflexivity.
  - split; [constructor|]. intros r [].
  - intros s Hs. unfold upd. destruct (Nat.eqb_spec s (lo 0)) as [->|Hne]; [discriminate|].
    intros _ Hd. pose proof (dep0_pos s Hs Hne). lia.
  - intros s Hs. unfold upd. destruct (Nat.eqb_spec s (lo 0)) as [->|Hne]; [contradiction|reflexivity].
Qed.

(* invariant with one distinguished "ready" segment that is neither started nor pending yet *)
Record InvX (q : state) (ox : option nat) : Prop := {
  X1 : forall r, r < R -> lo r <= cur q r <= hi r + 1;
  X2 : forall s, inS s -> (started (st q s) = true <-> s < cur q (row s));
  X3 : forall s, inS s -> dep q s + lterm q s + uterm q s = dep0 s;
  X4 : forall s, inS s -> started (st q s) = true -> dep q s = 0;
  X5 : NoDup (pend q) /\ forall r, In r (pend q) -> r < R /\ cur q r <= hi r /\ dep q (cur q r) = 0;
  X6 : forall s, inS s -> started (st q s) = false -> dep q s = 0 ->
         (In (row s) (pend q) /\ s = cur q (row s)) \/ (ox = Some s);
  X7 : forall s, ~ inS s -> st q s = NotStarted;
  X8 : forall x, ox = Some x -> inS x /\ x = cur q (row x) /\ dep q x = 0 /\ ~ In (row x) (pend q)
}.

Lemma Inv_InvX q : Inv q -> InvX q None.
Proof.
  intros [H1 H2 H3 H4 H5 H6 H7].
  constructor; [exact H1|exact H2|exact H3|exact H4|exact H5| |exact H7|].
  - intros s Hs Hn Hd. left. apply H6; auto.
  - intros x E; discriminate.
Qed.

Lemma InvX_Inv q : InvX q None -> Inv q.
Proof.
  intros [H1 H2 H3 H4 H5 H6 H7 H8].
  constructor; [exact H1|exact H2|exact H3|exact H4|exact H5| |exact H7].
  intros s Hs Hn Hd. destruct (H6 s Hs Hn Hd) as [H|H]; [exact H|discriminate].
Qed.

Lemma started_upd_running f x s : started (upd f x Running s) = if s =? x then true else started (f s).
Proof. unfold upd. destruct (s =? x); reflexivity. Qed.

Lemma start_inv q x : InvX q (Some x) -> Inv (start q x).
Proof.
  intros [H1 H2 H3 H4 H5 H6 H7 H8].
  destruct (H8 x eq_refl) as [[Hxr Hxs] [Hxc [Hxd Hxp]]].
  assert (HxS: inS x) by (split; auto).
  unfold start. constructor; cbn [dep cur st pend].
  - intros r Hr. specialize (H1 r Hr). unfold upd. destruct (Nat.eqb_spec r (row x)) as [->|]; lia.
  - intros s Hs. rewrite started_upd_running. unfold upd.
    destruct (Nat.eqb_spec s x) as [->|Hne].
    + rewrite Nat.eqb_refl. split; intros; auto. lia.
    + destruct (Nat.eqb_spec (row s) (row x)) as [Er|Er].
      * rewrite (H2 s Hs). rewrite Er. lia.
      * apply H2; auto.
  - intros s Hs. rewrite <- (H3 s Hs). unfold lterm, uterm; cbn [st]. unfold upd.
    assert (Hns: started (st q x) = false).
    { destruct (started (st q x)) eqn:E; auto. apply (H2 _ HxS) in E. lia. }
    assert (Hfx: finished (st q x) = false /\ isdone (st q x) = false).
    { destruct (st q x); try discriminate; auto. }
    destruct Hfx as [Hf Hd].
    destruct (Nat.eqb_spec (s - 1) x) as [E1|E1]; destruct (Nat.eqb_spec (s - B) x) as [E2|E2];
      cbn [finished isdone]; rewrite ?E1, ?E2, ?Hf, ?Hd; reflexivity.
  - intros s Hs. rewrite started_upd_running. destruct (Nat.eqb_spec s x) as [->|Hne]; auto.
  - destruct H5 as [Hnd Hp]. split; auto. intros r Hin. destruct (Hp r Hin) as [Hr [Hc Hd]].
    unfold upd. destruct (Nat.eqb_spec r (row x)) as [->|Hne]; [contradiction|]. auto.
  - intros s Hs. rewrite started_upd_running. destruct (Nat.eqb_spec s x) as [->|Hne]; [discriminate|].
    intros Hn Hd. destruct (H6 s Hs Hn Hd) as [[Hin Hc]|E]; [|congruence].
    split; auto. unfold upd. destruct (Nat.eqb_spec (row s) (row x)) as [Er|Er]; auto.
    rewrite Er in Hin. contradiction.
  - intros s Hs. unfold upd. destruct (Nat.eqb_spec s x) as [->|Hne]; [contradiction|]. auto.
Qed.

Lemma pend_inv q x : InvX q (Some x) ->
  Inv {| dep := dep q; cur := cur q; st := st q; pend := row x :: pend q |}.
Proof.
  intros [H1 H2 H3 H4 H5 H6 H7 H8].
  destruct (H8 x eq_refl) as [[Hxr Hxs] [Hxc [Hxd Hxp]]].
  constructor; cbn [dep cur st pend]; auto.
  - destruct H5 as [Hnd Hp]. split; [constructor; auto|].
    intros r [<-|Hin]; [|auto]. split; auto. rewrite <- Hxc. split; [lia|auto].
  - intros s Hs Hn Hd. destruct (H6 s Hs Hn Hd) as [[Hin Hc]|E].
    + split; auto. right; auto.
    + inversion E; subst. split; auto. left; reflexivity.
Qed.

Lemma inS_dec s : {inS s} + {~ inS s}.
Proof.
  unfold inS. destruct (lt_dec (row s) R); [|right; tauto].
  destruct (le_dec (lo (row s)) s); [|right; lia].
  destruct (le_dec s (hi (row s))); [left; auto|right; lia].
Qed.

Lemma not_ns_inS q s : Inv q -> st q s <> NotStarted -> inS s.
Proof.
  intros Hi Hn. destruct (inS_dec s) as [H|H]; auto. exfalso. apply Hn. apply (I7 q Hi s H).
Qed.

(* the right-neighbour step preserves the invariant *)
Lemma right_inv q s : Inv q -> st q s = Running -> Inv (right_step q s).
Proof.
  intros Hi Hrun. pose proof Hi as [H1 H2 H3 H4 H5 H6 H7].
  assert (HsS: inS s) by (apply (not_ns_inS q s Hi); congruence).
  pose proof HsS as [Hr Hs]. unfold right_step.
  destruct (Nat.ltb_spec s (hi (row s))) as [Hlt|Hge].
  - (* there is a right neighbour *)
    destruct (row_succ s HsS Hlt) as [Erow HxS]. set (x := s + 1) in *.
    assert (Hleft: has_left x = true) by (unfold has_left; rewrite Erow; apply Nat.ltb_lt; unfold x; lia).
    assert (Hx1: x - 1 = s) by (unfold x; lia).
    assert (Hl0: lterm q x = 0) by (unfold lterm; rewrite Hx1, Hrun; cbn; rewrite andb_false_r; reflexivity).
    assert (Hd1: 1 <= dep q x).
    { pose proof (H3 x HxS) as E. rewrite Hl0 in E. unfold dep0 in E. rewrite Hleft in E.
      unfold uterm in E. destruct (has_up x); cbn in E; [destruct (isdone (st q (x - B))); lia | lia]. }
    assert (Hxns: started (st q x) = false).
    { destruct (started (st q x)) eqn:E; auto. pose proof (H4 x HxS E). lia. }
    set (d := dep q x - 1).
    set (q1 := {| dep := upd (dep q) x d; cur := cur q; st := upd (st q) s (Mid (d =? 0)); pend := pend q |}).
    assert (HX: InvX q1 (if d =? 0 then Some x else None)).
    { constructor; unfold q1; cbn [dep cur st pend].
      - exact H1.
      - intros t Ht. unfold upd. destruct (Nat.eqb_spec t s) as [->|Hne]; [|apply H2; auto].
        cbn. rewrite <- (H2 s HsS). rewrite Hrun. cbn. tauto.
      - intros t Ht. unfold lterm, uterm; cbn [st]. unfold upd.
        assert (Eu: isdone (if t - B =? s then Mid (d =? 0) else st q (t - B)) = isdone (st q (t - B))).
        { destruct (Nat.eqb_spec (t - B) s) as [->|]; auto. rewrite Hrun. reflexivity. }
        rewrite Eu. fold (uterm q t).
        destruct (Nat.eqb_spec t x) as [->|Hne].
        + rewrite Hx1, Nat.eqb_refl. cbn [finished]. rewrite Hleft. cbn [andb].
          pose proof (H3 x HxS) as E. rewrite Hl0 in E. unfold d. lia.
        + assert (El: finished (if t - 1 =? s then Mid (d =? 0) else st q (t - 1)) && has_left t
                     = finished (st q (t - 1)) && has_left t).
          { destruct (Nat.eqb_spec (t - 1) s) as [E1|]; auto.
            (* t - 1 = s and t <> s + 1 means t = 0 = s, then has_left t = false *)
            assert (t = 0) by (unfold x in Hne; lia). subst t. unfold has_left. 
            replace (lo (row 0) <? 0) with false by (symmetry; apply Nat.ltb_ge; lia).
            rewrite !andb_false_r. reflexivity. }
          rewrite (andb_comm (has_left t)), El, (andb_comm _ (has_left t)). fold (lterm q t). apply H3; auto.
      - intros t Ht. unfold upd.
        destruct (Nat.eqb_spec t x) as [->|Hne].
        + destruct (Nat.eqb_spec x s); [unfold x in *; lia|]. rewrite Hxns. discriminate.
        + destruct (Nat.eqb_spec t s) as [->|Hne2]; [intros _; apply H4; auto; rewrite Hrun; reflexivity | apply H4; auto].
      - destruct H5 as [Hnd Hp]. split; auto. intros r Hin. destruct (Hp r Hin) as [Hr' [Hc Hd]].
        split; auto. split; auto. unfold upd. destruct (Nat.eqb_spec (cur q r) x) as [E|]; auto.
        rewrite E in Hd. lia.
      - intros t Ht. unfold upd.
        destruct (Nat.eqb_spec t s) as [->|Hne2]; [cbn; discriminate|].
        destruct (Nat.eqb_spec t x) as [->|Hne].
        + intros _ Hd0. right. unfold d in *. rewrite Hd0. reflexivity.
        + intros Hn Hd0. left. apply H6; auto.
      - intros t Ht. unfold upd. destruct (Nat.eqb_spec t s) as [->|]; [contradiction|auto].
      - intros y Ey. destruct (Nat.eqb_spec d 0) as [Hd0|]; [|discriminate]. inversion Ey; subst y.
        split; auto. unfold upd. rewrite Nat.eqb_refl. split; [|split; auto].
        + (* x = cur (row x) *)
          rewrite Erow. pose proof (proj1 (H2 s HsS)) as A. rewrite Hrun in A. specialize (A eq_refl).
          assert (~ x < cur q (row x)).
          { intro C. apply (H2 x HxS) in C. congruence. }
          rewrite Erow in H. unfold x in *. lia.
        + intro Hin. destruct H5 as [_ Hp]. destruct (Hp _ Hin) as [_ [_ Hd']].
          assert (cur q (row x) = x).
          { rewrite Erow. pose proof (proj1 (H2 s HsS)) as A. rewrite Hrun in A. specialize (A eq_refl).
            assert (~ x < cur q (row x)) by (intro C; apply (H2 x HxS) in C; congruence).
            rewrite Erow in H. unfold x in *. lia. }
          rewrite H in Hd'. lia. }
    fold d. fold q1. destruct (Nat.eqb_spec d 0) as [Hd0|Hd0].
    + replace (cur q1 (row s)) with x.
      * apply start_inv. exact HX.
      * destruct (X8 q1 _ HX x eq_refl) as [_ [E _]]. rewrite Erow in E. exact E.
    + apply InvX_Inv. exact HX.
  - (* last segment of its row: only the ghost phase changes *)
    constructor; cbn [dep cur st pend].
    + exact H1.
    + intros t Ht. unfold upd. destruct (Nat.eqb_spec t s) as [->|Hne]; [|apply H2; auto].
      cbn. rewrite <- (H2 s HsS). rewrite Hrun. cbn. tauto.
    + intros t Ht. rewrite <- (H3 t Ht). unfold lterm, uterm; cbn [st]. unfold upd.
      assert (Eu: isdone (if t - B =? s then Mid false else st q (t - B)) = isdone (st q (t - B))).
      { destruct (Nat.eqb_spec (t - B) s) as [->|]; auto. rewrite Hrun. reflexivity. }
      rewrite Eu.
      assert (El: has_left t && finished (if t - 1 =? s then Mid false else st q (t - 1))
                   = has_left t && finished (st q (t - 1))).
      { destruct (Nat.eqb_spec (t - 1) s) as [E1|]; auto.
        destruct (has_left t) eqn:Hl; auto. exfalso.
        unfold has_left in Hl. apply Nat.ltb_lt in Hl. destruct Ht as [Htr Hts].
        assert (row t = row s).
        { destruct (Hrows (row t) Htr) as [A1 [A2 A3]]. symmetry. apply (inS_row (row t)); auto. lia. }
        rewrite H in *. lia. }
      rewrite El. reflexivity.
    + intros t Ht. unfold upd. destruct (Nat.eqb_spec t s) as [->|Hne2]; [intros _; apply H4; auto; rewrite Hrun; reflexivity | apply H4; auto].
    + exact H5.
    + intros t Ht. unfold upd. destruct (Nat.eqb_spec t s) as [->|Hne2]; [cbn; discriminate|]. apply H6; auto.
    + intros t Ht. unfold upd. destruct (Nat.eqb_spec t s) as [->|]; [contradiction|auto].
Qed.

(* a segment t whose upper neighbour is s lives in the row below s *)
Lemma up_row t s : inS t -> inS s -> has_up t = true -> t - B = s -> B <= t ->
  row t = row s + 1 /\ lo (row s + 1) <= s + B.
Proof.
  intros [Htr Hts] HsS Hu E HBt. unfold has_up in Hu. apply andb_prop in Hu. destruct Hu as [Hu1 Hu2].
  apply Nat.ltb_lt in Hu1. apply Nat.leb_le in Hu2.
  destruct (Hup (row t) Hu1 Htr) as [A1 A2].
  assert (Hrs: row s = row t - 1).
  { apply (inS_row (row t - 1)); [lia|]. lia. }
  split; [lia|]. replace (row s + 1) with (row t) by lia. lia.
Qed.

Lemma done_only_inv q s self : Inv q -> st q s = Mid self ->
  (forall t, inS t -> has_up t = true -> t - B = s -> B <= t -> False) ->
  Inv {| dep := dep q; cur := cur q; st := upd (st q) s Done; pend := pend q |}.
Proof.
  intros Hi Hmid Hno. pose proof Hi as [H1 H2 H3 H4 H5 H6 H7].
  assert (HsS: inS s) by (apply (not_ns_inS q s Hi); congruence).
  constructor; cbn [dep cur st pend].
  - exact H1.
  - intros t Ht. unfold upd. destruct (Nat.eqb_spec t s) as [->|Hne]; [|apply H2; auto].
    cbn. rewrite <- (H2 s HsS). rewrite Hmid. cbn. tauto.
  - intros t Ht. rewrite <- (H3 t Ht). unfold lterm, uterm; cbn [st]. unfold upd.
    assert (El: finished (if t - 1 =? s then Done else st q (t - 1)) = finished (st q (t - 1))).
    { destruct (Nat.eqb_spec (t - 1) s) as [->|]; auto. rewrite Hmid. reflexivity. }
    rewrite El.
    assert (Eu: has_up t && isdone (if t - B =? s then Done else st q (t - B))
               = has_up t && isdone (st q (t - B))).
    { destruct (Nat.eqb_spec (t - B) s) as [E1|]; auto.
      destruct (has_up t) eqn:Hu; auto. exfalso.
      assert (B <= t).
      { pose proof Hu as Hu'. unfold has_up in Hu'. apply andb_prop in Hu'. destruct Hu' as [Hu1 _].
        apply Nat.ltb_lt in Hu1. unfold row in Hu1. destruct (le_lt_dec B t); auto. rewrite Nat.div_small in Hu1; lia. }
      apply (Hno t Ht Hu E1 H). }
    rewrite Eu. reflexivity.
  - intros t Ht. unfold upd. destruct (Nat.eqb_spec t s) as [->|Hne2]; [intros _; apply H4; auto; rewrite Hmid; reflexivity | apply H4; auto].
  - exact H5.
  - intros t Ht. unfold upd. destruct (Nat.eqb_spec t s) as [->|Hne2]; [cbn; discriminate|]. apply H6; auto.
  - intros t Ht. unfold upd. destruct (Nat.eqb_spec t s) as [->|]; [contradiction|auto].
Qed.

(* the bottom-left step preserves the invariant *)
Lemma down_inv q s self : Inv q -> st q s = Mid self -> Inv (down_step q s self).
Proof.
  intros Hi Hmid. pose proof Hi as [H1 H2 H3 H4 H5 H6 H7].
  assert (HsS: inS s) by (apply (not_ns_inS q s Hi); congruence).
  pose proof HsS as [Hr Hs]. unfold down_step.
  set (qd := {| dep := dep q; cur := cur q; st := upd (st q) s Done; pend := pend q |}).
  destruct (Nat.ltb_spec (row s + 1) R) as [Hr1|Hr1]; cbn [andb];
    [destruct (Nat.leb_spec (lo (row s + 1)) (s + B)) as [Hlo|Hlo]|].
  - (* there is a bottom-left neighbour x = s + B *)
    destruct (row_down s HsS Hr1 Hlo) as [Erow HxS]. set (x := s + B) in *.
    assert (HxB: x - B = s) by (unfold x; lia).
    assert (Hup1: has_up x = true).
    { unfold has_up. rewrite Erow. replace (row s + 1 - 1) with (row s) by lia.
      apply andb_true_intro. split; [apply Nat.ltb_lt; lia | apply Nat.leb_le; unfold x; lia]. }
    assert (Hu0: uterm q x = 0) by (unfold uterm; rewrite HxB, Hmid; cbn; rewrite andb_false_r; reflexivity).
    assert (Hd1: 1 <= dep q x).
    { pose proof (H3 x HxS) as E. rewrite Hu0 in E. unfold dep0 in E. rewrite Hup1 in E.
      unfold lterm in E. destruct (has_left x); cbn in E; [destruct (finished (st q (x - 1))); lia | lia]. }
    assert (Hxns: started (st q x) = false).
    { destruct (started (st q x)) eqn:E; auto. pose proof (H4 x HxS E). lia. }
    assert (Hxs: x <> s) by (unfold x; lia).
    set (d := dep q x - 1).
    set (q1 := {| dep := upd (dep qd) x d; cur := cur qd; st := st qd; pend := pend qd |}).
    assert (HX: InvX q1 (if d =? 0 then Some x else None)).
    { constructor; unfold q1, qd; cbn [dep cur st pend].
      - exact H1.
      - intros t Ht. unfold upd. destruct (Nat.eqb_spec t s) as [->|Hne]; [|apply H2; auto].
        cbn. rewrite <- (H2 s HsS). rewrite Hmid. cbn. tauto.
      - intros t Ht. unfold lterm, uterm; cbn [st]. unfold upd.
        assert (El: finished (if t - 1 =? s then Done else st q (t - 1)) = finished (st q (t - 1))).
        { destruct (Nat.eqb_spec (t - 1) s) as [->|]; auto. rewrite Hmid. reflexivity. }
        rewrite El. fold (lterm q t).
        destruct (Nat.eqb_spec t x) as [->|Hne].
        + rewrite HxB, Nat.eqb_refl. cbn [isdone]. rewrite Hup1. cbn [andb].
          pose proof (H3 x HxS) as E. rewrite Hu0 in E. unfold d. lia.
        + assert (Eu: has_up t && isdone (if t - B =? s then Done else st q (t - B))
                     = has_up t && isdone (st q (t - B))).
          { destruct (Nat.eqb_spec (t - B) s) as [E1|]; auto.
            destruct (has_up t) eqn:Hu; auto. exfalso.
            unfold has_up in Hu. apply andb_prop in Hu. destruct Hu as [Hu1 Hu2].
            apply Nat.ltb_lt in Hu1. 
            (* row t > 0 means t >= B, so t = s + B = x *)
            assert (B <= t).
            { unfold row in Hu1. destruct (le_lt_dec B t); auto. rewrite Nat.div_small in Hu1; lia. }
            unfold x in Hne. lia. }
          rewrite Eu. fold (uterm q t). apply H3; auto.
      - intros t Ht. unfold upd.
        destruct (Nat.eqb_spec t x) as [->|Hne].
        + destruct (Nat.eqb_spec x s); [contradiction|]. rewrite Hxns. discriminate.
        + destruct (Nat.eqb_spec t s) as [->|Hne2]; [intros _; apply H4; auto; rewrite Hmid; reflexivity | apply H4; auto].
      - destruct H5 as [Hnd Hp]. split; auto. intros r Hin. destruct (Hp r Hin) as [Hr' [Hc Hd]].
        split; auto. split; auto. unfold upd. destruct (Nat.eqb_spec (cur q r) x) as [E|]; auto.
        rewrite E in Hd. lia.
      - intros t Ht. unfold upd.
        destruct (Nat.eqb_spec t s) as [->|Hne2]; [cbn; discriminate|].
        destruct (Nat.eqb_spec t x) as [->|Hne].
        + intros _ Hd0. right. unfold d in *. rewrite Hd0. reflexivity.
        + intros Hn Hd0. left. apply H6; auto.
      - intros t Ht. unfold upd. destruct (Nat.eqb_spec t s) as [->|]; [contradiction|auto].
      - intros y Ey. destruct (Nat.eqb_spec d 0) as [Hd0|]; [|discriminate]. inversion Ey; subst y.
        assert (Hcur: cur q (row x) = x).
        { assert (Hge: ~ x < cur q (row x)) by (intro C; apply (H2 x HxS) in C; congruence).
          assert (Hle: x <= cur q (row x)).
          { destruct (Nat.eq_dec x (lo (row x))) as [El|El].
            - rewrite El at 1. apply (H1 (row x)). apply HxS.
            - (* has a left neighbour, which must have finished because dep reaches 0 *)
              assert (Hl: has_left x = true) by (unfold has_left; apply Nat.ltb_lt; destruct HxS; lia).
              pose proof (H3 x HxS) as E. rewrite Hu0 in E. unfold dep0 in E. rewrite Hl, Hup1 in E.
              unfold lterm in E. rewrite Hl in E. cbn [andb] in E.
              destruct (finished (st q (x - 1))) eqn:Ef; [|unfold d in Hd0; lia].
              assert (HpS: inS (x - 1)).
              { destruct HxS as [A B0]. apply (inS_intro (row x)); auto. lia. }
              assert (Hprow: row (x - 1) = row x).
              { destruct HxS as [A B0]. apply (inS_row (row x)); auto. lia. }
              assert (Hst: started (st q (x - 1)) = true) by (destruct (st q (x - 1)); try discriminate; reflexivity).
              apply (H2 _ HpS) in Hst. rewrite Hprow in Hst. lia. }
          lia. }
        split; auto. unfold upd. rewrite Nat.eqb_refl. split; [auto|split; auto].
        intro Hin. destruct H5 as [_ Hp]. destruct (Hp _ Hin) as [_ [_ Hd']]. rewrite Hcur in Hd'. lia. }
    fold d. fold q1. destruct (Nat.eqb_spec d 0) as [Hd0|Hd0].
    + destruct self.
      * replace (row s + 1) with (row x) by (symmetry; exact Erow). apply (pend_inv q1 x HX).
      * replace (cur q1 (row s + 1)) with x.
        -- apply start_inv. exact HX.
        -- destruct (X8 q1 _ HX x eq_refl) as [_ [E _]]. rewrite Erow in E. exact E.
    + apply InvX_Inv. exact HX.
  - (* next row starts further right: no bottom-left neighbour *)
    apply (done_only_inv q s self Hi Hmid). intros t Ht Hu E HBt.
    destruct (up_row t s Ht HsS Hu E HBt) as [_ C]. lia.
  - (* last row *)
    apply (done_only_inv q s self Hi Hmid). intros t Ht Hu E HBt.
    destruct (up_row t s Ht HsS Hu E HBt) as [C _]. destruct Ht as [Htr _]. lia.
Qed.

(* every step preserves the invariant; hence every reachable state satisfies it *)
Theorem step_inv q q' : Inv q -> step q q' -> Inv q'.
Proof.
  intros Hi Hs. destruct Hs as [q s Hrun | q s self Hmid | q r l1 l2 Hp].
  - apply right_inv; auto.
  - apply down_inv; auto.
  - (* feedback task: start the pending row's current segment *)
    pose proof Hi as [H1 H2 H3 H4 H5 H6 H7]. destruct H5 as [Hnd Hpp].
    assert (Hin: In r (pend q)) by (rewrite Hp; apply in_or_app; right; left; reflexivity).
    destruct (Hpp r Hin) as [Hr [Hc Hd]].
    assert (HnotIn: ~ In r (l1 ++ l2)).
    { rewrite Hp in Hnd. apply NoDup_remove_2 in Hnd. exact Hnd. }
    assert (HxS: inS (cur q r)) by (apply (inS_intro r); auto; split; [apply H1; auto|auto]).
    assert (Erow: row (cur q r) = r) by (apply (inS_row r); auto; split; [apply H1; auto|auto]).
    apply start_inv. constructor; cbn [dep cur st pend]; auto.
    + split; [rewrite Hp in Hnd; apply NoDup_remove_1 in Hnd; exact Hnd|].
      intros r' Hin'. apply Hpp. rewrite Hp. apply in_app_or in Hin'. apply in_or_app. destruct Hin'; [left; auto|right; right; auto].
    + intros t Ht Hn Hd0. destruct (H6 t Ht Hn Hd0) as [Hin' Hc'].
      destruct (Nat.eq_dec (row t) r) as [Er|Er].
      * right. rewrite Hc', Er. reflexivity.
      * left. split; auto. rewrite Hp in Hin'. apply in_app_or in Hin'. apply in_or_app.
        destruct Hin' as [|[E|]]; [left; auto| congruence | right; auto].
    + intros x Ex. inversion Ex; subst x. rewrite Erow. repeat split; auto; try apply HxS.
Qed.

Inductive reach : state -> Prop :=
| reach0 : reach init
| reachS q q' : reach q -> step q q' -> reach q'.

Theorem reach_inv q : reach q -> Inv q.
Proof. induction 1; [apply init_inv | eapply step_inv; eauto]. Qed.

(* a started segment has its left neighbour finished and its upper neighbour completely done *)
Corollary started_after_deps q s : reach q -> inS s -> started (st q s) = true ->
  (has_left s = true -> finished (st q (s - 1)) = true) /\
  (has_up s = true -> isdone (st q (s - B)) = true).
Proof.
  intros Hr Hs Hst. pose proof (reach_inv q Hr) as Hi.
  pose proof (I4 q Hi s Hs Hst) as Hd. pose proof (I3 q Hi s Hs) as E. rewrite Hd in E.
  unfold lterm, uterm, dep0 in E.
  destruct (has_left s), (has_up s); cbn [andb] in E;
    destruct (finished (st q (s - 1))), (isdone (st q (s - B))); cbn in E; split; intros; auto; try lia; try discriminate.
Qed.

(* completion: when nothing is running, half-finished or pending, every segment is done *)
Theorem quiescent_all_done q : reach q -> pend q = [] ->
  (forall s, st q s = NotStarted \/ st q s = Done) ->
  forall s, inS s -> st q s = Done.
Proof.
  intros Hr Hp Hq. pose proof (reach_inv q Hr) as Hi.
  intros s. induction s as [s IH] using lt_wf_ind. intros Hs.
  destruct (Hq s) as [Hn|]; auto. exfalso.
  (* s not started: its dependency count must be positive, so some neighbour is unfinished; but neighbours are smaller *)
  assert (Hns: started (st q s) = false) by (rewrite Hn; reflexivity).
  assert (Hd0: dep q s = 0).
  { pose proof (I3 q Hi s Hs) as E. unfold lterm, uterm, dep0 in E.
    assert (Hl: has_left s = true -> finished (st q (s - 1)) = true).
    { intros Hl. unfold has_left in Hl. apply Nat.ltb_lt in Hl. destruct Hs as [A B0].
      assert (HpS: inS (s - 1)) by (apply (inS_intro (row s)); auto; lia).
      rewrite (IH (s - 1) ltac:(lia) HpS). reflexivity. }
    assert (Hu: has_up s = true -> isdone (st q (s - B)) = true).
    { intros Hu. pose proof Hu as Hu'. unfold has_up in Hu'. apply andb_prop in Hu'. destruct Hu' as [Hu1 Hu2].
      apply Nat.ltb_lt in Hu1. apply Nat.leb_le in Hu2. destruct Hs as [A B0].
      destruct (Hup (row s) Hu1 A) as [C1 C2].
      assert (HBs: B <= s).
      { unfold row in Hu1. destruct (le_lt_dec B s); auto. rewrite Nat.div_small in Hu1; lia. }
      assert (HpS: inS (s - B)) by (apply (inS_intro (row s - 1)); [lia|lia]).
      rewrite (IH (s - B) ltac:(lia) HpS). reflexivity. }
    destruct (has_left s), (has_up s); cbn [andb] in E.
    - rewrite (Hl eq_refl), (Hu eq_refl) in E. lia.
    - rewrite (Hl eq_refl) in E. lia.
    - rewrite (Hu eq_refl) in E. lia.
    - lia. }
  destruct (I6 q Hi s Hs Hns Hd0) as [Hin _]. rewrite Hp in Hin. contradiction.
Qed.

(* ---------- transitive dependency order: everything "earlier" than a started segment has finished ---------- *)
Lemma finished_started p : finished p = true -> started p = true.
Proof. destruct p; cbn; auto. Qed.
Lemma isdone_finished p : isdone p = true -> finished p = true.
Proof. destruct p; cbn; auto. Qed.

Lemma left_of_started q s t : reach q -> inS s -> started (st q s) = true ->
  lo (row s) <= t -> t < s -> finished (st q t) = true.
Proof.
  intros Hr Hs Hst Hlo Hlt. pose proof (reach_inv q Hr) as Hi. destruct Hs as [HrR Hs].
  assert (Hs1 : inS (t + 1)) by (apply (inS_intro (row s)); auto; lia).
  assert (Er : row (t + 1) = row s) by (apply (inS_row (row s)); auto; lia).
  assert (Hc : s < cur q (row s)) by (apply (I2 q Hi s); [split; auto | exact Hst]).
  assert (Hst1 : started (st q (t + 1)) = true) by (apply (I2 q Hi (t + 1) Hs1); rewrite Er; lia).
  destruct (started_after_deps q (t + 1) Hr Hs1 Hst1) as [Hl _].
  replace (t + 1 - 1) with t in Hl by lia. apply Hl. unfold has_left. rewrite Er. apply Nat.ltb_lt. lia.
Qed.

Lemma band_hi_mono r2 : forall r1, r1 <= r2 -> r2 < R -> hi r1 + r2 * B <= hi r2 + r1 * B.
Proof.
  induction r2 as [|r2 IH]; intros r1 H1 H2.
  - assert (r1 = 0) by lia. subst. lia.
  - destruct (Nat.eq_dec r1 (S r2)) as [->|Hne]; [lia|].
    specialize (IH r1 ltac:(lia) ltac:(lia)). pose proof (Hhi r2 ltac:(lia)) as Hh.
    replace (r2 + 1) with (S r2) in Hh by lia. lia.
Qed.

Theorem started_after_all_earlier q : reach q -> forall r s, row s = r -> inS s -> started (st q s) = true ->
  forall t, inS t -> t <> s -> row t <= row s -> t + row s * B <= s + row t * B -> finished (st q t) = true.
Proof.
  intros Hr r. pose proof (reach_inv q Hr) as Hi.
  induction r as [|r IH]; intros s Er Hs Hst t Ht Hne Hrow Hband.
  - (* same row *)
    assert (Et : row t = 0) by lia. rewrite Er, Et in Hband.
    apply (left_of_started q s t Hr Hs Hst); [|lia]. rewrite Er. destruct Ht as [_ Ht]. rewrite Et in Ht. lia.
  - destruct (Nat.eq_dec (row t) (S r)) as [Et|Et].
    + rewrite Er, Et in Hband. apply (left_of_started q s t Hr Hs Hst); [|lia]. rewrite Er. destruct Ht as [_ Ht]. rewrite Et in Ht. lia.
    + (* an earlier row: go through the upper neighbour of s' = min s (hi r + B) *)
      pose proof Hs as [HrR Hsr]. rewrite Er in HrR, Hsr.
      destruct (Hup (S r) ltac:(lia) HrR) as [U1 U2]. replace (S r - 1) with r in U1, U2 by lia.
      destruct (Hrows r ltac:(lia)) as [R1 [R2 R3]]. destruct (Hrows (S r) HrR) as [S1 [S2 S3]].
      set (s' := Nat.min s (hi r + B)).
      assert (Hs'r : lo (S r) <= s' <= hi (S r)) by (unfold s'; lia).
      assert (Hs' : inS s') by (apply (inS_intro (S r)); auto).
      assert (Es' : row s' = S r) by (apply (inS_row (S r)); auto).
      assert (Hc : s < cur q (S r)) by (rewrite <- Er; apply (I2 q Hi s Hs); exact Hst).
      assert (Hst' : started (st q s') = true) by (apply (I2 q Hi s' Hs'); rewrite Es'; unfold s'; lia).
      destruct (started_after_deps q s' Hr Hs' Hst') as [_ Hu].
      assert (Hup' : has_up s' = true).
      { unfold has_up. rewrite Es'. replace (S r - 1) with r by lia. apply andb_true_iff; split; [apply Nat.ltb_lt; lia | apply Nat.leb_le; unfold s'; lia]. }
      specialize (Hu Hup'). set (u := s' - B) in *.
      assert (Hur : lo r <= u <= hi r) by (unfold u, s'; lia).
      assert (Hu_in : inS u) by (apply (inS_intro r); auto; lia).
      assert (Eu : row u = r) by (apply (inS_row r); auto; lia).
      destruct (Nat.eq_dec t u) as [->|Htu]; [apply isdone_finished; exact Hu|].
      apply (IH u Eu Hu_in (finished_started _ (isdone_finished _ Hu)) t Ht Htu); [rewrite Eu; lia|].
      rewrite Eu. rewrite Er in Hband.
      (* band t <= band s and band t <= band (hi r) *)
      destruct Ht as [HtR Htr]. pose proof (band_hi_mono r (row t) ltac:(lia) ltac:(lia)) as Hm.
      unfold u, s'. destruct (Nat.min_spec s (hi r + B)) as [[_ ->]|[_ ->]]; nia.
Qed.
End Proto.

(* ---------- consequences, outside the section ---------- *)
Print Assumptions reach_inv.
Print Assumptions started_after_deps.
Print Assumptions quiescent_all_done.
Print Assumptions started_after_all_earlier.
