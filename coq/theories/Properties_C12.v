(* C12 — parameter validation accepts exactly the documented domain.
   SVG.VerifyGen is regenerated from copy_api_from_app / verify_settings on every run; SV.DocDomain is the
   documented domain (one acceptance condition per validation site). Statements only. *)
From Coq Require Import ZArith Bool List.
From SV Require Import DocDomain Proofs_C12.
From SVG Require Import VerifyGen.
Local Open Scope Z_scope.

(* for every effective configuration whose cells are within their C types:
   verify_settings reports EB_ErrorBadParameter  <->  the configuration is outside the documented domain *)
Theorem verify_iff_documented : forall s : config, in_type s -> verify_rejects s = negb (documented s).
Proof. exact rejects_iff_not_documented. Qed.

(* the same for svt_av1_enc_set_parameter: c = the caller's configuration, p = the previous content of the
   sequence control set; effective c p = what copy_api_from_app leaves there *)
Theorem set_parameter_rejects_iff : forall c p : config, in_type (effective c p) ->
  sp_rejects c p = negb (documented (effective c p)).
Proof. intros c p H. unfold sp_rejects. apply rejects_iff_not_documented. exact H. Qed.
