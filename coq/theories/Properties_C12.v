(* C12 — parameter validation accepts exactly the documented domain.
   SVG.VerifyGen is regenerated from copy_api_from_app / verify_settings on every run; SV.DocDomain is the
   documented domain (one acceptance condition per validation site). Statements only. *)
From Coq Require Import ZArith Bool List.
From SV Require Import CInt DocDomain Proofs_C12.
From SVG Require Import VerifyGen.
Local Open Scope Z_scope.

(* for every effective configuration whose cells are within their C types:
   verify_settings reports EB_ErrorBadParameter  <->  the configuration is outside the documented domain *)
Theorem verify_iff_documented : forall s : config, in_type s -> verify_rejects s = negb (documented s).
Proof. exact rejects_iff_not_documented. Qed.

(* the same for svt_av1_enc_set_parameter: c = the caller's configuration, p = the previous content of the
   sequence control set; effective c p = what copy_api_from_app leaves there *)
Theorem set_parameter_rejects_iff : forall c p : config, in_type (effective c p) ->
  sp_rejects c p = negb (documented (effective c p)).
Proof. intros c p H. unfold sp_rejects. apply rejects_iff_not_documented. exact H. Qed.

(* the copy stage, for the one cell of the documented domain that is derived rather than copied: numerator and denominator, when both
   are set, replace frame_rate - for every caller configuration c and every previous content p of the sequence control set *)
Theorem frame_rate_cell_of_effective_configuration : forall c p,
  f_frame_rate (effective c p) =
  if negb (f_frame_rate_numerator c =? 0) && negb (f_frame_rate_denominator c =? 0)
  then wrapU 32 (Z.shiftl (wrapU 32 (wrapU 32 (Z.shiftl (f_frame_rate_numerator c) 8) ÷ f_frame_rate_denominator c)) 8)
  else f_frame_rate c.
Proof. exact effective_frame_rate_cell. Qed.

(* ... so that, in the caller's terms, the two frame-rate conditions hold exactly for 1/256 fps <= numerator / denominator < 240 + 1/256 fps *)
Theorem frame_rate_conditions_in_caller_terms : forall c p, let n := f_frame_rate_numerator c in let d := f_frame_rate_denominator c in
  0 < d -> 0 < n < 2 ^ 24 -> n < 65536 * d ->
  ((f_frame_rate (effective c p) <=? 15728640) && negb (f_frame_rate (effective c p) =? 0) = true <-> d <= n * 256 /\ n * 256 < 61441 * d).
Proof. exact frame_rate_from_caller. Qed.
