(* C12: every validation site of the regenerated verify_settings model is the negation of the documented
   acceptance condition at the same position; hence rejection = not documented. *)
From Coq Require Import ZArith Bool List Lia ZifyBool.
From SV Require Import CInt DocDomain.
From SVG Require Import VerifyGen.
Import ListNotations.
Local Open Scope Z_scope.

Lemma existsb_forallb_neg (cl g : list bool) :
  Forall2 (fun c d => c = negb d) cl g -> existsb (fun b => b) cl = negb (forallb (fun b => b) g).
Proof.
  induction 1 as [|c d cl g E _ IH]; cbn [existsb forallb]; [reflexivity|].
  rewrite IH, E. destruct d, (forallb (fun b => b) g); reflexivity.
Qed.

(* one site: case-split the innermost if-conditions (HME helper results), then linear arithmetic over booleans *)
Ltac split_ifs :=
  repeat match goal with
  | |- context [if ?b then _ else _] =>
      lazymatch b with
      | context [if _ then _ else _] => fail
      | _ => destruct b eqn:?; cbv iota
      end
  end.
Ltac note_wrap b x :=
  lazymatch goal with
  | _ : 0 <= wrapU b x < 2 ^ b |- _ => fail
  | _ => pose proof (wrapU_range b x ltac:(lia))
  end.
Ltac wrap_facts :=
  repeat match goal with
  | |- context [wrapU ?b ?x] => note_wrap b x
  | _ : context [wrapU ?b ?x] |- _ => note_wrap b x
  end.
Ltac site := unfold tri, hme_on, hme_sum; unfold rng; split_ifs; wrap_facts; lia.

Lemma sites_match s : in_type s -> Forall2 (fun c d => c = negb d) (verify_clauses s) (golden s).
Proof.
  intros Hty. unfold in_type in Hty. decompose [and] Hty. clear Hty.
  unfold verify_clauses, verify_clauses_and_scope, golden. cbv zeta. cbn [fst].
  repeat (apply Forall2_cons; [site|]). apply Forall2_nil.
Qed.

Lemma rejects_iff_not_documented s : in_type s -> verify_rejects s = negb (documented s).
Proof. intros H. unfold verify_rejects, documented. apply existsb_forallb_neg. apply sites_match. exact H. Qed.

(* ---- the one cell the documented domain reads that copy_api_from_app derives instead of copying: the frame rate ----
   which caller fields feed it, for every caller configuration c and previous content p *)
Lemma effective_frame_rate_cell c p :
  f_frame_rate (effective c p) =
  if negb (f_frame_rate_numerator c =? 0) && negb (f_frame_rate_denominator c =? 0)
  then wrapU 32 (Z.shiftl (wrapU 32 (wrapU 32 (Z.shiftl (f_frame_rate_numerator c) 8) ÷ f_frame_rate_denominator c)) 8)
  else f_frame_rate c.
Proof. unfold effective, effective_and_scope; cbv zeta; cbn [fst f_frame_rate]. reflexivity. Qed.

(* in the caller's terms: with numerator and denominator set (numerator below 2^24, rate below 65536 fps so that the 32-bit arithmetic of the C does not wrap), the two frame-rate conditions of the documented
   domain hold exactly when 1/256 fps <= numerator / denominator < 240 + 1/256 fps, whatever frame_rate holds *)
Lemma frame_rate_from_caller c p : let n := f_frame_rate_numerator c in let d := f_frame_rate_denominator c in
  0 < d -> 0 < n < 2 ^ 24 -> n < 65536 * d ->
  ((f_frame_rate (effective c p) <=? 15728640) && negb (f_frame_rate (effective c p) =? 0) = true <-> d <= n * 256 /\ n * 256 < 61441 * d).
Proof.
  intros n d Hd Hn Hr. rewrite effective_frame_rate_cell. fold n d.
  destruct (Z.eqb_spec n 0) as [E|_]; [lia|]. destruct (Z.eqb_spec d 0) as [E|_]; [lia|]. cbn [negb andb].
  rewrite !Z.shiftl_mul_pow2 by lia. change (2 ^ 8) with 256.
  rewrite (wrapU_id 32 (n * 256)) by lia.
  assert (Hq : 0 <= n * 256 ÷ d <= n * 256).
  { rewrite Z.quot_div_nonneg by lia. split; [apply Z.div_pos; lia|]. apply Z.div_le_upper_bound; nia. }
  rewrite (wrapU_id 32 (n * 256 ÷ d)) by lia.
  rewrite Z.quot_div_nonneg in * by lia.
  set (q := n * 256 / d) in *.
  assert (Hqd : q * d <= n * 256 < (q + 1) * d) by (subst q; pose proof (Z.div_mod (n * 256) d ltac:(lia)); pose proof (Z.mod_pos_bound (n * 256) d ltac:(lia)); nia).
  assert (Hq24 : q < 2 ^ 24) by (apply Z.lt_le_trans with (65536 * 256); [|lia]; nia).
  rewrite (wrapU_id 32 (q * 256)) by lia.
  rewrite andb_true_iff, negb_true_iff, Z.leb_le, Z.eqb_neq. split.
  - intros [H1 H2]. split; nia.
  - intros [H1 H2]. split; nia.
Qed.
