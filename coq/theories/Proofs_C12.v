(* C12: every validation site of the regenerated verify_settings model is the negation of the documented
   acceptance condition at the same position; hence rejection = not documented. *)
From Coq Require Import ZArith Bool List Lia ZifyBool.
From SV Require Import CInt DocDomain.
From SVG Require Import VerifyGen.
Import ListNotations.
Local Open Scope Z_scope.

Lemma existsb_forallb_neg (cl g : list bool) :
  Forall2 (fun c d => c = negb d) cl g -> existsb (fun b => b) cl = negb (forallb (fun b => b) g).
Proof.
  induction 1 as [|c d cl g E _ IH]; cbn [existsb forallb]; [reflexivity|].
  rewrite IH, E. destruct d, (forallb (fun b => b) g); reflexivity.
Qed.

(* one site: case-split the innermost if-conditions (HME helper results), then linear arithmetic over booleans *)
Ltac split_ifs :=
  repeat match goal with
  | |- context [if ?b then _ else _] =>
      lazymatch b with
      | context [if _ then _ else _] => fail
      | _ => destruct b eqn:?; cbv iota
      end
  end.
Ltac note_wrap b x :=
  lazymatch goal with
  | _ : 0 <= wrapU b x < 2 ^ b |- _ => fail
  | _ => pose proof (wrapU_range b x ltac:(lia))
  end.
Ltac wrap_facts :=
  repeat match goal with
  | |- context [wrapU ?b ?x] => note_wrap b x
  | _ : context [wrapU ?b ?x] |- _ => note_wrap b x
  end.
Ltac site := unfold tri, hme_on, hme_sum; unfold rng; split_ifs; wrap_facts; lia.

Lemma sites_match s : in_type s -> Forall2 (fun c d => c = negb d) (verify_clauses s) (golden s).
Proof.
  intros Hty. unfold in_type in Hty. decompose [and] Hty. clear Hty.
  unfold verify_clauses, verify_clauses_and_scope, golden. cbv zeta. cbn [fst].
  repeat (apply Forall2_cons; [site|]). apply Forall2_nil.
Qed.

Lemma rejects_iff_not_documented s : in_type s -> verify_rejects s = negb (documented s).
Proof. intros H. unfold verify_rejects, documented. apply existsb_forallb_neg. apply sites_match. exact H. Qed.
