(* C23 - refinement: the ring-layer model (SRMring: circular buffers with head / tail / NULL-slot emptiness test, the model
   that runs in lockstep with EbSystemResourceManager.c) behaves, on every step the deque-layer model (SRM) enables and as long
   as no circular buffer is pushed beyond its capacity, exactly like the deque-layer model about which the C23 theorems are
   proved. Capacity is the one side condition; tools/checks/c23.py evaluates it ([ring_room]) on every state of every lockstep
   run, and the C has the same side condition (svt_circular_buffer_push_back overwrites silently). *)
From Coq Require Import ZArith List Bool Arith Lia.
From SV Require Import SRMring.
From SV Require SRM.
Import ListNotations.

(* ---- lists ---- *)
Lemma set_nth_length {A} (l : list A) j x : length (set_nth l j x) = length l.
Proof.
  unfold set_nth. destruct (Nat.ltb_spec j (length l)) as [H|H]; [|reflexivity].
  rewrite app_length. cbn [length]. rewrite firstn_length, skipn_length. lia.
Qed.

Lemma set_nth_cons_0 {A} (a : A) l x : set_nth (a :: l) 0 x = x :: l.
Proof. reflexivity. Qed.

Lemma set_nth_cons_S {A} (a : A) l j x : set_nth (a :: l) (S j) x = a :: set_nth l j x.
Proof.
  unfold set_nth. cbn [length]. change (S j <? S (length l)) with (j <? length l).
  destruct (j <? length l); reflexivity.
Qed.

Lemma nth_set_nth {A} (l : list A) : forall j x k d, j < length l ->
  nth k (set_nth l j x) d = if k =? j then x else nth k l d.
Proof.
  induction l as [|a l IH]; intros j x k d Hj; cbn [length] in Hj; [lia|].
  destruct j as [|j].
  - rewrite set_nth_cons_0. destruct k; reflexivity.
  - rewrite set_nth_cons_S. destruct k as [|k]; [reflexivity|]. cbn [nth]. rewrite IH by lia. reflexivity.
Qed.

(* ---- one circular buffer against a list (front first) ---- *)
Definition idx (h i c : nat) : nat := if h + i <? c then h + i else h + i - c.

Definition wf (r : ring) (l : list nat) : Prop :=
  0 < cap r /\ head r < cap r /\ length l <= cap r /\
  (forall i, i < cap r -> slot r (idx (head r) i (cap r)) = if i <? length l then Some (nth i l 0) else None) /\
  tail r = idx (head r) (length l) (cap r) /\ cnt r = Z.of_nat (length l).

Ltac cases :=
  repeat match goal with
         | |- context [?a <? ?b] => destruct (Nat.ltb_spec a b)
         | |- context [?a =? ?b] => destruct (Nat.eqb_spec a b)
         | H : context [?a <? ?b] |- _ => destruct (Nat.ltb_spec a b)
         | H : context [?a =? ?b] |- _ => destruct (Nat.eqb_spec a b)
         end.

Lemma wf_new n : 0 < n -> wf (ring_new n) [].
Proof.
  intros Hn. unfold wf, cap, ring_new, slot; cbn [arr head tail cnt length]. rewrite repeat_length.
  repeat split; try lia.
  - intros i Hi. cbn. apply nth_repeat.
  - unfold idx. cases; lia.
Qed.

Lemma wf_empty r l : wf r l -> ring_empty r = match l with [] => true | _ => false end.
Proof.
  intros (Hc & Hh & Hl & Hs & Ht & Hn). unfold ring_empty.
  pose proof (Hs 0 Hc) as H0. assert (E : idx (head r) 0 (cap r) = head r) by (unfold idx; cases; lia).
  rewrite E in H0. rewrite H0. destruct l as [|x l]; cbn [length] in *.
  - rewrite Ht. assert (E2 : idx (head r) 0 (cap r) = head r) by exact E. rewrite E2, Nat.eqb_refl. reflexivity.
  - cbn. apply andb_false_r.
Qed.

Lemma pop_front_wf r x l : wf r (x :: l) -> fst (pop_front r) = Some x /\ wf (snd (pop_front r)) l.
Proof.
  intros (Hc & Hh & Hl & Hs & Ht & Hn). cbn [length] in *. split.
  - unfold pop_front; cbn [fst]. pose proof (Hs 0 Hc) as H0.
    assert (E : idx (head r) 0 (cap r) = head r) by (unfold idx; cases; lia). rewrite E in H0. exact H0.
  - unfold pop_front; cbn [snd]. unfold wf, cap, slot. cbn [arr head tail cnt]. rewrite set_nth_length. fold (cap r).
    assert (Hnx : next_idx r (head r) < cap r) by (unfold next_idx; cases; lia).
    repeat split; try lia.
    + intros i Hi. rewrite nth_set_nth by (fold (cap r); lia).
      destruct (Nat.eq_dec (S i) (cap r)) as [Elast|Nlast].
      * assert (E : idx (next_idx r (head r)) i (cap r) = head r) by (unfold idx, next_idx; cases; lia).
        rewrite E, Nat.eqb_refl. cases; try lia. reflexivity.
      * assert (E : idx (next_idx r (head r)) i (cap r) = idx (head r) (S i) (cap r)) by (unfold idx, next_idx; cases; lia).
        assert (N : idx (head r) (S i) (cap r) <> head r) by (unfold idx; cases; lia).
        rewrite E. apply Nat.eqb_neq in N. rewrite N.
        pose proof (Hs (S i) ltac:(lia)) as HS. unfold slot in HS. rewrite HS.
        change (S i <? S (length l)) with (i <? length l). reflexivity.
    + rewrite Ht. unfold idx, next_idx. cases; lia.
Qed.

Lemma push_back_wf r x l : wf r l -> length l < cap r -> wf (push_back r x) (l ++ [x]).
Proof.
  intros (Hc & Hh & Hl & Hs & Ht & Hn) Hroom. unfold push_back, wf, cap, slot. cbn [arr head tail cnt].
  rewrite set_nth_length, app_length. cbn [length]. fold (cap r).
  assert (Htl : tail r < cap r) by (rewrite Ht; unfold idx; cases; lia).
  repeat split; try lia.
  - intros i Hi. rewrite nth_set_nth by (fold (cap r); lia).
    destruct (Nat.eq_dec i (length l)) as [->|Ni].
    + rewrite <- Ht, Nat.eqb_refl. cases; try lia. rewrite app_nth2 by lia. rewrite Nat.sub_diag. reflexivity.
    + assert (N : idx (head r) i (cap r) <> tail r) by (rewrite Ht; unfold idx; cases; lia).
      apply Nat.eqb_neq in N. rewrite N. pose proof (Hs i Hi) as HS. unfold slot in HS. rewrite HS.
      destruct (Nat.ltb_spec i (length l)) as [Lt|Ge].
      * destruct (Nat.ltb_spec i (length l + 1)); [|lia]. rewrite app_nth1 by lia. reflexivity.
      * destruct (Nat.ltb_spec i (length l + 1)); [lia|reflexivity].
  - rewrite Ht. unfold next_idx, idx, cap. fold (cap r). cases; lia.
Qed.

Lemma push_front_wf r x l : wf r l -> length l < cap r -> wf (push_front r x) (x :: l).
Proof.
  intros (Hc & Hh & Hl & Hs & Ht & Hn) Hroom. unfold push_front, wf, cap, slot. cbn [arr head tail cnt].
  rewrite set_nth_length. cbn [length]. fold (cap r).
  assert (Hp : prev_idx r (head r) < cap r) by (unfold prev_idx; cases; lia).
  repeat split; try lia.
  - intros i Hi. rewrite nth_set_nth by (fold (cap r); lia).
    destruct i as [|i].
    + assert (E : idx (prev_idx r (head r)) 0 (cap r) = prev_idx r (head r)) by (unfold idx; cases; lia).
      rewrite E, Nat.eqb_refl. reflexivity.
    + assert (E : idx (prev_idx r (head r)) (S i) (cap r) = idx (head r) i (cap r)) by (unfold idx, prev_idx; cases; lia).
      assert (N : idx (head r) i (cap r) <> prev_idx r (head r)) by (unfold idx, prev_idx; cases; lia).
      rewrite E. apply Nat.eqb_neq in N. rewrite N. pose proof (Hs i ltac:(lia)) as HS. unfold slot in HS. rewrite HS.
      change (S i <? S (length l)) with (i <? length l). reflexivity.
  - rewrite Ht. unfold idx, prev_idx. cases; lia.
Qed.

(* ---- one muxing queue ---- *)
Definition fifo_rel (rf : fifo) (df : SRM.fifo) : Prop :=
  items rf = SRM.items df /\ sem rf = Z.of_nat (SRM.sem df) /\ quit rf = false.

Definition R (rq : mq) (dq : SRM.mq) : Prop :=
  wf (oq rq) (SRM.oq dq) /\ wf (pq rq) (SRM.pq dq) /\ Forall2 fifo_rel (fifos rq) (SRM.fifos dq).

Lemma Forall2_firstn {A B} (P : A -> B -> Prop) n : forall l l', Forall2 P l l' -> Forall2 P (firstn n l) (firstn n l').
Proof. induction n as [|n IH]; intros l l' H; cbn; [constructor|]. destruct H; constructor; auto. Qed.
Lemma Forall2_skipn {A B} (P : A -> B -> Prop) n : forall l l', Forall2 P l l' -> Forall2 P (skipn n l) (skipn n l').
Proof. induction n as [|n IH]; intros l l' H; cbn; [exact H|]. destruct H; [constructor|auto]. Qed.
Lemma Forall2_nth_error {A B} (P : A -> B -> Prop) : forall l l' n, Forall2 P l l' ->
  match nth_error l n, nth_error l' n with
  | Some a, Some b => P a b
  | None, None => True
  | _, _ => False
  end.
Proof. intros l l' n H. revert n. induction H as [|a b l l' Hab H IH]; intros [|n]; cbn; auto. apply IH. Qed.

Lemma Forall2_upd (P : fifo -> SRM.fifo -> Prop) l l' f x x' : Forall2 P l l' -> P x x' -> f < length l ->
  Forall2 P (set_nth l f x) (SRM.upd l' f x').
Proof.
  intros H Hx Hf. unfold set_nth, SRM.upd. destruct (Nat.ltb_spec f (length l)); [|lia].
  apply Forall2_app; [apply Forall2_firstn; exact H|]. constructor; [exact Hx|]. apply Forall2_skipn; exact H.
Qed.

Lemma give_refine fs dfs f o : Forall2 fifo_rel fs dfs -> Forall2 fifo_rel (give fs f o) (SRM.give dfs f o).
Proof.
  intros H. pose proof (Forall2_nth_error _ _ _ f H) as Hn. unfold give, SRM.give.
  destruct (nth_error fs f) as [x|] eqn:E1; destruct (nth_error dfs f) as [y|] eqn:E2; try contradiction; [|exact H].
  assert (Hf : f < length fs) by (apply nth_error_Some; congruence).
  apply (Forall2_upd fifo_rel fs dfs f); auto.
  destruct Hn as (Hi & Hs & Hq). unfold fifo_rel; cbn. repeat split; [rewrite Hi; reflexivity | lia | exact Hq].
Qed.

Ltac mkR := unfold R; cbn [oq pq fifos SRM.oq SRM.pq SRM.fifos upd_fifo]; split; [|split].

(* svt_muxing_queue_assignation: the fuelled ring loop is the list recursion *)
Lemma assign_refine : forall fuel rq os ps dfs,
  R rq {| SRM.oq := os; SRM.pq := ps; SRM.fifos := dfs |} -> length os < fuel ->
  R (assign fuel rq) (SRM.assign {| SRM.oq := os; SRM.pq := ps; SRM.fifos := dfs |}).
Proof.
  induction fuel as [|k IH]; intros rq os ps dfs HR Hf; [lia|].
  destruct HR as (Ho & Hp & Hfs). cbn [SRM.oq SRM.pq SRM.fifos] in *.
  cbn [assign]. rewrite (wf_empty _ _ Ho), (wf_empty _ _ Hp).
  destruct os as [|o os]; [cbn [orb]; unfold SRM.assign, R; cbn [SRM.assign_loop SRM.oq SRM.pq SRM.fifos]; auto|].
  destruct ps as [|f ps]; [cbn [orb]; unfold SRM.assign, R; cbn [SRM.assign_loop SRM.oq SRM.pq SRM.fifos]; auto|].
  cbn [orb]. destruct (pop_front_wf _ _ _ Hp) as [Ep Hp']. destruct (pop_front_wf _ _ _ Ho) as [Eo Ho'].
  destruct (pop_front (pq rq)) as [p pq'] eqn:E1. destruct (pop_front (oq rq)) as [x oq'] eqn:E2.
  cbn [fst snd] in *. subst p x.
  assert (HR' : R {| oq := oq'; pq := pq'; fifos := give (fifos rq) f o |} {| SRM.oq := os; SRM.pq := ps; SRM.fifos := SRM.give dfs f o |}).
  { mkR; try exact Ho'; try exact Hp'. apply give_refine; exact Hfs. }
  specialize (IH _ _ _ _ HR' ltac:(cbn [length] in Hf; lia)).
  unfold SRM.assign in *. cbn [SRM.oq SRM.pq SRM.fifos SRM.assign_loop] in *. exact IH.
Qed.

Lemma assignation_refine rq dq : R rq dq -> R (assignation rq) (SRM.assign dq).
Proof.
  intros HR. destruct dq as [os ps dfs]. unfold assignation. apply assign_refine; [exact HR|].
  destruct HR as ((_ & _ & Hl & _) & _). cbn [SRM.oq] in Hl. unfold fuel_of, SRM.obj in *. lia.
Qed.

(* the ring-layer step of one muxing queue that corresponds to each deque-layer operation (these are the right-hand sides
   of SRMring.step for the empty / full queue of a system resource: see [step_uses_rstep]) *)
Definition rstep (q : mq) (o : SRM.op) : mq * option nat :=
  match o with
  | SRM.PushBack x => (assignation {| oq := push_back (oq q) x; pq := pq q; fifos := fifos q |}, None)
  | SRM.PushFront x => (assignation {| oq := push_front (oq q) x; pq := pq q; fifos := fifos q |}, None)
  | SRM.RelProc f => (rel_proc q f, None)
  | SRM.SemWait f => (fst (sem_wait q f), None)
  | SRM.Pop f => match nth_error (fifos q) f with
                 | Some x => match items x with
                             | i :: rest => (upd_fifo q f {| items := rest; sem := sem x; quit := quit x |}, Some i)
                             | [] => (q, None) end
                 | None => (q, None) end
  end.

(* room for the push an operation makes *)
Definition ring_room (q : mq) (o : SRM.op) : Prop :=
  match o with
  | SRM.PushBack _ | SRM.PushFront _ => cnt (oq q) < Z.of_nat (cap (oq q))
  | SRM.RelProc _ => cnt (pq q) < Z.of_nat (cap (pq q))
  | _ => True
  end%Z.

Theorem ring_step_refines rq dq o dq' r : R rq dq -> ring_room rq o -> SRM.step dq o = Some (dq', r) ->
  snd (rstep rq o) = r /\ R (fst (rstep rq o)) dq'.
Proof.
  intros HR Hroom Hs. pose proof HR as (Ho & Hp & Hfs). destruct o as [x|x|f|f|f]; cbn [SRM.step] in Hs.
  - inversion Hs; subst; clear Hs. cbn [rstep fst snd]. split; [reflexivity|]. apply assignation_refine.
    mkR; try exact Hp; try exact Hfs.
    apply push_back_wf; [exact Ho|]. cbn [ring_room] in Hroom. destruct Ho as (_ & _ & _ & _ & _ & Hn). lia.
  - inversion Hs; subst; clear Hs. cbn [rstep fst snd]. split; [reflexivity|]. apply assignation_refine.
    mkR; try exact Hp; try exact Hfs.
    apply push_front_wf; [exact Ho|]. cbn [ring_room] in Hroom. destruct Ho as (_ & _ & _ & _ & _ & Hn). lia.
  - destruct (f <? length (SRM.fifos dq)); [|discriminate]. inversion Hs; subst; clear Hs. cbn [rstep fst snd].
    split; [reflexivity|]. unfold rel_proc. apply assignation_refine.
    mkR; try exact Ho; try exact Hfs.
    apply push_front_wf; [exact Hp|]. cbn [ring_room] in Hroom. destruct Hp as (_ & _ & _ & _ & _ & Hn). lia.
  - pose proof (Forall2_nth_error _ _ _ f Hfs) as Hn. cbn [rstep fst snd]. unfold sem_wait.
    destruct (nth_error (SRM.fifos dq) f) as [y|] eqn:E2; [|discriminate].
    destruct (nth_error (fifos rq) f) as [x|] eqn:E1; [|contradiction].
    destruct Hn as (Hi & Hse & Hq). destruct (SRM.sem y) as [|n] eqn:Esem; [discriminate|].
    inversion Hs; subst; clear Hs. destruct (Z.ltb_spec 0 (sem x)); [|lia]. cbn [fst]. split; [reflexivity|].
    assert (Hf : f < length (fifos rq)) by (apply nth_error_Some; congruence).
    mkR; try exact Ho; try exact Hp.
    apply (Forall2_upd fifo_rel); auto. unfold fifo_rel; cbn. repeat split; [exact Hi | lia | exact Hq].
  - pose proof (Forall2_nth_error _ _ _ f Hfs) as Hn. cbn [rstep].
    destruct (nth_error (SRM.fifos dq) f) as [y|] eqn:E2; [|discriminate].
    destruct (nth_error (fifos rq) f) as [x|] eqn:E1; [|contradiction].
    destruct Hn as (Hi & Hse & Hq). rewrite Hi.
    destruct (SRM.items y) as [|i rest] eqn:Eit; [discriminate|]. destruct (SRM.claimed y) as [|c]; [discriminate|].
    inversion Hs; subst; clear Hs. cbn [fst snd]. split; [reflexivity|].
    assert (Hf : f < length (fifos rq)) by (apply nth_error_Some; congruence).
    mkR; try exact Ho; try exact Hp.
    apply (Forall2_upd fifo_rel); auto. unfold fifo_rel; cbn. repeat split; [lia | exact Hq].
Qed.

(* whole runs: every run the deque model accepts is matched step for step *)
Fixpoint rrun (q : mq) (ops : list SRM.op) : mq * list nat :=
  match ops with
  | [] => (q, [])
  | o :: rest => let '(q1, r) := rstep q o in let '(q2, ps) := rrun q1 rest in (q2, SRM.popped_of r ++ ps)
  end.
Fixpoint room_along (q : mq) (ops : list SRM.op) : Prop :=
  match ops with
  | [] => True
  | o :: rest => ring_room q o /\ room_along (fst (rstep q o)) rest
  end.

Theorem ring_run_refines ops : forall rq dq dq' ps, R rq dq -> room_along rq ops -> SRM.run dq ops = Some (dq', ps) ->
  snd (rrun rq ops) = ps /\ R (fst (rrun rq ops)) dq'.
Proof.
  induction ops as [|o ops IH]; intros rq dq dq' ps HR Hroom Hr; cbn [SRM.run] in Hr.
  - inversion Hr; subst. cbn. split; [reflexivity | exact HR].
  - destruct (SRM.step dq o) as [[d1 r]|] eqn:Es; [|discriminate].
    destruct (SRM.run d1 ops) as [[d2 ps2]|] eqn:Er; [|discriminate]. inversion Hr; subst; clear Hr.
    destruct Hroom as [H1 H2]. destruct (ring_step_refines _ _ _ _ _ HR H1 Es) as [Hres HR1].
    cbn [rrun]. destruct (rstep rq o) as [q1 r1] eqn:E. cbn [fst snd] in *. subst r1.
    destruct (IH _ _ _ _ HR1 H2 Er) as [Hps HR2]. destruct (rrun q1 ops) as [q2 ps']. cbn [fst snd] in *. subst ps'.
    split; [reflexivity | exact HR2].
Qed.

(* the freshly built queue is related to the empty deque state *)
Lemma R_new nobj nproc : 0 < nobj -> 0 < nproc -> R (mq_new nobj nproc) (SRM.mq0 nproc).
Proof.
  intros Ho Hp. unfold R, mq_new, SRM.mq0; cbn [oq pq fifos SRM.oq SRM.pq SRM.fifos].
  repeat split; try (apply wf_new; assumption).
  induction nproc as [|n IH]; cbn; [constructor|]. constructor; [repeat split|].
  destruct n; [constructor|]. apply IH. lia.
Qed.

(* consequences in ring terms: the deque theorems transported through the refinement *)
Corollary ring_no_lost_wakeup nobj nproc ops dq ps : 0 < nobj -> 0 < nproc ->
  room_along (mq_new nobj nproc) ops -> SRM.run (SRM.mq0 nproc) ops = Some (dq, ps) ->
  ring_empty (oq (fst (rrun (mq_new nobj nproc) ops))) = true \/ ring_empty (pq (fst (rrun (mq_new nobj nproc) ops))) = true.
Proof.
  intros Ho Hp Hroom Hr. destruct (ring_run_refines _ _ _ _ _ (R_new _ _ Ho Hp) Hroom Hr) as [_ (Hoq & Hpq & _)].
  rewrite (wf_empty _ _ Hoq), (wf_empty _ _ Hpq).
  destruct (SRM.srm_mq_no_lost_wakeup _ _ _ _ Hr) as [-> | ->]; auto.
Qed.

Corollary ring_sem_consistent nobj nproc ops dq ps : 0 < nobj -> 0 < nproc ->
  room_along (mq_new nobj nproc) ops -> SRM.run (SRM.mq0 nproc) ops = Some (dq, ps) ->
  Forall (fun x => (0 <= sem x <= Z.of_nat (length (items x)))%Z) (fifos (fst (rrun (mq_new nobj nproc) ops))).
Proof.
  intros Ho Hp Hroom Hr. destruct (ring_run_refines _ _ _ _ _ (R_new _ _ Ho Hp) Hroom Hr) as [_ (_ & _ & Hfs)].
  pose proof (SRM.srm_mq_sem_consistent _ _ _ _ Hr) as Hs.
  set (rf := fifos (fst (rrun (mq_new nobj nproc) ops))) in *. clearbody rf.
  induction Hfs as [|x y l l' Hxy Hfs IH]; [constructor|].
  inversion Hs as [|? ? Hy Hs']; subst. constructor; [|apply IH; exact Hs'].
  destruct Hxy as (Hi & Hse & _). rewrite Hi, Hse. unfold SRM.obj in *. lia.
Qed.

(* SRMring.step (the function run in lockstep with the C) is built from these mq-level steps *)
Lemma step_RelProcE s f : emptyq (fst (step s (RelProcE f))) = fst (rstep (emptyq s) (SRM.RelProc f)).
Proof. reflexivity. Qed.
Lemma step_SemWaitE s f : emptyq (fst (step s (SemWaitE f))) = fst (rstep (emptyq s) (SRM.SemWait f)).
Proof. cbn [step rstep]. destruct (sem_wait (emptyq s) f); reflexivity. Qed.
Lemma step_PopE s f : emptyq (fst (step s (PopE f))) = fst (rstep (emptyq s) (SRM.Pop f)).
Proof. cbn [step rstep]. destruct (nth_error (fifos (emptyq s)) f) as [x|]; [|reflexivity]. destruct (items x); reflexivity. Qed.
Lemma step_Post s x q : fullq s = Some q -> fullq (fst (step s (Post x))) = Some (fst (rstep q (SRM.PushBack x))).
Proof. intros H. cbn [step]. rewrite H. reflexivity. Qed.
Lemma step_RelProcF s f q : fullq s = Some q -> fullq (fst (step s (RelProcF f))) = Some (fst (rstep q (SRM.RelProc f))).
Proof. intros H. cbn [step]. rewrite H. reflexivity. Qed.
Lemma step_SemWaitF s f q : fullq s = Some q -> fullq (fst (step s (SemWaitF f))) = Some (fst (rstep q (SRM.SemWait f))).
Proof. intros H. cbn [step rstep]. rewrite H. destruct (sem_wait q f); reflexivity. Qed.
Lemma step_PopF s f q : fullq s = Some q -> Forall (fun x => quit x = false) (fifos q) ->
  fullq (fst (step s (PopF f))) = Some (fst (rstep q (SRM.Pop f))).
Proof.
  intros H Hq. cbn [step rstep]. rewrite H. destruct (nth_error (fifos q) f) as [x|] eqn:E; [|cbn [fst]; exact H].
  assert (Hx : quit x = false). { rewrite Forall_forall in Hq. apply Hq. eapply nth_error_In; eauto. }
  rewrite Hx. destruct (items x); [cbn [fst]; exact H | reflexivity].
Qed.
(* a release that reaches live_count 0 with release enabled is the front push on the empty queue *)
Lemma step_Release s x w : nth_error (wraps s) x = Some w -> ren w = true -> (live w = 0 \/ live w = 1)%Z ->
  emptyq (fst (step s (Release x))) = fst (rstep (emptyq s) (SRM.PushFront x)).
Proof.
  intros H Hr Hl. cbn [step rstep]. rewrite H, Hr. destruct Hl as [-> | ->]; reflexivity.
Qed.
