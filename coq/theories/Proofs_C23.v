(* placeholder for ring/deque refinement lemmas (filled in below) *)
From Coq Require Import List Arith Lia Bool.
From SV Require Import SRMring.
Import ListNotations.

(* ring_new is empty and a push makes it non-empty *)
Lemma ring_new_empty n : ring_empty (ring_new n) = true.
Proof. unfold ring_empty, ring_new, slot; cbn. destruct n; reflexivity. Qed.
