(* C02 — every output packet is one well-formed AV1 temporal unit.
   The parser SV.OBU is written from the AV1 syntax (leb128, OBU header, complete sequence header with trailing
   bits, start of the frame header); check_packet is extracted and run on every packet the real encoder emits. *)
From Coq Require Import ZArith List Bool.
From SV Require Import Leb128 Leb128C OBU Proofs_C02.
Import ListNotations.
Local Open Scope Z_scope.

(* acceptance means: the packet bytes are exactly a sequence of OBUs laid end to end, every size field equals
   its payload length, the first OBU is the (only) temporal delimiter, exactly one frame is displayed, and every
   sequence header in it parses completely (trailing bits included) and is byte-identical to the stream header *)
Theorem c02_check_packet_sound : forall refseq first bytes, check_packet refseq first bytes = true ->
  exists l, bytes = flat_map obu_raw l /\ Forall (fun o => o_size o = Z.of_nat (length (o_payload o))) l /\ TU_ok refseq first l.
Proof. exact check_packet_sound. Qed.

(* size fields: the leb128 reader inverts the writer for every size below 2^56, whatever follows *)
Theorem c02_leb128_roundtrip : forall n rest, 0 <= n < 2 ^ 56 -> leb_dec 8 0 (leb_enc 8 n ++ rest) = Some (n, rest).
Proof. exact leb128_roundtrip. Qed.

(* each parsed OBU re-serialises to the bytes it was parsed from, and its size bytes decode to its size *)
Theorem c02_obu_framing : forall bs o rest, parse_obu bs = Some (o, rest) ->
  bs = obu_raw o ++ rest /\ o_size o = Z.of_nat (length (o_payload o)) /\
  (forall tail, leb_dec 8 0 (o_sizebytes o ++ tail) = Some (o_size o, tail)) /\
  (1 <= length (o_sizebytes o) <= 8)%nat /\ (1 <= length (o_header o) <= 2)%nat.
Proof. exact parse_obu_raw. Qed.

(* ---- the library's own size-field routines (C-level models of Leb128C.v, tied to the C text by the correspondence run) ---- *)

(* svt_aom_uleb_size_in_bytes: for every 64-bit value, the minimal number of 7-bit groups *)
Theorem c02_c_uleb_size_minimal : forall v, 0 <= v < 2 ^ 64 ->
  let s := c_uleb_size 10 v in 1 <= s <= 10 /\ v < 128 ^ s /\ (s = 1 \/ 128 ^ (s - 1) <= v).
Proof. exact c_uleb_size_spec. Qed.

(* svt_aom_uleb_encode refuses exactly the values of 2^56 and above and those that do not fit the space offered *)
Theorem c02_c_uleb_encode_accepts_iff : forall v avail, 0 <= v < 2 ^ 64 ->
  (c_uleb_encode v avail = None <-> (2 ^ 56 <= v \/ avail < c_uleb_size 10 v)).
Proof. exact c_uleb_encode_accepts_iff. Qed.

(* what svt_aom_uleb_encode writes is read back by dec_get_bits_leb128: value, length consumed and what follows *)
Theorem c02_c_leb128_roundtrip : forall v avail rest, 0 <= v < 2 ^ 56 -> c_uleb_size 10 v <= avail ->
  exists bytes, c_uleb_encode v avail = Some bytes /\
                Z.of_nat (length bytes) = c_uleb_size 10 v /\ (length bytes <= 8)%nat /\
                Forall (fun b => 0 <= b < 256) bytes /\
                c_dec_leb128 (bytes ++ rest) = (v, Z.of_nat (length bytes), rest).
Proof. exact c_leb128_roundtrip. Qed.

(* closing an OBU (obu_mem_move + write_uleb_obu_size on the output buffer): header, minimal size field, payload laid end to end,
   the callers advance by the field length, and the decoder's reader applied after the header yields the payload length *)
Theorem c02_c_finish_obu_layout : forall H P T, let psize := Z.of_nat (length P) in let lf := c_uleb_size 10 psize in
  psize < 2 ^ 28 -> (Z.to_nat lf <= length T)%nat ->
  exists field, c_finish_obu (H ++ P ++ T) (length H) psize = Some (H ++ field ++ P ++ skipn (Z.to_nat lf) T, lf) /\
                field = leb_enc 8 psize /\ Z.of_nat (length field) = lf /\ 1 <= lf <= 4 /\
                c_dec_leb128 (field ++ P ++ skipn (Z.to_nat lf) T) = (psize, lf, P ++ skipn (Z.to_nat lf) T).
Proof. exact c_finish_obu_layout. Qed.

Theorem c02_c_finish_obu_refuses_large : forall data hdr psize, 2 ^ 28 <= psize < 2 ^ 64 -> c_finish_obu data hdr psize = None.
Proof. exact c_finish_obu_refuses_large. Qed.
