(* C02 — every output packet is one well-formed AV1 temporal unit.
   The parser SV.OBU is written from the AV1 syntax (leb128, OBU header, complete sequence header with trailing
   bits, start of the frame header); check_packet is extracted and run on every packet the real encoder emits. *)
From Coq Require Import ZArith List Bool.
From SV Require Import Leb128 OBU Proofs_C02.
Import ListNotations.
Local Open Scope Z_scope.

(* acceptance means: the packet bytes are exactly a sequence of OBUs laid end to end, every size field equals
   its payload length, the first OBU is the (only) temporal delimiter, exactly one frame is displayed, and every
   sequence header in it parses completely (trailing bits included) and is byte-identical to the stream header *)
Theorem c02_check_packet_sound : forall refseq first bytes, check_packet refseq first bytes = true ->
  exists l, bytes = flat_map obu_raw l /\ Forall (fun o => o_size o = Z.of_nat (length (o_payload o))) l /\ TU_ok refseq first l.
Proof. exact check_packet_sound. Qed.

(* size fields: the leb128 reader inverts the writer for every size below 2^56, whatever follows *)
Theorem c02_leb128_roundtrip : forall n rest, 0 <= n < 2 ^ 56 -> leb_dec 8 0 (leb_enc 8 n ++ rest) = Some (n, rest).
Proof. exact leb128_roundtrip. Qed.

(* each parsed OBU re-serialises to the bytes it was parsed from, and its size bytes decode to its size *)
Theorem c02_obu_framing : forall bs o rest, parse_obu bs = Some (o, rest) ->
  bs = obu_raw o ++ rest /\ o_size o = Z.of_nat (length (o_payload o)) /\
  (forall tail, leb_dec 8 0 (o_sizebytes o ++ tail) = Some (o_size o, tail)) /\
  (1 <= length (o_sizebytes o) <= 8)%nat /\ (1 <= length (o_header o) <= 2)%nat.
Proof. exact parse_obu_raw. Qed.
