(* C21 — the output depends only on the visible samples of each submitted picture.
   Model SV.InputCopy: the copy of `stride` samples per row into the internal picture and the in-place padding
   regeneration (pad to the block size, replicate edges into the borders), horizontally and vertically. *)
From Coq Require Import Arith List.
From SV Require Import InputCopy.
Import ListNotations.

(* for every picture size, block-aligned size, border sizes and every stride from the width up to the regenerated
   area: two caller buffers that agree on the visible samples give the same internal picture - every sample of it,
   borders included - whatever the stride padding and the previous content of the internal buffer were *)
Theorem c21_copy_pad_visible_only : forall internal1 internal2 src1 src2 T L W Wal R H Hal B stride,
  length internal1 = T + Hal + B -> length internal2 = T + Hal + B ->
  Forall (fun r => length r = L + Wal + R) internal1 -> Forall (fun r => length r = L + Wal + R) internal2 ->
  length src1 = H -> length src2 = H -> Forall (fun r => length r = stride) src1 -> Forall (fun r => length r = stride) src2 ->
  W <= stride -> stride <= Wal + R -> 1 <= W -> W <= Wal -> 1 <= H -> H <= Hal ->
  visible src1 W = visible src2 W ->
  process_picture internal1 src1 T L W Wal R H Hal B = process_picture internal2 src2 T L W Wal R H Hal B.
Proof. exact picture_visible_only. Qed.
