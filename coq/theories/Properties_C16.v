(* C16 - allocation and OS-resource failures are reported and unwound cleanly; C15 - teardown releases every resource.
   CtorCalc.v: the EB_NEW / dctor discipline on a heap ledger with a single injected failure at ANY position (budget b):
   an object whose fields are built by safe constructors and are all covered by its destructor is itself safe - on failure
   everything built so far is released exactly once and the failure is reported, on success the object owns exactly what it
   built - and destroying a successfully built object gives the ledger back unchanged. *)
From Coq Require Import Arith List.
From SV Require Import CtorCalc.
Import ListNotations.

Theorem c16_eb_new_unwinds_any_single_failure : forall cs, Forall (fun cc => Safe (fst cc) /\ snd cc = true) cs -> Safe (eb_new cs).
Proof. exact eb_new_safe. Qed.

Theorem c16_leaf_allocation_safe : Safe leaf.
Proof. exact leaf_safe. Qed.

(* C15: what a safe constructor built is exactly what the destructor gets; releasing it restores the ledger *)
Theorem c15_build_then_destroy_restores : forall c b h h' b' owned, Safe c -> heap_ok h -> c b h = (h', b', Some owned) ->
  live (free_all owned h') = live h /\ bad (free_all owned h') = bad h.
Proof.
  intros c b h h' b' owned Hs Hok E. specialize (Hs b h Hok). rewrite E in Hs. destruct Hs as (El & Eb & Hok' & _ & _).
  destruct h' as [l' n' bd']. cbn [live bad] in *. subst l'. destruct Hok' as [Hnd _]. cbn [live] in Hnd.
  rewrite (free_all_prefix owned (live h) n' bd' Hnd). cbn. auto.
Qed.
