(* C20 - disabled coding tools never appear and the requested tiling is used: the verified monitor of ToolGate.v. *)
From Coq Require Import ZArith List Bool.
From SV Require Import ToolGate.
Local Open Scope Z_scope.

(* the extracted decision procedure accepts a history exactly when every coded frame satisfies every rule of the specification *)
Theorem c20_monitor_sound : forall c frames, check_c20 c frames = true <-> C20_spec c frames.
Proof. exact check_c20_sound. Qed.

(* the tile rule demands exactly the requested layout whenever the frame has that many evenly dividing superblocks *)
Theorem c20_requested_tiles_used : forall sbs req, 0 <= req <= 6 -> 1 <= sbs -> (2 ^ req | sbs) ->
  expected_log2 sbs req = req /\ expected_tiles sbs req = 2 ^ req.
Proof. exact requested_tiles_used. Qed.
