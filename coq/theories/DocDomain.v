(* C12: the documented parameter domain of svt_av1_enc_set_parameter, as one acceptance condition per
   validation site of verify_settings (same order), written from Docs/svt-av1_encoder_user_guide.md
   (Range column) and the field comments of Source/API/EbSvtAv1Enc.h.  Conditions are over the EFFECTIVE
   configuration (what copy_api_from_app leaves in the sequence control set; its source_width /
   source_height cells hold the 16-bit max_input_luma_width / height).

   Where the guide and the code disagree on the pinned tree the entry carries the range the code enforces
   and a [DEV] note; tools/checks/c12_doc.py recomputes those disagreements from the guide on every run,
   replays one witness each on the real API and prints them as KNOWN-FINDING lines.
   [UNDOC] marks constraints the guide does not state at all (taken from the header comments). *)
From Coq Require Import ZArith Bool List.
From SV Require Import CInt.
From SVG Require Import VerifyGen.
Import ListNotations.
Local Open Scope Z_scope.

Definition rng (lo x hi : Z) : bool := (lo <=? x) && (x <=? hi).
Definition tri (x : Z) : bool := rng (-1) x 1.            (* 0 / 1 / -1 = DEFAULT *)

(* total of the first n (at most 2) HME region sizes, 32-bit wrap-around as in the code *)
Definition hme_sum (n a0 a1 : Z) : Z :=
  if 0 <? n then (if 1 <? n then wrapU 32 (wrapU 32 (0 + a0) + a1) else wrapU 32 (0 + a0)) else 0.
Definition hme_on (s : config) : bool := negb (f_enable_hme_flag s =? 0).

Definition golden (s : config) : list bool := [
  (*  0 *) f_enc_mode s <=? 8;                                    (* EncoderMode [0 - 8]; the cell is int8_t, negatives are not rejected [DEV] *)
  (*  1 *) f_ext_block_flag s <=? 1;
  (*  2 *) 64 <=? f_source_width s;                               (* SourceWidth [64 - 4096] *)
  (*  3 *) 64 <=? f_source_height s;                              (* SourceHeight: guide says [0 - 2304]; code 64..2160 [DEV] *)
  (*  4 *) f_pred_structure s =? 2;                               (* guide [0-2]; only 2 (random access) is accepted [DEV] *)
  (*  5 *) (Z.rem (f_source_width s) 8 =? 0) || negb (f_compressed_ten_bit_format s =? 1);
  (*  6 *) Z.rem (f_source_width s) 2 =? 0;                       (* 4:2:0: even dimensions [UNDOC] *)
  (*  7 *) Z.rem (f_source_height s) 2 =? 0;
  (*  8 *) f_source_width s <=? 4096;
  (*  9 *) f_source_height s <=? 2160;
  (* 10 *) f_qp s <=? 63;
  (* 11 *) f_hierarchical_levels s <=? 5;
  (* 12 *) negb (f_rate_control_mode s =? 0) || rng (-2) (f_intra_period_length s) 2147483646;
  (* 13 *) negb (f_rate_control_mode s >=? 1) || rng (-2) (f_intra_period_length s) 255;
  (* 14 *) rng 1 (f_intra_refresh_type s) 2;
  (* 15 *) f_disable_dlf_flag s <=? 1;
  (* 16 *) f_use_default_me_hme s <=? 1;
  (* 17 *) f_enable_hme_flag s <=? 1;
  (* 18 *) f_enable_hme_level0_flag s <=? 1;
  (* 19 *) f_enable_hme_level1_flag s <=? 1;
  (* 20 *) f_enable_hme_level2_flag s <=? 1;
  (* 21 *) rng 1 (f_search_area_width s) 480;
  (* 22 *) rng 1 (f_search_area_height s) 480;
  (* 23 *) negb (f_rate_control_mode s >? 1) || ((f_rc_firstpass_stats_out s =? 0) && (f_rc_twopass_stats_in_buf s =? 0));   (* 2-pass only with rc 0/1 [UNDOC] *)
  (* 24 *) negb (hme_on s) || rng 1 (f_number_hme_search_region_in_width s) 2;      (* HME region constraints [UNDOC] *)
  (* 25 *) negb (hme_on s) || rng 1 (f_number_hme_search_region_in_height s) 2;
  (* 26 *) negb (hme_on s) || rng 1 (f_hme_level0_total_search_area_height s) 480;
  (* 27 *) negb (hme_on s) || rng 1 (f_hme_level0_total_search_area_width s) 480;
  (* 28 *) negb (hme_on s) || (hme_sum (f_number_hme_search_region_in_height s) (f_hme_level0_search_area_in_height_array_0 s) (f_hme_level0_search_area_in_height_array_1 s) =? f_hme_level0_total_search_area_height s);
  (* 29 *) negb (hme_on s) || (hme_sum (f_number_hme_search_region_in_width s) (f_hme_level0_search_area_in_width_array_0 s) (f_hme_level0_search_area_in_width_array_1 s) =? f_hme_level0_total_search_area_width s);
  (* 30 *) negb (hme_on s) || rng 1 (hme_sum (f_number_hme_search_region_in_width s) (f_hme_level1_search_area_in_width_array_0 s) (f_hme_level1_search_area_in_width_array_1 s)) 480;
  (* 31 *) negb (hme_on s) || rng 1 (hme_sum (f_number_hme_search_region_in_width s) (f_hme_level1_search_area_in_height_array_0 s) (f_hme_level1_search_area_in_height_array_1 s)) 480;
  (* 32 *) negb (hme_on s) || rng 1 (hme_sum (f_number_hme_search_region_in_width s) (f_hme_level2_search_area_in_width_array_0 s) (f_hme_level2_search_area_in_width_array_1 s)) 480;
  (* 33 *) negb (hme_on s) || rng 1 (hme_sum (f_number_hme_search_region_in_width s) (f_hme_level2_search_area_in_height_array_0 s) (f_hme_level2_search_area_in_height_array_1 s)) 480;
  (* 34 *) f_profile s <=? 2;
  (* 35 *) f_frame_rate s <=? 15728640;                           (* at most 240 fps (Q16) *)
  (* 36 *) negb (f_frame_rate s =? 0);
  (* 37 *) f_rate_control_mode s <=? 2;
  (* 38 *) negb ((f_rate_control_mode s =? 3) || (f_rate_control_mode s =? 2)) || (f_look_ahead_distance s =? wrapU 32 (f_intra_period_length s)) || negb (f_intra_period_length s >=? 0);
  (* 39 *) (f_look_ahead_distance s <=? 120) || (f_look_ahead_distance s =? 4294967295);
  (* 40 *) (wrapU 32 (f_tile_rows s) <=? 6) && (wrapU 32 (f_tile_columns s) <=? 6);
  (* 41 *) (wrapU 32 (wrapU 32 (Z.shiftl 1 (Z.land (f_tile_rows s) 31)) * wrapU 32 (Z.shiftl 1 (Z.land (f_tile_columns s) 31))) <=? 128) && (f_tile_columns s <=? 4);   (* guide [0-6] for columns; code <= 4 [DEV] *)
  (* 42 *) f_unrestricted_motion_vector s <=? 1;
  (* 43 *) f_scene_change_detection s =? 0;                       (* header: 0/1; only 0 accepted [DEV] *)
  (* 44 *) f_max_qp_allowed s <=? 63;
  (* 45 *) negb (f_max_qp_allowed s <=? 63) || (f_min_qp_allowed s <? 63);          (* guide [0 - 63]; 63 is rejected [DEV] *)
  (* 46 *) negb (f_max_qp_allowed s <=? 63) || negb (f_min_qp_allowed s <? 63) || (f_min_qp_allowed s <=? f_max_qp_allowed s);
  (* 47 *) f_stat_report s <=? 1;
  (* 48 *) f_high_dynamic_range_input s <=? 1;
  (* 49 *) f_screen_content_mode s <=? 2;
  (* 50 *) rng (-1) (f_intrabc_mode s) 3;
  (* 51 *) (f_intrabc_mode s =? -1) || (f_screen_content_mode s =? 1);              (* intra block copy only with --scm 1 [UNDOC] *)
  (* 52 *) f_enable_adaptive_quantization s <=? 2;
  (* 53 *) (f_encoder_bit_depth s =? 8) || (f_encoder_bit_depth s =? 10);
  (* 54 *) negb ((f_profile s =? 0) || (f_profile s =? 1)) || (f_encoder_bit_depth s <=? 10);
  (* 55 *) f_encoder_color_format s =? 1;                         (* guide [0-3]; only 4:2:0 [DEV] *)
  (* 56 *) negb (f_profile s =? 0) || (f_encoder_color_format s <=? 1);
  (* 57 *) negb (f_profile s =? 1) || (f_encoder_color_format s =? 3);
  (* 58 *) negb ((f_profile s =? 2) && (f_encoder_bit_depth s <=? 10)) || (f_encoder_color_format s =? 2);   (* professional profile up to 10 bit needs 4:2:2 *)
  (* 59 *) f_compressed_ten_bit_format s =? 0;                    (* guide [0-1]; only 0 [DEV] *)
  (* 60 *) f_speed_control_flag s <=? 1;
  (* 61 *) wrapU 64 (Z.land (f_use_cpu_flags s) 9223372036854775808) =? 0;          (* CPU_FLAGS_INVALID bit clear *)
  (* 62 *) rng (-1) (f_target_socket s) 1;
  (* 63 *) f_altref_strength s <=? 6;
  (* 64 *) f_altref_nframes s <=? 13;                             (* guide [0-10]; code <= 13 [DEV] *)
  (* 65 *) tri (f_enable_warped_motion s);
  (* 66 *) rng 0 (f_enable_global_motion s) 1;
  (* 67 *) rng (-1) (f_obmc_level s) 3;
  (* 68 *) rng (-1) (f_filter_intra_level s) 1;
  (* 69 *) tri (f_enable_intra_edge_filter s);
  (* 70 *) tri (f_pic_based_rate_est s);
  (* 71 *) rng (-1) (f_enable_hbd_mode_decision s) 2;
  (* 72 *) rng (-1) (f_palette_level s) 6;
  (* 73 *) tri (f_rdoq_level s);
  (* 74 *) rng (-1) (f_set_chroma_mode s) 3;
  (* 75 *) tri (f_disable_cfl_flag s);
  (* 76 *) rng (-1) (f_cdef_level s) 4;                           (* guide [0-5] (and -1); code -1..4 [DEV] *)
  (* 77 *) tri (f_enable_restoration_filtering s);
  (* 78 *) rng (-1) (f_sg_filter_mode s) 4;
  (* 79 *) rng (-1) (f_wn_filter_mode s) 3;
  (* 80 *) rng (-1) (f_pred_me s) 5;
  (* 81 *) rng (-1) (f_bipred_3x3_inject s) 2;
  (* 82 *) rng (-1) (f_compound_level s) 2;
  (* 83 *) tri (f_intra_angle_delta s);
  (* 84 *) tri (f_inter_intra_compound s);
  (* 85 *) tri (f_enable_paeth s);
  (* 86 *) tri (f_enable_smooth s);
  (* 87 *) tri (f_enable_mfmv s);
  (* 88 *) tri (f_enable_redundant_blk s);
  (* 89 *) tri (f_spatial_sse_full_loop_level s);
  (* 90 *) tri (f_over_bndry_blk s);
  (* 91 *) tri (f_new_nearest_comb_inject s);
  (* 92 *) tri (f_nsq_table s);
  (* 93 *) tri (f_frame_end_cdf_update s);
  (* 94 *) (f_enable_manual_pred_struct s =? 0) || (f_manual_pred_struct_entry_num s <=? 32);
  (* 95 *) f_superres_mode s <=? 2;
  (* 96 *) negb (f_superres_mode s >? 0) || ((f_rc_twopass_stats_in_sz s =? 0) && (f_rc_firstpass_stats_out s =? 0));
  (* 97 *) f_superres_qthres s <=? 63;
  (* 98 *) rng 8 (f_superres_kf_denom s) 16;
  (* 99 *) rng 8 (f_superres_denom s) 16
].

Definition documented (s : config) : bool := forallb (fun b => b) (golden s).
