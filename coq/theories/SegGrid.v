(* C24: a segment grid as enc_dec_segments_init leaves it in memory, the superblock walk of
   enc_dec_kernel, and a decidable well-formedness / coverage / dependency check [grid_ok_b].
   The checker is extracted and applied to the arrays the REAL init produced for every grid of
   the domain; Proofs_C24.v shows that an accepted grid satisfies the hypotheses of the protocol
   theorems of SegProto.v (all interleavings, any number of workers) and the coverage and
   dependency-order statements. *)
From Coq Require Import Arith Lia List Bool PeanoNat.
Import ListNotations.

Record grid := {
  gW : nat; gH : nat;                 (* tile-group size in superblocks *)
  gB : nat; gR : nat;                 (* segment_band_count, segment_row_count *)
  gSBB : nat;                         (* sb_band_count *)
  gvalid : list nat; gxs : list nat; gys : list nat;      (* per segment index *)
  glo : list nat; ghi : list nat;     (* per segment row: starting / ending segment index *)
  gdep : list nat                     (* dependency map *)
}.

Definition lo_ (g : grid) (r : nat) : nat := nth r (glo g) 0.
Definition hi_ (g : grid) (r : nat) : nat := nth r (ghi g) 0.
Definition valid_ (g : grid) (s : nat) : nat := nth s (gvalid g) 0.
Definition dep_ (g : grid) (s : nat) : nat := nth s (gdep g) 0.

(* ---- the abstract row-grid conditions of SegProto, decided ---- *)
Definition rows_ok_b (g : grid) : bool :=
  forallb (fun r => (r * gB g <=? lo_ g r) && (lo_ g r <=? hi_ g r) && (hi_ g r <? (r + 1) * gB g)) (seq 0 (gR g)).
Definition up_ok_b (g : grid) : bool :=
  forallb (fun r => (lo_ g (r - 1) + gB g <=? lo_ g r) && (lo_ g r <=? hi_ g (r - 1) + gB g)) (seq 1 (gR g - 1)).
Definition hi_ok_b (g : grid) : bool :=
  forallb (fun r => hi_ g r + gB g <=? hi_ g (r + 1)) (seq 0 (gR g - 1)).

Definition has_left_g (g : grid) (s : nat) : bool := lo_ g (s / gB g) <? s.
Definition has_up_g (g : grid) (s : nat) : bool := (0 <? s / gB g) && (s <=? hi_ g (s / gB g - 1) + gB g).
Definition dep0_g (g : grid) (s : nat) : nat := (if has_left_g g s then 1 else 0) + (if has_up_g g s then 1 else 0).

Definition in_range_segs (g : grid) : list nat :=
  flat_map (fun r => seq (lo_ g r) (hi_ g r + 1 - lo_ g r)) (seq 0 (gR g)).

Definition segs_ok_b (g : grid) : bool :=
  forallb (fun s => (0 <? valid_ g s) && (dep_ g s =? dep0_g g s)) (in_range_segs g).

Definition wf_b (g : grid) : bool :=
  (0 <? gB g) && (0 <? gR g) && rows_ok_b g && up_ok_b g && hi_ok_b g && segs_ok_b g.

(* ---- the superblock walk of enc_dec_kernel for one segment ---- *)
Definition band_size (g : grid) (s : nat) : nat :=
  let b := s - (s / gB g) * gB g in (gSBB g * (b + 1) + gB g - 1) / gB g.

(* inner loop: x from x0 while x < W, x + y < band_size, budget left *)
Fixpoint walk_row (W bs y x budget fuel : nat) : list (nat * nat) :=
  match fuel with
  | O => []
  | S f => if (x <? W) && (x + y <? bs) && (0 <? budget) then (x, y) :: walk_row W bs y (S x) (budget - 1) f else []
  end.

Fixpoint walk_rows (W bs y x0 budget fuel : nat) : list (nat * nat) :=
  match fuel with
  | O => []
  | S f => if 0 <? budget then
             let row := walk_row W bs y x0 budget (S W) in
             row ++ walk_rows W bs (S y) (x0 - 1) (budget - length row) f
           else []
  end.

Definition walk (g : grid) (s : nat) : list (nat * nat) :=
  walk_rows (gW g) (band_size g s) (nth s (gys g) 0) (nth s (gxs g) 0) (valid_ g s) (S (gH g + gW g)).

(* ---- which segment a superblock belongs to (the index macros) ---- *)
Definition row_of_sb (g : grid) (y : nat) : nat := (y * gR g) / gH g.
Definition band_of_sb (g : grid) (x y : nat) : nat := ((x + y) * gB g) / gSBB g.
Definition seg_of_sb (g : grid) (x y : nat) : nat := row_of_sb g y * gB g + band_of_sb g x y.

Definition pair_eqb (a b : nat * nat) : bool := (fst a =? fst b) && (snd a =? snd b).
Fixpoint mem_pair (a : nat * nat) (l : list (nat * nat)) : bool :=
  match l with [] => false | b :: r => pair_eqb a b || mem_pair a r end.
Fixpoint nodup_pairs (l : list (nat * nat)) : bool :=
  match l with [] => true | a :: r => negb (mem_pair a r) && nodup_pairs r end.

(* every walked superblock is inside the picture and belongs to the segment being walked *)
Definition walk_in_seg_b (g : grid) (s : nat) : bool :=
  forallb (fun p => (fst p <? gW g) && (snd p <? gH g) && (seg_of_sb g (fst p) (snd p) =? s)) (walk g s).

(* neighbours needed before (x,y): left, up, up-left, up-right; each is either earlier in the same
   walk or lies in a segment with row index <= and band index <= (and different) *)
Definition before_ok (g : grid) (s : nat) (done : list (nat * nat)) (n : nat * nat) : bool :=
  let s' := seg_of_sb g (fst n) (snd n) in
  if s' =? s then mem_pair n done
  else (s' / gB g <=? s / gB g) && (s' - (s' / gB g) * gB g <=? s - (s / gB g) * gB g).

Fixpoint walk_deps_b (g : grid) (s : nat) (done todo : list (nat * nat)) : bool :=
  match todo with
  | [] => true
  | (x, y) :: rest =>
      let nbrs := (if 0 <? x then [(x - 1, y)] else []) ++
                  (if 0 <? y then [(x, y - 1)] else []) ++
                  (if (0 <? x) && (0 <? y) then [(x - 1, y - 1)] else []) ++
                  (if (0 <? y) && (x + 1 <? gW g) then [(x + 1, y - 1)] else []) in
      forallb (before_ok g s done) nbrs && walk_deps_b g s ((x, y) :: done) rest
  end.

Definition all_walks (g : grid) : list (nat * nat) := flat_map (walk g) (in_range_segs g).
Definition positions (g : grid) : list (nat * nat) := list_prod (seq 0 (gW g)) (seq 0 (gH g)).

(* every walked superblock lies in the rectangle and in the segment being walked (so walks of different
   segments are disjoint), no walk repeats a superblock, and the walks together have exactly W*H entries:
   hence each superblock of the rectangle is processed exactly once (Proofs_C24.cover_sound) *)
Definition cover_b (g : grid) : bool :=
  forallb (walk_in_seg_b g) (in_range_segs g) &&
  forallb (fun s => nodup_pairs (walk g s)) (in_range_segs g) &&
  (length (all_walks g) =? gW g * gH g) &&
  forallb (fun s => length (walk g s) =? valid_ g s) (in_range_segs g) &&
  (gSBB g =? gW g + gH g - 1) && (0 <? gH g) && (0 <? gW g).

Definition deps_b (g : grid) : bool :=
  forallb (fun s => walk_deps_b g s [] (walk g s)) (in_range_segs g).

Definition grid_ok_b (g : grid) : bool := wf_b g && cover_b g && deps_b g.
