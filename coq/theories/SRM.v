From Coq Require Import List Arith Lia Bool Permutation.
Import ListNotations.

(* Abstract (deque-level) model of one EbMuxingQueue with its process FIFOs. *)
Definition obj := nat.
Record fifo := { items : list obj; sem : nat; claimed : nat (* ghost: passed sem_wait, not yet popped *) }.
Record mq := { oq : list obj; pq : list nat; fifos : list fifo }.

Definition give (fs : list fifo) (f : nat) (o : obj) : list fifo :=
  match nth_error fs f with
  | Some x => firstn f fs ++ {| items := items x ++ [o]; sem := S (sem x); claimed := claimed x |} :: skipn (S f) fs
  | None => fs
  end.

(* svt_muxing_queue_assignation *)
Fixpoint assign_loop (os : list obj) (ps : list nat) (fs : list fifo) : list obj * list nat * list fifo :=
  match os, ps with
  | o :: os', f :: ps' => assign_loop os' ps' (give fs f o)
  | _, _ => (os, ps, fs)
  end.
Definition assign (q : mq) : mq :=
  let '(os, ps, fs) := assign_loop (oq q) (pq q) (fifos q) in {| oq := os; pq := ps; fifos := fs |}.

Inductive op :=
| PushBack (o : obj)      (* svt_post_full_object *)
| PushFront (o : obj)     (* svt_release_object reaching live_count 0 *)
| RelProc (f : nat)       (* svt_release_process *)
| SemWait (f : nat)
| Pop (f : nat).

Definition upd (fs : list fifo) (f : nat) (x : fifo) := firstn f fs ++ x :: skipn (S f) fs.

Definition step (q : mq) (o : op) : option (mq * option obj) :=
  match o with
  | PushBack x => Some (assign {| oq := oq q ++ [x]; pq := pq q; fifos := fifos q |}, None)
  | PushFront x => Some (assign {| oq := x :: oq q; pq := pq q; fifos := fifos q |}, None)
  | RelProc f => if f <? length (fifos q) then Some (assign {| oq := oq q; pq := f :: pq q; fifos := fifos q |}, None) else None
  | SemWait f => match nth_error (fifos q) f with
                 | Some x => match sem x with
                             | S n => Some ({| oq := oq q; pq := pq q; fifos := upd (fifos q) f {| items := items x; sem := n; claimed := S (claimed x) |} |}, None)
                             | O => None   (* blocked *)
                             end
                 | None => None end
  | Pop f => match nth_error (fifos q) f with
             | Some x => match items x, claimed x with
                         | i :: rest, S c => Some ({| oq := oq q; pq := pq q; fifos := upd (fifos q) f {| items := rest; sem := sem x; claimed := c |} |}, Some i)
                         | _, _ => None
                         end
             | None => None end
  end.

(* ---- invariants ---- *)
Definition all_items (fs : list fifo) : list obj := concat (map items fs).
Definition contents (q : mq) : list obj := oq q ++ all_items (fifos q).
Definition nlw (q : mq) : Prop := oq q = [] \/ pq q = [].
Definition sem_ok (q : mq) : Prop := Forall (fun x => sem x + claimed x = length (items x)) (fifos q).
Definition pq_ok (q : mq) : Prop := Forall (fun f => f < length (fifos q)) (pq q).

Lemma give_length fs f o : length (give fs f o) = length fs.
Proof.
  unfold give. destruct (nth_error fs f) eqn:E; auto.
  assert (f < length fs) by (apply nth_error_Some; congruence).
  rewrite app_length. cbn [length]. rewrite firstn_length, skipn_length. lia.
Qed.

Lemma split_nth {A} (l : list A) n x : nth_error l n = Some x -> l = firstn n l ++ x :: skipn (S n) l.
Proof.
  revert n. induction l as [|a l IH]; intros [|n] H; cbn in *; try discriminate.
  - inversion H; reflexivity.
  - f_equal. apply IH; exact H.
Qed.

Definition remove_at {A} (l : list A) n := firstn n l ++ skipn (S n) l.

Lemma all_items_upd fs f y :
  Permutation (all_items (upd fs f y)) (items y ++ all_items (remove_at fs f)).
Proof.
  unfold all_items, upd, remove_at. rewrite !map_app, !concat_app. cbn [map concat].
  rewrite Permutation_app_comm. rewrite <- app_assoc. apply Permutation_app_head. apply Permutation_app_comm.
Qed.

Lemma all_items_nth fs f x : nth_error fs f = Some x ->
  Permutation (all_items fs) (items x ++ all_items (remove_at fs f)).
Proof.
  intros E. rewrite (split_nth fs f x E) at 1. apply (all_items_upd fs f x).
Qed.

Lemma give_contents fs f o : f < length fs ->
  Permutation (all_items (give fs f o)) (o :: all_items fs).
Proof.
  intros Hf. unfold give. destruct (nth_error fs f) as [x|] eqn:E.
  - fold (upd fs f {| items := items x ++ [o]; sem := S (sem x); claimed := claimed x |}).
    rewrite all_items_upd. cbn [items]. rewrite (all_items_nth fs f x E).
    set (R := all_items (remove_at fs f)).
    (* (items x ++ [o]) ++ R  ~  o :: items x ++ R *)
    rewrite <- app_assoc. apply Permutation_sym. apply Permutation_cons_app. reflexivity.
  - apply nth_error_None in E. lia.
Qed.

Lemma assign_loop_nlw os ps fs : let '(os', ps', _) := assign_loop os ps fs in os' = [] \/ ps' = [].
Proof.
  revert ps fs. induction os as [|o os IH]; intros ps fs; cbn; auto.
  destruct ps as [|f ps]; auto. apply IH.
Qed.

Lemma assign_loop_len os ps fs : let '(_, _, fs') := assign_loop os ps fs in length fs' = length fs.
Proof.
  revert ps fs. induction os as [|o os IH]; intros ps fs; cbn; auto.
  destruct ps as [|f ps]; auto. specialize (IH ps (give fs f o)).
  destruct (assign_loop os ps (give fs f o)) as [[a b] c]. rewrite IH. apply give_length.
Qed.

Lemma assign_loop_contents os ps fs : Forall (fun f => f < length fs) ps ->
  let '(os', ps', fs') := assign_loop os ps fs in
  Permutation (os' ++ all_items fs') (os ++ all_items fs) /\ Forall (fun f => f < length fs') ps'.
Proof.
  revert ps fs. induction os as [|o os IH]; intros ps fs Hp; cbn.
  - split; auto.
  - destruct ps as [|f ps]; [split; auto|].
    inversion Hp as [|? ? Hf Hps]; subst.
    specialize (IH ps (give fs f o)). rewrite give_length in IH. specialize (IH Hps).
    destruct (assign_loop os ps (give fs f o)) as [[a b] c]. destruct IH as [IH1 IH2]. split; auto.
    rewrite IH1. rewrite (give_contents fs f o Hf). apply Permutation_sym, Permutation_middle.
Qed.

Lemma give_sem_ok fs f o : Forall (fun x => sem x + claimed x = length (items x)) fs ->
  Forall (fun x => sem x + claimed x = length (items x)) (give fs f o).
Proof.
  intros H. unfold give. destruct (nth_error fs f) as [x|] eqn:E; auto.
  rewrite (split_nth fs f x E) in H. apply Forall_app in H. destruct H as [H1 H2].
  inversion H2 as [|? ? Hx H3]; subst.
  apply Forall_app; split; auto. constructor; auto.
  cbn. rewrite app_length. cbn. lia.
Qed.

Lemma assign_loop_sem os ps fs : Forall (fun x => sem x + claimed x = length (items x)) fs ->
  let '(_, _, fs') := assign_loop os ps fs in Forall (fun x => sem x + claimed x = length (items x)) fs'.
Proof.
  revert ps fs. induction os as [|o os IH]; intros ps fs H; cbn; auto.
  destruct ps as [|f ps]; auto. apply IH. apply give_sem_ok; auto.
Qed.

Definition Inv (q : mq) := nlw q /\ sem_ok q /\ pq_ok q.

Lemma assign_inv q : sem_ok q -> pq_ok q -> Inv (assign q) /\ Permutation (contents (assign q)) (contents q).
Proof.
  intros Hs Hp. unfold assign, Inv, nlw, sem_ok, pq_ok, contents in *.
  pose proof (assign_loop_nlw (oq q) (pq q) (fifos q)) as H1.
  pose proof (assign_loop_contents (oq q) (pq q) (fifos q) Hp) as H2.
  pose proof (assign_loop_sem (oq q) (pq q) (fifos q) Hs) as H3.
  destruct (assign_loop (oq q) (pq q) (fifos q)) as [[a b] c]. cbn. tauto.
Qed.

Lemma upd_length fs f x : f < length fs -> length (upd fs f x) = length fs.
Proof. intros. unfold upd. rewrite app_length. cbn [length]. rewrite firstn_length, skipn_length. lia. Qed.

Lemma upd_sem_ok fs f x y : nth_error fs f = Some x ->
  Forall (fun x => sem x + claimed x = length (items x)) fs ->
  sem y + claimed y = length (items y) ->
  Forall (fun x => sem x + claimed x = length (items x)) (upd fs f y).
Proof.
  intros E H Hy. rewrite (split_nth fs f x E) in H. apply Forall_app in H. destruct H as [H1 H2].
  inversion H2; subst. unfold upd. apply Forall_app; split; auto.
Qed.

Definition pushed_of (o : op) : list obj := match o with PushBack x | PushFront x => [x] | _ => [] end.
Definition popped_of (r : option obj) : list obj := match r with Some i => [i] | None => [] end.

Lemma step_inv q o q' r : Inv q -> step q o = Some (q', r) ->
  Inv q' /\ Permutation (popped_of r ++ contents q') (pushed_of o ++ contents q).
Proof.
  intros [Hn [Hs Hp]] Hstep. destruct o as [x|x|f|f|f]; cbn [step] in Hstep.
  - inversion Hstep; subst; clear Hstep.
    destruct (assign_inv {| oq := oq q ++ [x]; pq := pq q; fifos := fifos q |} Hs Hp) as [Hi Hc].
    split; auto. cbn. rewrite Hc. unfold contents; cbn. rewrite <- app_assoc. 
    apply Permutation_sym. apply Permutation_cons_app. reflexivity.
  - inversion Hstep; subst; clear Hstep.
    destruct (assign_inv {| oq := x :: oq q; pq := pq q; fifos := fifos q |} Hs Hp) as [Hi Hc].
    split; auto.
  - destruct (Nat.ltb_spec f (length (fifos q))) as [Hf|Hf]; [|discriminate].
    inversion Hstep; subst; clear Hstep.
    assert (Hp': pq_ok {| oq := oq q; pq := f :: pq q; fifos := fifos q |}) by (constructor; auto).
    destruct (assign_inv {| oq := oq q; pq := f :: pq q; fifos := fifos q |} Hs Hp') as [Hi Hc]. split; auto.
  - destruct (nth_error (fifos q) f) as [x|] eqn:E; [|discriminate].
    destruct (sem x) as [|n] eqn:Es; [discriminate|]. inversion Hstep; subst; clear Hstep.
    assert (Hf: f < length (fifos q)) by (apply nth_error_Some; congruence).
    split.
    + repeat split; cbn.
      * exact Hn.
      * unfold sem_ok in *; cbn. eapply upd_sem_ok; eauto. cbn.
        eapply Forall_forall in Hs; [|eapply nth_error_In, E]. lia.
      * unfold pq_ok in *; cbn. rewrite upd_length by auto. exact Hp.
    + unfold contents; cbn [popped_of pushed_of oq fifos app]. apply Permutation_app_head.
      rewrite all_items_upd, (all_items_nth _ _ _ E). reflexivity.
  - destruct (nth_error (fifos q) f) as [x|] eqn:E; [|discriminate].
    destruct (items x) as [|i rest] eqn:Ei; [discriminate|].
    destruct (claimed x) as [|c] eqn:Ec; [discriminate|]. inversion Hstep; subst; clear Hstep.
    assert (Hf: f < length (fifos q)) by (apply nth_error_Some; congruence).
    split.
    + repeat split; cbn.
      * exact Hn.
      * unfold sem_ok in *; cbn. eapply upd_sem_ok; eauto. cbn.
        eapply Forall_forall in Hs; [|eapply nth_error_In, E]. rewrite Ei in Hs. cbn in Hs. lia.
      * unfold pq_ok in *; cbn. rewrite upd_length by auto. exact Hp.
    + unfold contents; cbn [popped_of pushed_of oq fifos app].
      rewrite all_items_upd, (all_items_nth _ _ _ E), Ei. cbn [items].
      apply Permutation_cons_app. reflexivity.
Qed.

(* runs: any sequence of enabled steps *)
Fixpoint run (q : mq) (ops : list op) : option (mq * list obj (* popped, in order *)) :=
  match ops with
  | [] => Some (q, [])
  | o :: rest => match step q o with
                 | Some (q', r) => match run q' rest with Some (q'', ps) => Some (q'', popped_of r ++ ps) | None => None end
                 | None => None end
  end.
Definition pushed (ops : list op) := flat_map pushed_of ops.

Theorem srm_mq_conservation ops : forall q q' ps, Inv q -> run q ops = Some (q', ps) ->
  Inv q' /\ Permutation (ps ++ contents q') (pushed ops ++ contents q).
Proof.
  induction ops as [|o ops IH]; intros q q' ps Hi Hr; cbn in Hr.
  - inversion Hr; subst. split; auto.
  - destruct (step q o) as [[q1 r]|] eqn:Es; [|discriminate].
    destruct (run q1 ops) as [[q2 ps2]|] eqn:Er; [|discriminate]. inversion Hr; subst; clear Hr.
    destruct (step_inv q o q1 r Hi Es) as [Hi1 Hc1].
    destruct (IH q1 q' ps2 Hi1 Er) as [Hi2 Hc2]. split; auto.
    cbn [pushed flat_map]. fold (pushed ops).
    rewrite <- !app_assoc. rewrite Hc2.
    rewrite (app_assoc (popped_of r)), (Permutation_app_comm (popped_of r)), <- app_assoc.
    rewrite Hc1. rewrite !app_assoc. apply Permutation_app_tail. apply Permutation_app_comm.
Qed.
Print Assumptions srm_mq_conservation.

(* initial state: n_fifos empty FIFOs *)
Definition mq0 (n : nat) : mq := {| oq := []; pq := []; fifos := repeat {| items := []; sem := 0; claimed := 0 |} n |}.
Lemma inv0 n : Inv (mq0 n).
Proof.
  split; [left; reflexivity|]. split.
  - unfold sem_ok; cbn. apply Forall_forall. intros x Hx. apply repeat_spec in Hx. subst. reflexivity.
  - unfold pq_ok; cbn. constructor.
Qed.

(* no lost wake-up, as a corollary: after any run, never both an object and a waiting process queued *)
Corollary srm_mq_no_lost_wakeup n ops q ps : run (mq0 n) ops = Some (q, ps) -> oq q = [] \/ pq q = [].
Proof. intros H. destruct (srm_mq_conservation ops _ _ _ (inv0 n) H) as [[Hn _] _]. exact Hn. Qed.

(* semaphore count never over-promises: sem + claimed = queued items, for every FIFO, after any run *)
Corollary srm_mq_sem_consistent n ops q ps : run (mq0 n) ops = Some (q, ps) ->
  Forall (fun x => sem x + claimed x = length (items x)) (fifos q).
Proof. intros H. destruct (srm_mq_conservation ops _ _ _ (inv0 n) H) as [[_ [Hs _]] _]. exact Hs. Qed.

