(* C14 - API calls in any order return error codes instead of crashing or blocking.
   LockFlow.v: verified lock-discipline checker; gen/LockGen.v: the control-flow skeleton of every library function that takes or
   releases a mutex, regenerated from the C sources on every run; ApiProto.v: executable specification of the call protocol. *)
From Coq Require Import List Bool Arith.
From SV Require Import LockFlow ApiProto.
From SVG Require Import LockGen.
Import ListNotations.

(* every analysed function of the current source is accepted by the checker, except those listed as recorded findings ... *)
Theorem c14_lock_discipline_holds : forallb (fun f => fn_ok (snd f) || existsb (Nat.eqb (fst f)) lock_findings) lock_functions = true.
Proof. vm_compute. reflexivity. Qed.

(* ... and acceptance means: on every execution path (any branch choices, any number of loop iterations) the function returns, or
   falls off its end, holding no mutex; it never re-locks a mutex it holds nor releases one it does not hold *)
Theorem c14_checker_sound : forall body o, fn_ok body = true -> exec body [] o -> o = Normal [] \/ o = Returned [].
Proof. exact fn_ok_sound. Qed.

Theorem c14_null_calls_are_errors : forall s o, null_op o = true -> step s o = (s, Err).
Proof. exact null_calls_are_errors. Qed.

Theorem c14_rejected_configuration_keeps_handle_usable : forall ops s, forallb harmless ops = true -> handle s = true -> inited s = false ->
  snd (step (final s ops) SP_ok) = Ok.
Proof. exact rejected_configuration_keeps_handle_usable. Qed.
