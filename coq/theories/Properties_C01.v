(* C01 — encoder reconstruction equals a decode of its own bitstream.
   Coq carries the layers of the argument that are logic: the entropy coder inverts (C25), framing inverts (C02),
   packets and recon pictures pair by display position (C03). The pixel reconstruction process is not modelled;
   the equality of the pictures themselves is compared on real encodes (tools/checks/c01.py). *)
From Coq Require Import ZArith List Bool.
From SV Require Import Monitors Properties_C25 Properties_C02 Properties_C03.
Import ListNotations.
Local Open Scope Z_scope.

(* the pairing monitor: recon pictures and decoded pictures, by display position, have equal digests *)
Definition check_c01 (recon decoded : list Z) : bool := eqb_list Z.eqb recon decoded.
Theorem c01_pairing_monitor_sound : forall recon decoded, check_c01 recon decoded = true <-> recon = decoded.
Proof. intros. unfold check_c01. apply eqb_list_spec. exact Z.eqb_eq. Qed.
