From Coq Require Import ZArith List Lia Bool.
From SV Require Import CInt Dispatch.
From SVG Require Import BuffersGen DispatchGen.
Import ListNotations.
Local Open Scope Z_scope.

(* load_default_buffer_configuration_settings leaves requested & detected in static_config.use_cpu_flags *)
Lemma cpu_flags_masked i l : cpu_mask i = Some l -> nth 0 l 0 = wrapU 64 (effective (b_use_cpu_flags i) (b_os_cpu_flags_to_use i)).
Proof.
  unfold cpu_mask, effective. cbv zeta. match goal with |- (if ?c then _ else _) = _ -> _ => destruct c end; [discriminate|].
  intros H. injection H as <-. reflexivity.
Qed.

Lemma table_ascending : forallb ascending table = true.
Proof. vm_compute. reflexivity. Qed.

Lemma table_bits_known : forallb (fun e => forallb (fun b => existsb (Z.eqb b) slot_bits) e) table = true.
Proof. vm_compute. reflexivity. Qed.

(* for every entry of the current tables and every flag word, the chosen variant is the C reference or a listed variant
   whose flag bit is set in requested & detected *)
Lemma table_choice_sound requested available e : In e table ->
  select (effective requested available) e = 0%nat \/
  exists k bit, select (effective requested available) e = S k /\ nth_error e k = Some bit /\ Z.testbit available bit = true /\ Z.testbit requested bit = true.
Proof.
  intros _. destruct (select (effective requested available) e) as [|k] eqn:E; [left; reflexivity|].
  right. destruct (never_beyond_cpu _ _ _ _ E) as (bit & H1 & H2 & H3). exists k, bit. auto.
Qed.
