(* C27 - what the pipeline keeps before it can complete a picture (the window of the abstract model in Pacing.v),
   written from the hold rules of the stages: resource coordination keeps one picture (end-of-stream delay), scene-change
   detection / temporal filtering look SCD_LAD = 6 pictures ahead, picture decision forms a whole mini-GOP plus the next
   base picture, initial rate control keeps the look-ahead distance, released by whole mini-GOPs (one more mini-GOP when the
   intra period is not a multiple of the mini-GOP size). *)
From Coq Require Import ZArith List Lia Bool.
From SV Require Import CInt.
From SVG Require Import BuffersGen.
Import ListNotations.
Local Open Scope Z_scope.

Definition mg (i : binp) : Z := 2 ^ b_hierarchical_levels i.
Definition scd_window (i : binp) : Z := if negb (b_tf_level i =? 0) || negb (b_scene_change_detection i =? 0) then 6 else 0.
Definition lad_window (i : binp) : Z :=
  let m := mg i in let l := b_look_ahead_distance i in
  ((l + m - 1) / m) * m + (if (0 <? l) && (0 <? (b_intra_period_length i + 1) mod m) then m else 0).
Definition demand (i : binp) : Z := (mg i + 1) + 1 + scd_window i + lad_window i.
(* with overlay pictures every held picture may have a twin, and the look-ahead holds one overlay per mini-GOP *)
Definition demand_parent (i : binp) : Z :=
  if b_enable_overlays i =? 0 then demand i
  else ((mg i + 1) + 1 + scd_window i) * 2 + lad_window i + lad_window i / mg i + 1.

(* reference-type pools, from the prediction structure: a mini-GOP of 2^hl pictures has 2^hl / 2 reference pictures in flight
   next to the 8 slots of the decoded-picture buffer (+ 2 in transit); picture analysis keeps one PA reference per picture of
   the mini-GOP being formed, the next base picture, the 8 past references motion estimation may use, the end-of-stream and
   scene-change delays, and - when the TPL model reads them - the pictures of the look-ahead window; twice that with overlays *)
Definition demand_ref (i : binp) : Z := mg i / 2 + 10.
Definition demand_paref (i : binp) : Z :=
  ((mg i + 1) + 8 + 1 + scd_window i + (if b_enable_tpl_la i =? 0 then 0 else lad_window i)) * (if b_enable_overlays i =? 0 then 1 else 2).

Definition in_domain (i : binp) : Prop :=
  0 <= b_hierarchical_levels i <= 5 /\ 0 <= b_look_ahead_distance i <= 120 /\
  - 2 ^ 31 <= b_intra_period_length i < 2 ^ 31 - 1 /\
  - 128 <= b_tf_level i <= 127 /\ 0 <= b_scene_change_detection i < 2 ^ 32 /\ 0 <= b_enable_overlays i <= 255 /\ 0 <= b_enable_tpl_la i <= 255 /\
  1 <= b_os_processor_count i < 2 ^ 32 /\ 1 <= b_num_groups i <= 255 /\ 0 <= b_logical_processors i < 2 ^ 32 /\
  - 2 ^ 31 <= b_target_socket i < 2 ^ 31.

Definition in_domainb (i : binp) : bool :=
  (0 <=? b_hierarchical_levels i) && (b_hierarchical_levels i <=? 5) && (0 <=? b_look_ahead_distance i) && (b_look_ahead_distance i <=? 120) &&
  (- 2 ^ 31 <=? b_intra_period_length i) && (b_intra_period_length i <? 2 ^ 31 - 1) &&
  (- 128 <=? b_tf_level i) && (b_tf_level i <=? 127) && (0 <=? b_scene_change_detection i) && (b_scene_change_detection i <? 2 ^ 32) &&
  (0 <=? b_enable_overlays i) && (b_enable_overlays i <=? 255) && (0 <=? b_enable_tpl_la i) && (b_enable_tpl_la i <=? 255) &&
  (1 <=? b_os_processor_count i) && (b_os_processor_count i <? 2 ^ 32) && (1 <=? b_num_groups i) && (b_num_groups i <=? 255) &&
  (0 <=? b_logical_processors i) && (b_logical_processors i <? 2 ^ 32) && (- 2 ^ 31 <=? b_target_socket i) && (b_target_socket i <? 2 ^ 31).

(* what the check evaluates on concrete inputs: pool sizes of the regenerated model against the window *)
Definition shortfall (i : binp) : option (Z * Z * Z * Z) :=
  match pools i with
  | Some l => Some (demand i, nth 0 l 0, demand_parent i, nth 1 l 0)
  | None => None
  end.
