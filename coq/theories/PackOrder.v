From Coq Require Import Arith Lia List Bool PeanoNat.
Import ListNotations.

(* C03: hierarchical decode order + the packetizer's undisplayed-frame discipline give packets in display order.
   A frame is hidden (coded, shown later by a show-existing packet) or shown; a shown frame may carry
   "has_show_existing": after its temporal unit, the undisplayed frame with the lowest pts is shown. *)
Inductive frame := Hidden (pts : nat) | Shown (pts : nat) (sx : bool).

(* decode order of the interior of a dyadic interval (a, a + 2^l], whose right end is already coded (l >= 1) *)
Fixpoint inner (l : nat) (a : nat) : list frame :=
  match l with
  | 0 => []
  | 1 => [Shown (a + 1) true]
  | S l' => Hidden (a + 2 ^ l') :: inner l' a ++ inner l' (a + 2 ^ l')
  end.
Definition minigop (l : nat) (a : nat) : list frame :=
  match l with
  | 0 => [Shown (a + 1) false]
  | _ => Hidden (a + 2 ^ l) :: inner l a
  end.

(* packetizer: pending undisplayed frames, packets emitted so far (their pts, in emission order) *)
Fixpoint minl (x : nat) (l : list nat) : nat := match l with [] => x | y :: t => minl (Nat.min x y) t end.
Fixpoint remove1 (x : nat) (l : list nat) : list nat :=
  match l with [] => [] | y :: t => if x =? y then t else y :: remove1 x t end.

Definition pstate := (list nat * list nat)%type.
Definition pstep (s : pstate) (f : frame) : pstate :=
  let '(pend, out) := s in
  match f with
  | Hidden p => (p :: pend, out)
  | Shown p sx =>
      if sx then match pend with
                 | [] => (pend, out ++ [p])
                 | y :: t => let m := minl y t in (remove1 m pend, out ++ [p; m])
                 end
      else (pend, out ++ [p])
  end.
Definition prun (fs : list frame) (s : pstate) : pstate := fold_left pstep fs s.

Lemma minl_le x l : minl x l <= x /\ Forall (fun y => minl x l <= y) l.
Proof.
  revert x. induction l as [|y t IH]; intros x; cbn; [split; auto|].
  destruct (IH (Nat.min x y)) as [H1 H2]. split; [lia|]. constructor; [lia|auto].
Qed.
Lemma minl_in x l : minl x l = x \/ In (minl x l) l.
Proof.
  revert x. induction l as [|y t IH]; intros x; cbn [minl In]; auto.
  destruct (IH (Nat.min x y)) as [H|H]; [|right; right; exact H].
  destruct (Nat.min_spec x y) as [[_ E]|[_ E]].
  - left. rewrite H. exact E.
  - right; left. rewrite H. symmetry. exact E.
Qed.

(* if m is in the pending list and is its least element, the packetizer pops exactly m *)
Lemma pop_least m pend : In m pend -> Forall (fun y => m <= y) pend ->
  match pend with [] => False | y :: t => minl y t = m end.
Proof.
  intros Hin Hall. destruct pend as [|y t]; [contradiction|].
  destruct (minl_le y t) as [H1 H2].
  assert (Hm: minl y t <= m).
  { destruct Hin as [<-|Hin]; auto. eapply Forall_forall in H2; eauto. }
  assert (Hge: m <= minl y t).
  { destruct (minl_in y t) as [E|E]; [rewrite E; inversion Hall; auto|].
    inversion Hall; subst. eapply Forall_forall in H4; eauto. }
  lia.
Qed.

Lemma remove1_notin x l : ~ In x l -> remove1 x l = l.
Proof.
  induction l as [|y t IH]; cbn; auto. intros Hn.
  destruct (Nat.eqb_spec x y) as [->|]; [exfalso; apply Hn; left; auto|]. f_equal. apply IH. intro; apply Hn; right; auto.
Qed.

Lemma pow_pos l : 1 <= 2 ^ l.
Proof. induction l; cbn; lia. Qed.

(* the interior of (a, a+2^l] is displayed in order a+1 .. a+2^l, and consumes exactly the right end from the pending set *)
Lemma inner_ok l : 1 <= l -> forall a pend out,
  In (a + 2 ^ l) pend -> Forall (fun y => a + 2 ^ l <= y) pend -> NoDup pend ->
  prun (inner l a) (pend, out) = (remove1 (a + 2 ^ l) pend, out ++ seq (a + 1) (2 ^ l)).
Proof.
  induction l as [|l IH]; [lia|]. intros _ a pend out Hin Hall Hnd.
  destruct l as [|l].
  - (* interval of size 2: one shown leaf followed by show-existing of the right end *)
    cbn [inner prun fold_left pstep]. pose proof (pop_least (a + 2 ^ 1) pend Hin Hall) as Hp.
    destruct pend as [|y t]; [contradiction|]. rewrite Hp. cbn. 
    replace (a + 1 + 1) with (a + 2) by lia. replace (S (a + 1)) with (a + 2) by lia. reflexivity.
  - (* size 2^(l+2): code the middle hidden, then the two halves *)
    change (inner (S (S l)) a) with (Hidden (a + 2 ^ S l) :: inner (S l) a ++ inner (S l) (a + 2 ^ S l)).
    unfold prun. cbn [fold_left pstep]. rewrite fold_left_app. fold (prun (inner (S l) a) (a + 2 ^ S l :: pend, out)).
    set (m := a + 2 ^ S l) in *.
    assert (Hpow: 2 ^ S (S l) = 2 ^ S l + 2 ^ S l) by (cbn; lia).
    pose proof (pow_pos (S l)) as Hp1.
    assert (Hm_lt: Forall (fun y => m < y) pend).
    { eapply Forall_impl; [|exact Hall]. cbn beta. intros y Hy. unfold m. lia. }
    assert (Hm_notin: ~ In m pend).
    { intro Hi. eapply Forall_forall in Hm_lt; eauto. lia. }
    rewrite (IH ltac:(lia) a (m :: pend) out).
    + cbn [remove1]. rewrite Nat.eqb_refl.
      fold (prun (inner (S l) m) (pend, out ++ seq (a + 1) (2 ^ S l))).
      rewrite (IH ltac:(lia) m pend (out ++ seq (a + 1) (2 ^ S l))).
      * f_equal; [unfold m; f_equal; lia|].
        rewrite <- app_assoc. f_equal. rewrite Hpow, seq_app. f_equal. f_equal. unfold m. lia.
      * replace (m + 2 ^ S l) with (a + 2 ^ S (S l)) by (unfold m; lia). exact Hin.
      * replace (m + 2 ^ S l) with (a + 2 ^ S (S l)) by (unfold m; lia). exact Hall.
      * exact Hnd.
    + left; reflexivity.
    + constructor; [lia|]. eapply Forall_impl; [|exact Hm_lt]. cbn beta; intros; lia.
    + constructor; auto.
Qed.

(* one whole mini-GOP of size 2^l after display position a: packets carry pts a+1 .. a+2^l, in order,
   and the set of pending undisplayed frames is left as it was *)
Theorem minigop_in_order l a pend out :
  Forall (fun y => a + 2 ^ l < y) pend -> NoDup pend ->
  prun (minigop l a) (pend, out) = (pend, out ++ seq (a + 1) (2 ^ l)).
Proof.
  intros Hall Hnd. destruct l as [|l].
  - cbn. reflexivity.
  - change (minigop (S l) a) with (Hidden (a + 2 ^ S l) :: inner (S l) a).
    unfold prun. cbn [fold_left pstep]. fold (prun (inner (S l) a) (a + 2 ^ S l :: pend, out)).
    assert (Hn: ~ In (a + 2 ^ S l) pend).
    { intro Hi. eapply Forall_forall in Hall; eauto. lia. }
    rewrite (inner_ok (S l) ltac:(lia) a (a + 2 ^ S l :: pend) out).
    + cbn [remove1]. rewrite Nat.eqb_refl. reflexivity.
    + left; reflexivity.
    + constructor; [lia|]. eapply Forall_impl; [|exact Hall]. cbn beta; intros; lia.
    + constructor; auto.
Qed.

(* any number of consecutive mini-GOPs: N = n * 2^l pictures give pts 1 .. N *)
Fixpoint stream (l n a : nat) : list frame :=
  match n with 0 => [] | S n' => minigop l a ++ stream l n' (a + 2 ^ l) end.

Theorem stream_in_order l n : forall a out,
  prun (stream l n a) ([], out) = ([], out ++ seq (a + 1) (n * 2 ^ l)).
Proof.
  induction n as [|n IH]; intros a out; cbn [stream].
  - cbn. rewrite app_nil_r. reflexivity.
  - unfold prun. rewrite fold_left_app. fold (prun (minigop l a) ([], out)).
    rewrite (minigop_in_order l a [] out (Forall_nil _) (NoDup_nil _)).
    fold (prun (stream l n (a + 2 ^ l)) ([], out ++ seq (a + 1) (2 ^ l))). rewrite IH.
    f_equal. rewrite <- app_assoc. f_equal. 
    replace (S n * 2 ^ l) with (2 ^ l + n * 2 ^ l) by lia. rewrite seq_app. f_equal. f_equal. lia.
Qed.
Print Assumptions stream_in_order.
