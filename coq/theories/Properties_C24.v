(* C24 — EncDec segment wavefront. The decidable check [grid_ok_b] (SegGrid.v) is applied, extracted,
   to the arrays the real enc_dec_segments_init produced for every grid of the domain; the theorems
   below say what acceptance means: for EVERY interleaving and any number of workers the protocol
   starts no segment before its dependencies, completes every segment, and the per-segment superblock
   walks process every superblock exactly once, each after its left / upper / upper-left / upper-right
   neighbours (same walk earlier, or a segment that the protocol orders earlier). Statements only. *)
From Coq Require Import Arith List Bool.
From SV Require Import SegProto SegGrid Proofs_C24.
From SV Require GuardFlow.
From SVG Require SegGuardGen.
Import ListNotations.

(* every reachable protocol state satisfies the invariant (dependency counters = unfinished predecessors,
   started segments = a prefix of each row, pending feedback rows are startable, nothing outside the grid) *)
Theorem seg_protocol_invariant : forall g, wf_b g = true ->
  forall q, reach (gR g) (gB g) (lo_ g) (hi_ g) q -> Inv (gR g) (gB g) (lo_ g) (hi_ g) q.
Proof. exact accepted_reach_inv. Qed.

(* dependency order: a started segment has its left neighbour finished and its upper neighbour done *)
Theorem seg_dependency_sound : forall g, wf_b g = true ->
  forall q s, reach (gR g) (gB g) (lo_ g) (hi_ g) q -> inS (gR g) (gB g) (lo_ g) (hi_ g) s -> started (st q s) = true ->
  (has_left (gB g) (lo_ g) s = true -> finished (st q (s - 1)) = true) /\
  (has_up (gB g) (hi_ g) s = true -> isdone (st q (s - gB g)) = true).
Proof. exact accepted_started_after_deps. Qed.

(* ... and transitively: every in-range segment that is "earlier" (row <=, band <=) than a started one has finished *)
Theorem seg_dependency_transitive : forall g, wf_b g = true ->
  forall q s t, reach (gR g) (gB g) (lo_ g) (hi_ g) q -> inS (gR g) (gB g) (lo_ g) (hi_ g) s -> started (st q s) = true ->
  inS (gR g) (gB g) (lo_ g) (hi_ g) t -> earlier_segment g t s -> finished (st q t) = true.
Proof. intros g Hg q s t Hq Hs Hst Ht [Hne [Hr Hb]]. exact (accepted_started_after_all_earlier g Hg q s t Hq Hs Hst Ht Hne Hr Hb). Qed.

(* completion: a reachable state in which no step is possible has every segment done (no deadlock) *)
Theorem seg_protocol_complete : forall g, wf_b g = true ->
  forall q, reach (gR g) (gB g) (lo_ g) (hi_ g) q -> pend q = [] ->
  (forall s, st q s = NotStarted \/ st q s = Done) ->
  forall s, inS (gR g) (gB g) (lo_ g) (hi_ g) s -> st q s = Done.
Proof. exact accepted_quiescent_all_done. Qed.

(* the C's dependency map equals the model's initial counters, and every in-range segment is non-empty *)
Theorem seg_dep_map_agrees : forall g, wf_b g = true ->
  forall s, In s (in_range_segs g) -> 0 < valid_ g s /\ dep_ g s = dep0_g g s.
Proof. exact accepted_dep_map. Qed.

(* coverage: the walks of all segments visit every superblock of the W x H rectangle exactly once *)
Theorem seg_partition : forall g, wf_b g = true -> cover_b g = true ->
  NoDup (all_walks g) /\
  (forall x y, x < gW g -> y < gH g -> In (x, y) (all_walks g)) /\
  (forall s p, In s (in_range_segs g) -> In p (walk g s) -> fst p < gW g /\ snd p < gH g /\ seg_of_sb g (fst p) (snd p) = s).
Proof. exact cover_sound. Qed.

(* walk order: each needed neighbour is earlier in the same walk or in a segment with row <= and band <= *)
Theorem seg_walk_dependency_order : forall g, deps_b g = true ->
  forall s, In s (in_range_segs g) -> forall pre p post, walk g s = pre ++ p :: post ->
  forall n, In n (needed g p) -> In n pre \/ earlier_segment g (seg_of_sb g (fst n) (snd n)) s.
Proof. exact deps_sound. Qed.

(* the two critical sections of the assignment are the ones the model takes as atomic steps: in the current text of
   assign_enc_dec_segments (skeleton regenerated from the source, SVG.SegGuardGen) every write of the dependency map happens with a
   mutex held, and every write of a row's current_seg_index that happens inside a critical section is inside the one of that same
   row's assignment mutex (the picture-start and feedback cases write it with no mutex: one thread owns the row then) *)
Theorem seg_assignment_sections_guard_their_row : GuardFlow.fn_ok SVG.SegGuardGen.seg_assign = true.
Proof. vm_compute. reflexivity. Qed.
