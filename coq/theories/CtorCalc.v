From Coq Require Import Arith Lia List Bool PeanoNat.
Import ListNotations.

(* C16: the EB_NEW / dctor unwinding discipline, compositionally.
   A heap ledger records live resources; "budget" = how many creations succeed before the single injected failure. *)
Record heap := { live : list nat; next : nat; bad : bool }.

Definition alloc (b : option nat) (h : heap) : option (nat * heap) * option nat :=
  match b with
  | Some 0 => (None, None)                        (* the injected failure; afterwards allocation works again *)
  | Some (S n) => (Some (next h, {| live := next h :: live h; next := S (next h); bad := bad h |}), Some n)
  | None => (Some (next h, {| live := next h :: live h; next := S (next h); bad := bad h |}), None)
  end.

Fixpoint remove1 (x : nat) (l : list nat) : option (list nat) :=
  match l with
  | [] => None
  | y :: t => if x =? y then Some t else option_map (cons y) (remove1 x t)
  end.

Definition free (x : nat) (h : heap) : heap :=
  match remove1 x (live h) with
  | Some l => {| live := l; next := next h; bad := bad h |}
  | None => {| live := live h; next := next h; bad := true |}     (* double free / invalid free *)
  end.
Definition free_all (xs : list nat) (h : heap) : heap := fold_left (fun h x => free x h) xs h.

(* a component builds some resources (returning the ids it owns) or fails *)
Definition builder := option nat -> heap -> heap * option nat * option (list nat).

Definition fresh_from (n : nat) (l : list nat) := Forall (fun x => n <= x) l.
Definition heap_ok (h : heap) := NoDup (live h) /\ Forall (fun x => x < next h) (live h).

(* the contract every constructor must meet *)
Definition Safe (c : builder) : Prop := forall b h, heap_ok h ->
  match c b h with
  | (h', _, Some owned) => live h' = owned ++ live h /\ bad h' = bad h /\ heap_ok h' /\ fresh_from (next h) owned /\ next h <= next h'
  | (h', _, None) => live h' = live h /\ bad h' = bad h /\ heap_ok h' /\ next h <= next h'
  end.

(* leaf: EB_MALLOC of one field *)
Definition leaf : builder := fun b h =>
  match alloc b h with
  | (Some (id, h'), b') => (h', b', Some [id])
  | (None, b') => (h, b', None)
  end.

Lemma leaf_safe : Safe leaf.
Proof.
  intros b h [Hnd Hlt]. unfold leaf, alloc.
  destruct b as [[|n]|]; cbn.
  - repeat split; auto.
  - repeat split; cbn; auto.
    + constructor; auto. intro Hin. eapply Forall_forall in Hlt; [|exact Hin]. lia.
    + constructor; [lia|]. eapply Forall_impl; [|exact Hlt]. cbn; intros; lia.
    + constructor; auto.
  - repeat split; cbn; auto.
    + constructor; auto. intro Hin. eapply Forall_forall in Hlt; [|exact Hin]. lia.
    + constructor; [lia|]. eapply Forall_impl; [|exact Hlt]. cbn; intros; lia.
    + constructor; auto.
Qed.

(* freeing exactly what was prepended restores the ledger *)
Lemma remove1_head x l : remove1 x (x :: l) = Some l.
Proof. cbn. rewrite Nat.eqb_refl. reflexivity. Qed.

Lemma remove1_app x (a l : list nat) : ~ In x a -> remove1 x (a ++ x :: l) = Some (a ++ l).
Proof.
  induction a as [|y a IH]; intros Hn; cbn.
  - rewrite Nat.eqb_refl. reflexivity.
  - destruct (Nat.eqb_spec x y) as [->|]; [exfalso; apply Hn; left; reflexivity|].
    rewrite IH; [reflexivity|]. intro; apply Hn; right; auto.
Qed.

Lemma free_all_prefix owned : forall l nx bd, NoDup (owned ++ l) ->
  free_all owned {| live := owned ++ l; next := nx; bad := bd |} = {| live := l; next := nx; bad := bd |}.
Proof.
  induction owned as [|x owned IH]; intros l nx bd Hnd; cbn; [reflexivity|].
  unfold free at 2; cbn [live]. rewrite remove1_head. cbn [next bad].
  apply IH. inversion Hnd; auto.
Qed.

(* EB_NEW of an object with fields built by cs; covered i = the dctor releases field i.
   (frees are issued newest-first; on a ledger the order of frees is immaterial) *)
Fixpoint build_fields (cs : list (builder * bool)) (b : option nat) (h : heap) (acc : list nat)
  : heap * option nat * list nat * bool :=
  match cs with
  | [] => (h, b, acc, true)
  | (c, cov) :: rest =>
      match c b h with
      | (h', b', Some owned) => build_fields rest b' h' ((if cov then owned else []) ++ acc)
      | (h', b', None) => (h', b', acc, false)
      end
  end.

Definition eb_new (cs : list (builder * bool)) : builder := fun b h =>
  match alloc b h with
  | (None, b') => (h, b', None)                                  (* calloc of the object itself failed *)
  | (Some (self, h1), b1) =>
      match build_fields cs b1 h1 [] with
      | (h2, b2, acc, true) => (h2, b2, Some (acc ++ [self]))
      | (h2, b2, acc, false) => (free self (free_all acc h2), b2, None)   (* dctor, then free the object *)
      end
  end.

Lemma NoDup_app_r {A} (a b : list A) : NoDup (a ++ b) -> NoDup b.
Proof. induction a as [|x a IH]; cbn; auto. intros H. inversion H; auto. Qed.

Lemma build_fields_safe cs : Forall (fun cc => Safe (fst cc) /\ snd cc = true) cs ->
  forall b h acc base n0, heap_ok h -> live h = acc ++ base -> fresh_from n0 acc -> n0 <= next h ->
  match build_fields cs b h acc with
  | (h', _, acc', _) => live h' = acc' ++ base /\ bad h' = bad h /\ heap_ok h' /\ fresh_from n0 acc' /\ next h <= next h'
  end.
Proof.
  induction cs as [|[c cov] cs IH]; intros Hall b h acc base n0 Hok Hl Hf Hn; cbn [build_fields].
  - auto.
  - inversion Hall as [|? ? [Hs Hc] Hrest]; subst. cbn in Hs, Hc. subst cov.
    pose proof (Hs b h Hok) as S. destruct (c b h) as [[h' b'] [owned|]].
    + destruct S as [E [Eb [Hok' [Hfr Hmono]]]].
      assert (F: fresh_from n0 (owned ++ acc)).
      { apply Forall_app. split; auto. eapply Forall_impl; [|exact Hfr]. cbn; intros; lia. }
      specialize (IH Hrest b' h' (owned ++ acc) base n0 Hok').
      rewrite E, Hl, app_assoc in IH. specialize (IH eq_refl F ltac:(lia)).
      destruct (build_fields cs b' h' (owned ++ acc)) as [[[h2 b2] acc2] ok].
      destruct IH as [A [B0 [C [D E2]]]]. repeat split; auto; try congruence; try lia; apply C.
    + destruct S as [E [Eb [Hok' Hmono]]]. repeat split; auto; try congruence; apply Hok'.
Qed.

Theorem eb_new_safe cs : Forall (fun cc => Safe (fst cc) /\ snd cc = true) cs -> Safe (eb_new cs).
Proof.
  intros Hall b h Hok. unfold eb_new.
  pose proof (leaf_safe b h Hok) as L. unfold leaf in L.
  destruct (alloc b h) as [[[self h1]|] b1].
  - destruct L as [E1 [Eb1 [Hok1 [Hf1 Hm1]]]].
    pose proof (build_fields_safe cs Hall b1 h1 [] (self :: live h) (next h) Hok1
                  ltac:(cbn; rewrite E1; reflexivity) ltac:(constructor) Hm1) as Bf.
    destruct (build_fields cs b1 h1 []) as [[[h2 b2] acc] ok].
    destruct Bf as [E2 [Eb2 [Hok2 [Hfr2 Hm2]]]].
    destruct ok.
    + (* success: the object owns its fields and itself *)
      split; [rewrite E2, <- app_assoc; reflexivity|]. split; [congruence|]. split; auto.
      split; [|lia]. apply Forall_app. split; auto.
    + (* failure: the dctor frees the fields built so far, then the object is freed *)
      destruct h2 as [l2 n2 bd2]. cbn [live bad next] in *. subst l2.
      destruct Hok2 as [Hnd2 Hlt2]. cbn [live next] in *.
      rewrite (free_all_prefix acc (self :: live h) n2 bd2 Hnd2).
      unfold free; cbn [live]. rewrite remove1_head. cbn.
      split; [reflexivity|]. split; [congruence|].
      split; [|lia]. split; cbn.
      * apply NoDup_app_r in Hnd2. inversion Hnd2; auto.
      * apply Forall_app in Hlt2. destruct Hlt2 as [_ Hlt2]. inversion Hlt2; auto.
  - destruct L as [E [Eb [Hok' Hm]]]. auto.
Qed.
Print Assumptions eb_new_safe.

(* and what goes wrong when the dctor forgets a field: a leak, for a concrete failure point *)
Example uncovered_leaks :
  let c := eb_new [(leaf, false); (leaf, true)] in
  let h0 := {| live := []; next := 0; bad := false |} in
  live (fst (fst (c (Some 2) h0))) <> live h0.
Proof. cbn. discriminate. Qed.
