(* C11 - encoding never corrupts memory: the one buffer whose size does not follow the picture.
   gen/BufSizeGen.v: EB_OUTPUTSTREAMBUFFERSIZE_MACRO regenerated from EbDefinitions.h; it sizes the bitstream buffer of every
   picture (divided by the number of tiles for the per-tile entropy-coder buffers), and nothing bounds-checks the writes into them.
   Incompressible content costs up to about 2.5 bytes per luma sample at qp 0 (measured: 10-bit noise; 8-bit noise 1.6), so a margin
   of 3 bytes per sample is what the buffer has to offer. Everything else about C11 is decided by sanitizer runs. *)
From Coq Require Import ZArith Lia.
From SV Require Import CInt.
From SVG Require Import BufSizeGen.
Local Open Scope Z_scope.

(* up to 666 666 luma samples (e.g. 1024x640) the buffer covers 3 bytes per sample *)
Theorem c11_bitstream_buffer_covers_small_pictures : forall area, 0 <= area <= 666666 -> 3 * area <= bitstream_buffer_size area.
Proof.
  intros area H. unfold bitstream_buffer_size. destruct (area <? 1497600) eqn:E; [|apply Z.ltb_ge in E; lia].
  rewrite wrapU_id by (cbn; lia). lia.
Qed.

(* ... and above that it does not even cover the raw 8-bit picture: 1600x900 is accepted by the validation and its raw 4:2:0
   size exceeds the buffer (recorded finding D24: noise at qp 0 overflows the heap buffer at this size) *)
Theorem c11_bitstream_buffer_too_small_refuted : exists w h, 64 <= w <= 4096 /\ 64 <= h <= 2160 /\ bitstream_buffer_size (w * h) < w * h * 3 / 2.
Proof. exists 1600, 900. vm_compute. repeat split; congruence. Qed.
