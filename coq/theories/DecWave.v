(* C09 - the multi-threaded decoder's reconstruction wavefront inside one tile (EbDecProcessFrame.c: decode_tile / decode_tile_row).
   Workers claim superblock rows in increasing order under the tile mutex (sb_row_to_process++), wait until the row is parsed,
   then decode the superblocks of the row left to right, spinning before superblock c until the row above has completed
   min(c+2, W) superblocks. The model has K workers, R rows of W superblocks and a parser that delivers rows in order.
   Proved for every interleaving: a row is never worked on by two workers, every superblock is decoded exactly once and only
   after its left, upper and upper-right neighbours, some step is always enabled until the tile is complete (the spin waits
   cannot deadlock), and every run terminates. *)
From Coq Require Import Arith List Lia Bool.
Import ListNotations.

Record st := mk { next : nat; parsed : nat; done : nat -> nat; wk : nat -> option nat }.

Section Wave.
Variables (K R W : nat).
Hypothesis HW : 1 <= W.
Hypothesis HK : 1 <= K.

Definition upd {A} (f : nat -> A) (i : nat) (v : A) : nat -> A := fun x => if x =? i then v else f x.

Definition init : st := mk 0 0 (fun _ => 0) (fun _ => None).

(* the guard of the spin wait before superblock c of row r *)
Definition may_decode (s : st) (r : nat) : Prop :=
  r < parsed s /\ done s r < W /\ (r = 0 \/ Nat.min (done s r + 2) W <= done s (r - 1)).

Inductive step : st -> st -> Prop :=
| Claim s w : w < K -> wk s w = None -> next s < R -> step s (mk (S (next s)) (parsed s) (done s) (upd (wk s) w (Some (next s))))
| Parse s : parsed s < R -> step s (mk (next s) (S (parsed s)) (done s) (wk s))
| Decode s w r : w < K -> wk s w = Some r -> may_decode s r ->
    step s (mk (next s) (parsed s) (upd (done s) r (S (done s r))) (if S (done s r) =? W then upd (wk s) w None else wk s)).

Definition complete (s : st) : Prop := forall r, r < R -> done s r = W.

Record Inv (s : st) : Prop := {
  i_next : next s <= R;
  i_parsed : parsed s <= R;
  i_le : forall r, done s r <= W;
  i_fresh : forall r, next s <= r -> done s r = 0;
  i_wk : forall w r, wk s w = Some r -> w < K /\ r < next s /\ done s r < W;
  i_owner : forall r, r < next s -> done s r < W -> exists w, w < K /\ wk s w = Some r;
  i_excl : forall w1 w2 r, wk s w1 = Some r -> wk s w2 = Some r -> w1 = w2;
  (* every started row is behind the row above by the top-right margin *)
  i_dep : forall r, 0 < r -> 0 < done s r -> Nat.min (done s r + 1) W <= done s (r - 1)
}.

Lemma upd_same {A} (f : nat -> A) i v : upd f i v i = v.
Proof. unfold upd. rewrite Nat.eqb_refl. reflexivity. Qed.
Lemma upd_other {A} (f : nat -> A) i v x : x <> i -> upd f i v x = f x.
Proof. intros H. unfold upd. destruct (Nat.eqb_spec x i); [contradiction|reflexivity]. Qed.

Lemma inv_init : Inv init.
Proof. constructor; cbn; intros; try lia; try discriminate. Qed.

Lemma inv_step s s' : Inv s -> step s s' -> Inv s'.
Proof.
  intros I H. destruct I as [Inx Ip Ile Ifr Iwk Iow Iex Idep]. destruct H as [s w Hw Hnone Hlt | s Hlt | s w r Hw Hsome (Hp & Hd & Hdep)].
  - (* Claim *)
    constructor; cbn [next parsed done wk]; intros; try lia; auto.
    + apply Ifr. lia.
    + destruct (Nat.eq_dec w0 w) as [->|Hn].
      * rewrite upd_same in H. injection H as <-. split; [exact Hw|]. split; [lia|]. rewrite Ifr by lia. lia.
      * rewrite upd_other in H by exact Hn. destruct (Iwk _ _ H) as (A & B & C). repeat split; auto; lia.
    + destruct (Nat.eq_dec r (next s)) as [->|Hn].
      * exists w. split; [exact Hw|]. apply upd_same.
      * destruct (Iow r ltac:(lia) H0) as (w' & Hw' & Hr). exists w'. split; [exact Hw'|]. rewrite upd_other; [exact Hr|]. intros ->. congruence.
    + destruct (Nat.eq_dec w1 w) as [->|H1]; destruct (Nat.eq_dec w2 w) as [->|H2]; auto.
      * rewrite upd_same in H. injection H as <-. rewrite upd_other in H0 by exact H2. destruct (Iwk _ _ H0) as (_ & B & _). lia.
      * rewrite upd_same in H0. injection H0 as <-. rewrite upd_other in H by exact H1. destruct (Iwk _ _ H) as (_ & B & _). lia.
      * rewrite upd_other in H, H0 by assumption. eapply Iex; eauto.
  - (* Parse *)
    constructor; cbn [next parsed done wk]; try assumption; lia.
  - (* Decode *)
    destruct (Iwk _ _ Hsome) as (_ & Hrn & _).
    constructor; cbn [next parsed done wk]; intros; auto.
    + destruct (Nat.eq_dec r0 r) as [->|Hn]; [rewrite upd_same; lia | rewrite upd_other by exact Hn; apply Ile].
    + rewrite upd_other by lia. apply Ifr. exact H.
    + destruct (Nat.eqb_spec (S (done s r)) W) as [Hfull|Hnf].
      * destruct (Nat.eq_dec w0 w) as [->|Hn]; [rewrite upd_same in H; discriminate|]. rewrite upd_other in H by exact Hn.
        destruct (Iwk _ _ H) as (A & B & C). assert (r0 <> r) by (intros ->; apply Hn; eapply Iex; eauto). rewrite upd_other by assumption. auto.
      * destruct (Iwk _ _ H) as (A & B & C). destruct (Nat.eq_dec r0 r) as [->|Hn]; [rewrite upd_same; repeat split; auto; lia | rewrite upd_other by exact Hn; auto].
    + destruct (Nat.eq_dec r0 r) as [->|Hn].
      * rewrite upd_same in H0. destruct (Nat.eqb_spec (S (done s r)) W) as [Hfull|Hnf]; [lia|]. exists w. auto.
      * rewrite upd_other in H0 by exact Hn. destruct (Iow r0 H H0) as (w' & Hw' & Hr). exists w'. split; [exact Hw'|].
        destruct (Nat.eqb_spec (S (done s r)) W); [|exact Hr]. rewrite upd_other; [exact Hr|]. intros ->. congruence.
    + destruct (Nat.eqb_spec (S (done s r)) W) as [Hfull|Hnf]; [|eapply Iex; eauto].
      destruct (Nat.eq_dec w1 w) as [->|H1]; [rewrite upd_same in H; discriminate|]. destruct (Nat.eq_dec w2 w) as [->|H2]; [rewrite upd_same in H0; discriminate|].
      rewrite upd_other in H, H0 by assumption. eapply Iex; eauto.
    + (* the margin to the row above, and of the row below to this one *)
      destruct (Nat.eq_dec r0 r) as [->|Hn].
      * rewrite upd_same. rewrite upd_other by lia. destruct Hdep as [->|Hdep]; [lia|]. lia.
      * rewrite upd_other in H0 |- * by exact Hn. specialize (Idep r0 H H0).
        destruct (Nat.eq_dec (r0 - 1) r) as [<-|Hn2]; [rewrite upd_same; lia | rewrite upd_other by exact Hn2; exact Idep].
Qed.

Inductive reach : st -> Prop := reach_init : reach init | reach_step s s' : reach s -> step s s' -> reach s'.
Theorem reach_inv s : reach s -> Inv s.
Proof. induction 1; [apply inv_init | eapply inv_step; eauto]. Qed.

(* safety: when superblock c = done r of row r is decoded, its left neighbour, the superblock above and the one above-right are complete *)
Theorem decode_after_neighbours s w r : reach s -> wk s w = Some r -> may_decode s r ->
  (0 < r -> Nat.min (done s r + 2) W <= done s (r - 1)) /\ (forall w', wk s w' = Some r -> w' = w).
Proof.
  intros Hr Hw (Hp & Hd & Hdep). split.
  - intros Hpos. destruct Hdep; [lia|assumption].
  - intros w' Hw'. eapply (i_excl s (reach_inv s Hr)); eauto.
Qed.

(* progress: the spin waits cannot deadlock - until the tile is complete some step is enabled *)
Theorem progress s : reach s -> ~ complete s -> exists s', step s s'.
Proof.
  intros Hr Hnc. pose proof (reach_inv s Hr) as I. destruct I as [Inx Ip Ile Ifr Iwk Iow Iex Idep].
  (* the lowest incomplete row *)
  assert (Hex : exists r0, r0 < R /\ done s r0 < W /\ forall r, r < r0 -> done s r = W).
  { assert (Hsome : exists r, r < R /\ done s r <> W).
    { destruct (forallb (fun r => done s r =? W) (seq 0 R)) eqn:E.
      - exfalso. apply Hnc. intros r Hlt. rewrite forallb_forall in E. apply Nat.eqb_eq. apply E. apply in_seq. lia.
      - assert (Hn : exists r, In r (seq 0 R) /\ (done s r =? W) = false).
        { clear -E. induction (seq 0 R) as [|a l IH]; [discriminate|]. cbn in E. apply andb_false_iff in E as [E|E]; [exists a; split; [left; reflexivity|exact E] | destruct (IH E) as (r & Hi & Hq); exists r; split; [right; exact Hi|exact Hq]]. }
        destruct Hn as (r & Hi & Hq). apply in_seq in Hi. apply Nat.eqb_neq in Hq. exists r. split; [lia|exact Hq]. }
    destruct Hsome as (r1 & Hr1 & Hd1). revert Hr1 Hd1. induction r1 as [r1 IH] using lt_wf_ind. intros Hr1 Hd1.
    destruct (forallb (fun r => done s r =? W) (seq 0 r1)) eqn:E.
    - exists r1. split; [exact Hr1|]. split; [pose proof (Ile r1); lia|]. intros r Hlt. rewrite forallb_forall in E. apply Nat.eqb_eq. apply E. apply in_seq. lia.
    - assert (Hn : exists r, In r (seq 0 r1) /\ (done s r =? W) = false).
      { clear -E. induction (seq 0 r1) as [|a l IHl]; [discriminate|]. cbn in E. apply andb_false_iff in E as [E|E]; [exists a; split; [left; reflexivity|exact E] | destruct (IHl E) as (r & Hi & Hq); exists r; split; [right; exact Hi|exact Hq]]. }
      destruct Hn as (r & Hi & Hq). apply in_seq in Hi. apply Nat.eqb_neq in Hq. apply (IH r); lia. }
  destruct Hex as (r0 & Hr0 & Hd0 & Hlow).
  destruct (le_lt_dec (next s) r0) as [Hge | Hlt].
  - (* nothing incomplete is claimed: every worker is idle, so worker 0 can claim *)
    assert (Hidle : wk s 0 = None).
    { destruct (wk s 0) as [r|] eqn:E; [|reflexivity]. destruct (Iwk _ _ E) as (_ & B & C). pose proof (Hlow r ltac:(lia)). lia. }
    eexists. apply (Claim s 0); [lia | exact Hidle | lia].
  - destruct (Iow r0 Hlt Hd0) as (w & Hw & Hwr).
    destruct (le_lt_dec (parsed s) r0) as [Hnp | Hp].
    + eexists. apply Parse. lia.
    + eexists. apply (Decode s w r0 Hw Hwr). split; [exact Hp|]. split; [exact Hd0|].
      destruct (Nat.eq_dec r0 0) as [->|Hn]; [left; reflexivity|]. right. rewrite (Hlow (r0 - 1)) by lia. apply Nat.le_min_r.
Qed.

(* termination: every step consumes potential *)
Definition potential (s : st) : nat := (R - next s) + (R - parsed s) + fold_right (fun r a => (W - done s r) + a) 0 (seq 0 R).

Lemma sum_upd (d : nat -> nat) r l : NoDup l -> In r l -> d r < W ->
  fold_right (fun x a => (W - upd d r (S (d r)) x) + a) 0 l + 1 = fold_right (fun x a => (W - d x) + a) 0 l.
Proof.
  intros Hnd Hin Hlt. induction l as [|a l IH]; [contradiction|]. cbn [fold_right]. inversion Hnd as [|? ? Hna Hnd']; subst.
  destruct Hin as [->|Hin].
  - rewrite upd_same. assert (E : fold_right (fun x acc => W - upd d r (S (d r)) x + acc) 0 l = fold_right (fun x acc => W - d x + acc) 0 l).
    { clear -Hna. induction l as [|b l IHl]; [reflexivity|]. cbn [fold_right]. rewrite upd_other by (intros ->; apply Hna; left; reflexivity). rewrite IHl; [reflexivity|]. intros H. apply Hna. right. exact H. }
    rewrite E. lia.
  - rewrite upd_other by (intros ->; contradiction). specialize (IH Hnd' Hin). lia.
Qed.

Theorem step_decreases s s' : reach s -> step s s' -> potential s' < potential s.
Proof.
  intros Hr H. pose proof (reach_inv s Hr) as I. destruct H as [s w Hw Hnone Hlt | s Hlt | s w r Hw Hsome (Hp & Hd & Hdep)]; unfold potential; cbn [next parsed done wk].
  - lia.
  - lia.
  - destruct (i_wk s I _ _ Hsome) as (_ & Hrn & _). pose proof (i_next s I).
    pose proof (sum_upd (done s) r (seq 0 R) (seq_NoDup R 0) ltac:(apply in_seq; lia) Hd). lia.
Qed.
End Wave.

(* non-vacuity: two workers, two rows of two superblocks: the first claim, and the wait for the parser really blocks *)
Example wave_run :
  let s1 := mk 1 0 (fun _ => 0) (upd (fun _ => None) 0 (Some 0)) in
  step 2 2 2 init s1 /\ ~ may_decode 2 s1 0.
Proof.
  cbn. split.
  - apply (Claim 2 2 2 init 0); cbn; try reflexivity; lia.
  - unfold may_decode; cbn; lia.
Qed.
