(* C27 - output and progress do not depend on how the application paces its calls.
   Pacing.v: abstract hand-off (N pictures, pool of P input buffers, window of D pictures the pipeline keeps);
   PoolSpec.v: the window as a function of the configuration; BuffersGen.v: the pool sizes, regenerated from
   load_default_buffer_configuration_settings on every run. *)
From Coq Require Import ZArith List Arith.
From SV Require Import CInt Pacing PoolSpec Proofs_C27.
From SVG Require Import BuffersGen.
Import ListNotations.

(* any two orders of application calls (submit, signal end of stream, retrieve / retrieve nothing, in any interleaving with
   the pipeline's own steps) that complete have handed over the same pictures in the same order *)
Theorem c27_output_independent_of_pacing : forall N P D es1 es2,
  finished (run N P D init es1) -> finished (run N P D init es2) -> got (run N P D init es1) = got (run N P D init es2).
Proof. exact pacing_independent. Qed.

(* with a pool that covers the window, every schedule that cannot be extended has completed, after at most 3N+1 events *)
Theorem c27_pool_covering_window_completes : forall N P D es, (D <= P)%nat -> (1 <= P)%nat ->
  all_enabled N P D init es = true -> stuck N P D (run N P D init es) -> finished (run N P D init es) /\ (length es <= 3 * N + 1)%nat.
Proof. exact maximal_schedule_completes. Qed.

(* a pool smaller than the window never completes a stream longer than the pool, whatever the application does *)
Theorem c27_short_pool_never_completes : forall N P D es, (P < D)%nat -> (P < N)%nat -> ~ finished (run N P D init es).
Proof. exact short_pool_never_completes. Qed.

(* the input-buffer pool and the picture-control-set pool the current source allocates cover the window, for every
   configuration of the validated domain, every processor count and every picture size class *)
Theorem c27_pools_cover_window : forall i l, in_domain i -> pools i = Some l ->
  (demand i <= nth 0 l 0 /\ demand_parent i <= nth 1 l 0)%Z.
Proof. exact pool_sufficient. Qed.

Theorem c27_encoder_progress : forall i l N es, in_domain i -> pools i = Some l ->
  let P := Z.to_nat (nth 0 l 0%Z) in let D := Z.to_nat (demand i) in
  all_enabled N P D init es = true -> stuck N P D (run N P D init es) ->
  finished (run N P D init es) /\ got (run N P D init es) = seq 0 N.
Proof. exact encoder_pool_progress. Qed.

(* the reference-picture pool and the PA-reference pool cover what the prediction structure keeps in flight (a mini-GOP of 2^hl
   pictures: half of them references next to the 8 + 2 of the decoded-picture buffer; one PA reference per picture of the
   mini-GOP, the next base, 8 past references, the delays, the look-ahead window under TPL; doubled with overlays), for every
   configuration of the domain - the sizes the pinned tree allocated for six layers (18, and +8 on one core only) do not *)
Theorem c27_reference_pools_cover_structure : forall i l, in_domain i -> pools i = Some l ->
  (demand_paref i <= nth 3 l 0 /\ demand_ref i <= nth 4 l 0)%Z.
Proof. exact ref_pools_sufficient. Qed.
