(* C24: an accepted grid (grid_ok_b) satisfies the hypotheses of the wavefront protocol theorems
   and the coverage / dependency-order statements. *)
From Coq Require Import Arith Lia List Bool PeanoNat.
From SV Require Import SegProto SegGrid.
Import ListNotations.

Lemma forallb_seq_spec f a n : forallb f (seq a n) = true -> forall r, a <= r < a + n -> f r = true.
Proof. intros H r Hr. rewrite forallb_forall in H. apply H. apply in_seq. lia. Qed.

Section Accepted.
Variable g : grid.
Hypothesis Hwf : wf_b g = true.

Lemma wf_parts : 0 < gB g /\ 0 < gR g /\ rows_ok_b g = true /\ up_ok_b g = true /\ hi_ok_b g = true /\ segs_ok_b g = true.
Proof.
  pose proof Hwf as H. unfold wf_b in H.
  apply andb_true_iff in H. destruct H as [H H6]. apply andb_true_iff in H. destruct H as [H H5].
  apply andb_true_iff in H. destruct H as [H H4]. apply andb_true_iff in H. destruct H as [H H3].
  apply andb_true_iff in H. destruct H as [H1 H2]. apply Nat.ltb_lt in H1, H2. auto 10.
Qed.

Lemma HB : 0 < gB g. Proof. apply wf_parts. Qed.
Lemma HR : 0 < gR g. Proof. apply wf_parts. Qed.

Lemma Hrows : forall r, r < gR g -> r * gB g <= lo_ g r /\ lo_ g r <= hi_ g r /\ hi_ g r < (r + 1) * gB g.
Proof.
  intros r Hr. destruct wf_parts as [_ [_ [H _]]]. unfold rows_ok_b in H.
  pose proof (forallb_seq_spec _ _ _ H r ltac:(lia)) as E. cbv beta in E.
  apply andb_true_iff in E. destruct E as [E E3]. apply andb_true_iff in E. destruct E as [E1 E2].
  apply Nat.leb_le in E1, E2. apply Nat.ltb_lt in E3. lia.
Qed.

Lemma Hup : forall r, 0 < r -> r < gR g -> lo_ g (r - 1) + gB g <= lo_ g r /\ lo_ g r <= hi_ g (r - 1) + gB g.
Proof.
  intros r H0 Hr. destruct wf_parts as [_ [_ [_ [H _]]]]. unfold up_ok_b in H.
  pose proof (forallb_seq_spec _ _ _ H r ltac:(lia)) as E. cbv beta in E.
  apply andb_true_iff in E. destruct E as [E1 E2]. apply Nat.leb_le in E1, E2. lia.
Qed.

Lemma Hhi : forall r, r + 1 < gR g -> hi_ g r + gB g <= hi_ g (r + 1).
Proof.
  intros r Hr. destruct wf_parts as [_ [_ [_ [_ [H _]]]]]. unfold hi_ok_b in H.
  pose proof (forallb_seq_spec _ _ _ H r ltac:(lia)) as E. cbv beta in E. apply Nat.leb_le in E. exact E.
Qed.

(* the protocol theorems of SegProto, instantiated with the grid the C initialised *)
Definition Reach := reach (gR g) (gB g) (lo_ g) (hi_ g).
Definition InS := inS (gR g) (gB g) (lo_ g) (hi_ g).

Theorem accepted_reach_inv q : Reach q -> Inv (gR g) (gB g) (lo_ g) (hi_ g) q.
Proof. apply (reach_inv (gR g) (gB g) (lo_ g) (hi_ g) HB HR Hrows Hup Hhi). Qed.

Theorem accepted_started_after_deps q s : Reach q -> InS s -> started (st q s) = true ->
  (has_left (gB g) (lo_ g) s = true -> finished (st q (s - 1)) = true) /\
  (has_up (gB g) (hi_ g) s = true -> isdone (st q (s - gB g)) = true).
Proof. apply (started_after_deps (gR g) (gB g) (lo_ g) (hi_ g) HB HR Hrows Hup Hhi). Qed.

(* transitively: when a segment has started, every segment of an earlier-or-equal row whose band is not to the right of it
   has finished its walk (what seg_walk_dependency_order's "earlier segment" needs) *)
Theorem accepted_started_after_all_earlier q s t : Reach q -> InS s -> started (st q s) = true -> InS t ->
  t <> s -> t / gB g <= s / gB g -> t - (t / gB g) * gB g <= s - (s / gB g) * gB g -> finished (st q t) = true.
Proof.
  intros Hq Hs Hst Ht Hne Hrow Hband.
  apply (started_after_all_earlier (gR g) (gB g) (lo_ g) (hi_ g) HB HR Hrows Hup Hhi q Hq (row (gB g) s) s eq_refl Hs Hst t Ht Hne); unfold row; [exact Hrow|].
  pose proof (Nat.mul_div_le t (gB g) ltac:(pose proof HB; lia)). pose proof (Nat.mul_div_le s (gB g) ltac:(pose proof HB; lia)). lia.
Qed.

Theorem accepted_quiescent_all_done q : Reach q -> pend q = [] ->
  (forall s, st q s = NotStarted \/ st q s = Done) -> forall s, InS s -> st q s = Done.
Proof. apply (quiescent_all_done (gR g) (gB g) (lo_ g) (hi_ g) HB HR Hrows Hup Hhi). Qed.

(* the dependency map the C computed is the one the protocol model starts from *)
Lemma in_range_spec s : In s (in_range_segs g) <-> exists r, r < gR g /\ lo_ g r <= s <= hi_ g r.
Proof.
  unfold in_range_segs. rewrite in_flat_map. split.
  - intros [r [Hr Hs]]. apply in_seq in Hr. apply in_seq in Hs. exists r. lia.
  - intros [r [Hr Hs]]. exists r. split; apply in_seq; lia.
Qed.

Theorem accepted_dep_map s : In s (in_range_segs g) -> 0 < valid_ g s /\ dep_ g s = dep0_g g s.
Proof.
  intros Hs. destruct wf_parts as [_ [_ [_ [_ [_ H]]]]]. unfold segs_ok_b in H. rewrite forallb_forall in H.
  specialize (H s Hs). apply andb_true_iff in H. destruct H as [H1 H2].
  apply Nat.ltb_lt in H1. apply Nat.eqb_eq in H2. auto.
Qed.
End Accepted.

(* ---------- coverage: every superblock exactly once ---------- *)
Lemma pair_eqb_eq a b : pair_eqb a b = true <-> a = b.
Proof.
  destruct a as [a1 a2], b as [b1 b2]. unfold pair_eqb; cbn [fst snd]. rewrite andb_true_iff, !Nat.eqb_eq.
  split; [intros [-> ->]; reflexivity | intros E; inversion E; auto].
Qed.

Lemma mem_pair_In a l : mem_pair a l = true <-> In a l.
Proof.
  induction l as [|b r IH]; cbn [mem_pair In]; [split; [discriminate|tauto]|].
  rewrite orb_true_iff, pair_eqb_eq, IH. split; intros [H|H]; auto.
Qed.

Lemma nodup_pairs_NoDup l : nodup_pairs l = true -> NoDup l.
Proof.
  induction l as [|a r IH]; cbn [nodup_pairs]; intros H; [constructor|].
  apply andb_true_iff in H. destruct H as [H1 H2]. constructor; [|apply IH; exact H2].
  intro Hin. apply mem_pair_In in Hin. rewrite Hin in H1. discriminate.
Qed.

Lemma NoDup_app_intro {A} (l1 l2 : list A) : NoDup l1 -> NoDup l2 -> (forall x, In x l1 -> ~ In x l2) -> NoDup (l1 ++ l2).
Proof.
  induction l1 as [|a l1 IH]; intros H1 H2 Hd; cbn [app]; [exact H2|].
  inversion H1 as [|? ? Ha Hl1]; subst. constructor.
  - intro Hin. apply in_app_or in Hin. destruct Hin as [Hin|Hin]; [contradiction|]. apply (Hd a); [left; reflexivity|exact Hin].
  - apply IH; auto. intros x Hx. apply Hd. right. exact Hx.
Qed.

Lemma NoDup_flat_map {A B} (f : A -> list B) (l : list A) :
  NoDup l -> (forall a, In a l -> NoDup (f a)) ->
  (forall a b x, In a l -> In b l -> In x (f a) -> In x (f b) -> a = b) -> NoDup (flat_map f l).
Proof.
  induction l as [|a l IH]; intros Hl Hf Hd; cbn [flat_map]; [constructor|].
  inversion Hl as [|? ? Ha Hl']; subst. apply NoDup_app_intro.
  - apply Hf. left; reflexivity.
  - apply IH; auto.
    + intros b Hb. apply Hf. right; exact Hb.
    + intros b c x Hb Hc. apply Hd; right; assumption.
  - intros x Hx Hin. apply in_flat_map in Hin. destruct Hin as [b [Hb Hxb]].
    assert (a = b) by (apply (Hd a b x); [left; reflexivity|right; exact Hb|exact Hx|exact Hxb]). subst b. contradiction.
Qed.

Lemma NoDup_list_prod {A B} (l : list A) (l' : list B) : NoDup l -> NoDup l' -> NoDup (list_prod l l').
Proof.
  induction l as [|a l IH]; intros H1 H2; cbn [list_prod]; [constructor|].
  inversion H1 as [|? ? Ha Hl]; subst. apply NoDup_app_intro.
  - clear -H2. induction l' as [|b l' IH']; cbn [map]; [constructor|]. inversion H2; subst. constructor; auto.
    intro Hin. apply in_map_iff in Hin. destruct Hin as [b' [E Hb']]. inversion E; subst. contradiction.
  - apply IH; auto.
  - intros [x y] Hx Hy. apply in_map_iff in Hx. destruct Hx as [b' [E _]]. inversion E; subst.
    apply in_prod_iff in Hy. destruct Hy as [Hy _]. contradiction.
Qed.

Lemma in_range_NoDup g : wf_b g = true -> NoDup (in_range_segs g).
Proof.
  intros Hwf. unfold in_range_segs. apply NoDup_flat_map.
  - apply seq_NoDup.
  - intros r _. apply seq_NoDup.
  - intros r1 r2 s H1 H2 Hs1 Hs2. apply in_seq in H1, H2, Hs1, Hs2.
    pose proof (Hrows g Hwf r1 ltac:(lia)) as A. pose proof (Hrows g Hwf r2 ltac:(lia)) as B.
    assert (r1 * gB g <= s < (r1 + 1) * gB g) by lia. assert (r2 * gB g <= s < (r2 + 1) * gB g) by lia.
    pose proof (HB g Hwf). nia.
Qed.

Theorem cover_sound g : wf_b g = true -> cover_b g = true ->
  NoDup (all_walks g) /\
  (forall x y, x < gW g -> y < gH g -> In (x, y) (all_walks g)) /\
  (forall s p, In s (in_range_segs g) -> In p (walk g s) -> fst p < gW g /\ snd p < gH g /\ seg_of_sb g (fst p) (snd p) = s).
Proof.
  intros Hwf H. unfold cover_b in H.
  apply andb_true_iff in H. destruct H as [H _]. apply andb_true_iff in H. destruct H as [H _].
  apply andb_true_iff in H. destruct H as [H _]. apply andb_true_iff in H. destruct H as [H _].
  apply andb_true_iff in H. destruct H as [H Hlen].
  apply andb_true_iff in H. destruct H as [Hin Hnd]. apply Nat.eqb_eq in Hlen.
  assert (Hseg : forall s p, In s (in_range_segs g) -> In p (walk g s) -> fst p < gW g /\ snd p < gH g /\ seg_of_sb g (fst p) (snd p) = s).
  { intros s p Hs Hp. rewrite forallb_forall in Hin. specialize (Hin s Hs). unfold walk_in_seg_b in Hin.
    rewrite forallb_forall in Hin. specialize (Hin p Hp).
    apply andb_true_iff in Hin. destruct Hin as [Hin Hc]. apply andb_true_iff in Hin. destruct Hin as [Ha Hb].
    apply Nat.ltb_lt in Ha, Hb. apply Nat.eqb_eq in Hc. auto. }
  assert (HND : NoDup (all_walks g)).
  { unfold all_walks. apply NoDup_flat_map.
    - apply in_range_NoDup. exact Hwf.
    - intros s Hs. rewrite forallb_forall in Hnd. apply nodup_pairs_NoDup. apply Hnd. exact Hs.
    - intros a b x Ha Hb Hxa Hxb. destruct (Hseg a x Ha Hxa) as [_ [_ E1]]. destruct (Hseg b x Hb Hxb) as [_ [_ E2]]. congruence. }
  assert (Hnp : NoDup (positions g)) by (unfold positions; apply NoDup_list_prod; apply seq_NoDup).
  assert (Hpl : length (positions g) = gW g * gH g) by (unfold positions; rewrite prod_length, !seq_length; reflexivity).
  assert (Hincl : incl (all_walks g) (positions g)).
  { intros p Hp. unfold all_walks in Hp. apply in_flat_map in Hp. destruct Hp as [s [Hs Hp]].
    destruct (Hseg s p Hs Hp) as [A [B _]]. destruct p as [x y]. cbn [fst snd] in *. unfold positions. apply in_prod; apply in_seq; lia. }
  split; [exact HND|]. split; [|exact Hseg].
  intros x y Hx Hy.
  apply (@NoDup_length_incl _ (all_walks g) (positions g) HND); [lia|exact Hincl|]. unfold positions. apply in_prod; apply in_seq; lia.
Qed.

(* ---------- dependency order of the walk ---------- *)
Definition needed (g : grid) (p : nat * nat) : list (nat * nat) :=
  let (x, y) := p in
  (if 0 <? x then [(x - 1, y)] else []) ++ (if 0 <? y then [(x, y - 1)] else []) ++
  (if (0 <? x) && (0 <? y) then [(x - 1, y - 1)] else []) ++ (if (0 <? y) && (x + 1 <? gW g) then [(x + 1, y - 1)] else []).

Definition earlier_segment (g : grid) (s' s : nat) : Prop :=
  s' <> s /\ s' / gB g <= s / gB g /\ s' - (s' / gB g) * gB g <= s - (s / gB g) * gB g.

Lemma walk_deps_sound g s : forall todo done, walk_deps_b g s done todo = true ->
  forall pre p post, todo = pre ++ p :: post -> forall n, In n (needed g p) ->
    In n (rev pre ++ done) \/ earlier_segment g (seg_of_sb g (fst n) (snd n)) s.
Proof.
  induction todo as [|[x y] rest IH]; intros done H pre p post E n Hn.
  - destruct pre; discriminate.
  - cbn [walk_deps_b] in H. apply andb_true_iff in H. destruct H as [Hn0 Hrest].
    destruct pre as [|q pre'].
    + cbn [app] in E. inversion E; subst p post. clear E.
      rewrite forallb_forall in Hn0. specialize (Hn0 n Hn). unfold before_ok in Hn0.
      destruct (Nat.eqb_spec (seg_of_sb g (fst n) (snd n)) s) as [Es|Es].
      * left. cbn [rev app]. apply mem_pair_In. exact Hn0.
      * right. apply andb_true_iff in Hn0. destruct Hn0 as [A B]. apply Nat.leb_le in A, B. unfold earlier_segment. auto.
    + cbn [app] in E. inversion E; subst q rest. clear E.
      destruct (IH ((x, y) :: done) Hrest pre' p post eq_refl n Hn) as [Hin|He]; [left|right; exact He].
      cbn [rev]. rewrite <- app_assoc. cbn [app]. exact Hin.
Qed.

Theorem deps_sound g : deps_b g = true ->
  forall s, In s (in_range_segs g) -> forall pre p post, walk g s = pre ++ p :: post ->
  forall n, In n (needed g p) -> In n pre \/ earlier_segment g (seg_of_sb g (fst n) (snd n)) s.
Proof.
  intros H s Hs pre p post E n Hn. unfold deps_b in H. rewrite forallb_forall in H. specialize (H s Hs).
  destruct (walk_deps_sound g s _ _ H pre p post E n Hn) as [Hin|He]; [left|right; exact He].
  rewrite app_nil_r in Hin. apply in_rev. exact Hin.
Qed.
