(* C07 - SIMD reductions that accumulate in narrow lanes: when is the wrapped lane arithmetic exact?
   Model of the sum path of the AVX2 variance kernels (variance_avx2.c): every 32 pixels add two byte differences to each of
   sixteen 16-bit lanes (_mm256_add_epi16); lanes are folded together in 16 bit (variance_final_512: twice, _1024: once) and then
   sign-extended and added in 32 bit (variance_final_2048, and per strip in the looped kernels). *)
From Coq Require Import ZArith List Lia Bool.
From SV Require Import CInt.
Import ListNotations.
Local Open Scope Z_scope.
Ltac Zify.zify_post_hook ::= Z.to_euclidean_division_equations.

Definition byte_diff (d : Z) : Prop := -255 <= d <= 255.
Definition sumZ (l : list Z) : Z := fold_right Z.add 0 l.
Definition acc (bits : Z) (l : list Z) : Z := fold_left (fun a d => wrapS bits (a + d)) l 0.

Lemma sumZ_app a b : sumZ (a ++ b) = sumZ a + sumZ b.
Proof. unfold sumZ. induction a as [|x a IH]; cbn [app fold_right]; [reflexivity|]. rewrite IH. lia. Qed.

Lemma sumZ_bound l m : 0 <= m -> Forall (fun d => - m <= d <= m) l -> - (Z.of_nat (length l) * m) <= sumZ l <= Z.of_nat (length l) * m.
Proof.
  intros Hm H. unfold sumZ. induction H as [|x l Hx _ IH]; [cbn; lia|]. cbn [fold_right length]. rewrite Nat2Z.inj_succ. nia.
Qed.

Lemma sumZ_concat groups : sumZ (map sumZ groups) = sumZ (concat groups).
Proof.
  induction groups as [|g r IH]; [reflexivity|]. cbn [map concat]. rewrite sumZ_app, <- IH. reflexivity.
Qed.

(* a wrapped accumulation is exact as long as no partial sum can leave the lane *)
Lemma acc_exact_gen bits m l : 1 <= bits -> 0 <= m -> Forall (fun d => - m <= d <= m) l -> Z.of_nat (length l) * m < 2 ^ (bits - 1) ->
  forall a, - (2 ^ (bits - 1) - Z.of_nat (length l) * m) <= a < 2 ^ (bits - 1) - Z.of_nat (length l) * m ->
  fold_left (fun a d => wrapS bits (a + d)) l a = a + sumZ l.
Proof.
  intros Hb Hm H. induction H as [|x l Hx Hl IH]; intros Hlen a Ha; [cbn; lia|].
  unfold sumZ in *. cbn [fold_left fold_right length] in *. rewrite Nat2Z.inj_succ in *.
  rewrite wrapS_id by nia. rewrite IH by nia. lia.
Qed.

Lemma acc_exact bits m l : 1 <= bits -> 0 <= m -> Forall (fun d => - m <= d <= m) l -> Z.of_nat (length l) * m < 2 ^ (bits - 1) -> acc bits l = sumZ l.
Proof. intros Hb Hm H Hl. unfold acc. rewrite (acc_exact_gen bits m l Hb Hm H Hl 0); lia. Qed.

(* number of byte differences that meet in one 16-bit quantity before it is widened *)
Definition depth16 (inst : Z * Z * Z * Z * Z) : Z :=
  let '(bw, bh, bits, kind, uh) := inst in
  let lane := bw * uh / 16 in
  if kind =? 1 then 4 * lane else if kind =? 2 then 2 * lane else lane.

(* the sum a kernel computes: groups of depth16 differences are accumulated in 16 bit, the group results in 32 bit *)
Definition kernel_sum (groups : list (list Z)) : Z := acc 32 (map (acc 16) groups).

Definition instance_ok (inst : Z * Z * Z * Z * Z) : bool :=
  let '(bw, bh, bits, kind, uh) := inst in
  (depth16 inst * 255 <=? 32767) && (bw * bh =? 2 ^ bits) && (0 <? depth16 inst) && (bw * bh <=? 16384) && (0 <=? bits).

Theorem kernel_sum_exact inst groups : instance_ok inst = true ->
  Forall (fun g => Z.of_nat (length g) = depth16 inst /\ Forall byte_diff g) groups ->
  (let '(bw, bh, _, _, _) := inst in Z.of_nat (length groups) * depth16 inst = bw * bh) ->
  kernel_sum groups = sumZ (concat groups).
Proof.
  destruct inst as [[[[bw bh] bits] kind] uh]. unfold instance_ok. rewrite !andb_true_iff. intros ((((H1 & H2) & H3) & H4) & H5) Hg Hn.
  apply Z.leb_le in H1, H4, H5. apply Z.eqb_eq in H2. apply Z.ltb_lt in H3.
  set (d := depth16 (bw, bh, bits, kind, uh)) in *. clearbody d.
  assert (Hin : map (acc 16) groups = map sumZ groups).
  { apply map_ext_in. intros g Hi. rewrite Forall_forall in Hg. destruct (Hg g Hi) as [Hl Hb]. apply (acc_exact 16 255); [lia | lia | exact Hb | change (2 ^ (16 - 1)) with 32768; lia]. }
  unfold kernel_sum. rewrite Hin.
  assert (Hb : Forall (fun s => - (d * 255) <= s <= d * 255) (map sumZ groups)).
  { rewrite Forall_forall. intros s Hs. apply in_map_iff in Hs as (g & <- & Hi). rewrite Forall_forall in Hg. destruct (Hg g Hi) as [Hl Hbd].
    pose proof (sumZ_bound g 255 ltac:(lia) Hbd). lia. }
  rewrite (acc_exact 32 (d * 255)); [apply sumZ_concat | lia | lia | exact Hb | rewrite map_length; change (2 ^ (32 - 1)) with 2147483648; nia].
Qed.

(* the value returned: the C reference divides by width*height, the AVX2 kernels shift by log2(width*height) *)
Definition variance_simd (sse sum bits : Z) : Z := wrapU 32 (sse - wrapU 32 (Z.shiftr (sum * sum) bits)).
Definition variance_c (sse sum w h : Z) : Z := wrapU 32 (sse - wrapU 32 (Z.quot (sum * sum) (w * h))).

Theorem variance_value_agrees sse sum w h bits : 0 <= bits -> w * h = 2 ^ bits -> variance_simd sse sum bits = variance_c sse sum w h.
Proof.
  intros Hb Hwh. unfold variance_simd, variance_c. rewrite Hwh. rewrite Z.shiftr_div_pow2 by lia.
  rewrite Z.quot_div_nonneg; [reflexivity | nia | apply Z.pow_pos_nonneg; lia].
Qed.

(* why the bound matters: 256 differences of 255 in one 16-bit lane (a 128x32 strip) do not add up *)
Example lane_overflow_128x32 : acc 16 (repeat 255 256) <> sumZ (repeat 255 256).
Proof. vm_compute. discriminate. Qed.
Example lane_exact_128x16 : acc 16 (repeat 255 128) = 32640.
Proof. vm_compute. reflexivity. Qed.
