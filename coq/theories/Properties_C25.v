(* C25 — the entropy coder round-trips every symbol sequence.
   Model: SV.ECrun (ideal-precision range coder with the thresholds, termination value, byte output,
   bit-count estimate and CDF adaptation exactly as the C computes them); it is tied to the C by the
   byte-exact correspondence run of tools/checks/c25.py. Statements only; proofs in Proofs_C25.v etc. *)
From Coq Require Import ZArith List Bool.
From SV Require Import ECideal ECcdf ECdone ECbits ECadapt ECrun Proofs_C25.
Import ListNotations.
Local Open Scope Z_scope.

(* For every operation list (symbols over per-context inverse CDFs with 2..16 entries, booleans,
   hence literals), with or without adaptation, of any length: the reader applied to the bytes the
   writer emits returns exactly the written symbols, and ends with exactly the writer's tables. *)
Theorem ec_roundtrip : forall (adapt : bool) (ctxs : list (list Z)) (ops : list eop),
  ops_ok adapt ctxs ops ->
  decode_bytes adapt ctxs (encode_bytes adapt ctxs ops) ops =
    (map op_symbol ops, snd (fst (run_enc adapt ctxs est0 ops))).
Proof. exact roundtrip_bytes. Qed.

(* The bit-count estimate never under-reports the bytes emitted: bytes = ceil(tell / 8). *)
Theorem tell_covers_bytes : forall (adapt : bool) (ctxs : list (list Z)) (ops : list eop),
  ops_ok adapt ctxs ops ->
  let stf := fst (fst (run_enc adapt ctxs est0 ops)) in
  Z.of_nat (length (done_bytes stf)) = (tell stf + 7) / 8 /\ tell stf <= 8 * Z.of_nat (length (done_bytes stf)).
Proof. exact tell_covers. Qed.

(* The generic statements the two above rest on (any threshold family / any table policy). *)
Theorem ec_roundtrip_ideal_any_cdf : forall (ops : list sym_op) (P : Z),
  Forall sym_ok ops -> 15 + eS (encode_all ops) <= P ->
  decode_all (dst0 P (code_value ops P)) (map (fun o => thr_cdf (fst o)) ops) = map snd ops.
Proof. exact ec_roundtrip_ideal. Qed.

Theorem ec_roundtrip_any_adaptation : forall (ctx : list nat -> list Z) (syms : list nat) (P : Z),
  Forall sym_ok (ops_from ctx [] syms) -> 15 + eS (encode_all (ops_from ctx [] syms)) <= P ->
  decode_adaptive ctx (length syms) [] (dst0 P (code_value (ops_from ctx [] syms) P)) = syms.
Proof. exact ec_roundtrip_adaptive. Qed.

Theorem termination_value_bit_form : forall L, 0 <= L -> done_e L = done_ar L.
Proof. exact done_e_is_done_ar. Qed.

(* validity is decidable, so the hypothesis of ec_roundtrip is checked on every generated case *)
Theorem ops_ok_decidable : forall ops adapt ctxs, ops_okb adapt ctxs ops = true -> ops_ok adapt ctxs ops.
Proof. exact ops_okb_sound. Qed.
