(* C22 — order-hint distance. Every copy of the helper in /repo (regenerated into
   SVG.RelDistGen on every run) returns the signed distance modulo the order-hint
   period for every 1 <= bits <= 31 (what a C int shift admits; AV1 has bits <= 8) and all integers a, b;
   0 when order hints are off.
   Statements only; proofs are in Proofs_C22.v. *)
From Coq Require Import ZArith List Lia.
From SV Require Import RelDistSpec Proofs_C22.
From SVG Require Import RelDistGen.
Import ListNotations.
Local Open Scope Z_scope.

Theorem rel_dist_all_copies :
  Forall (fun f : Z -> Z -> Z -> Z -> Z =>
    forall en bits a b, 1 <= bits <= 31 ->
      (en <> 0 -> let r := f en bits a b in
                  (r - (a - b)) mod 2 ^ bits = 0 /\ - 2 ^ (bits - 1) <= r < 2 ^ (bits - 1)) /\
      (en = 0 -> f en bits a b = 0))
    rel_dist_copies.
Proof. exact copies_ok. Qed.

Theorem rel_dist_five_copies : length rel_dist_copies = 5%nat.
Proof. exact copies_nonempty. Qed.
