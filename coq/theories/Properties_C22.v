(* C22 — order-hint distance. Every copy of the helper in /repo (regenerated into
   SVG.RelDistGen on every run) returns the signed distance modulo the order-hint
   period for every 1 <= bits <= 31 (what a C int shift admits; AV1 has bits <= 8) and all integers a, b;
   0 when order hints are off.
   Statements only; proofs are in Proofs_C22.v. *)
From Coq Require Import ZArith List Lia.
From SV Require Import RelDistSpec RelDistOrder Proofs_C22.
From SVG Require Import RelDistGen.
Import ListNotations.
Local Open Scope Z_scope.

Theorem rel_dist_all_copies :
  Forall (fun f : Z -> Z -> Z -> Z -> Z =>
    forall en bits a b, 1 <= bits <= 31 ->
      (en <> 0 -> let r := f en bits a b in
                  (r - (a - b)) mod 2 ^ bits = 0 /\ - 2 ^ (bits - 1) <= r < 2 ^ (bits - 1)) /\
      (en = 0 -> f en bits a b = 0))
    rel_dist_copies.
Proof. exact copies_ok. Qed.

Theorem rel_dist_five_copies : length rel_dist_copies = 5%nat.
Proof. exact copies_nonempty. Qed.

(* what the helper is for: two pictures less than half an order-hint period apart are ordered correctly from their hints alone,
   before and after the wrap, by every copy in the library: the value is their true signed distance *)
Theorem rel_dist_copies_order_across_wrap :
  Forall (fun f : Z -> Z -> Z -> Z -> Z =>
    forall en bits A B, en <> 0 -> 1 <= bits <= 31 -> - 2 ^ (bits - 1) <= A - B < 2 ^ (bits - 1) ->
      f en bits (A mod 2 ^ bits) (B mod 2 ^ bits) = A - B /\
      (f en bits (A mod 2 ^ bits) (B mod 2 ^ bits) <? 0) = (A <? B)) rel_dist_copies.
Proof. exact (copies_recover_true_distance rel_dist_copies copies_ok). Qed.

(* ... which a plain comparison of two hints does not do (hence the obligation that Source/Lib contains none) *)
Theorem plain_hint_comparison_refuted : exists bits A B, 1 <= bits <= 8 /\ - 2 ^ (bits - 1) <= A - B < 2 ^ (bits - 1) /\
  (A mod 2 ^ bits <? B mod 2 ^ bits) <> (A <? B).
Proof. exact RelDistOrder.plain_hint_comparison_refuted. Qed.
