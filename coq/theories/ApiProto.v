(* C14 - the call protocol of the public encoder API as an executable specification: for each call, in each session state, the class
   of result the application must observe. The check runs the same call scripts against the real library and compares classes. *)
From Coq Require Import List Bool Arith.
Import ListNotations.

Inductive op :=
| IH | IH_nullpp | IH_nullcfg
| SP_ok | SP_bad | SP_bad2 | SP_nullcfg | SP_nullh
| INIT | INIT_nullh
| HDR | HDR_nullh | HDR_nullout | HDRREL_null
| SEND | SEND_nullh | SEND_nullbuf | EOS
| GET | GET_nullh | GET_nullout | DRAIN | REL_null | REL_nullp
| RECON | RECON_nullh | RECON_nullbuf
| DEINIT | DEINIT_nullh | DH | DH_nullh.

(* Ok: success code; Err: an error code; OkOrEmpty: success or "queue empty"; NoFault: any code, but the call returns *)
Inductive cls := Ok | Err | OkOrEmpty | NoFault.

Record st := mk { handle : bool; configured : bool; inited : bool; sent : nat; eos : bool; deinited : bool }.
Definition init_st := mk false false false 0 false false.

Definition null_op (o : op) : bool :=
  match o with
  | IH_nullpp | IH_nullcfg | SP_nullcfg | SP_nullh | INIT_nullh | HDR_nullh | HDR_nullout | HDRREL_null | SEND_nullh | SEND_nullbuf
  | GET_nullh | GET_nullout | REL_null | REL_nullp | RECON_nullh | RECON_nullbuf | DEINIT_nullh | DH_nullh => true
  | _ => false
  end.

Definition live (s : st) : bool := handle s && inited s && negb (deinited s).

Definition step (s : st) (o : op) : st * cls :=
  if null_op o then (s, Err) else
  match o with
  | IH => if handle s then (s, NoFault) else (mk true false false 0 false false, Ok)
  | SP_ok => if handle s && negb (inited s) then (mk true true false (sent s) (eos s) (deinited s), Ok) else (s, NoFault)
  (* a rejected configuration must be followed by an accepted one before the session is initialised *)
  | SP_bad | SP_bad2 => if handle s && negb (inited s) then (mk true false false (sent s) (eos s) (deinited s), Err) else (s, NoFault)
  | INIT => if handle s && configured s && negb (inited s) then (mk true true true 0 false false, Ok) else (s, NoFault)
  | HDR => if live s then (s, Ok) else (s, NoFault)
  | SEND => if live s && negb (eos s) then (mk true true true (S (sent s)) false false, Ok) else (s, NoFault)
  | EOS => if live s && negb (eos s) then (mk true true true (sent s) true false, Ok) else (s, NoFault)
  | GET | RECON => if live s then (s, OkOrEmpty) else (s, NoFault)
  | DRAIN => if live s && eos s && (0 <? sent s) then (s, Ok) else (s, NoFault)
  | DEINIT => if live s then (mk true (configured s) true (sent s) (eos s) true, Ok) else (s, NoFault)
  | DH => if handle s then (init_st, Ok) else (s, NoFault)
  | _ => (s, Err)
  end.

Fixpoint run (s : st) (ops : list op) : list cls :=
  match ops with [] => [] | o :: r => snd (step s o) :: run (fst (step s o)) r end.
Fixpoint final (s : st) (ops : list op) : st := match ops with [] => s | o :: r => final (fst (step s o)) r end.

(* a call with a NULL handle or NULL buffer reports an error and changes nothing, in every state *)
Theorem null_calls_are_errors s o : null_op o = true -> step s o = (s, Err).
Proof. intros H. unfold step. rewrite H. reflexivity. Qed.

(* calls that are rejected (bad configuration) or carry NULL arguments keep the handle and do not initialise the session ... *)
Definition harmless (o : op) : bool := null_op o || match o with SP_bad | SP_bad2 => true | _ => false end.
Lemma harmless_keeps_handle s o : harmless o = true -> handle s = true -> inited s = false ->
  handle (fst (step s o)) = true /\ inited (fst (step s o)) = false.
Proof.
  unfold harmless. intros H Hh Hi. destruct (null_op o) eqn:E; [rewrite (null_calls_are_errors s o E); cbn; auto|].
  cbn in H. unfold step. rewrite E. destruct o; try discriminate; rewrite Hh, Hi; cbn; auto.
Qed.

(* ... so that after any number of them a valid configuration is still accepted *)
Theorem rejected_configuration_keeps_handle_usable ops s : forallb harmless ops = true -> handle s = true -> inited s = false ->
  snd (step (final s ops) SP_ok) = Ok.
Proof.
  revert s. induction ops as [|o r IH]; intros s Hall Hh Hi; cbn [final].
  - unfold step. cbn. rewrite Hh, Hi. reflexivity.
  - cbn in Hall. apply andb_true_iff in Hall as [H1 H2]. destruct (harmless_keeps_handle s o H1 Hh Hi) as [A B]. apply IH; assumption.
Qed.

Example full_session : run init_st [IH; SP_bad; SP_nullcfg; SP_ok; INIT; HDR; SEND; GET; SEND_nullbuf; EOS; DRAIN; DEINIT; DH]
  = [Ok; Err; Err; Ok; Ok; Ok; Ok; OkOrEmpty; Err; Ok; Ok; Ok; Ok].
Proof. reflexivity. Qed.
