From Coq Require Import ZArith Lia List Bool.
From SV Require Import ECideal ECcdf ECdone.
Import ListNotations.
Local Open Scope Z_scope.

(* Adaptive coding: the table used for a symbol is any function of the symbols coded so far
   (this is what update_cdf / dec_update_cdf implement once they are shown equal). *)
Section Adaptive.
Variable ctx : list nat -> list Z.

Fixpoint ops_from (prefix rest : list nat) : list sym_op :=
  match rest with
  | [] => []
  | s :: r => (ctx prefix, s) :: ops_from (prefix ++ [s]) r
  end.

(* the reader recomputes the table from what it has decoded so far *)
Fixpoint decode_adaptive (n : nat) (prefix : list nat) (ds : dst) : list nat :=
  match n with
  | O => []
  | S n' => let r := dec_step ds (thr_cdf (ctx prefix)) in
            fst r :: decode_adaptive n' (prefix ++ [fst r]) (snd r)
  end.

Lemma decode_all_cons ds f fs :
  decode_all ds (f :: fs) = fst (dec_step ds f) :: decode_all (snd (dec_step ds f)) fs.
Proof. reflexivity. Qed.
Lemma decode_adaptive_S n prefix ds :
  decode_adaptive (S n) prefix ds =
  fst (dec_step ds (thr_cdf (ctx prefix))) ::
    decode_adaptive n (prefix ++ [fst (dec_step ds (thr_cdf (ctx prefix)))]) (snd (dec_step ds (thr_cdf (ctx prefix)))).
Proof. reflexivity. Qed.

Lemma adaptive_follows rest : forall prefix ds,
  decode_all ds (map (fun o : sym_op => thr_cdf (fst o)) (ops_from prefix rest)) = rest ->
  decode_adaptive (length rest) prefix ds = rest.
Proof.
  induction rest as [|s r IH]; intros prefix ds H; [reflexivity|].
  change (ops_from prefix (s :: r)) with ((ctx prefix, s) :: ops_from (prefix ++ [s]) r) in H.
  change (length (s :: r)) with (S (length r)).
  rewrite map_cons, decode_all_cons in H. change (fst (ctx prefix, s)) with (ctx prefix) in H.
  rewrite decode_adaptive_S.
  remember (dec_step ds (thr_cdf (ctx prefix))) as r0 eqn:Er0. clear Er0.
  injection H as Hs Hr. rewrite Hs. f_equal. apply IH. exact Hr.
Qed.

Theorem ec_roundtrip_adaptive (syms : list nat) (P : Z) :
  Forall sym_ok (ops_from [] syms) -> 15 + eS (encode_all (ops_from [] syms)) <= P ->
  decode_adaptive (length syms) [] (dst0 P (code_value (ops_from [] syms) P)) = syms.
Proof.
  intros Hok HP. apply adaptive_follows.
  pose proof (ec_roundtrip_ideal (ops_from [] syms) P Hok HP) as RT.
  assert (E: forall prefix rest, map snd (ops_from prefix rest) = rest).
  { intros prefix rest; revert prefix. induction rest as [|s r IH]; intros prefix; cbn; [reflexivity|]. f_equal. apply IH. }
  rewrite E in RT. exact RT.
Qed.
End Adaptive.
Print Assumptions ec_roundtrip_adaptive.
