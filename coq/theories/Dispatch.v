(* C06 / C07 - run-time dispatch: which variant of a kernel a function pointer ends up with, as a function of the CPU flags. *)
From Coq Require Import ZArith List Lia Bool Arith.
Import ListNotations.
Local Open Scope Z_scope.

(* an entry lists the flag bit of each SIMD variant in the order the SET_* macro tests them; the result is the index of the
   chosen variant: 0 = the C reference, k = the k-th listed variant *)
Fixpoint select_from (flags : Z) (e : list Z) (cur next : nat) : nat :=
  match e with
  | [] => cur
  | bit :: r => select_from flags r (if Z.testbit flags bit then next else cur) (S next)
  end.
Definition select (flags : Z) (e : list Z) : nat := select_from flags e 0%nat 1%nat.

(* what the library does with the caller's use_cpu_flags: it is masked with what the CPU has *)
Definition effective (requested available : Z) : Z := Z.land requested available.

Lemma select_from_cases flags e : forall cur next,
  (select_from flags e cur next = cur /\ (forall j bit, nth_error e j = Some bit -> Z.testbit flags bit = false)) \/
  (exists k bit, select_from flags e cur next = (next + k)%nat /\ nth_error e k = Some bit /\ Z.testbit flags bit = true /\
                 forall j b, (k < j)%nat -> nth_error e j = Some b -> Z.testbit flags b = false).
Proof.
  induction e as [|b r IH]; intros cur next; cbn [select_from].
  - left. split; [reflexivity|]. intros j bit H. destruct j; discriminate.
  - destruct (Z.testbit flags b) eqn:Eb.
    + destruct (IH next (S next)) as [[H1 H2] | (k & bit & H1 & H2 & H3 & H4)].
      * right. exists 0%nat, b. rewrite H1. split; [lia|]. split; [reflexivity|]. split; [exact Eb|]. intros j b' Hj Hn. destruct j; [lia|]. cbn in Hn. apply (H2 j b'); exact Hn.
      * right. exists (S k), bit. rewrite H1. split; [lia|]. split; [exact H2|]. split; [exact H3|]. intros j b' Hj Hn. destruct j; [lia|]. cbn in Hn. apply (H4 j b'); [lia | exact Hn].
    + destruct (IH cur (S next)) as [[H1 H2] | (k & bit & H1 & H2 & H3 & H4)].
      * left. split; [exact H1|]. intros j bit Hn. destruct j; cbn in Hn; [congruence|]. apply (H2 j bit); exact Hn.
      * right. exists (S k), bit. rewrite H1. split; [lia|]. split; [exact H2|]. split; [exact H3|]. intros j b' Hj Hn. destruct j; [lia|]. cbn in Hn. apply (H4 j b'); [lia | exact Hn].
Qed.

(* with no flag the C reference is used *)
Theorem select_no_flags e : select 0 e = 0%nat.
Proof. unfold select. destruct (select_from_cases 0 e 0%nat 1%nat) as [[H _] | (k & bit & _ & _ & H & _)]; [exact H|]. rewrite Z.testbit_0_l in H. discriminate. Qed.

(* a SIMD variant is chosen only if its flag is set, and it is the last listed variant whose flag is set *)
Theorem select_sound flags e k : select flags e = S k ->
  exists bit, nth_error e k = Some bit /\ Z.testbit flags bit = true /\ forall j b, (k < j)%nat -> nth_error e j = Some b -> Z.testbit flags b = false.
Proof.
  unfold select. destruct (select_from_cases flags e 0%nat 1%nat) as [[H _] | (k' & bit & H1 & H2 & H3 & H4)]; intros E; [congruence|].
  rewrite H1 in E. assert (k' = k) by lia. subst k'. exists bit. auto.
Qed.

Theorem select_c flags e : select flags e = 0%nat -> forall j bit, nth_error e j = Some bit -> Z.testbit flags bit = false.
Proof. unfold select. destruct (select_from_cases flags e 0%nat 1%nat) as [[_ H] | (k' & bit & H1 & _)]; intros E; [exact H|]. rewrite H1 in E. lia. Qed.

(* the choice depends on the flags only through the bits the entry lists *)
Theorem select_depends_on_listed_bits f1 f2 e : (forall bit, In bit e -> Z.testbit f1 bit = Z.testbit f2 bit) -> select f1 e = select f2 e.
Proof.
  unfold select. generalize 0%nat 1%nat. induction e as [|b r IH]; intros cur next H; cbn [select_from]; [reflexivity|].
  rewrite (H b (or_introl eq_refl)). apply IH. intros bit Hb. apply H. right. exact Hb.
Qed.

(* whatever the caller asks for, a variant is chosen only if the CPU has its instruction set *)
Theorem never_beyond_cpu requested available e k : select (effective requested available) e = S k ->
  exists bit, nth_error e k = Some bit /\ Z.testbit available bit = true /\ Z.testbit requested bit = true.
Proof.
  intros H. destruct (select_sound _ _ _ H) as (bit & H1 & H2 & _). exists bit. unfold effective in H2. rewrite Z.land_spec in H2.
  apply andb_true_iff in H2. tauto.
Qed.

(* entries list their variants by increasing instruction-set level: the choice is then the highest available level *)
Fixpoint ascending (e : list Z) : bool :=
  match e with a :: ((b :: _) as r) => (a <? b) && ascending r | _ => true end.

Example select_example : select (Z.lor (2 ^ 5) (2 ^ 8)) [5; 8] = 2%nat /\ select (2 ^ 5) [5; 8] = 1%nat /\ select (2 ^ 8) [5; 8] = 2%nat /\ select (2 ^ 2) [5; 8] = 0%nat.
Proof. repeat split; reflexivity. Qed.
