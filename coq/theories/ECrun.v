(* C25 executable model: byte output, bit-count estimate, CDF adaptation and the
   operation-list runner used by the correspondence check (obs/c25.ml).
   Definitions only; theorems about them are in Proofs_C25.v. *)
From Coq Require Import ZArith List Bool.
From SV Require Import CInt ECideal ECcdf ECdone.
Import ListNotations.
Local Open Scope Z_scope.

(* ---- termination: what svt_od_ec_enc_done emits, read off the exact state ---- *)
Definition tell (st : est) : Z := eS st + 1.            (* svt_od_ec_enc_tell: (cnt + 10) + 8 * offs *)
Definition offs_of (S : Z) : Z := if S <=? 0 then 0 else (S - 1) / 8.   (* bytes already in the pre-carry buffer *)
Definition nbytes (st : est) : Z :=
  let S := eS st in let c := S - 9 - 8 * offs_of S in offs_of S + (if c =? -1 then 2 else 1).
Definition done_shift (st : est) : Z := 15 + eS st - 8 * nbytes st.
Definition out_value (st : est) : Z := done_e (eL st) / 2 ^ done_shift st.
(* least-significant byte first, then reversed: linear-time per byte when extracted *)
Fixpoint bytes_lsb (n : nat) (x : Z) : list Z :=
  match n with O => [] | S k => x mod 256 :: bytes_lsb k (x / 256) end.
Definition to_bytes (n : nat) (x : Z) : list Z := rev (bytes_lsb n x).
Definition done_bytes (st : est) : list Z := to_bytes (Z.to_nat (nbytes st)) (out_value st).
Definition bytes_value (bs : list Z) : Z := fold_left (fun acc b => acc * 256 + b) bs 0.

(* the reader step with shifts instead of division by / multiplication with 2^k (same function, see
   Proofs_C25.dec_step_fast_eq); and the initial reader state with 2^P as a shift *)
Definition dec_step_fast (st : dst) (f : Z -> list Z) : nat * dst :=
  let ts := f (dR st) in
  let c := Z.shiftr (dD st) (dK st) in
  let s := find c ts 0 in
  let u := upper (dR st) ts s in
  let v := lower ts s in
  let r' := u - v in
  let d := norm_shift r' in
  (s, {| dD := dD st - Z.shiftl v (dK st); dR := r' * 2 ^ d; dK := dK st - d |}).
Definition dst0_fast (P V : Z) : dst := {| dD := Z.shiftl 1 P - 1 - V; dR := 32768; dK := P - 15 |}.

(* ---- CDF adaptation (update_cdf / dec_update_cdf): cdf = n inverse-CDF cells followed by the counter ---- *)
Definition speed (n : Z) : Z := if n <=? 1 then 0 else if n <=? 3 then 1 else 2.
Definition rate_of (cnt n : Z) : Z :=
  3 + (if cnt >? 15 then 1 else 0) + (if cnt >? 31 then 1 else 0) + speed n.
Fixpoint upd_cells (cells : list Z) (i val tmp rate : Z) (k : nat) : list Z :=
  match k, cells with
  | S k', c :: rest =>
      let tmp' := if i =? val then 0 else tmp in
      let c' := if tmp' <? c then wrapU 16 (c - Z.shiftr (c - tmp') rate)
                else wrapU 16 (c + Z.shiftr (tmp' - c) rate) in
      c' :: upd_cells rest (i + 1) val tmp' rate k'
  | _, _ => cells
  end.
Definition update_cdf_m (cdf : list Z) (val : Z) : list Z :=
  let n := Z.of_nat (length cdf) - 1 in
  let cnt := nth (Z.to_nat n) cdf 0 in
  let rate := rate_of cnt n in
  let cells := upd_cells (firstn (Z.to_nat n) cdf) 0 val 32768 rate (Z.to_nat (n - 1)) in
  cells ++ [wrapU 16 (cnt + (if cnt <? 32 then 1 else 0))].

(* ---- operation lists ---- *)
Inductive eop := OpSym (ctx : nat) (s : nat) | OpBool (f : Z) (b : bool).

Definition icdf_of (cdf : list Z) : list Z := firstn (length cdf - 1) cdf.
Definition set_nth {A} (l : list A) (i : nat) (x : A) : list A := firstn i l ++ x :: skipn (S i) l.

Definition op_table (ctxs : list (list Z)) (o : eop) : list Z :=
  match o with OpSym c _ => icdf_of (nth c ctxs []) | OpBool f _ => [f; 0] end.
Definition op_symbol (o : eop) : nat := match o with OpSym _ s => s | OpBool _ b => if b then 1%nat else 0%nat end.
Definition adapt_ctxs (adapt : bool) (ctxs : list (list Z)) (o : eop) (s : nat) : list (list Z) :=
  match o with
  | OpSym c _ => if adapt then set_nth ctxs c (update_cdf_m (nth c ctxs []) (Z.of_nat s)) else ctxs
  | OpBool _ _ => ctxs
  end.

(* writer: returns final state, final contexts, tell after every operation *)
Fixpoint run_enc (adapt : bool) (ctxs : list (list Z)) (st : est) (ops : list eop) : est * list (list Z) * list Z :=
  match ops with
  | [] => (st, ctxs, [])
  | o :: rest =>
      let st' := enc_step st (thr_cdf (op_table ctxs o), op_symbol o) in
      let ctxs' := adapt_ctxs adapt ctxs o (op_symbol o) in
      let '(stf, cf, ts) := run_enc adapt ctxs' st' rest in (stf, cf, tell st' :: ts)
  end.

(* reader: knows only the shape of each operation (context index or boolean probability) *)
Fixpoint run_dec (adapt : bool) (ctxs : list (list Z)) (ds : dst) (ops : list eop) : list nat * list (list Z) :=
  match ops with
  | [] => ([], ctxs)
  | o :: rest =>
      let r := dec_step_fast ds (thr_cdf (op_table ctxs o)) in
      let ctxs' := adapt_ctxs adapt ctxs o (fst r) in
      let '(ss, cf) := run_dec adapt ctxs' (snd r) rest in (fst r :: ss, cf)
  end.

Definition encode_bytes (adapt : bool) (ctxs : list (list Z)) (ops : list eop) : list Z :=
  done_bytes (fst (fst (run_enc adapt ctxs est0 ops))).
Definition decode_bytes (adapt : bool) (ctxs : list (list Z)) (bytes : list Z) (ops : list eop) : list nat * list (list Z) :=
  (* the reader treats missing bytes as zeros: precision 8*len + 16 covers every stream of len bytes *)
  run_dec adapt ctxs (dst0_fast (8 * Z.of_nat (length bytes) + 16) (Z.shiftl (bytes_value bytes) 16)) ops.
