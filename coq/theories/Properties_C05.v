(* C05 — output does not depend on the number of threads. The thread count changes only (i) how many workers pick up
   EncDec segments and the segment grid, (ii) pool sizes, (iii) the arrival order of results at the reorder queues.
   Coq: (i) for every accepted grid the wavefront protocol gives every superblock the same completed neighbours under
   every interleaving and any number of workers (Properties_C24); (iii) a reorder queue releases in numeric order for
   every arrival order (below). Whether any coding decision reads the thread count is observed by the metamorphic
   encodes of tools/checks/c05.py. *)
From Coq Require Import Arith List Bool.
From SV Require Import Reorder.
Import ListNotations.

Theorem c05_reorder_confluent : forall (D : nat), 0 < D -> forall (V : Type) (val : nat -> V) (N : nat) (arr : list nat),
  NoDup arr -> (forall n, In n arr <-> n < N) -> in_window D V val (q0 V) arr ->
  fst (run D V val (q0 V) arr) = map val (seq 0 N) /\ next V (snd (run D V val (q0 V) arr)) = N.
Proof. exact reorder_in_order. Qed.
