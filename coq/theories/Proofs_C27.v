From Coq Require Import ZArith List Lia Bool.
From SV Require Import CInt PoolSpec.
From SVG Require Import BuffersGen.
Import ListNotations.
Local Open Scope Z_scope.
Ltac Zify.zify_post_hook ::= Z.to_euclidean_division_equations.

Lemma in_domainb_sound i : in_domainb i = true -> in_domain i.
Proof. unfold in_domainb, in_domain. rewrite !andb_true_iff. lia. Qed.

Ltac split_ifs :=
  repeat match goal with
  | |- context [if ?b then _ else _] =>
      lazymatch b with
      | context [if _ then _ else _] => fail
      | _ => destruct b eqn:?; cbv iota
      end
  end.
Ltac note_wrap b x :=
  lazymatch goal with
  | _ : 0 <= wrapU b x < 2 ^ b |- _ => fail
  | _ => pose proof (wrapU_range b x ltac:(lia))
  end.
Ltac wrap_facts :=
  repeat match goal with
  | |- context [wrapU ?b ?x] => note_wrap b x
  | _ : context [wrapU ?b ?x] |- _ => note_wrap b x
  end.

Ltac unwrap :=
  repeat match goal with
  | |- context [wrapU 32 ?x] =>
      lazymatch x with context [wrapU _ _] => fail | context [wrapS _ _] => fail | _ => rewrite (wrapU_id 32 x) by lia end
  | |- context [wrapS 32 ?x] =>
      lazymatch x with context [wrapU _ _] => fail | context [wrapS _ _] => fail | _ => rewrite (wrapS_id 32 x) by lia end
  | H : context [wrapU 32 ?x] |- _ =>
      lazymatch x with context [wrapU _ _] => fail | context [wrapS _ _] => fail | _ => rewrite (wrapU_id 32 x) in H by lia end
  | H : context [wrapS 32 ?x] |- _ =>
      lazymatch x with context [wrapU _ _] => fail | context [wrapS _ _] => fail | _ => rewrite (wrapS_id 32 x) in H by lia end
  end.

Lemma pool_sufficient i l : in_domain i -> pools i = Some l -> demand i <= nth 0 l 0 /\ demand_parent i <= nth 1 l 0.
Proof.
  destruct i as [nproc sock ng lp fr hl res lad sbs ph pw tr ov tf scd ip tpl f1 f2 f3].
  unfold in_domain, demand_parent, demand, lad_window, scd_window, mg. cbn [b_os_processor_count b_target_socket b_num_groups b_logical_processors b_frame_rate b_hierarchical_levels b_input_resolution b_look_ahead_distance b_super_block_size b_max_input_luma_height b_max_input_luma_width b_tile_rows b_enable_overlays b_tf_level b_scene_change_detection b_intra_period_length b_enable_tpl_la b_os_cpu_flags b_os_cpu_flags_to_use b_use_cpu_flags].
  intros D. decompose [and] D. clear D.
  unfold pools. cbn [b_os_processor_count b_target_socket b_num_groups b_logical_processors b_frame_rate b_hierarchical_levels b_input_resolution b_look_ahead_distance b_super_block_size b_max_input_luma_height b_max_input_luma_width b_tile_rows b_enable_overlays b_tf_level b_scene_change_detection b_intra_period_length b_enable_tpl_la b_os_cpu_flags b_os_cpu_flags_to_use b_use_cpu_flags].
  match goal with |- context [set_parent_pcs fr ?h ?c res] => set (cc := c); set (pp := set_parent_pcs fr h cc res) end.
  assert (Hcc : 0 <= cc < 2 ^ 32).
  { subst cc. pose proof (wrapU_range 32 (nproc ÷ ng) ltac:(lia)). repeat match goal with |- context [if ?b then _ else _] => destruct b end; lia. }
  clearbody pp. clearbody cc.
  assert (Hhl : hl = 0 \/ hl = 1 \/ hl = 2 \/ hl = 3 \/ hl = 4 \/ hl = 5) by lia.
  intros Heq. destruct (pp =? -1); [discriminate|]. injection Heq as <-. cbn [nth].
  destruct Hhl as [-> | [-> | [-> | [-> | [-> | ->]]]]];
    repeat match goal with
    | |- context [Z.shiftl ?a (Z.land ?h 31)] => let v := eval vm_compute in (Z.shiftl a (Z.land h 31)) in change (Z.shiftl a (Z.land h 31)) with v
    | |- context [wrapS 32 (Zpos ?p)] => let v := eval vm_compute in (wrapS 32 (Zpos p)) in change (wrapS 32 (Zpos p)) with v
    | |- context [wrapU 32 (Zpos ?p)] => let v := eval vm_compute in (wrapU 32 (Zpos p)) in change (wrapU 32 (Zpos p)) with v
    | |- context [2 ^ (Zpos ?p)] => let v := eval vm_compute in (2 ^ (Zpos p)) in change (2 ^ (Zpos p)) with v
    | |- context [2 ^ 0] => change (2 ^ 0) with 1
    end.
  all: remember (wrapU 32 (ip + 1)) as w eqn:Ew;
       assert (Hw : 0 <= w < 2 ^ 32 /\ exists k, ip + 1 = w + k * 2 ^ 32)
         by (subst w; unfold wrapU; split; [apply Z.mod_pos_bound; lia | exists ((ip + 1) / 2 ^ 32); pose proof (Z.div_mod (ip + 1) (2 ^ 32) ltac:(lia)); lia]);
       clear Ew; destruct Hw as [Hw [k Hk]].
  all: unwrap.
  all: split.
  all: try (destruct (ov =? 0) eqn:Eov; cbn [negb]; cbv iota).
  all: match goal with |- ?d <= (if _ then ?M else _) => assert (HM : d <= M); [| set (m := M) in *; clearbody m; split_ifs; lia] end.
  all: split_ifs; unwrap; lia.
Qed.

(* ---- reference-type pools (PoolSpec.demand_ref / demand_paref) ---- *)
Local Arguments Z.add : simpl never.
Local Arguments Z.mul : simpl never.
Local Arguments Z.sub : simpl never.
Local Arguments Z.div : simpl never.
Local Arguments Z.modulo : simpl never.
Local Arguments Z.pow : simpl never.
Lemma set_parent_pcs_range fr hl cc res : 0 <= hl <= 5 -> 3 <= set_parent_pcs fr hl cc res <= 360.
Proof.
  intros Hhl. unfold set_parent_pcs. cbv zeta.
  change (negb (1 =? 0)) with true. cbv iota.
  assert (Hc : hl = 0 \/ hl = 1 \/ hl = 2 \/ hl = 3 \/ hl = 4 \/ hl = 5) by lia.
  assert (Hf : exists f, 24 <= f <= 120 /\ (if (if (if fr >? 1000 then wrapU 32 (Z.shiftr fr 16) else fr) >? 120 then 120 else (if fr >? 1000 then wrapU 32 (Z.shiftr fr 16) else fr)) <? 24 then 24 else (if (if fr >? 1000 then wrapU 32 (Z.shiftr fr 16) else fr) >? 120 then 120 else (if fr >? 1000 then wrapU 32 (Z.shiftr fr 16) else fr))) = f).
  { eexists; split; [|reflexivity]. set (x := if fr >? 1000 then wrapU 32 (Z.shiftr fr 16) else fr). clearbody x. split_ifs; lia. }
  destruct Hf as [f [Hf Ef]]. rewrite Ef. clear Ef.
  rewrite !Z.shiftr_div_pow2 by lia. change (2 ^ 1) with 2.
  destruct Hc as [-> | [-> | [-> | [-> | [-> | ->]]]]];
    repeat match goal with
    | |- context [Z.shiftl ?a (Z.land ?h 31)] => let v := eval vm_compute in (Z.shiftl a (Z.land h 31)) in change (Z.shiftl a (Z.land h 31)) with v
    | |- context [wrapS 32 (Zpos ?p)] => let v := eval vm_compute in (wrapS 32 (Zpos p)) in change (wrapS 32 (Zpos p)) with v
    | |- context [wrapU 32 (Zpos ?p)] => let v := eval vm_compute in (wrapU 32 (Zpos p)) in change (wrapU 32 (Zpos p)) with v
    end.
  all: rewrite ?Z.shiftl_mul_pow2 by lia; change (2 ^ 1) with 2.
  all: split_ifs; unwrap; try lia.
Qed.

Lemma ref_pools_sufficient i l : in_domain i -> pools i = Some l -> demand_paref i <= nth 3 l 0 /\ demand_ref i <= nth 4 l 0.
Proof.
  destruct i as [nproc sock ng lp fr hl res lad sbs ph pw tr ov tf scd ip tpl f1 f2 f3].
  unfold in_domain, demand_paref, demand_ref, lad_window, scd_window, mg. cbn [b_os_processor_count b_target_socket b_num_groups b_logical_processors b_frame_rate b_hierarchical_levels b_input_resolution b_look_ahead_distance b_super_block_size b_max_input_luma_height b_max_input_luma_width b_tile_rows b_enable_overlays b_tf_level b_scene_change_detection b_intra_period_length b_enable_tpl_la b_os_cpu_flags b_os_cpu_flags_to_use b_use_cpu_flags].
  intros D. decompose [and] D. clear D.
  unfold pools. cbn [b_os_processor_count b_target_socket b_num_groups b_logical_processors b_frame_rate b_hierarchical_levels b_input_resolution b_look_ahead_distance b_super_block_size b_max_input_luma_height b_max_input_luma_width b_tile_rows b_enable_overlays b_tf_level b_scene_change_detection b_intra_period_length b_enable_tpl_la b_os_cpu_flags b_os_cpu_flags_to_use b_use_cpu_flags].
  match goal with |- context [set_parent_pcs fr ?h ?c res] => set (cc := c); set (pp := set_parent_pcs fr h cc res) end.
  assert (Hcc : 0 <= cc < 2 ^ 32).
  { subst cc. pose proof (wrapU_range 32 (nproc ÷ ng) ltac:(lia)). repeat match goal with |- context [if ?b then _ else _] => destruct b end; lia. }
  pose proof (set_parent_pcs_range fr hl cc res ltac:(lia)) as Hpp. fold pp in Hpp.
  clearbody pp. clearbody cc.
  assert (Hhl : hl = 0 \/ hl = 1 \/ hl = 2 \/ hl = 3 \/ hl = 4 \/ hl = 5) by lia.
  intros Heq. destruct (pp =? -1); [discriminate|]. injection Heq as <-. cbn [nth].
  destruct Hhl as [-> | [-> | [-> | [-> | [-> | ->]]]]];
    repeat match goal with
    | |- context [Z.shiftl ?a (Z.land ?h 31)] => let v := eval vm_compute in (Z.shiftl a (Z.land h 31)) in change (Z.shiftl a (Z.land h 31)) with v
    | |- context [wrapS 32 (Zpos ?p)] => let v := eval vm_compute in (wrapS 32 (Zpos p)) in change (wrapS 32 (Zpos p)) with v
    | |- context [wrapU 32 (Zpos ?p)] => let v := eval vm_compute in (wrapU 32 (Zpos p)) in change (wrapU 32 (Zpos p)) with v
    | |- context [2 ^ (Zpos ?p)] => let v := eval vm_compute in (2 ^ (Zpos p)) in change (2 ^ (Zpos p)) with v
    | |- context [2 ^ 0] => change (2 ^ 0) with 1
    | |- context [Zpos ?p / 2] => let v := eval vm_compute in (Zpos p / 2) in change (Zpos p / 2) with v
    end.
  all: remember (wrapU 32 (ip + 1)) as w eqn:Ew;
       assert (Hw : 0 <= w < 2 ^ 32 /\ exists k, ip + 1 = w + k * 2 ^ 32)
         by (subst w; unfold wrapU; split; [apply Z.mod_pos_bound; lia | exists ((ip + 1) / 2 ^ 32); pose proof (Z.div_mod (ip + 1) (2 ^ 32) ltac:(lia)); lia]);
       clear Ew; destruct Hw as [Hw [k Hk]].
  all: unwrap.
  all: repeat match goal with
       | |- context [0 =? 5] => change (0 =? 5) with false
       | |- context [Zpos ?p =? 5] => let v := eval vm_compute in (Zpos p =? 5) in change (Zpos p =? 5) with v
       end; cbv iota.
  all: split.
  1,3,5,7,9,11: (destruct (ov =? 0) eqn:Eov; cbn [negb]; cbv iota;
                 match goal with |- ?d <= (if _ then ?M else _) => assert (HM : d <= M); [| set (m := M) in *; clearbody m; split_ifs; unwrap; lia] end;
                 split_ifs; unwrap; lia).
  all: rewrite ?Z.shiftr_div_pow2 by lia; change (2 ^ 1) with 2; unwrap; split_ifs; unwrap;
       repeat match goal with
              | H : (?a >? ?b) = false |- _ => rewrite Z.gtb_ltb in H; apply Z.ltb_ge in H
              | H : (?a >? ?b) = true |- _ => rewrite Z.gtb_ltb in H; apply Z.ltb_lt in H
              end; lia.
Qed.

Lemma demand_ge_3 i : in_domain i -> 3 <= demand i.
Proof.
  unfold in_domain, demand, lad_window, scd_window, mg. intros D. decompose [and] D. clear D.
  assert (Hm : 1 <= 2 ^ b_hierarchical_levels i) by (pose proof (Z.pow_pos_nonneg 2 (b_hierarchical_levels i) ltac:(lia) ltac:(lia)); lia).
  set (m := 2 ^ b_hierarchical_levels i) in *. clearbody m.
  assert (0 <= (b_look_ahead_distance i + m - 1) / m) by (apply Z.div_pos; lia).
  assert (0 <= (b_look_ahead_distance i + m - 1) / m * m) by (apply Z.mul_nonneg_nonneg; lia).
  repeat match goal with |- context [if ?b then _ else _] => destruct b end; lia.
Qed.

From SV Require Import Pacing.

(* the two layers together: with the pool sizes the current source computes, every schedule of application calls that
   cannot be extended has completed the stream and handed over the pictures in submission order *)
Theorem encoder_pool_progress i l N es :
  in_domain i -> pools i = Some l ->
  let P := Z.to_nat (nth 0 l 0) in let D := Z.to_nat (demand i) in
  all_enabled N P D init es = true -> stuck N P D (run N P D init es) ->
  finished (run N P D init es) /\ got (run N P D init es) = seq 0 N.
Proof.
  intros Hd Hp P D Ha Hs. destruct (pool_sufficient i l Hd Hp) as [H1 _]. pose proof (demand_ge_3 i Hd) as H3.
  assert (HDP : (D <= P)%nat) by (subst D P; apply Z2Nat.inj_le; lia).
  assert (HP1 : (1 <= P)%nat) by (subst P; change 1%nat with (Z.to_nat 1); apply Z2Nat.inj_le; lia).
  destruct (maximal_schedule_completes N P D es HDP HP1 Ha Hs) as [Hf _]. split; [exact Hf|].
  apply completed_output_independent. exact Hf.
Qed.
