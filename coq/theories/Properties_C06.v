(* C06 - output does not depend on the CPU instruction set used: the dispatch mechanism.
   Dispatch.v: model of the SET_* macros; DispatchGen.v: the two dispatch tables regenerated from common_dsp_rtcd.c and
   aom_dsp_rtcd.c on every run; BuffersGen.v: the masking of use_cpu_flags regenerated from EbEncHandle.c.
   That the selected kernels compute the same function is C07; that the whole encoder output is the same is observed by
   the metamorphic encodes of this check. *)
From Coq Require Import ZArith List Bool.
From SV Require Import CInt Dispatch Proofs_C06.
From SVG Require Import BuffersGen DispatchGen.
Import ListNotations.
Local Open Scope Z_scope.

Theorem c06_no_flags_selects_c_reference : forall e, select 0 e = 0%nat.
Proof. exact select_no_flags. Qed.

Theorem c06_variant_needs_its_flag : forall flags e k, select flags e = S k ->
  exists bit, nth_error e k = Some bit /\ Z.testbit flags bit = true /\ forall j b, (k < j)%nat -> nth_error e j = Some b -> Z.testbit flags b = false.
Proof. exact select_sound. Qed.

Theorem c06_choice_depends_on_listed_bits_only : forall f1 f2 e, (forall bit, In bit e -> Z.testbit f1 bit = Z.testbit f2 bit) -> select f1 e = select f2 e.
Proof. exact select_depends_on_listed_bits. Qed.

Theorem c06_never_beyond_cpu : forall requested available e k, select (effective requested available) e = S k ->
  exists bit, nth_error e k = Some bit /\ Z.testbit available bit = true /\ Z.testbit requested bit = true.
Proof. exact never_beyond_cpu. Qed.

Theorem c06_library_masks_requested_flags : forall i l, cpu_mask i = Some l ->
  nth 0 l 0 = wrapU 64 (effective (b_use_cpu_flags i) (b_os_cpu_flags_to_use i)).
Proof. exact cpu_flags_masked. Qed.

Theorem c06_tables_list_variants_by_increasing_level : forallb ascending table = true.
Proof. exact table_ascending. Qed.
