(* C23 — system resource manager. Deque-layer model SV.SRM (one muxing queue with its process FIFOs,
   steps = the critical sections of the C) and the theorems that hold for EVERY sequence of enabled
   steps, i.e. every interleaving of any number of producer / consumer / releaser threads, any number
   of objects and FIFOs.  The ring-layer model SV.SRMring (circular buffers, live counts, shutdown) is
   what tools/checks/c23.py runs in lockstep with the real code.  Statements only. *)
From Coq Require Import List Arith Permutation.
From SV Require SRM SRMorder Proofs_C23.
Import ListNotations.

(* never lost, never duplicated: what has been popped plus what is still queued is a permutation of
   what was pushed plus what was there; and the invariant (no object queued while a process waits;
   semaphore = unclaimed items, per FIFO) holds after every run *)
Theorem srm_conservation : forall (ops : list SRM.op) (q q' : SRM.mq) (popped : list SRM.obj),
  SRM.Inv q -> SRM.run q ops = Some (q', popped) ->
  SRM.Inv q' /\ Permutation (popped ++ SRM.contents q') (SRM.pushed ops ++ SRM.contents q).
Proof. exact SRM.srm_mq_conservation. Qed.

(* wake-up: after any run from the initial state, never (object available AND process waiting) *)
Theorem srm_no_lost_wakeup : forall n ops q popped, SRM.run (SRM.mq0 n) ops = Some (q, popped) ->
  SRM.oq q = [] \/ SRM.pq q = [].
Proof. exact SRM.srm_mq_no_lost_wakeup. Qed.

(* a FIFO's semaphore never over- or under-promises *)
Theorem srm_sem_consistent : forall n ops q popped, SRM.run (SRM.mq0 n) ops = Some (q, popped) ->
  Forall (fun x => SRM.sem x + SRM.claimed x = length (SRM.items x)) (SRM.fifos q).
Proof. exact SRM.srm_mq_sem_consistent. Qed.

(* posting order: with one consumer, objects come out exactly in the order they were posted *)
Theorem srm_posting_order : forall ops q popped, forallb SRMorder.only_back ops = true ->
  SRM.run (SRM.mq0 1) ops = Some (q, popped) -> exists waiting, SRM.pushed ops = popped ++ waiting.
Proof. exact SRMorder.srm_posting_order. Qed.
