(* C23 — system resource manager. Deque-layer model SV.SRM (one muxing queue with its process FIFOs,
   steps = the critical sections of the C) and the theorems that hold for EVERY sequence of enabled
   steps, i.e. every interleaving of any number of producer / consumer / releaser threads, any number
   of objects and FIFOs.  The ring-layer model SV.SRMring (circular buffers, live counts, shutdown) is
   what tools/checks/c23.py runs in lockstep with the real code.  Statements only. *)
From Coq Require Import List Arith Permutation ZArith.
From SV Require SRM SRMorder Proofs_C23 SRMring RingRefine SRMrelease GuardFlow.
From SVG Require GuardGen.
Import ListNotations.

(* never lost, never duplicated: what has been popped plus what is still queued is a permutation of
   what was pushed plus what was there; and the invariant (no object queued while a process waits;
   semaphore = unclaimed items, per FIFO) holds after every run *)
Theorem srm_conservation : forall (ops : list SRM.op) (q q' : SRM.mq) (popped : list SRM.obj),
  SRM.Inv q -> SRM.run q ops = Some (q', popped) ->
  SRM.Inv q' /\ Permutation (popped ++ SRM.contents q') (SRM.pushed ops ++ SRM.contents q).
Proof. exact SRM.srm_mq_conservation. Qed.

(* wake-up: after any run from the initial state, never (object available AND process waiting) *)
Theorem srm_no_lost_wakeup : forall n ops q popped, SRM.run (SRM.mq0 n) ops = Some (q, popped) ->
  SRM.oq q = [] \/ SRM.pq q = [].
Proof. exact SRM.srm_mq_no_lost_wakeup. Qed.

(* a FIFO's semaphore never over- or under-promises *)
Theorem srm_sem_consistent : forall n ops q popped, SRM.run (SRM.mq0 n) ops = Some (q, popped) ->
  Forall (fun x => SRM.sem x + SRM.claimed x = length (SRM.items x)) (SRM.fifos q).
Proof. exact SRM.srm_mq_sem_consistent. Qed.

(* posting order: with one consumer, objects come out exactly in the order they were posted *)
Theorem srm_posting_order : forall ops q popped, forallb SRMorder.only_back ops = true ->
  SRM.run (SRM.mq0 1) ops = Some (q, popped) -> exists waiting, SRM.pushed ops = popped ++ waiting.
Proof. exact SRMorder.srm_posting_order. Qed.

(* refinement: the ring-layer model (head / tail / NULL-slot circular buffers; the one run in lockstep with the C) matches the
   deque-layer model step for step on every run the deque model enables, while no circular buffer is pushed beyond its
   capacity (the side condition the lockstep run evaluates on every state) *)
Theorem srm_ring_refines_deque : forall ops rq dq dq' ps, RingRefine.R rq dq -> RingRefine.room_along rq ops ->
  SRM.run dq ops = Some (dq', ps) ->
  snd (RingRefine.rrun rq ops) = ps /\ RingRefine.R (fst (RingRefine.rrun rq ops)) dq'.
Proof. exact RingRefine.ring_run_refines. Qed.

(* ... hence no lost wake-up at the ring layer: never (object queued and process waiting), with the C's own emptiness test *)
Theorem srm_ring_no_lost_wakeup : forall nobj nproc ops dq ps, 0 < nobj -> 0 < nproc ->
  RingRefine.room_along (SRMring.mq_new nobj nproc) ops -> SRM.run (SRM.mq0 nproc) ops = Some (dq, ps) ->
  SRMring.ring_empty (SRMring.oq (fst (RingRefine.rrun (SRMring.mq_new nobj nproc) ops))) = true \/
  SRMring.ring_empty (SRMring.pq (fst (RingRefine.rrun (SRMring.mq_new nobj nproc) ops))) = true.
Proof. exact RingRefine.ring_no_lost_wakeup. Qed.

(* atomicity of the steps: in every function of EbSystemResourceManager.c that takes a mutex (skeletons regenerated from the
   source, SVG.GuardGen), every queue operation and every write of a reference count / release flag / quit flag happens, on
   every path, while a mutex is held, and the function returns holding none; the three helpers that rely on their caller's
   critical section are analysed as entered with it and every call to them counts as such an access *)
Theorem srm_steps_are_critical_sections :
  forallb (fun f => GuardFlow.fn_ok (snd f)) SVG.GuardGen.guard_functions = true.
Proof. vm_compute. reflexivity. Qed.

Theorem srm_guard_meaning : forall body o, GuardFlow.fn_ok body = true -> GuardFlow.exec body [] o ->
  (o = GuardFlow.Normal [] \/ o = GuardFlow.Returned []) /\ o <> GuardFlow.Fault.
Proof. intros body o H He. split; [exact (GuardFlow.fn_ok_sound body o H He) | exact (GuardFlow.touch_guarded body H o He)]. Qed.

(* surplus releases: the release that returns an object to its pool leaves EB_ObjectWrapperReleasedValue in its count, and any
   number (below 2^32 - 1) of further releases of that wrapper before it is handed out again changes neither queue: the object
   is not duplicated in the pool and cannot reach two holders (ring-layer model, in lockstep with svt_release_object) *)
Theorem srm_released_object_is_protected : forall s x w n, nth_error (SRMring.wraps s) x = Some w ->
  (0 <= SRMring.live w <= 1)%Z -> SRMring.ren w = true -> (Z.of_nat n < SRMring.released_marker)%Z ->
  let s1 := fst (SRMring.step s (SRMring.Release x)) in
  SRMring.emptyq (SRMrelease.releases n s1 x) = SRMring.emptyq s1 /\ SRMring.fullq (SRMrelease.releases n s1 x) = SRMring.fullq s1.
Proof. exact SRMrelease.released_object_is_protected. Qed.

Theorem srm_release_pushes_only_on_last : forall s x w, nth_error (SRMring.wraps s) x = Some w -> (1 < SRMring.live w)%Z ->
  SRMring.step s (SRMring.Release x) =
  ({| SRMring.emptyq := SRMring.emptyq s; SRMring.fullq := SRMring.fullq s;
      SRMring.wraps := SRMring.set_nth (SRMring.wraps s) x {| SRMring.live := (SRMring.live w - 1)%Z; SRMring.ren := SRMring.ren w |} |}, SRMring.RNone).
Proof. exact SRMrelease.release_above_one_keeps_queues. Qed.
