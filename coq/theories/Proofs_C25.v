(* Proofs for C25 on the executable model ECrun (ideal range coder + byte output + adaptation). *)
From Coq Require Import ZArith Lia List Bool Arith.
From SV Require Import CInt ECideal ECcdf ECdone ECbits ECrun.
Import ListNotations.
Local Open Scope Z_scope.

(* ---------- validity of an operation list, followed along the writer ---------- *)
Definition eop_ok (ctxs : list (list Z)) (o : eop) : Prop :=
  icdf_ok (op_table ctxs o) /\ (op_symbol o < length (op_table ctxs o))%nat.

Fixpoint ops_ok (adapt : bool) (ctxs : list (list Z)) (ops : list eop) : Prop :=
  match ops with
  | [] => True
  | o :: rest => eop_ok ctxs o /\ ops_ok adapt (adapt_ctxs adapt ctxs o (op_symbol o)) rest
  end.

Lemma eop_ok_op_ok ctxs o : eop_ok ctxs o -> op_ok (thr_cdf (op_table ctxs o), op_symbol o).
Proof. intros [H1 H2]. apply icdf_ok_op_ok; assumption. Qed.

(* ---------- writer invariants ---------- *)
Definition sum_inv (st : est) : Prop := 0 <= eL st /\ eL st + eR st <= 2 ^ (15 + eS st) /\ 0 <= eS st.

Lemma sum_inv0 : sum_inv est0.
Proof. unfold sum_inv, est0; cbn [eL eR eS]. change (2 ^ (15 + 0)) with 32768. lia. Qed.

Lemma enc_step_sum st o : wf st -> op_ok o -> sum_inv st -> sum_inv (enc_step st o).
Proof.
  intros Hw Ho [HL [Hs HS]]. pose proof (step_facts st o Hw Ho) as F. cbn zeta in F.
  unfold sum_inv, enc_step; cbn [eL eR eS].
  set (u := upper _ _ _) in *. set (v := lower _ _) in *. set (d := norm_shift _) in *.
  destruct F as [Fv [Fu [Fd Fr]]].
  assert (Hp : 0 < 2 ^ d) by (apply Z.pow_pos_nonneg; lia).
  replace (15 + (eS st + d)) with ((15 + eS st) + d) by lia.
  rewrite Z.pow_add_r by lia.
  set (a := 2 ^ d) in *. set (b := 2 ^ (15 + eS st)) in *.
  split; [nia|]. split; [nia|lia].
Qed.

Lemma run_enc_cons adapt ctxs st o rest :
  run_enc adapt ctxs st (o :: rest) =
  let st' := enc_step st (thr_cdf (op_table ctxs o), op_symbol o) in
  let r := run_enc adapt (adapt_ctxs adapt ctxs o (op_symbol o)) st' rest in
  (fst (fst r), snd (fst r), tell st' :: snd r).
Proof. cbn [run_enc]. cbv zeta. destruct (run_enc adapt _ _ rest) as [[a b] c]. reflexivity. Qed.

Lemma run_enc_inv ops : forall adapt ctxs st, wf st -> sum_inv st -> ops_ok adapt ctxs ops ->
  wf (fst (fst (run_enc adapt ctxs st ops))) /\ sum_inv (fst (fst (run_enc adapt ctxs st ops))).
Proof.
  induction ops as [|o rest IH]; intros adapt ctxs st Hw Hs Hok.
  - cbn. auto.
  - destruct Hok as [Ho Hrest]. rewrite run_enc_cons. cbv zeta. cbn [fst snd].
    apply IH; auto using enc_step_wf, enc_step_sum, eop_ok_op_ok.
Qed.

Lemma run_enc_nest ops : forall adapt ctxs st P V, wf st -> ops_ok adapt ctxs ops ->
  inI (fst (fst (run_enc adapt ctxs st ops))) P V -> inI st P V.
Proof.
  induction ops as [|o rest IH]; intros adapt ctxs st P V Hw Hok Hin.
  - exact Hin.
  - destruct Hok as [Ho Hrest]. rewrite run_enc_cons in Hin. cbv zeta in Hin. cbn [fst snd] in Hin.
    apply (nest st (thr_cdf (op_table ctxs o), op_symbol o)); auto using eop_ok_op_ok.
    eapply IH; eauto using enc_step_wf, eop_ok_op_ok.
Qed.

(* ---------- the reader follows the writer: symbols and tables ---------- *)
Lemma dec_step_fast_eq ds f : 0 <= dK ds -> dec_step_fast ds f = dec_step ds f.
Proof.
  intros HK. unfold dec_step_fast, dec_step. rewrite Z.shiftr_div_pow2 by exact HK.
  rewrite Z.shiftl_mul_pow2 by exact HK. reflexivity.
Qed.

Lemma dst0_fast_eq P V : 0 <= P -> dst0_fast P V = dst0 P V.
Proof. intros HP. unfold dst0_fast, dst0. rewrite Z.shiftl_1_l. reflexivity. Qed.

Lemma run_dec_cons adapt ctxs ds o rest :
  run_dec adapt ctxs ds (o :: rest) =
  let r := dec_step_fast ds (thr_cdf (op_table ctxs o)) in
  let q := run_dec adapt (adapt_ctxs adapt ctxs o (fst r)) (snd r) rest in
  (fst r :: fst q, snd q).
Proof. cbn [run_dec]. cbv zeta. destruct (run_dec adapt _ _ rest) as [a b]. reflexivity. Qed.

Lemma run_follows ops : forall adapt ctxs st ds P V, wf st -> ops_ok adapt ctxs ops ->
  rel st ds P V -> inI (fst (fst (run_enc adapt ctxs st ops))) P V ->
  run_dec adapt ctxs ds ops = (map op_symbol ops, snd (fst (run_enc adapt ctxs st ops))).
Proof.
  induction ops as [|o rest IH]; intros adapt ctxs st ds P V Hw Hok Hrel Hin.
  - reflexivity.
  - destruct Hok as [Ho Hrest].
    assert (Hop := eop_ok_op_ok _ _ Ho).
    rewrite run_enc_cons in Hin |- *. cbv zeta in Hin |- *. cbn [fst snd] in Hin |- *.
    set (st' := enc_step st (thr_cdf (op_table ctxs o), op_symbol o)) in *.
    assert (Hin1 : inI st' P V).
    { eapply run_enc_nest; [apply enc_step_wf; eauto| exact Hrest | exact Hin]. }
    destruct (dec_step_correct st ds _ P V Hw Hop Hrel Hin1) as [Hs Hrel'].
    cbn [fst snd] in Hs, Hrel'.
    assert (HK : 0 <= dK ds).
    { destruct Hrel as [_ [HdK _]]. rewrite HdK. destruct Hin1 as [Hk1 _].
      pose proof (step_facts st _ Hw Hop) as F. cbn zeta in F. unfold st', enc_step in Hk1; cbn [eS] in Hk1. lia. }
    rewrite run_dec_cons. cbv zeta. rewrite (dec_step_fast_eq ds _ HK). rewrite Hs.
    rewrite (IH adapt _ st' _ P V); auto. unfold st'. apply enc_step_wf; auto.
Qed.

(* ---------- bytes ---------- *)
Lemma bytes_lsb_length n : forall x, length (bytes_lsb n x) = n.
Proof. induction n as [|k IH]; intros x; cbn [bytes_lsb length]; [reflexivity|]. rewrite IH. reflexivity. Qed.

Lemma to_bytes_length n x : length (to_bytes n x) = n.
Proof. unfold to_bytes. rewrite rev_length. apply bytes_lsb_length. Qed.

Definition val_lsb (l : list Z) : Z := fold_right (fun b acc => acc * 256 + b) 0 l.

Lemma bytes_value_rev l : bytes_value (rev l) = val_lsb l.
Proof. unfold bytes_value, val_lsb. rewrite fold_left_rev_right with (f := fun b acc => acc * 256 + b) (l := rev l) at 1 || idtac.
  rewrite <- (rev_involutive l) at 2. rewrite fold_left_rev_right. reflexivity. Qed.

Lemma val_lsb_mod n : forall x, val_lsb (bytes_lsb n x) = x mod 256 ^ Z.of_nat n.
Proof.
  induction n as [|k IH]; intros x.
  - cbn. rewrite Z.mod_1_r. reflexivity.
  - cbn [bytes_lsb val_lsb fold_right]. fold (val_lsb (bytes_lsb k (x / 256))). rewrite IH.
    assert (Hp : 0 < 256 ^ Z.of_nat k) by (apply Z.pow_pos_nonneg; lia).
    rewrite Nat2Z.inj_succ, Z.pow_succ_r by lia.
    rewrite Z.rem_mul_r by lia. lia.
Qed.

Lemma to_bytes_value n x : 0 <= x < 256 ^ Z.of_nat n -> bytes_value (to_bytes n x) = x.
Proof. intros Hx. unfold to_bytes. rewrite bytes_value_rev, val_lsb_mod. apply Z.mod_small. exact Hx. Qed.

Lemma nbytes_facts st : 0 <= eS st ->
  1 <= nbytes st /\ 7 <= done_shift st <= 14 /\ nbytes st = (tell st + 7) / 8.
Proof.
  intros HS. unfold done_shift, nbytes, tell. cbv zeta. remember (eS st) as S eqn:ES. clear ES st.
  unfold offs_of.
  destruct (S <=? 0) eqn:E0.
  - apply Z.leb_le in E0. assert (H0 : S = 0) by lia. subst S. vm_compute. repeat split; discriminate.
  - apply Z.leb_gt in E0. rename E0 into H0.
    pose proof (Z.div_mod (S - 1) 8 ltac:(lia)) as E. pose proof (Z.mod_pos_bound (S - 1) 8 ltac:(lia)) as B.
    set (q := (S - 1) / 8) in *. set (r := (S - 1) mod 8) in *.
    assert (E2 : (S + 1 + 7) / 8 = q + (if r =? 7 then 2 else 1)).
    { destruct (Z.eqb_spec r 7) as [R7|R7].
      - symmetry. apply Z.div_unique with (r := 0); lia.
      - symmetry. apply Z.div_unique with (r := r + 1); lia. }
    rewrite E2.
    replace (S - 9 - 8 * q =? -1) with (r =? 7).
    2:{ destruct (Z.eqb_spec r 7); destruct (Z.eqb_spec (S - 9 - 8 * q) (-1)); lia. }
    destruct (Z.eqb_spec r 7); lia.
Qed.

Lemma done_e_div st : 0 <= eL st -> 7 <= done_shift st <= 14 ->
  out_value st * 2 ^ done_shift st = done_ar (eL st).
Proof.
  intros HL Hs. unfold out_value. rewrite done_e_is_done_ar by exact HL.
  destruct (done_ar_bounds (eL st) HL) as [_ Hm].
  set (p := done_shift st) in *. set (e := done_ar (eL st)) in *.
  assert (Hdiv : e mod 2 ^ p = 0).
  { apply Z.mod_divide; [apply Z.pow_nonzero; lia|].
    apply Z.mod_divide in Hm; [|lia]. destruct Hm as [k Hk].
    exists (k * 2 ^ (14 - p)). rewrite Hk. change 16384 with (2 ^ 14).
    replace (2 ^ 14) with (2 ^ (14 - p) * 2 ^ p) by (rewrite <- Z.pow_add_r by lia; f_equal; lia). lia. }
  pose proof (Z.div_mod e (2 ^ p) ltac:(apply Z.pow_nonzero; lia)). lia.
Qed.

Lemma bytes_in_interval st : wf st -> sum_inv st ->
  let nb := nbytes st in
  length (done_bytes st) = Z.to_nat nb /\
  inI st (8 * nb + 16) (bytes_value (done_bytes st) * 2 ^ 16).
Proof.
  intros Hw [HL [Hsum HS]]. cbv zeta.
  destruct (nbytes_facts st HS) as [Hnb [Hp _]].
  split; [unfold done_bytes; apply to_bytes_length|].
  pose proof (done_e_div st HL Hp) as Hdiv.
  destruct (done_ar_bounds (eL st) HL) as [[Hlo Hhi] _].
  set (p := done_shift st) in *. set (nb := nbytes st) in *.
  assert (Hpe : p = 15 + eS st - 8 * nb) by reflexivity.
  assert (H2p : 0 < 2 ^ p) by (apply Z.pow_pos_nonneg; lia).
  assert (Hov : 0 <= out_value st < 256 ^ Z.of_nat (Z.to_nat nb)).
  { rewrite Z2Nat.id by lia. change 256 with (2 ^ 8). rewrite <- Z.pow_mul_r by lia.
    unfold wf in Hw.
    assert (done_ar (eL st) < 2 ^ (15 + eS st)) by lia.
    replace (15 + eS st) with (8 * nb + p) in H by lia.
    rewrite Z.pow_add_r in H by lia.
    set (a := 2 ^ (8 * nb)) in *. set (b := 2 ^ p) in *. set (o := out_value st) in *.
    assert (0 < a) by (apply Z.pow_pos_nonneg; lia).
    split; nia. }
  unfold done_bytes. rewrite to_bytes_value by exact Hov.
  unfold inI. replace (8 * nb + 16 - 15 - eS st) with (16 - p) by lia.
  split; [lia|].
  assert (E16 : 2 ^ 16 = 2 ^ p * 2 ^ (16 - p)) by (rewrite <- Z.pow_add_r by lia; f_equal; lia).
  rewrite E16. set (b := 2 ^ p) in *. set (c := 2 ^ (16 - p)) in *.
  assert (0 < c) by (apply Z.pow_pos_nonneg; lia).
  unfold wf in Hw. set (o := out_value st) in *. nia.
Qed.

(* ---------- the property ---------- *)
Theorem roundtrip_bytes adapt ctxs ops : ops_ok adapt ctxs ops ->
  let w := run_enc adapt ctxs est0 ops in
  decode_bytes adapt ctxs (encode_bytes adapt ctxs ops) ops = (map op_symbol ops, snd (fst w)).
Proof.
  intros Hok. cbv zeta. unfold decode_bytes, encode_bytes.
  assert (Hw0 : wf est0) by (unfold wf, est0; cbn; lia).
  destruct (run_enc_inv ops adapt ctxs est0 Hw0 sum_inv0 Hok) as [Hwf Hsf].
  set (stf := fst (fst (run_enc adapt ctxs est0 ops))) in *.
  destruct (bytes_in_interval stf Hwf Hsf) as [Hlen Hin]. cbv zeta in Hlen, Hin.
  rewrite Hlen. destruct Hsf as [? [? HS]]. destruct (nbytes_facts stf HS) as [Hnb _].
  rewrite Z2Nat.id by lia. rewrite dst0_fast_eq by lia. rewrite Z.shiftl_mul_pow2 by lia.
  eapply (run_follows ops adapt ctxs est0 _ (8 * nbytes stf + 16) (bytes_value (done_bytes stf) * 2 ^ 16) Hw0 Hok); [|exact Hin].
  apply rel0. lia.
Qed.

Theorem tell_covers adapt ctxs ops : ops_ok adapt ctxs ops ->
  let stf := fst (fst (run_enc adapt ctxs est0 ops)) in
  Z.of_nat (length (done_bytes stf)) = (tell stf + 7) / 8 /\ tell stf <= 8 * Z.of_nat (length (done_bytes stf)).
Proof.
  intros Hok. cbv zeta.
  assert (Hw0 : wf est0) by (unfold wf, est0; cbn; lia).
  destruct (run_enc_inv ops adapt ctxs est0 Hw0 sum_inv0 Hok) as [Hwf Hsf].
  set (stf := fst (fst (run_enc adapt ctxs est0 ops))) in *.
  destruct (bytes_in_interval stf Hwf Hsf) as [Hlen _]. cbv zeta in Hlen.
  destruct Hsf as [? [? HS]]. destruct (nbytes_facts stf HS) as [Hnb [_ Ht]].
  rewrite Hlen, Z2Nat.id by lia. split; [exact Ht|].
  rewrite Ht. pose proof (Z.div_mod (tell stf + 7) 8 ltac:(lia)). pose proof (Z.mod_pos_bound (tell stf + 7) 8 ltac:(lia)). lia.
Qed.

(* tell never decreases along the writer *)
Lemma tell_mono st o : wf st -> op_ok o -> tell st <= tell (enc_step st o).
Proof.
  intros Hw Ho. pose proof (step_facts st o Hw Ho) as F. cbn zeta in F. unfold tell, enc_step; cbn [eS]. lia.
Qed.

(* ---------- decidable validity (used for non-vacuity and by the correspondence driver) ---------- *)
Fixpoint nonincb (l : list Z) : bool :=
  match l with
  | a :: ((b :: _) as t) => (b <=? a) && nonincb t
  | _ => true
  end.
Definition icdf_okb (icdf : list Z) : bool :=
  (2 <=? length icdf)%nat && (length icdf <=? 16)%nat && nonincb icdf &&
  forallb (fun x => (0 <=? x) && (x <? 32768)) icdf && (last icdf 1 =? 0).
Definition eop_okb (ctxs : list (list Z)) (o : eop) : bool :=
  icdf_okb (op_table ctxs o) && (op_symbol o <? length (op_table ctxs o))%nat.
Fixpoint ops_okb (adapt : bool) (ctxs : list (list Z)) (ops : list eop) : bool :=
  match ops with
  | [] => true
  | o :: rest => eop_okb ctxs o && ops_okb adapt (adapt_ctxs adapt ctxs o (op_symbol o)) rest
  end.

Lemma nonincb_sound l : nonincb l = true -> noninc l.
Proof.
  induction l as [|a [|b t] IH]; cbn [nonincb noninc]; auto.
  intros H. apply andb_true_iff in H. destruct H as [H1 H2]. split; [apply Z.leb_le; exact H1|apply IH; exact H2].
Qed.

Lemma icdf_okb_sound l : icdf_okb l = true -> icdf_ok l.
Proof.
  unfold icdf_okb, icdf_ok. intros H.
  repeat (apply andb_true_iff in H; destruct H as [H ?]).
  repeat split.
  - apply Nat.leb_le. assumption.
  - apply Nat.leb_le. assumption.
  - apply nonincb_sound. assumption.
  - apply Forall_forall. intros x Hx.
    match goal with Hf : forallb _ _ = true |- _ => rewrite forallb_forall in Hf; specialize (Hf x Hx);
      apply andb_true_iff in Hf; destruct Hf as [Ha Hb]; apply Z.leb_le in Ha; apply Z.ltb_lt in Hb; lia end.
  - apply Z.eqb_eq. assumption.
Qed.

Lemma ops_okb_sound ops : forall adapt ctxs, ops_okb adapt ctxs ops = true -> ops_ok adapt ctxs ops.
Proof.
  induction ops as [|o rest IH]; intros adapt ctxs H; cbn [ops_okb ops_ok] in *; [exact I|].
  apply andb_true_iff in H. destruct H as [H1 H2]. split; [|apply IH; exact H2].
  unfold eop_okb in H1. apply andb_true_iff in H1. destruct H1 as [Ha Hb].
  split; [apply icdf_okb_sound; exact Ha|apply Nat.ltb_lt; exact Hb].
Qed.

(* non-vacuity: a concrete adaptive case with a 3-symbol context and a boolean *)
Example ops_ok_example :
  ops_ok true [[20000; 10000; 0; 0]] [OpSym 0 1; OpSym 0 2; OpBool 16384 true; OpSym 0 0].
Proof. apply ops_okb_sound. vm_compute. reflexivity. Qed.

Example roundtrip_example :
  decode_bytes true [[20000; 10000; 0; 0]] [167] [OpSym 0 1; OpSym 0 2; OpBool 16384 true; OpSym 0 0]
  = ([1; 2; 1; 0]%nat, [[20200; 10160; 0; 3]])
  /\ encode_bytes true [[20000; 10000; 0; 0]] [OpSym 0 1; OpSym 0 2; OpBool 16384 true; OpSym 0 0] = [167].
Proof. vm_compute. split; reflexivity. Qed.
