(* C15 - teardown at any point releases every resource.
   gen/FieldsGen.v (regenerated on every run): every structure field named in an allocation macro of the encoder / common
   sources, with the number of allocation and release sites; CtorCalc.v: the constructor / destructor discipline. *)
From Coq Require Import Arith List Bool.
From SV Require Import CtorCalc Properties_C16.
From SVG Require Import FieldsGen.
Import ListNotations.

(* no field is allocated somewhere and released nowhere (except the fields listed as recorded exceptions / findings) *)
Theorem c15_every_allocated_field_has_a_release_site :
  forallb (fun r => let '(i, a, f) := r in (a =? 0) || (0 <? f) || existsb (Nat.eqb i) field_findings) field_table = true.
Proof. vm_compute. reflexivity. Qed.

(* destroying what a safe constructor built gives every resource back, exactly once *)
Theorem c15_build_then_destroy_restores : forall c b h h' b' owned, Safe c -> heap_ok h -> c b h = (h', b', Some owned) ->
  live (free_all owned h') = live h /\ bad (free_all owned h') = bad h.
Proof. exact Properties_C16.c15_build_then_destroy_restores. Qed.
