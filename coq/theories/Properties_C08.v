(* C08 - the decoder's output matches the reference.
   Proved here: the film-grain random number generator of grainSynthesis.c (regenerated from the C source on every run) is the
   LFSR of the AV1 specification, for every register value and every bit count. Everything else about C08 is decided by
   comparing the decoder's pictures with the encoder's reconstruction (an independent implementation of the decoding process
   up to film-grain synthesis, which both share) over the configurations of the check. *)
From Coq Require Import ZArith.
From SV Require Import GrainSpec.
From SVG Require Import GrainGen.
Local Open Scope Z_scope.

Theorem c08_grain_rng_matches_spec : forall r bits, 0 <= r < 65536 -> 1 <= bits <= 16 -> grain_rand r bits = spec_rand r bits.
Proof. exact grain_rand_matches_spec. Qed.
