(* C18 — frame quantizers stay within the configured QP bounds. *)
From Coq Require Import ZArith List Bool.
From SV Require Import Monitors QPClamp.
Import ListNotations.
Local Open Scope Z_scope.

(* the clamp stage after rate control: whatever value rate control / QP scaling produces, the index written to the
   frame header lies between the indices of the configured minimum and maximum QP *)
Theorem c18_qidx_in_bounds : forall minqp maxqp qp b, 0 <= minqp -> minqp <= maxqp -> maxqp <= 63 -> rc_branch b = true ->
  qidx minqp <= base_q_idx minqp maxqp qp b <= qidx maxqp.
Proof. exact qidx_in_bounds. Qed.

Theorem c18_cqp_exact : forall minqp maxqp qp, base_q_idx minqp maxqp qp CqpFixed = qidx qp.
Proof. exact cqp_exact. Qed.

(* the monitor applied to the base_q_idx of every coded frame of a real stream *)
Theorem c18_bounds_monitor_sound : forall lo hi qs, check_c18_bounds lo hi qs = true <-> C18_bounds_spec lo hi qs.
Proof. exact check_c18_bounds_sound. Qed.
