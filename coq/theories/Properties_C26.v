(* C26 — reported per-frame SSE values are exact (as 32-bit values). *)
From Coq Require Import ZArith List Bool.
From SV Require Import Monitors.
Import ListNotations.
Local Open Scope Z_scope.

Theorem c26_monitor_sound : forall reported recomputed, check_c26 reported recomputed = true <-> C26_spec reported recomputed.
Proof. exact check_c26_sound. Qed.

(* the recomputation itself (sum of squared differences over the visible samples) cannot overflow 64 bits for any
   picture the encoder accepts: 4096 x 2160 samples of at most (2^16-1)^2 each *)
Theorem c26_no_64bit_overflow : 4096 * 2160 * ((2 ^ 16 - 1) * (2 ^ 16 - 1)) < 2 ^ 64.
Proof. reflexivity. Qed.
