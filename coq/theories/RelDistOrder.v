(* What the distance helper is for: pictures carry only their number modulo 2^bits (the order hint); as long as two pictures are
   less than half a period apart, the helper applied to their hints gives their TRUE signed distance, before and after the wrap.
   A plain `<` on the hints does not (refuted with the pictures of seed C22d: 128 and 112 with 7 bits). *)
From Coq Require Import ZArith Lia.
From SV Require Import RelDistSpec.
Local Open Scope Z_scope.

Lemma congruent_in_window x y m : 0 < m -> (x - y) mod m = 0 -> - m < x - y < m -> x = y.
Proof.
  intros Hm Hmod Hw. apply Z.mod_divide in Hmod; [|lia]. destruct Hmod as [k Hk].
  assert (k = 0) by nia. subst k. lia.
Qed.

Theorem rel_dist_recovers_true_distance bits A B : 1 <= bits ->
  - 2 ^ (bits - 1) <= A - B < 2 ^ (bits - 1) ->
  rel_dist bits (A mod 2 ^ bits) (B mod 2 ^ bits) = A - B.
Proof.
  intros Hb Hd.
  assert (Hp : 0 < 2 ^ bits) by (apply Z.pow_pos_nonneg; lia).
  assert (Hh : 2 ^ bits = 2 ^ (bits - 1) * 2).
  { rewrite Z.mul_comm, <- (Z.pow_succ_r 2 (bits - 1)) by lia. f_equal. lia. }
  destruct (rel_dist_spec bits (A mod 2 ^ bits) (B mod 2 ^ bits) Hb) as [Hc Hr]. cbn zeta in Hc, Hr.
  set (r := rel_dist bits (A mod 2 ^ bits) (B mod 2 ^ bits)) in *.
  apply (congruent_in_window r (A - B) (2 ^ bits) Hp); [|lia].
  replace (r - (A - B)) with ((r - (A mod 2 ^ bits - B mod 2 ^ bits)) + ((A mod 2 ^ bits - A) - (B mod 2 ^ bits - B))) by lia.
  rewrite Z.add_mod by lia. rewrite Hc. rewrite Z.add_0_l, Z.mod_mod by lia.
  pose proof (Z.div_mod A (2 ^ bits) ltac:(lia)) as EA. pose proof (Z.div_mod B (2 ^ bits) ltac:(lia)) as EB.
  replace (A mod 2 ^ bits - A - (B mod 2 ^ bits - B)) with ((B / 2 ^ bits - A / 2 ^ bits) * 2 ^ bits) by lia.
  apply Z.mod_mul. lia.
Qed.

(* hence the sign of the helper orders any two pictures less than half a period apart *)
Corollary rel_dist_orders bits A B : 1 <= bits -> - 2 ^ (bits - 1) <= A - B < 2 ^ (bits - 1) ->
  (rel_dist bits (A mod 2 ^ bits) (B mod 2 ^ bits) <? 0) = (A <? B).
Proof.
  intros Hb Hd. rewrite (rel_dist_recovers_true_distance bits A B Hb Hd).
  destruct (Z.ltb_spec (A - B) 0), (Z.ltb_spec A B); try reflexivity; lia.
Qed.

(* a plain comparison of the hints is wrong across the wrap *)
Theorem plain_hint_comparison_refuted : exists bits A B, 1 <= bits <= 8 /\ - 2 ^ (bits - 1) <= A - B < 2 ^ (bits - 1) /\
  (A mod 2 ^ bits <? B mod 2 ^ bits) <> (A <? B).
Proof. exists 7, 128, 112. vm_compute. repeat split; congruence. Qed.

(* the same for any function meeting the specification proved of the five C copies (Properties_C22.rel_dist_all_copies) *)
Lemma spec_recovers_true_distance bits A B r : 1 <= bits ->
  - 2 ^ (bits - 1) <= A - B < 2 ^ (bits - 1) ->
  (r - (A mod 2 ^ bits - B mod 2 ^ bits)) mod 2 ^ bits = 0 -> - 2 ^ (bits - 1) <= r < 2 ^ (bits - 1) -> r = A - B.
Proof.
  intros Hb Hd Hc Hr.
  assert (Hp : 0 < 2 ^ bits) by (apply Z.pow_pos_nonneg; lia).
  assert (Hh : 2 ^ bits = 2 ^ (bits - 1) * 2).
  { rewrite Z.mul_comm, <- (Z.pow_succ_r 2 (bits - 1)) by lia. f_equal. lia. }
  apply (congruent_in_window r (A - B) (2 ^ bits) Hp); [|lia].
  replace (r - (A - B)) with ((r - (A mod 2 ^ bits - B mod 2 ^ bits)) + ((A mod 2 ^ bits - A) - (B mod 2 ^ bits - B))) by lia.
  rewrite Z.add_mod by lia. rewrite Hc. rewrite Z.add_0_l, Z.mod_mod by lia.
  pose proof (Z.div_mod A (2 ^ bits) ltac:(lia)) as EA. pose proof (Z.div_mod B (2 ^ bits) ltac:(lia)) as EB.
  replace (A mod 2 ^ bits - A - (B mod 2 ^ bits - B)) with ((B / 2 ^ bits - A / 2 ^ bits) * 2 ^ bits) by lia.
  apply Z.mod_mul. lia.
Qed.

From Coq Require Import List.
Lemma copies_recover_true_distance (l : list (Z -> Z -> Z -> Z -> Z)) :
  Forall (fun f : Z -> Z -> Z -> Z -> Z =>
    forall en bits a b, 1 <= bits <= 31 ->
      (en <> 0 -> let r := f en bits a b in
                  (r - (a - b)) mod 2 ^ bits = 0 /\ - 2 ^ (bits - 1) <= r < 2 ^ (bits - 1)) /\
      (en = 0 -> f en bits a b = 0)) l ->
  Forall (fun f : Z -> Z -> Z -> Z -> Z =>
    forall en bits A B, en <> 0 -> 1 <= bits <= 31 -> - 2 ^ (bits - 1) <= A - B < 2 ^ (bits - 1) ->
      f en bits (A mod 2 ^ bits) (B mod 2 ^ bits) = A - B /\
      (f en bits (A mod 2 ^ bits) (B mod 2 ^ bits) <? 0) = (A <? B)) l.
Proof.
  intros H. eapply Forall_impl; [|exact H]. intros f Hf en bits A B Hen Hb Hd.
  destruct (Hf en bits (A mod 2 ^ bits) (B mod 2 ^ bits) Hb) as [H1 _]. specialize (H1 Hen). cbn zeta in H1. destruct H1 as [Hc Hr].
  assert (E : f en bits (A mod 2 ^ bits) (B mod 2 ^ bits) = A - B) by (apply (spec_recovers_true_distance bits A B); [lia|assumption..]).
  split; [exact E|]. rewrite E. destruct (Z.ltb_spec (A - B) 0), (Z.ltb_spec A B); try reflexivity; lia.
Qed.
