From Coq Require Import ZArith Lia List Bool.
Local Open Scope Z_scope.

(* get_relative_dist as written in the five copies: diff = a - b; m = 1 << (bits-1);
   diff = (diff & (m-1)) - (diff & m) *)
Definition rel_dist (bits a b : Z) : Z :=
  let diff := a - b in let m := Z.shiftl 1 (bits - 1) in
  Z.land diff (m - 1) - Z.land diff m.

Lemma land_pow2 d n : 0 <= n -> Z.land d (2 ^ n) = if Z.testbit d n then 2 ^ n else 0.
Proof.
  intros Hn. apply Z.bits_inj'. intros k Hk. rewrite Z.land_spec, Z.pow2_bits_eqb by lia.
  destruct (Z.eqb_spec n k) as [->|Hne].
  - destruct (Z.testbit d k) eqn:E; [rewrite Z.pow2_bits_true by lia; reflexivity | rewrite Z.bits_0; reflexivity].
  - rewrite andb_false_r. destruct (Z.testbit d n); [rewrite Z.pow2_bits_false by lia; reflexivity | rewrite Z.bits_0; reflexivity].
Qed.

Lemma rel_aux d n : 0 <= n ->
  let r := Z.land d (2 ^ n - 1) - Z.land d (2 ^ n) in
  (r - d) mod (2 ^ n * 2) = 0 /\ - 2 ^ n <= r < 2 ^ n.
Proof.
  intros Hn. cbn zeta.
  assert (Hm: 0 < 2 ^ n) by (apply Z.pow_pos_nonneg; lia).
  replace (2 ^ n - 1) with (Z.ones n) by (rewrite Z.ones_equiv; reflexivity).
  rewrite Z.land_ones by lia. rewrite land_pow2 by lia. rewrite Z.testbit_eqb by lia.
  set (m := 2 ^ n) in *.
  pose proof (Z.div_mod d m ltac:(lia)) as E. pose proof (Z.mod_pos_bound d m Hm) as Hr.
  pose proof (Z.div_mod (d / m) 2 ltac:(lia)) as E2. pose proof (Z.mod_pos_bound (d / m) 2 ltac:(lia)) as Hr2.
  set (q := d / m) in *. set (lo := d mod m) in *. set (q2 := q / 2) in *. set (bt := q mod 2) in *.
  destruct (Z.eqb_spec bt 1) as [Hb1|Hb0].
  - split; [|lia]. replace (lo - m - d) with ((- q2 - 1) * (m * 2)) by nia. apply Z.mod_mul. lia.
  - assert (bt = 0) by lia. split; [|lia]. replace (lo - 0 - d) with ((- q2) * (m * 2)) by nia. apply Z.mod_mul. lia.
Qed.

Theorem rel_dist_spec bits a b : 1 <= bits ->
  let r := rel_dist bits a b in
  (r - (a - b)) mod 2 ^ bits = 0 /\ - 2 ^ (bits - 1) <= r < 2 ^ (bits - 1).
Proof.
  intros Hb. cbn zeta. unfold rel_dist. rewrite Z.shiftl_1_l.
  destruct (rel_aux (a - b) (bits - 1) ltac:(lia)) as [H1 H2]. cbn zeta in H1, H2.
  split; [|exact H2].
  replace (2 ^ bits) with (2 ^ (bits - 1) * 2); [exact H1|].
  rewrite Z.mul_comm, <- (Z.pow_succ_r 2 (bits - 1)) by lia. f_equal. lia.
Qed.
Print Assumptions rel_dist_spec.
