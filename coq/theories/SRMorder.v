From Coq Require Import List Arith Lia Bool Permutation.
From SV Require Import SRM.
Import ListNotations.

(* FIFO order on a queue with a single consumer FIFO (the application's packet and recon queues):
   objects come out in exactly the order they were posted. *)
Definition only_back (o : op) : bool := match o with PushFront _ => false | _ => true end.

Definition line (q : mq) : list obj :=      (* what is queued, oldest first *)
  match fifos q with [f] => items f ++ oq q | _ => [] end.

Lemma assign_loop_line os : forall ps f a b c,
  Forall (fun i => i = 0) ps -> assign_loop os ps [f] = (a, b, c) ->
  exists f', c = [f'] /\ items f' ++ a = items f ++ os /\ Forall (fun i => i = 0) b.
Proof.
  induction os as [|o os IH]; intros ps f a b c Hp E; cbn in E.
  - inversion E; subst. exists f; auto.
  - destruct ps as [|i ps]; [inversion E; subst; exists f; auto|].
    inversion Hp as [|? ? Hi Hps]; subst. cbn [give nth_error firstn skipn app] in E.
    destruct (IH ps _ a b c Hps E) as [f' [E1 [E2 E3]]]. exists f'. split; auto. split; auto.
    rewrite E2. cbn [items]. rewrite <- app_assoc. reflexivity.
Qed.

Definition single (q : mq) : Prop := (exists f, fifos q = [f]) /\ Forall (fun i => i = 0) (pq q).

Lemma assign_line q : single q -> single (assign q) /\ line (assign q) = line q.
Proof.
  intros [[f Hf] Hp]. unfold assign, line. rewrite Hf.
  destruct (assign_loop (oq q) (pq q) [f]) as [[a b] c] eqn:E.
  destruct (assign_loop_line (oq q) (pq q) f a b c Hp E) as [f' [E1 [E2 E3]]]. subst c. cbn.
  split; [|exact E2]. split; [exists f'; reflexivity|exact E3].
Qed.

Theorem srm_fifo_order ops : forallb only_back ops = true -> forall q q' ps,
  single q -> run q ops = Some (q', ps) ->
  single q' /\ ps ++ line q' = line q ++ pushed ops.
Proof.
  induction ops as [|o ops IH]; intros Hb q q' ps Hs Hr; cbn in Hr.
  - inversion Hr; subst. cbn. rewrite app_nil_r. auto.
  - cbn in Hb. apply andb_prop in Hb. destruct Hb as [Ho Hb].
    destruct (step q o) as [[q1 r]|] eqn:Es; [|discriminate].
    destruct (run q1 ops) as [[q2 ps2]|] eqn:Er; [|discriminate]. inversion Hr; subst; clear Hr.
    assert (H1: single q1 /\ popped_of r ++ line q1 = line q ++ pushed_of o).
    { destruct Hs as [[f Hf] Hp]. destruct q as [qo qp qf]. cbn [fifos oq pq] in *. subst qf.
      destruct o as [x|x|i|i|i]; cbn [step fifos oq pq] in Es; try discriminate.
      - inversion Es; subst; clear Es.
        destruct (assign_line {| oq := qo ++ [x]; pq := qp; fifos := [f] |}) as [S1 L1]; [split; [exists f; auto|auto]|].
        split; auto. cbn [popped_of pushed_of app]. rewrite L1. unfold line; cbn. rewrite app_assoc. reflexivity.
      - cbn [length] in Es. destruct (Nat.ltb_spec i 1) as [Hi|Hi]; [|discriminate].
        assert (i = 0) by lia. subst i. inversion Es; subst; clear Es.
        destruct (assign_line {| oq := qo; pq := 0 :: qp; fifos := [f] |}) as [S1 L1]; [split; [exists f; auto|constructor; auto]|].
        split; auto. cbn [popped_of pushed_of app]. rewrite L1. unfold line; cbn. rewrite app_nil_r. reflexivity.
      - destruct i as [|i]; cbn [nth_error] in Es; [|destruct i; discriminate].
        destruct (sem f) as [|n]; [discriminate|]. inversion Es; subst; clear Es.
        split; [split; [eexists; reflexivity|exact Hp]|]. cbn. unfold line; cbn. rewrite app_nil_r. reflexivity.
      - destruct i as [|i]; cbn [nth_error] in Es; [|destruct i; discriminate].
        destruct (items f) as [|it rest] eqn:Ei; [discriminate|]. destruct (claimed f); [discriminate|].
        inversion Es; subst; clear Es.
        split; [split; [eexists; reflexivity|exact Hp]|]. cbn. unfold line; cbn. rewrite Ei, app_nil_r. reflexivity. }
    destruct H1 as [S1 L1]. destruct (IH Hb q1 q' ps2 S1 Er) as [S2 L2]. split; auto.
    cbn [pushed flat_map]. fold (pushed ops). rewrite <- app_assoc, L2, app_assoc, L1, <- app_assoc. reflexivity.
Qed.

(* from the empty queue: what has come out is a prefix of what was posted, in posting order *)
Corollary srm_posting_order ops q ps : forallb only_back ops = true -> run (mq0 1) ops = Some (q, ps) ->
  exists waiting, pushed ops = ps ++ waiting.
Proof.
  intros Hb Hr. assert (S0: single (mq0 1)) by (split; [eexists; reflexivity|constructor]).
  destruct (srm_fifo_order ops Hb (mq0 1) q ps S0 Hr) as [_ L]. cbn in L. exists (line q). symmetry. exact L.
Qed.
Print Assumptions srm_posting_order.
