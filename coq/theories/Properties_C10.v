(* C10 - the decoder survives arbitrary input bytes.
   What is proved is about the OBU walk of OBU.v (the model the mutation generator of the check uses to locate headers, size
   fields and payloads; validated against real packets by C02): on ANY byte string it either fails or splits off one OBU made
   of bytes of the input only, consuming at least two and at most all of them - it cannot loop or look past the end.
   Memory safety and termination of the real decoder are decided by the sanitizer runs of the check, not by theorems. *)
From Coq Require Import ZArith List Lia.
From SV Require Import Leb128 OBU Proofs_C02.
Import ListNotations.

Theorem c10_obu_walk_in_bounds : forall bs o rest, parse_obu bs = Some (o, rest) ->
  bs = obu_raw o ++ rest /\ (2 <= length (obu_raw o))%nat /\ (length rest < length bs)%nat.
Proof.
  intros bs o rest H. destruct (parse_obu_raw bs o rest H) as (E & _ & _ & Hs & Hh). split; [exact E|].
  assert (L : (2 <= length (obu_raw o))%nat).
  { unfold obu_raw. rewrite !app_length. lia. }
  split; [exact L|]. assert (El : length bs = (length (obu_raw o) + length rest)%nat) by (rewrite E at 1; apply app_length). lia.
Qed.
