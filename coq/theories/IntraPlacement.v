From Coq Require Import Arith Lia List Bool PeanoNat.
Import ListNotations.

(* ---- C19 part 1: the intra-period counter of picture decision (CQP / no scene change) ----
   per picture, in order:
     flagged  := first picture || (position == P)
     position := (position == P) ? 0 : position + 1
     after the first picture the position is reset to 0                                    *)
Section Period.
Variable P : nat.
Hypothesis HP : 1 <= P.

Definition flagged (k pos : nat) : bool := (k =? 0) || (pos =? P).
Definition next_pos (k pos : nat) : nat :=
  if k =? 0 then 0 else if pos =? P then 0 else pos + 1.

Fixpoint pos_at (k : nat) : nat :=       (* position seen by picture k *)
  match k with
  | 0 => 0
  | S k' => next_pos k' (pos_at k')
  end.

Lemma pos_at_spec k : 1 <= k -> pos_at k = (k - 1) mod (P + 1).
Proof.
  induction k as [|k IH]; [lia|]. intros _. cbn [pos_at]. unfold next_pos.
  destruct (Nat.eqb_spec k 0) as [->|Hk].
  - cbn. rewrite Nat.mod_small; lia.
  - rewrite IH by lia. replace (S k - 1) with (S (k - 1)) by lia.
    pose proof (Nat.mod_upper_bound (k - 1) (P + 1) ltac:(lia)) as Hb.
    destruct (Nat.eqb_spec ((k - 1) mod (P + 1)) P) as [E|E].
    + (* wrap *)
      symmetry. 
      pose proof (Nat.div_mod (k - 1) (P + 1) ltac:(lia)) as D. rewrite E in D.
      replace (S (k - 1)) with (((k - 1) / (P + 1) + 1) * (P + 1)) by lia.
      apply Nat.mod_mul. lia.
    + pose proof (Nat.div_mod (k - 1) (P + 1) ltac:(lia)) as D.
      apply Nat.mod_unique with ((k - 1) / (P + 1)); lia.
Qed.

Theorem intra_placement k : flagged k (pos_at k) = true <-> k mod (P + 1) = 0.
Proof.
  unfold flagged. destruct (Nat.eqb_spec k 0) as [->|Hk].
  - cbn. rewrite Nat.mod_0_l by lia. tauto.
  - cbn [orb]. rewrite pos_at_spec by lia.
    pose proof (Nat.div_mod (k - 1) (P + 1) ltac:(lia)) as D.
    pose proof (Nat.mod_upper_bound (k - 1) (P + 1) ltac:(lia)) as Hb.
    split.
    + intros E. apply Nat.eqb_eq in E. rewrite E in D.
      replace k with (((k - 1) / (P + 1) + 1) * (P + 1)) by lia. apply Nat.mod_mul. lia.
    + intros E. apply Nat.eqb_eq.
      pose proof (Nat.div_mod k (P + 1) ltac:(lia)) as D2. rewrite E in D2.
      assert (1 <= k / (P + 1)) by (destruct (k / (P + 1)); lia).
      symmetry. apply Nat.mod_unique with (k / (P + 1) - 1); nia.
Qed.
End Period.
Print Assumptions intra_placement.

(* ---- C19 part 2: decoding a suffix that starts at a random-access point ---- *)
Section Suffix.
Variables pic payload : Type.
Variable F : payload -> list (option pic) -> pic.      (* any decoding function *)

Inductive frame :=
| Coded (pl : payload) (refs : list nat) (refresh : list nat) (shown : bool)
| ShowExisting (slot : nat).

Definition dpb := nat -> option pic.
Definition set_slots (d : dpb) (rs : list nat) (p : pic) : dpb :=
  fun i => if existsb (Nat.eqb i) rs then Some p else d i.

Fixpoint decode (d : dpb) (fs : list frame) : list (option pic) :=
  match fs with
  | [] => []
  | Coded pl refs refresh shown :: rest =>
      let p := F pl (map d refs) in
      (if shown then [Some p] else []) ++ decode (set_slots d refresh p) rest
  | ShowExisting slot :: rest => d slot :: decode d rest
  end.

(* every frame only reads slots written since the random-access point *)
Fixpoint closed (known : list nat) (fs : list frame) : Prop :=
  match fs with
  | [] => True
  | Coded _ refs refresh _ :: rest => incl refs known /\ closed (refresh ++ known) rest
  | ShowExisting slot :: rest => In slot known /\ closed known rest
  end.

Lemma map_agree (d1 d2 : dpb) known refs :
  (forall i, In i known -> d1 i = d2 i) -> incl refs known -> map d1 refs = map d2 refs.
Proof. intros Ha Hi. apply map_ext_in. intros i Hin. apply Ha, Hi, Hin. Qed.

Theorem closed_gop_suffix fs : forall known d1 d2,
  (forall i, In i known -> d1 i = d2 i) -> closed known fs -> decode d1 fs = decode d2 fs.
Proof.
  induction fs as [|f rest IH]; intros known d1 d2 Ha Hc; [reflexivity|].
  destruct f as [pl refs refresh shown|slot]; cbn [decode closed] in *.
  - destruct Hc as [Hi Hc]. rewrite (map_agree d1 d2 known refs Ha Hi).
    f_equal. apply (IH (refresh ++ known)); auto.
    intros i Hin. unfold set_slots.
    destruct (existsb (Nat.eqb i) refresh) eqn:E; auto.
    apply in_app_or in Hin. destruct Hin as [Hin|Hin]; [|auto].
    assert (existsb (Nat.eqb i) refresh = true) by (apply existsb_exists; exists i; split; auto; apply Nat.eqb_refl).
    congruence.
  - destruct Hc as [Hin Hc]. rewrite (Ha slot Hin). f_equal. apply (IH known); auto.
Qed.

(* a key frame reads nothing and refreshes every slot: whatever was decoded before it is irrelevant *)
Corollary key_frame_suffix pl shown rest d1 d2 (all : list nat) :
  closed all rest -> 
  decode d1 (Coded pl [] all shown :: rest) = decode d2 (Coded pl [] all shown :: rest).
Proof.
  intros Hc. apply (closed_gop_suffix _ [] d1 d2); [intros i []|].
  cbn. split; [intros x []|]. rewrite app_nil_r. exact Hc.
Qed.
End Suffix.
Print Assumptions closed_gop_suffix.
