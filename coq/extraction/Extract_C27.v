From Coq Require Import ZArith List Extraction ExtrOcamlBasic.
From SVG Require Import BuffersGen.
From SV Require Import PoolSpec.
Extraction "ex_c27.ml" Z.add Z.mul Z.opp binp_of_list buffers pools shortfall in_domainb.
