From Coq Require Import List Extraction ExtrOcamlBasic.
From SV Require Import ApiProto LockFlow.
From SVG Require Import LockGen.
Extraction "ex_c14.ml" run init_st fn_ok lock_functions.
