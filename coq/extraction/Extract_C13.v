From Coq Require Import ZArith List Extraction ExtrOcamlBasic.
From SVG Require Import VerifyGen DefaultsGen.
From SV Require Import Proofs_C13.
Extraction "ex_c13.ml" Z.add Z.mul Z.opp init_param config_of_list config_to_list defaults unassigned_cells.
