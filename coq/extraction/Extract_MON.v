From Coq Require Import ZArith List Extraction ExtrOcamlBasic.
From SV Require Import Monitors.
Extraction "ex_mon.ml" check_c03 check_c19_placement check_c18_bounds check_c26.
