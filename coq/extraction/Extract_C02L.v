From Coq Require Import ZArith List Extraction ExtrOcamlBasic.
From SV Require Import Leb128C.
Extraction "ex_c02l.ml" c_uleb_size c_uleb_encode c_dec_leb128 c_finish_obu.
