From Coq Require Import ZArith List Extraction ExtrOcamlBasic.
From SV Require Import ToolGate.
Extraction "ex_c20.ml" Z.add Z.mul Z.opp check_frame rules first_bad.
