From Coq Require Import ZArith List Extraction ExtrOcamlBasic.
From SVG Require Import RelDistGen.
From SV Require Import RelDistSpec.
Extraction "ex_c22.ml" rel_dist_copies rel_dist Z.of_nat N.of_nat.
