From Coq Require Import ZArith List Extraction ExtrOcamlBasic.
From SVG Require Import DispatchGen.
From SV Require Import Dispatch.
Extraction "ex_c06.ml" Z.add Z.mul Z.opp select effective table.
