(* C24 protocol lockstep: the step functions of the wavefront protocol model (SegProto.v), extracted with ExtrOcamlNatInt as the
   grid checker is (values below 2^20). The OCaml driver obs/c24p.ml replays the call sequence the real
   assign_enc_dec_segments is driven with. *)
From Coq Require Import Arith List Extraction ExtrOcamlBasic ExtrOcamlNatInt.
From SV Require Import SegProto.
Extraction "ex_c24p.ml" init start right_step down_step dep0 dep cur st pend.
