From Coq Require Import ZArith List Extraction ExtrOcamlBasic.
From SVG Require Import VerifyGen.
From SV Require Import DocDomain.
Extraction "ex_c12.ml" Z.add Z.mul Z.opp sp_rejects sp_in_scope sp_model config_of_list config_to_list effective documented golden.
