From Coq Require Import ZArith List Extraction ExtrOcamlBasic.
From SV Require Import ECideal ECcdf ECdone ECrun.
From SV Require Import Proofs_C25.
Extraction "ex_c25.ml" ops_okb run_enc run_dec encode_bytes decode_bytes done_bytes est0 tell update_cdf_m Z.of_nat.
