From Coq Require Import ZArith List Extraction ExtrOcamlBasic.
From SV Require Import OBU.
Extraction "ex_c02.ml" check_packet parse_obus tu_ok_b parse_seq_header displayed key_shown.
