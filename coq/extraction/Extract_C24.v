(* The C24 checker runs on grids with up to ~3600 segments and 2210 superblocks for ~30k grids per run; with unary
   nat that takes seconds per grid.  This extraction therefore uses the standard library's ExtrOcamlNatInt
   (nat => OCaml int; every value here is below 2^20, so 63-bit int arithmetic is exact).  The directives it
   brings in are part of the trusted base of C24 and are listed in DESIGN.md / the evidence file. *)
From Coq Require Import Arith List Extraction ExtrOcamlBasic ExtrOcamlNatInt.
From SV Require Import SegGrid.
Extraction "ex_c24.ml" grid_ok_b wf_b cover_b deps_b rows_ok_b up_ok_b hi_ok_b segs_ok_b.
