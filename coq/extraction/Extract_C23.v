From Coq Require Import ZArith List Extraction ExtrOcamlBasic.
From SV Require Import SRMring.
Extraction "ex_c23.ml" sys_new step ring_empty.
