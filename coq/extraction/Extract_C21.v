From Coq Require Import List Extraction ExtrOcamlBasic.
From SV Require Import InputCopy.
Extraction "ex_c21.ml" process_picture.
