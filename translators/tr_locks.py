#!/usr/bin/env python3
"""C14: control-flow skeletons of every library function that takes or releases a mutex, as data for the verified lock-discipline
checker of theories/LockFlow.v. clang's AST (macros expanded: the allocation macros hide `return` statements) gives the structure;
only the statements that matter are kept: lock / unlock (with an identity for the mutex expression), branches, loops, breaks, returns."""
import os, re, sys, json, hashlib, subprocess
sys.path.insert(0, os.path.dirname(os.path.abspath(__file__)))
import cast

LOCK, UNLOCK = 'svt_block_on_mutex', 'svt_release_mutex'
DIRS = ['Source/Lib/Encoder/Globals', 'Source/Lib/Encoder/Codec', 'Source/Lib/Common/Codec', 'Source/Lib/Decoder/Codec']
SKIP_FUNCS = {LOCK, UNLOCK, 'svt_create_mutex', 'svt_destroy_mutex'}


def functions_with_locks():
    out = []
    for d in DIRS:
        full = os.path.join(cast.REPO, d)
        for fn in sorted(os.listdir(full)):
            if not fn.endswith('.c'):
                continue
            lines = open(os.path.join(full, fn), errors='replace').read().split('\n')
            cur = None; seen = set()
            for i, l in enumerate(lines):
                m = re.match(r'^(?:static\s+|EB_API\s+|extern\s+|INLINE\s+|AOM_INLINE\s+)*[A-Za-z_][\w\s\*]*?\b(\w+)\s*\($', l) or re.match(r'^(?:static\s+|EB_API\s+|extern\s+|INLINE\s+|AOM_INLINE\s+)*[A-Za-z_][\w\s\*]*?\b(\w+)\s*\([^;{]*[,{)]?\s*\{?\s*$', l)
                if m and not l.startswith((' ', '\t', '#', '//', '/*', '}')) and m.group(1) not in ('if', 'for', 'while', 'switch', 'return', 'sizeof', 'defined'):
                    cur = m.group(1)
                if (LOCK + '(' in l or UNLOCK + '(' in l) and cur and cur not in SKIP_FUNCS and cur not in seen:
                    seen.add(cur); out.append((os.path.join(d, fn), cur))
    return out


class Unsupported(Exception):
    pass


def key_of(n):
    """structural identity of a mutex expression"""
    k = n.get('kind')
    if k in ('ImplicitCastExpr', 'ParenExpr', 'CStyleCastExpr'):
        return key_of(n['inner'][0])
    if k == 'DeclRefExpr':
        return n['referencedDecl']['name']
    if k == 'MemberExpr':
        return key_of(n['inner'][0]) + ('->' if n.get('isArrow') else '.') + n['name']
    if k == 'ArraySubscriptExpr':
        return key_of(n['inner'][0]) + '[' + key_of(n['inner'][1]) + ']'
    if k == 'IntegerLiteral':
        return n['value']
    if k == 'UnaryOperator':
        return n['opcode'] + key_of(n['inner'][0])
    if k == 'BinaryOperator':
        return '(' + key_of(n['inner'][0]) + n['opcode'] + key_of(n['inner'][1]) + ')'
    return k


def has_lock(n):
    if isinstance(n, dict):
        if n.get('kind') == 'CallExpr':
            c = n['inner'][0]
            while c.get('kind') in ('ImplicitCastExpr', 'ParenExpr'):
                c = c['inner'][0]
            if c.get('referencedDecl', {}).get('name') in (LOCK, UNLOCK):
                return True
        return any(has_lock(c) for c in n.get('inner', []))
    return False


TOUCH_CALLS = {'svt_circular_buffer_empty_check', 'svt_circular_buffer_pop_front', 'svt_circular_buffer_push_back', 'svt_circular_buffer_push_front',
               'svt_muxing_queue_assignation', 'svt_muxing_queue_object_push_back', 'svt_muxing_queue_object_push_front',
               'svt_fifo_push_back', 'svt_fifo_pop_front', 'svt_fifo_peak_front'}
TOUCH_FIELDS = {'live_count', 'release_enable', 'quit_signal'}
# helpers whose queue operations rely on the caller's critical section: analysed as if entered with a mutex held, and every call to them is a Touch
REQUIRES_CALLER_LOCK = ['svt_muxing_queue_assignation', 'svt_muxing_queue_object_push_back', 'svt_muxing_queue_object_push_front']


def callee(n):
    c = n['inner'][0]
    while c.get('kind') in ('ImplicitCastExpr', 'ParenExpr'):
        c = c['inner'][0]
    return c.get('referencedDecl', {}).get('name')


def lhs_field(n):
    l = n['inner'][0]
    while l.get('kind') in ('ImplicitCastExpr', 'ParenExpr'):
        l = l['inner'][0]
    return l.get('name') if l.get('kind') == 'MemberExpr' else None


def is_touch(n):
    k = n.get('kind')
    if k == 'CallExpr' and callee(n) in TOUCH_CALLS:
        return True
    if k in ('BinaryOperator', 'CompoundAssignOperator') and (k == 'CompoundAssignOperator' or n.get('opcode') == '=') and lhs_field(n) in TOUCH_FIELDS:
        return True
    if k == 'UnaryOperator' and n.get('opcode') in ('++', '--') and lhs_field(n) in TOUCH_FIELDS:
        return True
    return False


def has_touch(n):
    if isinstance(n, dict):
        return is_touch(n) or any(has_touch(c) for c in n.get('inner', []))
    return False


class Conv:
    def __init__(self, touch=False, keyed=None, plain_fields=None, calls=None):
        self.mutexes = {}
        self.touch = touch
        self.keyed = keyed or {}            # written field -> name of the mutex field of the same object that must guard it
        self.plain_fields = TOUCH_FIELDS if plain_fields is None else plain_fields
        self.calls = TOUCH_CALLS if calls is None else calls

    def lhs_object(self, n):
        l = n['inner'][0]
        while l.get('kind') in ('ImplicitCastExpr', 'ParenExpr'):
            l = l['inner'][0]
        return l

    def touch_kind(self, n):
        """None, 'Touch' or '(TouchM k)' for node n"""
        k = n.get('kind')
        if k == 'CallExpr' and callee(n) in self.calls:
            return 'Touch'
        is_write = (k in ('BinaryOperator', 'CompoundAssignOperator') and (k == 'CompoundAssignOperator' or n.get('opcode') == '=')) or (k == 'UnaryOperator' and n.get('opcode') in ('++', '--'))
        if not is_write:
            return None
        l = self.lhs_object(n)
        if l.get('kind') == 'ArraySubscriptExpr':        # a[i] = ...: judged by the array's name
            b = l['inner'][0]
            while b.get('kind') in ('ImplicitCastExpr', 'ParenExpr'):
                b = b['inner'][0]
            nm = b.get('name') if b.get('kind') == 'MemberExpr' else None
            return 'Touch' if nm in self.plain_fields else None
        if l.get('kind') != 'MemberExpr':
            return None
        f = l.get('name')
        if f in self.keyed:
            return '(TouchM %d)' % self.mid(key_of(l['inner'][0]) + ('->' if l.get('isArrow') else '.') + self.keyed[f])
        return 'Touch' if f in self.plain_fields else None

    def has_touch2(self, n):
        if isinstance(n, dict):
            return self.touch_kind(n) is not None or any(self.has_touch2(c) for c in n.get('inner', []))
        return False

    def ev(self, n):
        return has_lock(n) or (self.touch and self.has_touch2(n))

    def mid(self, key):
        return self.mutexes.setdefault(key, len(self.mutexes))

    def seq(self, items):
        items = [i for i in items if i != 'Skip']
        if not items:
            return 'Skip'
        r = items[-1]
        for i in reversed(items[:-1]):
            r = '(Seq %s %s)' % (i, r)
        return r

    def stmt(self, n):
        k = n.get('kind')
        if k is None:
            return 'Skip'
        if k == 'CompoundStmt':
            return self.seq([self.stmt(c) for c in n.get('inner', [])])
        if k == 'ReturnStmt':
            pre = [self.stmt(c) for c in n.get('inner', []) if self.ev(c)]
            return self.seq(pre + ['Ret'])
        if k in ('BreakStmt', 'ContinueStmt'):
            return 'Brk'
        if k in ('GotoStmt', 'LabelStmt', 'IndirectGotoStmt'):
            raise Unsupported(k)
        if k == 'IfStmt':
            inner = n['inner']
            cond = self.stmt(inner[0]) if self.ev(inner[0]) else 'Skip'
            th = self.stmt(inner[1]); el = self.stmt(inner[2]) if len(inner) > 2 else 'Skip'
            if th == 'Skip' and el == 'Skip':
                return cond
            return self.seq([cond, '(If %s %s)' % (th, el)])
        if k in ('ForStmt', 'WhileStmt', 'DoStmt'):
            body = n['inner'][-1] if k != 'DoStmt' else n['inner'][0]
            b = self.stmt(body)
            others = [c for c in n['inner'] if c is not body and c]
            if any(has_lock(c) for c in others):
                raise Unsupported('lock call in a loop header')
            if self.touch and any(self.has_touch2(c) for c in others):
                hd = self.seq([self.stmt(c) for c in others if self.has_touch2(c)])
                return self.seq([hd, '(Loop %s)' % self.seq([b, hd])])
            return 'Skip' if b == 'Skip' else '(Loop %s)' % b
        if k == 'SwitchStmt':
            body = n['inner'][-1]
            segs = []; cur = None
            def flat(c):
                # case labels nest their first statement
                while c.get('kind') in ('CaseStmt', 'DefaultStmt'):
                    yield ('label', None); c = c['inner'][-1]
                yield ('stmt', c)
            seq = []
            for c in body.get('inner', []):
                seq += list(flat(c))
            # alternative i = statements from label i to the end (fallthrough), cut at the first break at top level
            alts = []
            for i, (t, _) in enumerate(seq):
                if t == 'label' and (i == 0 or seq[i - 1][0] != 'label'):
                    items = []
                    for t2, c2 in seq[i:]:
                        if t2 == 'stmt':
                            items.append(self.stmt(c2))
                            if c2.get('kind') == 'BreakStmt':
                                break
                    alts.append(self.seq(items + ['Brk']))
            if all(a == 'Brk' for a in alts):
                return 'Skip'
            r = 'Brk'
            for a in reversed(alts):
                r = '(If %s %s)' % (a, r)
            return '(Loop %s)' % r
        if self.touch and self.touch_kind(n) is not None:
            return self.seq([self.stmt(c) for c in n.get('inner', []) if self.ev(c)] + [self.touch_kind(n)])
        if k == 'CallExpr':
            c = n['inner'][0]
            while c.get('kind') in ('ImplicitCastExpr', 'ParenExpr'):
                c = c['inner'][0]
            nm = c.get('referencedDecl', {}).get('name')
            if nm == LOCK:
                return '(Lock %d)' % self.mid(key_of(n['inner'][1]))
            if nm == UNLOCK:
                return '(Unlock %d)' % self.mid(key_of(n['inner'][1]))
        if k in ('ConditionalOperator',) and self.ev(n):
            raise Unsupported('lock call inside ?:')
        if self.ev(n):
            return self.seq([self.stmt(c) for c in n.get('inner', [])])
        # statements without lock calls may still contain returns (statement expressions do not occur here)
        if k in ('DeclStmt', 'BinaryOperator', 'UnaryOperator', 'CompoundAssignOperator', 'NullStmt', 'CStyleCastExpr', 'ImplicitCastExpr', 'ParenExpr', 'CallExpr', 'DeclRefExpr', 'IntegerLiteral', 'MemberExpr', 'StringLiteral'):
            return 'Skip'
        if k in ('AttributedStmt',):
            return self.stmt(n['inner'][-1])
        raise Unsupported('statement kind ' + k)


def generate(cache_dir=None, known=()):
    fns = functions_with_locks()
    out = ['(* GENERATED by translators/tr_locks.py -- do not edit *)', 'From Coq Require Import List.', 'From SV Require Import LockFlow.', 'Import ListNotations.', '']
    meta = []; defs = []
    for src, name in fns:
        txt = open(os.path.join(cast.REPO, src), errors='replace').read()
        key = hashlib.sha1((src + name + txt).encode()).hexdigest()[:20]
        cf = os.path.join(cache_dir, key + '.json') if cache_dir else None
        if cf and os.path.exists(cf):
            rec = json.load(open(cf))
        else:
            try:
                d = cast.function_decl(src, name)
                body = [c for c in d.get('inner', []) if c.get('kind') == 'CompoundStmt'][0]
                cv = Conv(); sk = cv.stmt(body)
                rec = dict(skeleton=sk, mutexes=cv.mutexes, error=None)
            except (Unsupported, cast.Unsupported, IndexError, KeyError) as e:
                rec = dict(skeleton=None, mutexes={}, error=repr(e)[:200])
            if cf:
                os.makedirs(cache_dir, exist_ok=True); json.dump(rec, open(cf, 'w'))
        meta.append(dict(src=src, name=name, **rec))
    ok = [m for m in meta if m['skeleton']]
    for i, m in enumerate(ok):
        out.append('(* %d  %s : %s   mutexes %s *)' % (i, m['src'], m['name'], {v: k for k, v in m['mutexes'].items()}))
        out.append('Definition fn_%d : stmt := %s.' % (i, m['skeleton']))
    out.append('Definition lock_functions : list (nat * stmt) := [%s].' % '; '.join('(%d, fn_%d)' % (i, i) for i in range(len(ok))))
    out.append('(* functions whose violation of the discipline is a recorded known finding (known_findings.json), by index *)')
    out.append('Definition lock_findings : list nat := [%s].' % '; '.join(str(i) for i, m in enumerate(ok) if m['name'] in known))
    return '\n'.join(out) + '\n', dict(functions=meta, analysed=[m['name'] for m in ok])


def generate_guard(src='Source/Lib/Common/Codec/EbSystemResourceManager.c'):
    """Skeletons with Touch events of every function of the system resource manager that takes a mutex (gen/GuardGen.v)."""
    names = [n for s_, n in functions_with_locks() if s_ == src]
    for r in REQUIRES_CALLER_LOCK:
        if r not in names:
            names.append(r)
    out = ['(* GENERATED by translators/tr_locks.py (generate_guard) -- do not edit *)', 'From Coq Require Import List.', 'From SV Require Import GuardFlow.', 'Import ListNotations.', '']
    meta = []
    for i, name in enumerate(names):
        d = cast.function_decl(src, name)
        body = [c for c in d.get('inner', []) if c.get('kind') == 'CompoundStmt'][0]
        cv = Conv(touch=True)
        if name in REQUIRES_CALLER_LOCK:
            inner = list(body.get('inner', []))
            if inner and inner[-1].get('kind') == 'ReturnStmt' and not has_touch(inner[-1]) and not has_lock(inner[-1]):
                inner = inner[:-1]
            sk = cv.stmt(dict(kind='CompoundStmt', inner=inner))
            sk = '(Seq (Lock 999) (Seq %s (Unlock 999)))' % sk      # the caller's critical section
        else:
            sk = cv.stmt(body)
        ntouch = sk.count('Touch')
        out.append('(* %d  %s   mutexes %s, %d shared accesses *)' % (i, name, {v: k for k, v in cv.mutexes.items()}, ntouch))
        out.append('Definition g_%d : stmt := %s.' % (i, sk))
        meta.append(dict(name=name, touches=ntouch, skeleton=sk))
    out.append('Definition guard_functions : list (nat * stmt) := [%s].' % '; '.join('(%d, g_%d)' % (i, i) for i in range(len(names))))
    out.append('Definition guard_touches : nat := %d.' % sum(m['touches'] for m in meta))
    return '\n'.join(out) + '\n', dict(functions=meta)


def generate_seg_guard(src='Source/Lib/Encoder/Codec/EbEncDecProcess.c', name='assign_enc_dec_segments'):
    """Skeleton of the EncDec segment assignment with its shared accesses (gen/SegGuardGen.v): a write of a row's current_seg_index
    inside a critical section must be inside the one of that row's assignment_mutex (same object expression); a write of the
    dependency map must be inside some critical section."""
    d = cast.function_decl(src, name)
    body = [c for c in d.get('inner', []) if c.get('kind') == 'CompoundStmt'][0]
    cv = Conv(touch=True, keyed={'current_seg_index': 'assignment_mutex'}, plain_fields={'dependency_map'}, calls=set())
    sk = cv.stmt(body)
    out = ['(* GENERATED by translators/tr_locks.py (generate_seg_guard) -- do not edit *)', 'From Coq Require Import List.', 'From SV Require Import GuardFlow.', 'Import ListNotations.', '',
           '(* %s   mutexes %s *)' % (name, {v: k for k, v in cv.mutexes.items()}), 'Definition seg_assign : stmt := %s.' % sk,
           'Definition seg_assign_keyed : nat := %d.' % sk.count('TouchM'), 'Definition seg_assign_plain : nat := %d.' % (sk.count('Touch') - sk.count('TouchM'))]
    return '\n'.join(out) + '\n', dict(skeleton=sk, mutexes=cv.mutexes, keyed=sk.count('TouchM'), plain=sk.count('Touch') - sk.count('TouchM'))


if __name__ == '__main__':
    t, m = generate('/verif/.cache/lockast')
    open('/verif/coq/gen/LockGen.v', 'w').write(t)
    for f in m['functions']:
        print(f['src'].split('/')[-1], f['name'], f['error'] or f['skeleton'][:150])
