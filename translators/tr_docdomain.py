#!/usr/bin/env python3
"""C12: the documented parameter domain, regenerated from Docs/svt-av1_encoder_user_guide.md (Range column)
through the name map below (guide parameter -> configuration field)."""
import os, re, sys, json
sys.path.insert(0, os.path.dirname(os.path.abspath(__file__)))
import cast

GUIDE = 'Docs/svt-av1_encoder_user_guide.md'

# guide "Configuration file parameter" -> EbSvtAv1EncConfiguration cell
NAME_MAP = {
    'SourceWidth': 'source_width', 'SourceHeight': 'source_height', 'EncoderColorFormat': 'encoder_color_format', 'Profile': 'profile',
    'EncoderBitDepth': 'encoder_bit_depth', 'Encoder16BitPipeline': 'is_16bit_pipeline', 'HierarchicalLevels': 'hierarchical_levels',
    'PredStructure': 'pred_structure', 'HighDynamicRangeInput': 'high_dynamic_range_input', 'UnpinExecution': 'unpin', 'TargetSocket': 'target_socket',
    'RateControlMode': 'rate_control_mode', 'QP': 'qp', 'TargetBitRate': None, 'UseQpFile': 'use_qp_file', 'MaxQpAllowed': 'max_qp_allowed',
    'MinQpAllowed': 'min_qp_allowed', 'AdaptiveQuantization': 'enable_adaptive_quantization', 'UseFixedQIndexOffsets': 'use_fixed_qindex_offsets',
    'KeyFrameQIndexOffset': 'key_frame_qindex_offset', 'KeyFrameChromaQIndexOffset': 'key_frame_chroma_qindex_offset',
    'VBRBiasPct': 'vbr_bias_pct', 'UnderShortPct': 'under_shoot_pct', 'OverShortPct': 'over_shoot_pct', 'RecodeLoop': 'recode_loop',
    'IntraPeriod': 'intra_period_length', 'IntraRefreshType': 'intra_refresh_type', 'EncoderMode': 'enc_mode',
    'CompressedTenBitFormat': 'compressed_ten_bit_format', 'TileRow': 'tile_rows', 'TileCol': 'tile_columns', 'LookAheadDistance': 'look_ahead_distance',
    'LoopFilterDisable': 'disable_dlf_flag', 'EnableTPLModel': 'enable_tpl_la', 'CDEFLevel': 'cdef_level', 'RestorationFilter': 'enable_restoration_filtering',
    'SelfGuidedFilterMode': 'sg_filter_mode', 'WienerFilterMode': 'wn_filter_mode', 'Mfmv': 'enable_mfmv', 'RedundantBlock': 'enable_redundant_blk',
    'SpatialSSEfl': 'spatial_sse_full_loop_level', 'OverBoundryBlock': 'over_bndry_blk', 'NewNearestCombInjection': 'new_nearest_comb_inject',
    'NsqTable': 'nsq_table', 'FrameEndCdfUpdate': 'frame_end_cdf_update', 'ChromaMode': 'set_chroma_mode', 'DisableCfl': 'disable_cfl_flag',
    'LocalWarpedMotion': 'enable_warped_motion', 'GlobalMotion': 'enable_global_motion', 'PicBasedRateEst': 'pic_based_rate_est',
    'IntraAngleDelta': 'intra_angle_delta', 'InterIntraCompound': 'inter_intra_compound', 'Paeth': 'enable_paeth', 'Smooth': 'enable_smooth',
    'MultiReferencePictures': 'mrp_level', 'Obmc': 'obmc_level', 'RDOQ': 'rdoq_level', 'FilterIntra': 'filter_intra_level',
    'IntraEdgeFilter': 'enable_intra_edge_filter', 'PredMe': 'pred_me', 'Bipred3x3': 'bipred_3x3_inject', 'CompoundLevel': 'compound_level',
    'UseDefaultMeHme': 'use_default_me_hme', 'HME': 'enable_hme_flag', 'HMELevel0': 'enable_hme_level0_flag', 'HMELevel1': 'enable_hme_level1_flag',
    'HMELevel2': 'enable_hme_level2_flag', 'ExtBlockFlag': 'ext_block_flag', 'SearchAreaWidth': 'search_area_width', 'SearchAreaHeight': 'search_area_height',
    'ScreenContentMode': 'screen_content_mode', 'IntraBCMode': 'intrabc_mode', 'HighBitDepthModeDecision': 'enable_hbd_mode_decision',
    'PaletteLevel': 'palette_level', 'UnrestrictedMotionVector': 'unrestricted_motion_vector', 'SpeedControlFlag': 'speed_control_flag',
    'FilmGrain': 'film_grain_denoise_strength', 'AltRefLevel': 'tf_level', 'AltRefStrength': 'altref_strength', 'AltRefNframes': 'altref_nframes',
    'EnableOverlays': 'enable_overlays', 'StatReport': 'stat_report',
}
# parameters whose documented range explicitly admits -1 = DEFAULT (stated in the description column)
DEFAULT_MINUS_ONE = re.compile(r'-1\s*(=|:)\s*(DEFAULT|Default)|-1 DEFAULT')


def parse_range(txt):
    """[lo, hi] from the Range column, or None when it is not a plain integer range."""
    t = txt.strip().replace('`', '')
    t = re.sub(r'\]+$', ']', t)
    m = re.fullmatch(r'\[\s*(-?\d+)\s*[-,]\s*(-?\d+)\s*\]', t)
    if m:
        return int(m.group(1)), int(m.group(2))
    m = re.fullmatch(r'\[\s*(-?\d+)\s*-\s*2\^(\d+)\s*-\s*(\d+)\s*\]', t)
    if m:
        return int(m.group(1)), 2 ** int(m.group(2)) - int(m.group(3))
    m = re.fullmatch(r'\[\s*(-?\d+(\s*,\s*-?\d+)+)\s*\]', t)
    if m:
        vals = [int(x) for x in re.split(r'\s*,\s*', m.group(1))]
        if vals == list(range(vals[0], vals[-1] + 1)):
            return vals[0], vals[-1]
        return ('set', vals)
    return None


def documented():
    """{field: dict(lo, hi, default_minus_one, guide_name, line)} from the guide."""
    path = os.path.join(cast.REPO, GUIDE)
    out = {}
    for ln, line in enumerate(open(path, errors='replace'), 1):
        if not line.startswith('| **'):
            continue
        cols = [c.strip() for c in line.strip().strip('|').split('|')]
        if len(cols) < 5:
            continue
        name = cols[0].strip('* ')
        fld = NAME_MAP.get(name)
        if not fld:
            continue
        r = parse_range(cols[2])
        if r is None:
            continue
        if name == 'EncoderBitDepth':
            r = ('set', [8, 10])      # "[8 , 10]" lists the two supported depths
        d = dict(guide_name=name, line=ln, raw=cols[2])
        if r[0] == 'set':
            d['values'] = r[1]
        else:
            d['lo'], d['hi'] = r
        d['default_minus_one'] = bool(DEFAULT_MINUS_ONE.search(cols[4])) and not (r[0] != 'set' and r[0] <= -1)
        out[fld] = d
    return out


if __name__ == '__main__':
    d = documented()
    print(len(d))
    for k, v in d.items():
        print(k, v)
