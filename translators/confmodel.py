"""Shared by C12 / C13: the flattened EbSvtAv1EncConfiguration record and the generated models of
svt_svt_enc_init_parameter, copy_api_from_app and verify_settings."""
import os, re, sys
sys.path.insert(0, os.path.dirname(os.path.abspath(__file__)))
import cast

SRC = 'Source/Lib/Encoder/Globals/EbEncHandle.c'
HDR = 'Source/API/EbSvtAv1Enc.h'
ENUM_HEADERS = ['EbSvtAv1Enc.h', 'EbDefinitions.h', 'EbSvtAv1ErrorCodes.h']


def config_fields():
    """[(coq_name, path_suffix, (signed,bits), kind)] for every integer-like cell of the configuration struct.
    kind: 'int' | 'ptr' | 'blob' (an aggregate treated as one opaque value)."""
    objs = cast.ast_dump(HDR, 'EbSvtAv1EncConfiguration')
    rec = [o for o in objs if o['kind'] == 'RecordDecl' and o.get('inner')][0]
    out = []
    for c in rec['inner']:
        if c['kind'] != 'FieldDecl':
            continue
        name = c['name']; t = c['type']; q = t.get('qualType', '')
        ty = cast.int_type(t)
        if ty is not None:
            out.append(('f_' + name, name, ty, 'int')); continue
        m = re.fullmatch(r'(.+)\[(\d+)\]', q)
        if m:
            ety = cast.int_type({'qualType': m.group(1).strip()})
            if ety is not None:
                for i in range(int(m.group(2))):
                    out.append(('f_%s_%d' % (name, i), '%s[%d]' % (name, i), ety, 'int'))
            else:
                out.append(('f_' + name, name, (False, 64), 'blob'))
            continue
        if q == 'SvtAv1FixedBuf':
            out.append(('f_%s_buf' % name, name + '.buf', (False, 64), 'ptr'))
            out.append(('f_%s_sz' % name, name + '.sz', (False, 64), 'int'))
            continue
        if q.strip().endswith('*'):
            out.append(('f_' + name, name, (False, 64), 'ptr')); continue
        out.append(('f_' + name, name, (False, 64), 'blob'))
    return out


def record_coq(fields, name='config'):
    lines = ['Record %s := mk_%s {' % (name, name)]
    lines.append(';\n'.join('  %s : Z' % f[0] for f in fields))
    lines.append('}.')
    rng = []
    for f in fields:
        lo, hi = cast.trange(f[2])
        rng.append('(%d <= %s c <= %d)' % (lo, f[0], hi))
    lines.append('Definition in_type (c : %s) : Prop :=\n  %s.' % (name, ' /\\\n  '.join(rng)))
    return '\n'.join(lines) + '\n'


def resolve_enums(fun):
    """Resolve enumerators left symbolic (K_name) by a compiled probe."""
    if not fun.unresolved:
        return {}
    return cast.resolve_constants(sorted(fun.unresolved), ENUM_HEADERS)


def subst_enums(txt, vals):
    for k, v in vals.items():
        txt = re.sub(r'\bK_%s\b' % re.escape(k), str(v) if v >= 0 else '(%d)' % v, txt)
    return txt
