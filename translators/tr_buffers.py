#!/usr/bin/env python3
"""C27: translate load_default_buffer_configuration_settings (+ set_parent_pcs inlined) into gen/BuffersGen.v:
the pool sizes and process counts it writes into the sequence control set, as functions of the configuration cells it
reads, the picture size class and the number of processors the OS reports (an input of the model)."""
import os, sys, re, json
sys.path.insert(0, os.path.dirname(os.path.abspath(__file__)))
import cast, confmodel
from confmodel import SRC

FN = 'load_default_buffer_configuration_settings'
OUTPUTS = ['input_buffer_fifo_init_count', 'picture_control_set_pool_init_count', 'picture_control_set_pool_init_count_child',
           'pa_reference_picture_buffer_init_count', 'reference_picture_buffer_init_count', 'output_recon_buffer_fifo_init_count',
           'overlay_input_picture_buffer_init_count', 'output_stream_buffer_fifo_init_count', 'me_pool_init_count', 'scd_delay',
           'total_process_init_count', 'enc_dec_process_init_count', 'motion_estimation_process_init_count',
           'me_segment_column_count_array[0]', 'me_segment_row_count_array[0]', 'enc_dec_segment_col_count_array[0]', 'enc_dec_segment_row_count_array[0]',
           'tile_group_row_count_array[0]', 'rest_segment_column_count', 'rest_segment_row_count']


def translate(consts):
    d = cast.function_decl(SRC, FN)
    f = cast.Fun(d, consts=consts)
    f.src = SRC
    def h_spp(self, args, n, env):
        cfgp = self.ptr_target(args[0], env)
        base = cfgp[1:] + '.' if cfgp.startswith('&') else cfgp + '->'
        fr = self.read(base + 'frame_rate', (False, 32), env); hl = self.read(base + 'hierarchical_levels', (False, 32), env)
        return cast.T('(set_parent_pcs %s %s %s %s)' % (fr.s, hl.s, self.expr(args[1], env).s, self.expr(args[2], env).s))
    def h_nproc(self, args, n, env):
        return self.read('os_processor_count', (False, 32), env)
    def h_flags(self, args, n, env):
        return self.read('os_cpu_flags', (False, 64), env)
    def h_flags_use(self, args, n, env):
        return self.read('os_cpu_flags_to_use', (False, 64), env)
    f.helpers = {'set_parent_pcs': h_spp, 'get_num_processors': h_nproc, 'get_cpu_flags': h_flags, 'get_cpu_flags_to_use': h_flags_use}
    envs = []
    def ret(env, v):
        envs.append((env, v)); return '@@R%d@@' % (len(envs) - 1)
    txt = f.translate(ret_fn=ret)
    return f, txt, envs


def generate():
    f, txt, envs = translate({})
    if f.unresolved:
        consts = cast.resolve_constants(sorted(f.unresolved), confmodel.ENUM_HEADERS)
        f, txt, envs = translate(consts)
    if f.unresolved:
        raise cast.Unsupported('unresolved enumerators %s' % f.unresolved)
    return f, txt, envs


if __name__ == '__main__':
    f, txt, envs = generate()
    print(len(envs), [p for p, _ in f.inputs])
    print(txt[:3000])
    env, rv = envs[-1]
    for o in OUTPUTS:
        print(o, '=>', (env.get('scs_ptr->' + o).s[:200] if env.get('scs_ptr->' + o) else None))


def split_lets(s):
    """s = 'let a := e in\\nlet b := e in\\n ... tail' -> ([(name, rhs)], tail); only the top-level chain is split."""
    out = []
    while s.startswith('let '):
        m = re.match(r'let ([A-Za-z_0-9]+) := ', s)
        name = m.group(1); i = m.end()
        if s[i] == '(':
            d = 0; j = i
            while True:
                if s[j] == '(':
                    d += 1
                elif s[j] == ')':
                    d -= 1
                    if d == 0:
                        break
                j += 1
            j += 1
        else:
            j = s.index(' in\n', i)
        assert s[j:j + 4] == ' in\n', (name, s[j:j + 20])
        out.append((name, s[i:j])); s = s[j + 4:]
    return out, s


def dce(lets, roots):
    need = set(); keep = []
    for r in roots:
        need |= set(re.findall(r'[A-Za-z_][A-Za-z_0-9]*', r))
    for name, rhs in reversed(lets):
        if name in need:
            keep.append((name, rhs)); need |= set(re.findall(r'[A-Za-z_][A-Za-z_0-9]*', rhs))
    return list(reversed(keep))


POOLS = ['input_buffer_fifo_init_count', 'picture_control_set_pool_init_count', 'picture_control_set_pool_init_count_child',
         'pa_reference_picture_buffer_init_count', 'reference_picture_buffer_init_count', 'output_recon_buffer_fifo_init_count',
         'overlay_input_picture_buffer_init_count', 'output_stream_buffer_fifo_init_count', 'me_pool_init_count', 'scd_delay']


def coq():
    f, txt, envs = generate()
    env, rv = envs[-1]
    head, rest = txt.split('@@R0@@', 1)
    lets1, tail1 = split_lets(head)
    m = re.match(r'\(if \((.*)\) then\n $', tail1)
    assert m, tail1[:200]
    err_cond = m.group(1)
    assert rest.startswith('\n else\n '), rest[:40]
    lets2, tail2 = split_lets(rest[len('\n else\n '):])
    assert tail2.strip() == '@@R1@@)', tail2[:100]
    # set_parent_pcs as its own definition
    d = cast.function_decl(SRC, 'set_parent_pcs')
    g = cast.Fun(d, consts=f.consts); g.src = SRC
    rets = []
    gtxt = g.translate(ret_fn=lambda e, v: v.s)
    if g.unresolved:
        g = cast.Fun(d, consts=cast.resolve_constants(sorted(g.unresolved), confmodel.ENUM_HEADERS)); g.src = SRC
        gtxt = g.translate(ret_fn=lambda e, v: v.s)
    gin = dict(g.inputs)
    assert set(gin) <= {'config', 'config->frame_rate', 'config->hierarchical_levels', 'core_count', 'res_class'}, gin
    out = ['(* GENERATED by translators/tr_buffers.py from %s : %s, set_parent_pcs -- do not edit *)' % (SRC, FN), cast.PRELUDE, 'From SV Require Import CInt.', '']
    out.append('Definition set_parent_pcs (v_config_frame_rate v_config_hierarchical_levels v_core_count v_res_class : Z) : Z :=\n  let v_config := 1 in (* the configuration pointer is not NULL *)\n' + gtxt + '.\n')
    names = ['b_' + f.mangle(p).replace('scs_ptr_static_config_', '').replace('scs_ptr_', '') for p, _ in f.inputs]
    out.append('Record binp := mk_binp { ' + '; '.join('%s : Z' % n for n in names) + ' }.')
    out.append('Definition binp_of_list (l : list Z) : binp := mk_binp ' + ' '.join('(nth %d l 0)' % i for i in range(len(names))) + '.')
    binds = ''.join('let v_%s := %s i in\n' % (f.mangle(p), n) for (p, _), n in zip(f.inputs, names))
    def final(o):
        t = env.get('scs_ptr->' + o)
        if t is None:
            raise cast.Unsupported('%s is not assigned by %s' % (o, FN))
        return t.s
    def body(outs):
        roots = [final(o) for o in outs]
        k2 = dce(lets2, roots)
        k1 = dce(lets1, roots + [err_cond] + [r for _, r in k2])
        return (binds + ''.join('let %s := %s in\n' % x for x in k1) + 'if (%s) then None else\n' % err_cond +
                ''.join('let %s := %s in\n' % x for x in k2) + 'Some [' + '; '.join(roots) + ']')
    out.append('(* the pool sizes only (dead bindings removed): ' + ', '.join(POOLS) + ' *)')
    out.append('Definition pools (i : binp) : option (list Z) :=\n' + body(POOLS) + '.\n')
    out.append('(* what the function leaves in static_config.use_cpu_flags *)')
    out.append('Definition cpu_mask (i : binp) : option (list Z) :=\n' + body(['static_config.use_cpu_flags']) + '.\n')
    allo = OUTPUTS + ['static_config.use_cpu_flags']
    out.append('(* ' + ', '.join(allo) + ' *)')
    out.append('Definition buffers (i : binp) : option (list Z) :=\n' + body(allo) + '.\n')
    meta = dict(inputs=[p for p, _ in f.inputs], input_types=[t for _, t in f.inputs], input_names=names, pools=POOLS, outputs=allo, side_conditions=sorted(set(f.ub + g.ub)))
    return '\n'.join(out) + '\n', meta
