#!/usr/bin/env python3
"""C06/C07: the run-time dispatch tables (setup_common_rtcd_internal, setup_rtcd_internal) as data.
The preprocessor resolves the conditionals only (gcc -E -fdirectives-only keeps macros unexpanded); the SET_* macro
definitions are read from the same text, so a change of the macros or of the table changes the generated model."""
import os, re, sys, json, subprocess
sys.path.insert(0, os.path.dirname(os.path.abspath(__file__)))
import cast

FILES = [('common', 'Source/Lib/Common/Codec/common_dsp_rtcd.c', 'setup_common_rtcd_internal'),
         ('encoder', 'Source/Lib/Encoder/Codec/aom_dsp_rtcd.c', 'setup_rtcd_internal')]
PREAMBLE = [r'static EbBool first_call_setup\s*=\s*EB_TRUE;', r'EbBool\s+check_pointer_was_set\s*=\s*first_call_setup;', r'first_call_setup\s*=\s*EB_FALSE;',
            r'flags &= get_cpu_flags_to_use\(\);']


def preprocess(src, avx512=0):
    inc = cast.clang_flags().replace('-DEN_AVX512_SUPPORT=0', '-DEN_AVX512_SUPPORT=%d' % avx512).replace('-std=gnu99', '') + ' -I%s/third_party/cpuinfo/include' % cast.REPO
    r = subprocess.run('gcc -E -fdirectives-only %s %s/%s' % (inc, cast.REPO, src), shell=True, capture_output=True, text=True)
    if r.returncode:
        raise cast.Unsupported('preprocess %s: %s' % (src, r.stderr[-300:]))
    return r.stdout


def strip_comments(s):
    s = re.sub(r'/\*.*?\*/', ' ', s, flags=re.S)
    return re.sub(r'//[^\n]*', ' ', s)


def split_args(s):
    out, d, cur = [], 0, ''
    for ch in s:
        if ch == ',' and d == 0:
            out.append(cur.strip()); cur = ''
        else:
            d += ch == '('; d -= ch == ')'; cur += ch
    out.append(cur.strip())
    return out


def cpu_flag_bits():
    txt = open(os.path.join(cast.REPO, 'Source/API/EbSvtAv1.h')).read()
    return {m.group(1): int(m.group(2)) for m in re.finditer(r'#define CPU_FLAGS_(\w+) \(1 << (\d+)\)', txt)}


def parse(tag, src, fn, avx512=0):
    txt = preprocess(src, avx512)
    own = txt[txt.rfind('# 1 "%s/%s"' % (cast.REPO, src)) if ('# 1 "%s/%s"' % (cast.REPO, src)) in txt else 0:]
    # macro definitions (continuation lines joined)
    joined = re.sub(r'\\\n', ' ', txt)
    defs = {}
    for m in re.finditer(r'^#define (SET_\w+)\(([^)]*)\)[ \t]*(.*)$', joined, flags=re.M):
        defs[m.group(1)] = ([a.strip() for a in m.group(2).split(',')], m.group(3).strip())
    has = {m.group(1): m.group(2) for m in re.finditer(r'^#define HAS_(\w+) CPU_FLAGS_(\w+)', joined, flags=re.M)}
    bits = cpu_flag_bits()
    # level order and flag of every variant slot of SET_FUNCTIONS
    params, body = defs['SET_FUNCTIONS']
    if 'ptr = c;' not in body or 'SET_FUNCTIONS_X86(' + ', '.join(params) + ')' not in body.replace('  ', ' '):
        raise cast.Unsupported('SET_FUNCTIONS has an unexpected shape: %s' % body[:200])
    xparams, xbody = defs['SET_FUNCTIONS_X86']
    slots = []   # (param name, bit)
    pos = 0
    for m in re.finditer(r'if \(\(\(uintptr_t\)NULL != \(uintptr_t\)(\w+)\)\s*&& \(flags & HAS_(\w+)\)\) ptr = (\w+);', xbody):
        if m.group(1) != m.group(3):
            raise cast.Unsupported('SET_FUNCTIONS_X86 tests %s but assigns %s' % (m.group(1), m.group(3)))
        slots.append((m.group(1), bits[has[m.group(2)]]))
    rest = re.sub(r'if \(\(\(uintptr_t\)NULL != \(uintptr_t\)(\w+)\)\s*&& \(flags & HAS_(\w+)\)\) ptr = (\w+);', '', xbody).strip()
    if rest.startswith('SET_FUNCTIONS_AVX512('):
        ap, ab = defs['SET_FUNCTIONS_AVX512']
        m = re.fullmatch(r'if \(\(\(uintptr_t\)NULL != \(uintptr_t\)(\w+)\)\s*&& \(flags & HAS_(\w+)\)\) ptr = (\w+);', ab.strip())
        if ab.strip() and not m:
            raise cast.Unsupported('SET_FUNCTIONS_AVX512: %s' % ab[:100])
        if m:
            slots.append(('avx512', bits[has[m.group(2)]]))
    elif rest:
        raise cast.Unsupported('SET_FUNCTIONS_X86 has statements the translator does not know: %s' % rest[:120])
    slot_of = {p: i for i, (p, _) in enumerate(slots)}
    # the setup function body
    m = re.search(r'^void %s\(CPU_FLAGS flags\) \{\n(.*?)^\}' % fn, txt, flags=re.S | re.M)
    if not m:
        raise cast.Unsupported('no definition of %s' % fn)
    body = strip_comments(m.group(1))
    body = re.sub(r'^#.*$', '', body, flags=re.M)
    for p in PREAMBLE:
        body, n = re.subn(p, '', body, count=1)
    entries = []
    for st in [s.strip() for s in body.split(';')]:
        if not st or st == '(void)flags':
            continue
        im = re.fullmatch(r'if \(flags & HAS_(\w+)\)\s*(\w+) = (\w+)', st)
        if im:
            # pointer without a C version (helper used only from inside another SIMD kernel): variant 0 is "not set"
            prev = [e for e in entries if e['ptr'] == im.group(2)]
            if prev:
                prev[0]['variants'].append((bits[has[im.group(1)]], im.group(3)))
            else:
                entries.append(dict(table=tag, ptr=im.group(2), c=None, variants=[(bits[has[im.group(1)]], im.group(3))], macro='if'))
            continue
        mm = re.fullmatch(r'(SET_\w+)\((.*)\)', st, flags=re.S)
        if not mm or mm.group(1) not in defs:
            raise cast.Unsupported('%s contains a statement the translator does not know: %s' % (fn, st[:120]))
        mparams, mbody = defs[mm.group(1)]
        args = split_args(re.sub(r'\s+', ' ', mm.group(2)))
        if len(args) != len(mparams):
            raise cast.Unsupported('%s: %d arguments for %s' % (st[:60], len(args), mm.group(1)))
        sub = dict(zip(mparams, args))
        fm = re.fullmatch(r'SET_FUNCTIONS\((.*)\)', mbody)
        if mm.group(1) == 'SET_FUNCTIONS':
            fargs = args
        elif fm:
            fargs = [sub.get(a, a) for a in split_args(fm.group(1))]
        else:
            raise cast.Unsupported('%s does not expand to SET_FUNCTIONS' % mm.group(1))
        fsub = dict(zip(params, fargs))
        variants = []
        for pname, bit in slots:
            v = fsub.get(pname, '0')
            if v not in ('0', 'NULL'):
                variants.append((bit, v))
        entries.append(dict(table=tag, ptr=fsub['ptr'], c=fsub['c'], variants=variants, macro=mm.group(1)))
    return entries, [b for _, b in slots]


def generate(avx512=0):
    allent = []; slots = None
    for tag, src, fn in FILES:
        e, s = parse(tag, src, fn, avx512)
        allent += e; slots = s
    out = ['(* GENERATED by translators/tr_rtcd.py from common_dsp_rtcd.c and aom_dsp_rtcd.c -- do not edit *)',
           'From Coq Require Import ZArith List.', 'Import ListNotations.', 'Local Open Scope Z_scope.', '',
           '(* one entry per dispatched function pointer: the CPU-flag bit of each SIMD variant, in the order the macro tests them',
           '   (a later variant whose bit is set overrides an earlier one); variant 0 is the C reference *)',
           'Definition table : list (list Z) := [']
    out.append(';\n'.join('  [%s] (* %d %s *)' % ('; '.join(str(b) for b, _ in e['variants']), i, e['ptr']) for i, e in enumerate(allent)))
    out.append('].')
    out.append('Definition slot_bits : list Z := [%s].' % '; '.join(str(b) for b in slots))
    return '\n'.join(out) + '\n', dict(entries=allent, slot_bits=slots)


if __name__ == '__main__':
    t, m = generate()
    print(len(m['entries']), m['slot_bits'], m['entries'][0], m['entries'][-1])
    import collections
    print(collections.Counter(e['macro'] for e in m['entries']))
