(* Trusted glue: conversions between OCaml ints/strings and the extracted inductive numbers. *)
let rec pos_of_int (n : int) : positive =
  if n <= 1 then XH else if n land 1 = 0 then XO (pos_of_int (n lsr 1)) else XI (pos_of_int (n lsr 1))
let z_of_int (n : int) : z = if n = 0 then Z0 else if n > 0 then Zpos (pos_of_int n) else Zneg (pos_of_int (- n))
let rec int_of_pos (p : positive) : int = match p with XH -> 1 | XO q -> 2 * int_of_pos q | XI q -> 2 * int_of_pos q + 1
let int_of_z (x : z) : int = match x with Z0 -> 0 | Zpos p -> int_of_pos p | Zneg p -> - (int_of_pos p)
