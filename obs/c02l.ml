(* stdin: lines of harness/unit/leb_harness.c; every line is recomputed with the extracted Leb128C definitions. *)
let z_of_hilo (hi : int) (lo : int) : z =
  let acc = ref None in
  for i = 63 downto 0 do
    let b = if i >= 32 then (hi lsr (i - 32)) land 1 = 1 else (lo lsr i) land 1 = 1 in
    acc := (match !acc with None -> if b then Some XH else None | Some p -> Some (if b then XI p else XO p))
  done;
  match !acc with None -> Z0 | Some p -> Zpos p
let hilo_of_z (x : z) : int * int =
  let rec bits p = match p with XH -> [true] | XO q -> false :: bits q | XI q -> true :: bits q in
  match x with
  | Z0 -> (0, 0)
  | Zneg _ -> (-1, -1)
  | Zpos p ->
    let lo = ref 0 and hi = ref 0 in
    List.iteri (fun i b -> if b then (if i < 32 then lo := !lo lor (1 lsl i) else if i < 64 then hi := !hi lor (1 lsl (i - 32)) else hi := -1)) (bits p);
    (!hi, !lo)
let () =
  let no = ref 0 in
  let n = ref 0 and bad = ref 0 and ns = ref 0 and ne = ref 0 and nrej = ref 0 and nd = ref 0 and nlong = ref 0 in
  let diff l m = incr bad; if !bad <= 20 then Printf.printf "DIFF impl=[%s] model=[%s]\n" l m in
  iter_lines (fun l ->
    if String.length l > 2 then begin
      match split_ws l with
      | "S" :: hi :: lo :: [sz] ->
        incr n; incr ns;
        let m = int_of_z (c_uleb_size (nat_of_int 10) (z_of_hilo (int_of_string hi) (int_of_string lo))) in
        if m <> int_of_string sz then diff l (string_of_int m)
      | "E" :: hi :: lo :: avail :: rc :: rest ->
        incr n; incr ne;
        let av = if String.length avail > 12 then z_of_hilo 0xFFFFFFFF 0xFFFFFFFF else z_of_int (int_of_string avail) in
        let m = (match c_uleb_encode (z_of_hilo (int_of_string hi) (int_of_string lo)) av with
                 | None -> incr nrej; "-1"
                 | Some bs -> String.concat " " ("0" :: string_of_int (List.length bs) :: List.map (fun b -> string_of_int (int_of_z b)) bs)) in
        let impl = String.concat " " (rc :: rest) in
        if m <> impl then diff l m
      | "D" :: skip :: nb :: rest ->
        incr n; incr nd;
        let k = int_of_string nb in
        let bytes = List.filteri (fun i _ -> i < k) rest in
        let tail = List.filteri (fun i _ -> i > k) rest in      (* after the "|" *)
        let bl = List.map (fun s -> z_of_int (int_of_string s)) bytes in
        let ((v, len), rem) = c_dec_leb128 bl in
        let (mh, ml) = hilo_of_z v in
        let nxt = (match rem with b :: _ -> int_of_z b | [] -> -1) in
        let m = Printf.sprintf "%d %d %d %d" mh ml (int_of_z len) nxt in
        if int_of_z len = 8 then incr nlong;
        if m <> String.concat " " tail then diff l m
      | "O" :: hdr :: ps :: tot :: rest ->
        incr n; incr no;
        let k = int_of_string tot in
        let bl = List.map (fun s -> z_of_int (int_of_string s)) (List.filteri (fun i _ -> i < k) rest) in
        let tail = List.filteri (fun i _ -> i > k) rest in
        let m = (match c_finish_obu bl (nat_of_int (int_of_string hdr)) (z_of_int (int_of_string ps)) with
                 | None -> "-1"
                 | Some (d, lf) -> String.concat " " ("0" :: string_of_int (int_of_z lf) :: List.map (fun b -> string_of_int (int_of_z b)) d)) in
        let impl = (match tail with "-1" :: _ -> "-1" | _ -> String.concat " " tail) in
        if m <> impl then diff (String.sub l 0 (min 200 (String.length l))) (String.sub m 0 (min 200 (String.length m)))
      | _ -> ()
    end);
  Printf.printf "DONE n=%d bad=%d size=%d encode=%d rejected=%d decode=%d decode_len8=%d obu=%d\n" !n !bad !ns !ne !nrej !nd !nlong !no
