(* stdin: one case per line:  adapt nctx (n c_0..c_{n-1} counter)*nctx nops (kind a b)*nops
   kind 0 = symbol (ctx a, symbol b); kind 1 = boolean (probability a, value b).
   stdout per case: T tells | B bytes | D decoded | W writer tables | R reader tables *)
let rec take n l = if n = 0 then ([], l) else match l with [] -> failwith "short" | x :: r -> let (a, b) = take (n - 1) r in (x :: a, b)
let () =
  iter_lines (fun l ->
    match ints_of_line l with
    | adapt :: nctx :: rest ->
      let rec ctxs k rest = if k = 0 then ([], rest) else
        (match rest with n :: r -> let (c, r') = take (n + 1) r in let (cs, r'') = ctxs (k - 1) r' in (List.map z_of_int c :: cs, r'') | [] -> failwith "ctx") in
      let (cx, rest) = ctxs nctx rest in
      let nops = List.hd rest in
      let rec ops k r = if k = 0 then [] else
        (match r with kd :: a :: b :: r' -> (if kd = 0 then OpSym (nat_of_int a, nat_of_int b) else OpBool (z_of_int a, b <> 0)) :: ops (k - 1) r' | _ -> failwith "ops") in
      let os = ops nops (List.tl rest) in
      let ad = adapt <> 0 in
      let ((stf, wtab), tells) = run_enc ad cx est0 os in
      let bytes = done_bytes stf in
      let (dec, rtab) = decode_bytes ad cx bytes os in
      let pl f l = String.concat " " (List.map f l) in
      let pz = fun z -> string_of_int (int_of_z z) in
      Printf.printf "T %s | B %s | D %s | W %s | R %s | V %d\n" (pl pz tells) (pl pz bytes) (pl (fun n -> string_of_int (int_of_nat n)) dec)
        (pl (fun c -> pl pz c) wtab) (pl (fun c -> pl pz c) rtab) (if ops_okb ad cx os then 1 else 0)
    | _ -> ())
