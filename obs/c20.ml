(* line "C v*14" sets the configuration; each "O v*26" line is one coded frame: answer "1" or "0 <index of first broken rule>" *)
let cur = ref None
let zi s = let neg = String.length s > 0 && s.[0] = '-' in
  let n = z_of_int (int_of_string (if neg then String.sub s 1 (String.length s - 1) else s)) in if neg then Z.opp n else n
let () =
  iter_lines (fun l ->
    match split_ws l with
    | "C" :: r -> (match List.map zi r with
        | [a; b; c; d; e; f; g; h; i; j; k; l; m; n] -> cur := Some { c_disable_dlf = a; c_cdef_level = b; c_restoration = c; c_palette = d; c_intrabc = e; c_global_motion = f; c_warped = g; c_obmc = h; c_filter_intra = i; c_disable_cfl = j; c_inter_intra = k; c_superres = l; c_tile_cols_log2 = m; c_tile_rows_log2 = n }
        | _ -> print_string "ERR\n")
    | "O" :: r -> (match (!cur, List.map zi r) with
        | (Some c, [a1; a2; a3; a4; a5; a6; a7; a8; a9; a10; a11; a12; a13; a14; a15; a16; a17; a18; a19; a20; a21; a22; a23; a24; a25; a26]) ->
            let o = { o_lf0 = a1; o_lf1 = a2; o_cdef_bits = a3; o_cdef_y = a4; o_cdef_uv = a5; o_lr0 = a6; o_lr1 = a7; o_lr2 = a8; o_pal = a9; o_ibc = a10; o_ibc_flag = a11; o_gm = a12; o_warp = a13; o_obmc = a14; o_fintra = a15; o_cfl = a16; o_interintra = a17; o_sden = a18; o_fw = a19; o_upw = a20; o_tcl = a21; o_trl = a22; o_tcols = a23; o_trows = a24; o_sb128 = a25; o_fh = a26 } in
            if check_frame c o then print_string "1\n"
            else (match first_bad (rules c o) (nat_of_int 0) with Some k -> print_string ("0 " ^ string_of_int (int_of_nat k) ^ "\n") | None -> print_string "0 -1\n")
        | _ -> print_string "ERR\n")
    | _ -> ())
