(* Runs the extracted ring-layer SRM model on the same script as harness/unit/srm_harness.c and prints the same lines. *)
let pz z = string_of_int (int_of_z z)
let dump_ring (r : ring) =
  Printf.sprintf "%d,%d,%d,%s:%s" (List.length r.arr) (int_of_nat r.head) (int_of_nat r.tail)
    (let c = int_of_z r.cnt in string_of_int (if c < 0 then c + 4294967296 else c))
    (String.concat "," (List.map (fun s -> match s with None -> "-" | Some x -> string_of_int (int_of_nat x)) r.arr))
let dump_mq (q : mq) =
  Printf.sprintf "o:%s;p:%s;f:%s" (dump_ring q.oq) (dump_ring q.pq)
    (String.concat "/" (List.map (fun f -> Printf.sprintf "%s,%d:%s" (pz f.sem) (if f.quit then 1 else 0)
        (String.concat "," (List.map (fun i -> string_of_int (int_of_nat i)) f.items))) q.fifos))
let dump (s : sys) =
  Printf.sprintf " | E %s F %s W %s" (dump_mq s.emptyq) (match s.fullq with None -> "none" | Some q -> dump_mq q)
    (String.concat ";" (List.map (fun w -> Printf.sprintf "%s,%d" (pz w.live) (if w.ren then 1 else 0)) s.wraps))
let pres r = match r with RNone -> "none" | RObj o -> "obj " ^ string_of_int (int_of_nat o) | RBlocked -> "blocked" | RShutdown -> "shutdown"
  | RBool b -> "bool " ^ (if b then "1" else "0") | RErr -> "err"
let () =
  let st = ref (sys_new (nat_of_int 1) (nat_of_int 1) (nat_of_int 0)) in
  let doop o = let (s', r) = step !st o in st := s'; r in
  let out r = print_string ("R " ^ pres r ^ dump !st ^ "\n"); flush stdout in
  iter_lines (fun l ->
    match split_ws l with
    | ["NEW"; a; b; c] -> st := sys_new (nat_of_int (int_of_string a)) (nat_of_int (int_of_string b)) (nat_of_int (int_of_string c)); out RNone
    | ["END"] -> ()
    | ["SHUT"] -> out (doop Shutdown)
    | [c; a] ->
      let n = nat_of_int (int_of_string a) in
      (match c with
       | "RPE" -> out (doop (RelProcE n)) | "RPF" -> out (doop (RelProcF n))
       | "SWE" -> out (doop (SemWaitE n)) | "SWF" -> out (doop (SemWaitF n))
       | "POPE" -> out (doop (PopE n)) | "POPF" -> out (doop (PopF n)) | "PEEK" -> out (doop (PeekF n))
       | "POST" -> out (doop (Post n)) | "REL" -> out (doop (Release n))
       | "EN" -> out (doop (Enable n)) | "DIS" -> out (doop (Disable n))
       | "API_GE" -> ignore (doop (RelProcE n)); ignore (doop (SemWaitE n)); out (doop (PopE n))
       | "API_GF" -> ignore (doop (RelProcF n)); ignore (doop (SemWaitF n)); out (doop (PopF n))
       | "API_GFNB" -> ignore (doop (RelProcF n));
           (match doop (PeekF n) with
            | RBool false -> ignore (doop (RelProcF n)); ignore (doop (SemWaitF n)); out (doop (PopF n))
            | _ -> out RNone)
       | _ -> print_string "R badcmd\n"; flush stdout)
    | ["INC"; a; b] -> out (doop (IncLive (nat_of_int (int_of_string a), z_of_int (int_of_string b))))
    | _ -> ())
