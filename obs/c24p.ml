(* C24 protocol lockstep driver: replays the call sequence given to the real assign_enc_dec_segments on the extracted model
   (SegProto.init / right_step / down_step / start) and prints the same result lines as harness/unit/segproto_harness.c *)
let ttl = ref 0 and rr = ref 0 and bb = ref 1
let lo_a = ref [||] and hi_a = ref [||]
let lo r = if r >= 0 && r < Array.length !lo_a then !lo_a.(r) else 0
let hi r = if r >= 0 && r < Array.length !hi_a then !hi_a.(r) else 0
let q : state option ref = ref None
let out cont seg fb (s : state) =
  let b = Buffer.create 256 in
  Buffer.add_string b (Printf.sprintf "R %d %d F %d D" (if cont then 1 else 0) (if cont then seg else -1) fb);
  for i = 0 to !ttl - 1 do Buffer.add_string b (Printf.sprintf " %d" (s.dep i)) done;
  Buffer.add_string b " U";
  for r = 0 to !rr - 1 do Buffer.add_string b (Printf.sprintf " %d" (s.cur r)) done;
  print_endline (Buffer.contents b)
let rec remove_first x = function [] -> None | y :: t -> if x = y then Some t else (match remove_first x t with Some t' -> Some (y :: t') | None -> None)
let () =
  try
    while true do
      let line = input_line stdin in
      let w = List.filter (fun s -> s <> "") (String.split_on_char ' ' line) in
      (match w with
       | "G" :: t :: r :: b :: rest ->
         ttl := int_of_string t; rr := int_of_string r; bb := int_of_string b;
         let v = Array.of_list (List.map int_of_string rest) in
         lo_a := Array.sub v 0 !rr; hi_a := Array.sub v !rr !rr; q := None;
         print_endline line
       | ["M"] ->
         let s = init !bb lo hi in q := Some s; out true (lo 0) (-1) s
       | ["E"; r] ->
         let r = int_of_string r in
         (match !q with
          | None -> print_endline "R model: no picture in progress"
          | Some s ->
            (match remove_first r s.pend with
             | None -> print_endline (Printf.sprintf "R model: row %d has no pending feedback" r)
             | Some p -> let seg = s.cur r in
               let s' = start !bb { dep = s.dep; cur = s.cur; st = s.st; pend = p } seg in
               q := Some s'; out true seg (-1) s'))
       | ["C"; x] ->
         let x = int_of_string x in
         (match !q with
          | None -> print_endline "R model: no picture in progress"
          | Some s ->
            (match s.st x with
             | Running ->
               let r = row !bb x in
               let s1 = right_step !bb hi s x in
               let self = (match s1.st x with Mid b -> b | _ -> false) in
               let s2 = down_step !rr !bb lo s1 x self in
               let fb = if List.length s2.pend > List.length s1.pend then List.hd s2.pend else -1 in
               let down_started = (not self) && r + 1 < !rr && s2.cur (r + 1) > s1.cur (r + 1) in
               let seg = if self then s.cur r else if down_started then s1.cur (r + 1) else -1 in
               q := Some s2; out (self || down_started) seg fb s2
             | _ -> print_endline (Printf.sprintf "R model: segment %d is not running" x)))
       | _ -> print_endline "?")
    done
  with End_of_file -> ()
