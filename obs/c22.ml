(* stdin: lines "copy en bits a b r" produced by the C harness; prints disagreements with the generated model. *)
let () =
  let copies = Array.of_list rel_dist_copies in
  let n = ref 0 and bad = ref 0 in
  iter_lines (fun l ->
    match ints_of_line l with
    | [c; en; bits; a; b; r] ->
      incr n;
      let m = int_of_z (copies.(c) (z_of_int en) (z_of_int bits) (z_of_int a) (z_of_int b)) in
      if m <> r then begin incr bad; if !bad <= 20 then Printf.printf "DIFF copy=%d en=%d bits=%d a=%d b=%d impl=%d model=%d\n" c en bits a b r m end
    | _ -> ());
  Printf.printf "DONE n=%d bad=%d\n" !n !bad
