(* stdin:  "D v0 .. vn" sets the base configuration (= prior sequence-control-set content = library defaults);
           "C i v i v .." evaluates the model on base with the listed cells overridden.
   stdout per C line: "<rejects 0/1> <in_scope 0/1> <index of first firing clause or -1> <index of first violated documented condition or -1>" *)
let z_of_string (s : string) : z =
  let neg = String.length s > 0 && s.[0] = '-' in
  let ten = z_of_int 10 in
  let acc = ref Z0 in
  String.iteri (fun i ch -> if not (neg && i = 0) then acc := Z.add (Z.mul !acc ten) (z_of_int (Char.code ch - 48))) s;
  if neg then Z.opp !acc else !acc
let base = ref [||]
let () =
  iter_lines (fun l ->
    match split_ws l with
    | "D" :: vs -> base := Array.of_list (List.map z_of_string vs); print_string "ok\n"
    | "C" :: kv ->
      let a = Array.copy !base in
      let rec go l = match l with i :: v :: r -> a.(int_of_string i) <- z_of_string v; go r | _ -> () in
      go kv;
      let mk arr = config_of_list (Array.to_list arr) in
      let c = mk a and p = mk !base in
      let (cl, sc) = sp_model c p in
      let rec first i l = match l with [] -> -1 | b :: r -> if b then i else first (i + 1) r in
      let f = first 0 cl in
      let g = golden (effective c p) in
      let gf = first 0 (List.map not g) in
      Printf.printf "%d %d %d %d\n" (if f >= 0 then 1 else 0) (if sc then 1 else 0) f gf
    | _ -> ())
