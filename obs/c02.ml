(* stdin:  "R <hex>"  reference sequence-header OBU bytes (header+size+payload) from svt_av1_enc_stream_header
           "P <first 0/1> <hex>"  one packet
   stdout per packet: "1" or "0 <reason>" *)
let bytes_of_hex (s : string) : z list =
  let n = String.length s / 2 in List.init n (fun i -> z_of_int (int_of_string ("0x" ^ String.sub s (2 * i) 2)))
let refseq = ref []
let () =
  iter_lines (fun l ->
    match split_ws l with
    | ["R"; h] ->
      let b = bytes_of_hex h in
      (match parse_obus (nat_of_int (List.length b + 1)) b with
       | Some [o] -> refseq := o.o_payload; print_string "ok\n"
       | Some (o :: _) -> refseq := o.o_payload; print_string "ok\n"
       | _ -> refseq := []; print_string "badref\n")
    | ["P"; first; h] ->
      let b = bytes_of_hex h in
      if check_packet !refseq (first = "1") b then print_string "1\n"
      else begin
        let why = (match parse_obus (nat_of_int (List.length b + 1)) b with
          | None -> "obu framing: a size field does not match its payload / forbidden or reserved bit set / truncated"
          | Some obus ->
            let nd = List.length (List.filter displayed obus) in
            let seqs = List.filter (fun o -> int_of_z o.o_type = 1) obus in
            let badseq = List.exists (fun o -> parse_seq_header o.o_payload = None) seqs in
            let diffseq = List.exists (fun o -> o.o_payload <> !refseq) seqs in
            (match obus with
             | o0 :: _ when int_of_z o0.o_type <> 2 -> "does not start with a temporal delimiter"
             | _ -> if nd <> 1 then Printf.sprintf "%d displayed frames in the packet" nd
                    else if badseq then "sequence header does not parse (syntax / trailing bits)"
                    else if diffseq then "sequence header differs from the stream header"
                    else "temporal unit structure (sequence header missing at a key frame, duplicate delimiter, unknown OBU type)")) in
        print_string ("0 " ^ why ^ "\n") end
    | _ -> ())
