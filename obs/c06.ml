(* for each stdin line "F requested available": "S i0 i1 ..." the variant index the model selects for every table entry *)
let z_of_string (s : string) : z =
  let ten = z_of_int 10 in
  let acc = ref Z0 in
  String.iter (fun ch -> acc := Z.add (Z.mul !acc ten) (z_of_int (Char.code ch - 48))) s;
  !acc
let () =
  iter_lines (fun l ->
    match split_ws l with
    | ["F"; r; a] ->
        let f = effective (z_of_string r) (z_of_string a) in
        print_string ("S " ^ String.concat " " (List.map (fun e -> string_of_int (int_of_nat (select f e))) table) ^ "\n")
    | _ -> ())
