(* each stdin line: op names of one encoder script; answer: the expected result class of every call *)
let op_of = function
  | "ih" -> IH | "ih_nullpp" -> IH_nullpp | "ih_nullcfg" -> IH_nullcfg | "sp_ok" -> SP_ok | "sp_bad" -> SP_bad | "sp_bad2" -> SP_bad2 | "sp_nullcfg" -> SP_nullcfg | "sp_nullh" -> SP_nullh
  | "init" -> INIT | "init_nullh" -> INIT_nullh | "hdr" -> HDR | "hdr_nullh" -> HDR_nullh | "hdr_nullout" -> HDR_nullout | "hdrrel_null" -> HDRREL_null
  | "send" -> SEND | "send_nullh" -> SEND_nullh | "send_nullbuf" -> SEND_nullbuf | "eos" -> EOS | "get" -> GET | "get_nullh" -> GET_nullh | "get_nullout" -> GET_nullout | "drain" -> DRAIN
  | "rel_null" -> REL_null | "rel_nullp" -> REL_nullp | "recon" -> RECON | "recon_nullh" -> RECON_nullh | "recon_nullbuf" -> RECON_nullbuf
  | "deinit" -> DEINIT | "deinit_nullh" -> DEINIT_nullh | "dh" -> DH | "dh_nullh" -> DH_nullh | s -> failwith s
let cls = function Ok -> "ok" | Err -> "err" | OkOrEmpty -> "okempty" | NoFault -> "nofault"
let () = print_string ("V " ^ String.concat " " (List.map (fun f -> if fn_ok (snd f) then "1" else "0") lock_functions) ^ "\n")
let () = iter_lines (fun l -> print_string (String.concat " " (List.map cls (run init_st (List.map op_of (split_ws l)))) ^ "\n"))
