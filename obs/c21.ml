(* cases in the format written by harness/unit/pad_harness.c: "P T L W Wal R H Hal B stride", "I ..." rows of the internal plane,
   "S ..." rows of the caller's plane, ("C ..." rows are ignored,) "E": prints the model's resulting plane as "M ..." rows and "E" *)
let ints l = List.map (fun s -> nat_of_int (int_of_string s)) l
let () =
  let p = ref [] and ir = ref [] and sr = ref [] in
  iter_lines (fun l ->
    match split_ws l with
    | "P" :: r -> p := List.map int_of_string r; ir := []; sr := []
    | "I" :: r -> ir := ints r :: !ir
    | "S" :: r -> sr := ints r :: !sr
    | "E" :: _ -> (match !p with
        | [t; l_; w; wal; r; h; hal; b; _] ->
            let res = process_picture (List.rev !ir) (List.rev !sr) (nat_of_int t) (nat_of_int l_) (nat_of_int w) (nat_of_int wal) (nat_of_int r) (nat_of_int h) (nat_of_int hal) (nat_of_int b) in
            List.iter (fun row -> print_string ("M " ^ String.concat " " (List.map (fun x -> string_of_int (int_of_nat x)) row) ^ "\n")) res; print_string "E\n"
        | _ -> print_string "ERR\n")
    | _ -> ())
