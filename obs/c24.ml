(* stdin: one grid per line as printed by harness/unit/seg_harness.c:
   W H B R SBB ttl  valid[ttl] xs[ttl] ys[ttl] lo[R] hi[R] dep[ttl]      (65535 in xs/ys = unset)
   stdout: OK | FAIL <which sub-checks failed> *)
let rec take n l = if n = 0 then ([], l) else match l with [] -> failwith "short" | x :: r -> let (a, b) = take (n - 1) r in (x :: a, b)
let () =
  iter_lines (fun l ->
    match ints_of_line l with
    | w :: h :: b :: r :: sbb :: ttl :: rest ->
      let nl l = List.map nat_of_int l in
      let (valid, rest) = take ttl rest in let (xs, rest) = take ttl rest in let (ys, rest) = take ttl rest in
      let (lo, rest) = take r rest in let (hi, rest) = take r rest in let (dep, _) = take ttl rest in
      let g = { gW = nat_of_int w; gH = nat_of_int h; gB = nat_of_int b; gR = nat_of_int r; gSBB = nat_of_int sbb;
                gvalid = nl valid; gxs = nl xs; gys = nl ys; glo = nl lo; ghi = nl hi; gdep = nl dep } in
      if grid_ok_b g then print_string "OK\n"
      else Printf.printf "FAIL%s%s%s%s%s%s\n" (if rows_ok_b g then "" else " rows") (if up_ok_b g then "" else " up") (if hi_ok_b g then "" else " hi")
             (if segs_ok_b g then "" else " segs") (if cover_b g then "" else " cover") (if deps_b g then "" else " deps")
    | _ -> print_string "BAD\n")
