(* Trusted glue: nat conversions and line reading. *)
let rec nat_of_int (n : int) : nat = if n <= 0 then O else S (nat_of_int (n - 1))
let rec int_of_nat (n : nat) : int = match n with O -> 0 | S m -> 1 + int_of_nat m
let split_ws (s : string) : string list = List.filter (fun x -> x <> "") (String.split_on_char ' ' (String.trim s))
let ints_of_line (s : string) : int list = List.map int_of_string (split_ws s)
let iter_lines (f : string -> unit) : unit =
  try while true do f (input_line stdin) done with End_of_file -> ()
