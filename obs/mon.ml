(* Extracted verified monitors applied to histories. One request per line, answer "1" / "0":
   C03 n base step use_recon npk (pts dts eos)*npk nrec (pts)*nrec
   C19 n period (intra 0/1)*n
   C18 lo hi nq (q)*nq
   C26 n (rl rcb rcr)*n (cl ccb ccr)*n                                           *)
let rec take n l = if n = 0 then ([], l) else match l with [] -> failwith "short" | x :: r -> let (a, b) = take (n - 1) r in (x :: a, b)
let zl = List.map z_of_int
let rec triples l = match l with a :: b :: c :: r -> ((z_of_int a, z_of_int b), z_of_int c) :: triples r | _ -> []
let () =
  iter_lines (fun l ->
    let ans = (try (match split_ws l with
      | "C03" :: r -> (match List.map int_of_string r with
          | n :: base :: step :: ur :: npk :: rest ->
            let (pk, rest) = take (3 * npk) rest in
            let rec pks l = match l with a :: b :: c :: r -> { p_pts = z_of_int a; p_dts = z_of_int b; p_eos = (c <> 0) } :: pks r | _ -> [] in
            let nrec = List.hd rest in let (rc, _) = take nrec (List.tl rest) in
            check_c03 (nat_of_int n) (z_of_int base) (z_of_int step) (pks pk) (if ur <> 0 then Some (zl rc) else None)
          | _ -> false)
      | "C19" :: r -> (match List.map int_of_string r with
          | n :: period :: rest -> check_c19_placement (nat_of_int n) (z_of_int period) (List.map (fun x -> x <> 0) rest)
          | _ -> false)
      | "C18" :: r -> (match List.map int_of_string r with
          | lo :: hi :: nq :: rest -> check_c18_bounds (z_of_int lo) (z_of_int hi) (zl rest)
          | _ -> false)
      | "C26" :: r -> (match List.map int_of_string r with
          | n :: rest -> let (a, b) = take (3 * n) rest in check_c26 (triples a) (triples b)
          | _ -> false)
      | _ -> false) with _ -> false) in
    print_string (if ans then "1\n" else "0\n"); flush stdout)
