(* for each stdin line "B v0 v1 .." (inputs of load_default_buffer_configuration_settings, in BuffersGen.binp order):
   "R o0 o1 .." the model's outputs (or "R NONE"), and "S dom demand input_pool demand_parent parent_pool" *)
let z_of_string (s : string) : z =
  let neg = String.length s > 0 && s.[0] = '-' in
  let ten = z_of_int 10 in
  let acc = ref Z0 in
  String.iteri (fun i ch -> if not (neg && i = 0) then acc := Z.add (Z.mul !acc ten) (z_of_int (Char.code ch - 48))) s;
  if neg then Z.opp !acc else !acc
let pz (x : z) = match x with Z0 -> "0" | Zpos p -> Printf.sprintf "%u" (int_of_pos p) | Zneg p -> "-" ^ string_of_int (int_of_pos p)
let () =
  iter_lines (fun l ->
    match split_ws l with
    | "B" :: vs ->
        let i = binp_of_list (List.map z_of_string vs) in
        (match buffers i with
         | Some o -> print_string ("R " ^ String.concat " " (List.map pz o) ^ "\n")
         | None -> print_string "R NONE\n");
        (match shortfall i with
         | Some (((d, p), dp), pp) -> print_string (Printf.sprintf "S %d %s %s %s %s\n" (if in_domainb i then 1 else 0) (pz d) (pz p) (pz dp) (pz pp))
         | None -> print_string "S NONE\n")
    | _ -> ())
