(* prints the model's defaults, one line: "M v0 v1 ..."; and for each stdin line "P v0 v1 .." (a prior) the
   defaults computed from that prior: "R v0 v1 ..." *)
let z_of_string (s : string) : z =
  let neg = String.length s > 0 && s.[0] = '-' in
  let ten = z_of_int 10 in
  let acc = ref Z0 in
  String.iteri (fun i ch -> if not (neg && i = 0) then acc := Z.add (Z.mul !acc ten) (z_of_int (Char.code ch - 48))) s;
  if neg then Z.opp !acc else !acc
let rec string_of_pos (p : positive) : string =
  (* decimal printing of big positives through repeated division by 10 is avoided: cells fit in 64 bits except never here *)
  string_of_int (int_of_pos p)
let pz (x : z) = match x with Z0 -> "0" | Zpos p -> Printf.sprintf "%u" (int_of_pos p) | Zneg p -> "-" ^ string_of_int (int_of_pos p)
let () =
  print_string ("M " ^ String.concat " " (List.map pz (config_to_list defaults)) ^ "\n");
  iter_lines (fun l ->
    match split_ws l with
    | "P" :: vs -> let c = config_of_list (List.map z_of_string vs) in
                   print_string ("R " ^ String.concat " " (List.map pz (config_to_list (init_param c))) ^ "\n")
    | _ -> ())
