/* usage: kern <detected-flags-hex> [only-name]   prints MISMATCH lines and a final "DONE items calls mismatches" */
#include "kern_includes.inc"
#include "kern_rt.h"
#include <unistd.h>
#include <fcntl.h>

typedef void (*pred8_fn)(uint8_t *, ptrdiff_t, const uint8_t *, const uint8_t *);
typedef void (*pred16_fn)(uint16_t *, ptrdiff_t, const uint16_t *, const uint16_t *, int32_t);
typedef unsigned int (*var_fn)(const uint8_t *, int, const uint8_t *, int, unsigned int *);
typedef uint32_t (*sad_fn)(const uint8_t *, int, const uint8_t *, int);
typedef void (*sad4d_fn)(const uint8_t *, int, const uint8_t *const[], int, uint32_t *);
typedef unsigned int (*obmc_sad_fn)(const uint8_t *, int, const int32_t *, const int32_t *);
typedef unsigned int (*obmc_var_fn)(const uint8_t *, int, const int32_t *, const int32_t *, unsigned int *);
typedef uint64_t (*sfd_fn)(uint8_t *, uint32_t, uint32_t, uint8_t *, int32_t, uint32_t, uint32_t, uint32_t);
typedef void (*resid8_fn)(uint8_t *, uint32_t, uint8_t *, uint32_t, int16_t *, uint32_t, uint32_t, uint32_t);
typedef void (*resid16_fn)(uint16_t *, uint32_t, uint16_t *, uint32_t, int16_t *, uint32_t, uint32_t, uint32_t);
typedef int64_t (*sse_fn)(const uint8_t *, int, const uint8_t *, int, int, int);
typedef uint32_t (*nxm_fn)(const uint8_t *, uint32_t, const uint8_t *, uint32_t, uint32_t, uint32_t);
typedef void (*avg_fn)(uint8_t *, uint32_t, uint8_t *, uint32_t, uint8_t *, uint32_t, uint32_t, uint32_t);

typedef void (*cdef_fn)(uint8_t *, uint16_t *, int32_t, const uint16_t *, int32_t, int32_t, int32_t, int32_t, int32_t, int32_t, int32_t);
typedef int32_t (*cdefdir_fn)(const uint16_t *, int32_t, int32_t *, int32_t);
typedef void (*qfp_fn)(const int32_t *, intptr_t, const int16_t *, const int16_t *, const int16_t *, const int16_t *, int32_t *, int32_t *, const int16_t *, uint16_t *, const int16_t *, const int16_t *);

#include "kern_items.inc"

static void run_pred8(const Item *it, int vi) {
    int w = it->w, h = it->h;
    int strides[2] = {w, 2 * w + 64};
    uint8_t *ab = al(1024), *lb = al(1024), *d0 = al(256 * 200), *d1 = al(256 * 200);
    for (int p = 0; p < NPAT; p++) for (int q = 0; q < 3; q++) for (int s = 0; s < 2; s++) {
        int pl = q == 0 ? p : q == 1 ? (p + 3) % NPAT : 3;
        fill8(ab, 1024, p); fill8(lb, 1024, pl);
        memset(d0, 0xA5, 256 * 200); memset(d1, 0xA5, 256 * 200);
        ((pred8_fn)it->c)(d0, strides[s], ab + 16, lb + 16);
        ((pred8_fn)it->v[vi])(d1, strides[s], ab + 16, lb + 16);
        ncall++;
        if (memcmp(d0, d1, 256 * 200)) { mismatch(it, vi, "pred8", p, pl, strides[s]); goto out; }
    }
out: free(ab); free(lb); free(d0); free(d1);
}
static void run_pred16(const Item *it, int vi) {
    int w = it->w, h = it->h;
    int strides[2] = {w, 2 * w + 32};
    uint16_t *ab = al(2048), *lb = al(2048), *d0 = al(2 * 256 * 200), *d1 = al(2 * 256 * 200);
    for (int bd = 8; bd <= 10; bd += 2) for (int p = 0; p < NPAT; p++) for (int q = 0; q < 3; q++) for (int s = 0; s < 2; s++) {
        int pl = q == 0 ? p : q == 1 ? (p + 3) % NPAT : 3;
        fill16(ab, 1024, p, bd); fill16(lb, 1024, pl, bd);
        memset(d0, 0xA5, 2 * 256 * 200); memset(d1, 0xA5, 2 * 256 * 200);
        ((pred16_fn)it->c)(d0, strides[s], ab + 16, lb + 16, bd);
        ((pred16_fn)it->v[vi])(d1, strides[s], ab + 16, lb + 16, bd);
        ncall++;
        if (memcmp(d0, d1, 2 * 256 * 200)) { mismatch(it, vi, "pred16", p, pl, bd * 1000 + strides[s]); goto out; }
    }
out: free(ab); free(lb); free(d0); free(d1);
}
static void run_two8(const Item *it, int vi) {   /* variance, sad, sad4d, sse, nxm sad, spatial distortion, residual, average */
    int w = it->w, h = it->h;
    size_t n = 400 * 200;
    uint8_t *a = al(n), *b = al(n);
    int strides[3][2] = {{w, w}, {w + 8, w + 24}, {2 * w + 13, 2 * w + 5}};
    int offs[2] = {0, 3};
    for (int pr = 0; pr < NPAIR; pr++) for (int s = 0; s < 3; s++) for (int o = 0; o < 2; o++) {
        fill8(a, n, PAIRS[pr][0]); fill8(b, n, PAIRS[pr][1]);
        const uint8_t *pa = a + offs[o], *pb = b + offs[o] * 2;
        int sa = strides[s][0], sb = strides[s][1];
        ncall++;
        switch (it->fam) {
        case 3: { unsigned e0 = 1, e1 = 2; unsigned r0 = ((var_fn)it->c)(pa, sa, pb, sb, &e0), r1 = ((var_fn)it->v[vi])(pa, sa, pb, sb, &e1);
                  if (r0 != r1 || e0 != e1) { mismatch(it, vi, "variance", pr, s, o); goto out; } break; }
        case 4: { uint32_t r0 = ((sad_fn)it->c)(pa, sa, pb, sb), r1 = ((sad_fn)it->v[vi])(pa, sa, pb, sb);
                  if (r0 != r1) { mismatch(it, vi, "sad", pr, s, o); goto out; } break; }
        case 5: { const uint8_t *refs[4] = {pb, pb + 1, pb + sb, pb + 2 * sb + 5}; uint32_t r0[4] = {0}, r1[4] = {0};
                  ((sad4d_fn)it->c)(pa, sa, refs, sb, r0); ((sad4d_fn)it->v[vi])(pa, sa, refs, sb, r1);
                  if (memcmp(r0, r1, sizeof r0)) { mismatch(it, vi, "sad4d", pr, s, o); goto out; } break; }
        case 8: { for (int ww = 4; ww <= 128; ww += 4) for (int hh = 4; hh <= 64; hh += (hh < 16 ? 4 : 16)) {
                      uint64_t r0 = ((sfd_fn)it->c)((uint8_t *)a, offs[o], sa + 128, (uint8_t *)b, offs[o] * 2, sb + 128, ww, hh), r1 = ((sfd_fn)it->v[vi])((uint8_t *)a, offs[o], sa + 128, (uint8_t *)b, offs[o] * 2, sb + 128, ww, hh);
                      ncall++; if (r0 != r1) { mismatch(it, vi, "spatial_full_distortion", pr, ww, hh); goto out; } } break; }
        case 9: { for (int ww = 4; ww <= 128; ww *= 2) for (int hh = 4; hh <= 128; hh *= 2) {
                      int16_t *o0 = al(2 * 200 * 200), *o1 = al(2 * 200 * 200);
                      ((resid8_fn)it->c)((uint8_t *)pa, sa + 128, (uint8_t *)pb, sb + 128, o0, 160, ww, hh); ((resid8_fn)it->v[vi])((uint8_t *)pa, sa + 128, (uint8_t *)pb, sb + 128, o1, 160, ww, hh);
                      int bad = memcmp(o0, o1, 2 * 200 * 200); free(o0); free(o1); ncall++;
                      if (bad) { mismatch(it, vi, "residual8", pr, ww, hh); goto out; } } break; }
        case 11: { for (int ww = 4; ww <= 128; ww += (ww < 16 ? 4 : 12)) for (int hh = 4; hh <= 64; hh += 12) {
                      int64_t r0 = ((sse_fn)it->c)(pa, sa + 128, pb, sb + 128, ww, hh), r1 = ((sse_fn)it->v[vi])(pa, sa + 128, pb, sb + 128, ww, hh);
                      ncall++; if (r0 != r1) { mismatch(it, vi, "sse", pr, ww, hh); goto out; } } break; }
        case 12: { static const int ws[] = {4, 8, 16, 24, 32, 48, 64, 128}; for (int k = 0; k < 8; k++) for (int hh = 4; hh <= 64; hh *= 2) {
                      uint32_t r0 = ((nxm_fn)it->c)(pa, sa + 128, pb, sb + 128, hh, ws[k]), r1 = ((nxm_fn)it->v[vi])(pa, sa + 128, pb, sb + 128, hh, ws[k]);
                      ncall++; if (r0 != r1) { mismatch(it, vi, "nxm_sad", pr, ws[k], hh); goto out; } } break; }
        case 13: { for (int ww = 4; ww <= 64; ww *= 2) for (int hh = 4; hh <= 64; hh *= 2) {
                      uint8_t *o0 = al(200 * 200), *o1 = al(200 * 200);
                      ((avg_fn)it->c)((uint8_t *)pa, sa + 128, (uint8_t *)pb, sb + 128, o0, 128, ww, hh); ((avg_fn)it->v[vi])((uint8_t *)pa, sa + 128, (uint8_t *)pb, sb + 128, o1, 128, ww, hh);
                      int bad = memcmp(o0, o1, 200 * 200); free(o0); free(o1); ncall++;
                      if (bad) { mismatch(it, vi, "picture_average", pr, ww, hh); goto out; } } break; }
        }
    }
out: free(a); free(b);
}
static void run_obmc(const Item *it, int vi) {
    int w = it->w, h = it->h; size_t n = 400 * 200;
    uint8_t *pre = al(n); int32_t *ws = al(4 * 128 * 128), *mk = al(4 * 128 * 128);
    for (int p = 0; p < 8; p++) for (int s = 0; s < 2; s++) {
        fill8(pre, n, p == 0 ? 1 : p == 1 ? 0 : p == 2 ? 3 : p == 3 ? 4 : p == 4 ? 5 : p == 5 ? 2 : 3);
        for (int i = 0; i < 128 * 128; i++) {
            int m = p == 0 ? 4096 : p == 1 ? 4096 : p == 2 ? (int)(rnd() % 4097) : p == 3 ? 0 : p == 4 ? 4096 - (int)(rnd() % 64) : (int)(rnd() % 4097);
            int v = p == 0 ? 0 : p == 1 ? 255 * 4096 : p == 4 ? 0 : (int)(rnd() % 256) * (int)(rnd() % 4097);
            mk[i] = m; ws[i] = v;
        }
        int st = s ? w + 19 : w; ncall++;
        if (it->fam == 6) { unsigned r0 = ((obmc_sad_fn)it->c)(pre + 3 * s, st, ws, mk), r1 = ((obmc_sad_fn)it->v[vi])(pre + 3 * s, st, ws, mk);
                            if (r0 != r1) { mismatch(it, vi, "obmc_sad", p, s, 0); goto out; } }
        else { unsigned e0 = 1, e1 = 2; unsigned r0 = ((obmc_var_fn)it->c)(pre + 3 * s, st, ws, mk, &e0), r1 = ((obmc_var_fn)it->v[vi])(pre + 3 * s, st, ws, mk, &e1);
               if (r0 != r1 || e0 != e1) { mismatch(it, vi, "obmc_variance", p, s, 0); goto out; } }
    }
out: free(pre); free(ws); free(mk);
}
static void run_resid16(const Item *it, int vi) {
    uint16_t *a = al(2 * 300 * 200), *b = al(2 * 300 * 200);
    for (int pr = 0; pr < NPAIR; pr++) for (int ww = 4; ww <= 128; ww *= 2) for (int hh = 4; hh <= 128; hh *= 2) {
        fill16(a, 300 * 200, PAIRS[pr][0], 10); fill16(b, 300 * 200, PAIRS[pr][1], 10);
        int16_t *o0 = al(2 * 200 * 200), *o1 = al(2 * 200 * 200);
        ((resid16_fn)it->c)(a + 3, 256 + 8, b + 5, 256 + 24, o0, 160, ww, hh); ((resid16_fn)it->v[vi])(a + 3, 256 + 8, b + 5, 256 + 24, o1, 160, ww, hh);
        int bad = memcmp(o0, o1, 2 * 200 * 200); free(o0); free(o1); ncall++;
        if (bad) { mismatch(it, vi, "residual16", pr, ww, hh); goto out; }
    }
out: free(a); free(b);
}

#define CB 144   /* stride of the CDEF input tile (CDEF_BSTRIDE) */
static void run_cdef(const Item *it, int vi) {
    static uint16_t tile[(64 + 16) * CB]; uint8_t *d8a = al(64 * 64), *d8b = al(64 * 64); uint16_t *d16a = al(2 * 64 * 64), *d16b = al(2 * 64 * 64);
    static const int bw[4] = {4, 4, 8, 8}, bh[4] = {4, 8, 4, 8};
    for (int shift = 0; shift <= 2; shift += 2) for (int pat = 0; pat < 6; pat++) for (int edge = 0; edge < 6; edge++) {
        int maxv = (255 << shift) | (shift ? 3 : 0);
        for (int i = 0; i < (64 + 16) * CB; i++) tile[i] = (uint16_t)sample(pat == 5 ? 7 : pat, i, maxv);
        /* picture / skipped-region edges: whole rows or columns of "unavailable" markers around the block at (8,8) */
        uint16_t *in = tile + 8 * CB + 8;
        if (edge == 1 || edge == 5) for (int r = -3; r < 0; r++) for (int c = -8; c < 16; c++) in[r * CB + c] = 16384;
        if (edge == 2 || edge == 5) for (int r = -3; r < 12; r++) for (int c = -8; c < 0; c++) in[r * CB + c] = 16384;
        if (edge == 3) for (int r = -3; r < 12; r++) for (int c = 4; c < 16; c++) in[r * CB + c] = 16384;
        if (edge == 4) for (int r = 4; r < 12; r++) for (int c = -8; c < 16; c++) in[r * CB + c] = 16384;
        for (int bs = 0; bs < 4; bs++) {
            if ((edge == 3 && bw[bs] != 4) || (edge == 4 && bh[bs] != 4)) continue;
            for (int dir = 0; dir < 8; dir++) for (int pri = 0; pri < 16; pri += (pri < 4 ? 1 : 5)) for (int sec = 0; sec <= 4; sec = sec ? sec * 2 : 1) for (int damp = 3; damp <= 6; damp += 3) for (int to16 = 0; to16 < 2; to16++) {
                if (!pri && !sec) continue;   /* the filter is never called with both strengths zero (the block is copied instead) */
                if (!to16 && shift) continue;  /* an 8-bit destination goes with 8-bit samples only */
                memset(d8a, 0x11, 64 * 64); memset(d8b, 0x11, 64 * 64); memset(d16a, 0x11, 2 * 64 * 64); memset(d16b, 0x11, 2 * 64 * 64);
                ((cdef_fn)it->c)(to16 ? NULL : d8a, to16 ? d16a : NULL, 16, in, pri << shift, sec << shift, dir, damp + shift, damp + shift - 1 < 3 ? 3 : damp + shift - 1, bs, shift);
                ((cdef_fn)it->v[vi])(to16 ? NULL : d8b, to16 ? d16b : NULL, 16, in, pri << shift, sec << shift, dir, damp + shift, damp + shift - 1 < 3 ? 3 : damp + shift - 1, bs, shift);
                ncall++;
                if (memcmp(d8a, d8b, 64 * 64) || memcmp(d16a, d16b, 2 * 64 * 64)) { if (getenv("KERN_DEBUG")) { for (int q = 0; q < 64 * 64; q++) if (d8a[q] != d8b[q] || d16a[q] != d16b[q]) { printf("DBG shift %d pat %d edge %d bs %d dir %d pri %d sec %d damp %d to16 %d at %d: %d %d / %d %d\n", shift, pat, edge, bs, dir, pri, sec, damp, to16, q, d8a[q], d8b[q], d16a[q], d16b[q]); break; } } mismatch(it, vi, to16 ? "cdef_filter_block_dst16" : "cdef_filter_block_dst8", bs, edge, dir * 100 + pri); goto out; }
            }
        }
    }
out: free(d8a); free(d8b); free(d16a); free(d16b);
}
static void run_cdefdir(const Item *it, int vi) {
    uint16_t *img = al(2 * 64 * 64);
    for (int shift = 0; shift <= 2; shift += 2) for (int pat = 0; pat < NPAT; pat++) for (int rep = 0; rep < 4; rep++) {
        for (int i = 0; i < 64 * 64; i++) img[i] = (uint16_t)sample(pat, i + rep * 131, (255 << shift) | (shift ? 3 : 0));
        int32_t v0 = -1, v1 = -2; int32_t r0 = ((cdefdir_fn)it->c)(img + rep * 3, 16 + rep * 8, &v0, shift), r1 = ((cdefdir_fn)it->v[vi])(img + rep * 3, 16 + rep * 8, &v1, shift);
        ncall++; if (r0 != r1 || v0 != v1) { mismatch(it, vi, "cdef_find_dir", pat, rep, shift); break; }
    }
    free(img);
}

/* forward quantizer "fp" (8-bit path): coefficients over the whole int16 range the transforms can produce, quantizer steps from the
   smallest to the largest table entry; the interesting region is |coeff| + round near INT16_MAX, where the SIMD code saturates */
static void run_qfp(const Item *it, int vi) {
    static const int qs[][2] = {{4, 4}, {8, 9}, {100, 120}, {256, 300}, {512, 600}, {1024, 1100}, {1336, 1828}};
    int nmax = 1024; int32_t *co = al(4 * nmax), *q0 = al(4 * nmax), *q1 = al(4 * nmax), *d0 = al(4 * nmax), *d1 = al(4 * nmax);
    int16_t *scan = al(2 * nmax), *iscan = al(2 * nmax);
    int big = strstr(it->name, "32x32") || strstr(it->name, "64x64");
    for (int n = big ? 1024 : 16; n <= 1024; n *= 4) for (int perm = 0; perm < 2; perm++) for (int qi = 0; qi < 7; qi++) for (int pat = 0; pat < 8; pat++) {
        for (int i = 0; i < n; i++) { int j = perm ? (i ^ 1) : i; scan[i] = (int16_t)j; iscan[j] = (int16_t)i; }
        int16_t zbin[8], rnd_[8], quant[8], qsh[8], deq[8];
        for (int k = 0; k < 8; k++) { int q = qs[qi][k != 0]; deq[k] = (int16_t)q; quant[k] = (int16_t)((1 << 16) / q > 32767 ? 32767 : (1 << 16) / q); rnd_[k] = (int16_t)((64 * q) >> 7); zbin[k] = (int16_t)(q / 2); qsh[k] = 1 << 12; }
        for (int i = 0; i < n; i++) {
            int v;
            switch (pat) {
            case 0: v = 0; break;
            case 1: v = (int)(rnd() % 64) - 32; break;
            case 2: v = (int)(rnd() % 65535) - 32767; break;
            case 3: v = (i == 0) ? 32640 : (int)(rnd() % 9) - 4; break;                 /* flat full-range block: DC at the top of the range */
            case 4: v = (i == 0) ? -32640 : 0; break;
            case 5: v = 32767 - (int)(rnd() % 700); if (rnd() & 1) v = -v; break;       /* everything near the int16 limit */
            case 6: v = (i % 7 == 0) ? 32767 : (i % 11 == 0) ? -32767 : (int)(rnd() % 2048) - 1024; break;
            default: v = (int)(rnd() % 4096) - 2048; break;
            }
            co[i] = v;
        }
        memset(q0, 0x55, 4 * nmax); memset(q1, 0x55, 4 * nmax); memset(d0, 0x55, 4 * nmax); memset(d1, 0x55, 4 * nmax);
        uint16_t e0 = 7777, e1 = 8888;
        ((qfp_fn)it->c)(co, n, zbin, rnd_, quant, qsh, q0, d0, deq, &e0, scan, iscan);
        ((qfp_fn)it->v[vi])(co, n, zbin, rnd_, quant, qsh, q1, d1, deq, &e1, scan, iscan);
        ncall++;
        if (e0 != e1 || memcmp(q0, q1, 4 * n) || memcmp(d0, d1, 4 * n)) { mismatch(it, vi, "quantize_fp", n, qi, pat); goto out; }
    }
out: free(co); free(q0); free(q1); free(d0); free(d1); free(scan); free(iscan);
}

int main(int argc, char **argv) {
    unsigned long long flags = argc > 1 ? strtoull(argv[1], NULL, 16) : 0;
    const char *only = argc > 2 ? argv[2] : NULL;
    int nit = 0;
    /* some C references call other dispatched helpers: install the tables as the library does */
    { int so = dup(1), nul = open("/dev/null", 1); fflush(stdout); dup2(nul, 1); setup_common_rtcd_internal((CPU_FLAGS)flags); setup_rtcd_internal((CPU_FLAGS)flags); fflush(stdout); dup2(so, 1); }
    for (size_t i = 0; i < sizeof items / sizeof items[0]; i++) {
        const Item *it = &items[i];
        if (only && strcmp(only, it->name)) continue;
        for (int vi = 0; vi < it->nv; vi++) {
            if (!((flags >> it->bit[vi]) & 1)) continue;
            rs = 12345 + (uint32_t)i * 7919u;
            nit++;
            switch (it->fam) {
            case 1: run_pred8(it, vi); break;
            case 2: run_pred16(it, vi); break;
            case 3: case 4: case 5: case 8: case 9: case 11: case 12: case 13: run_two8(it, vi); break;
            case 6: case 7: run_obmc(it, vi); break;
            case 10: run_resid16(it, vi); break;
            case 14: run_cdef(it, vi); break;
            case 15: run_cdefdir(it, vi); break;
            case 16: run_qfp(it, vi); break;
            }
        }
    }
    printf("DONE %d %d %d\n", nit, ncall, nmis);
    return 0;
}
