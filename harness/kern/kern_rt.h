/* C07 differential kernel runner: shared runtime. The table of items (kern_items.inc) is generated from the dispatch
 * tables of the current source by tools/checks/c07.py; each item names the C reference and its SIMD variants. */
#include <stdio.h>
#include <stdlib.h>
#include <stdint.h>
#include <string.h>
#include <stddef.h>

typedef struct { const char *name; int fam, w, h; void *c; int nv; void *v[4]; int bit[4]; const char *vn[4]; } Item;

static uint32_t rs = 1;
static uint32_t rnd(void) { rs ^= rs << 13; rs ^= rs >> 17; rs ^= rs << 5; return rs; }
static void *al(size_t n) { void *p = NULL; if (posix_memalign(&p, 64, n + 256)) exit(3); memset(p, 0, n + 256); return p; }

/* sample patterns: 0 zeros, 1 max, 2 alternating 0/max, 3 random, 4 random high, 5 random low, 6 ramp, 7 mostly mid with extremes, 8 alternating max/0 by row pairs */
#define NPAT 9
static int sample(int pat, int i, int maxv) {
    switch (pat) {
    case 0: return 0;
    case 1: return maxv;
    case 2: return (i & 1) ? maxv : 0;
    case 3: return (int)(rnd() % (uint32_t)(maxv + 1));
    case 4: return maxv - (int)(rnd() % (uint32_t)(maxv / 8 + 1));
    case 5: return (int)(rnd() % (uint32_t)(maxv / 8 + 1));
    case 6: return (i * 7) % (maxv + 1);
    case 7: { uint32_t r = rnd(); return (r & 15) == 0 ? maxv : (r & 15) == 1 ? 0 : maxv / 2 + (int)((r >> 8) % 9) - 4; }
    default: return ((i >> 3) & 1) ? 0 : maxv;
    }
}
static void fill8(uint8_t *b, size_t n, int pat) { for (size_t i = 0; i < n; i++) b[i] = (uint8_t)sample(pat, (int)i, 255); }
static void fill16(uint16_t *b, size_t n, int pat, int bd) { for (size_t i = 0; i < n; i++) b[i] = (uint16_t)sample(pat, (int)i, (1 << bd) - 1); }
/* pairs of (source, reference) patterns */
static const int PAIRS[][2] = {{1, 0}, {0, 1}, {3, 3}, {4, 5}, {5, 4}, {2, 8}, {3, 1}, {0, 3}, {6, 6}, {7, 7}, {1, 1}, {8, 2}};
#define NPAIR 12

static int nmis = 0, ncall = 0;
static void mismatch(const Item *it, int vi, const char *what, int a, int b, int c) {
    if (nmis < 40) printf("MISMATCH %s %s %s %d %d %d\n", it->name, it->vn[vi], what, a, b, c);
    nmis++;
}
