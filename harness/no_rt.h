/* Harness processes run the library with ordinary (time-shared) threads.
   svt_create_thread() asks for SCHED_FIFO priority 99 and only falls back to default attributes when that is refused (EPERM).
   The checks run as root, where it is granted: every library thread then is a real-time thread that is never pre-empted by the
   harness, by the other jobs of a check or by a busy-waiting sibling (the decoder's workers spin), and "slow under load" turns
   into "never scheduled". Dropping CAP_SYS_NICE (and the RTPRIO limit) before the first thread is created makes the library take
   its own fallback path, i.e. what an unprivileged application gets. VERIF_KEEP_RT=1 keeps the privileged behaviour. */
#ifndef VERIF_NO_RT_H
#define VERIF_NO_RT_H
#include <stdlib.h>
#include <string.h>
#include <unistd.h>
#include <sys/syscall.h>
#include <sys/prctl.h>
#include <sys/resource.h>
#include <linux/capability.h>

__attribute__((constructor)) static void verif_no_rt(void) {
    const char *keep = getenv("VERIF_KEEP_RT");
    if (keep && keep[0] == '1')
        return;
    struct rlimit rl = {0, 0};
    setrlimit(RLIMIT_RTPRIO, &rl);
    prctl(PR_CAPBSET_DROP, CAP_SYS_NICE, 0, 0, 0);
    struct __user_cap_header_struct hdr;
    struct __user_cap_data_struct   data[2];
    memset(&hdr, 0, sizeof(hdr));
    memset(data, 0, sizeof(data));
    hdr.version = _LINUX_CAPABILITY_VERSION_3;
    hdr.pid     = 0;
    if (syscall(SYS_capget, &hdr, data) != 0)
        return;
    const unsigned bit = 1u << (CAP_SYS_NICE & 31), idx = CAP_SYS_NICE >> 5;
    data[idx].effective &= ~bit;
    data[idx].permitted &= ~bit;
    data[idx].inheritable &= ~bit;
    syscall(SYS_capset, &hdr, data);
}
#endif
