/* svt_scn: scenario driver around the public encoder + decoder API of the library built from /repo.
 * One run = one scenario; everything observable goes to the history file (text) and the packet file (binary).
 *
 *   svt_scn out=<prefix> w=<W> h=<H> n=<frames> [key=value ...]
 * keys: content=<0 gradient|1 noise|2 moving blocks|3 flat|4 extremes|5 screen-like|6 static column + noisy texture + fast squares|7 static noise (the same noisy picture every frame)|8 zooming / rotating block texture|9 flat 0/255 squares inverting every picture> cseed=<int>
 *       bits=<8|10> stride_pad=<int> padfill=<0..255|256 random> scribble=<0|1> (overwrite+free caller buffer after send)
 *       pace=<0 drain at end|1 poll after every send|k>=2 poll every k sends|-1 random polling> pseed=<int> delay_us=<pause between a submission and the poll that follows it>
 *       qpfly=<0|1 per-picture qp 0,20,0,35,1,63,... in the buffer header>
 *       recon=<0|1> stat=<0|1> decode=<0|1> dec_threads=<int> dec16=<0|1> eos_mode=<0 separate EOS buffer|1 flag on last picture>
 *       teardown_after=<-1 normal | j : stop after j sends without draining>   f<idx>=<val> : configuration cell override
 *       dumprecon=<0|1> dumpdec=<0|1> (write raw planes)  cpu=<hex use_cpu_flags>
 * history lines:
 *   CALL <name> <rc hex>
 *   SEND k pts
 *   PKT k size pts dts flags pic_type qp luma_sse cb_sse cr_sse hash priv
 *   RECON k pts flags size hash
 *   DEC k w h hash            (k-th picture returned by the decoder)
 *   HDR size hash             (svt_av1_enc_stream_header)
 *   END <reason>
 * packet file: for each packet  u32 size, i64 pts, bytes   (little endian) */
#include "../no_rt.h"   /* ordinary threads instead of SCHED_FIFO/99 (see the header) */
#include <stdio.h>
#include <stdlib.h>
#include <string.h>
#include <stdint.h>
#include <unistd.h>
#include "EbSvtAv1Enc.h"
#include "EbSvtAv1Dec.h"
#include "EbDecHandle.h"      /* decoder internals: the parsed FrameHeader / SeqHeader are read after each call (no source hook needed) */

#include "scn_fields.inc"   /* generated: static void set_field(EbSvtAv1EncConfiguration *cfg, int idx, long long v) */

static FILE *H, *P;
static unsigned long long fnv(const unsigned char *b, size_t n, unsigned long long h) { for (size_t i = 0; i < n; i++) h = (h ^ b[i]) * 1099511628211ULL; return h; }
#define FNV0 1469598103934665603ULL
static unsigned rs;
static unsigned rnd(void) { rs ^= rs << 13; rs ^= rs >> 17; rs ^= rs << 5; return rs; }

static int W, Hh, N, content = 2, cseed = 1, bits = 8, stride_pad = 0, padfill = 0, scribble = 0, pace = 1, pseed = 1, delay_us = 0;
static int twopass = 0;
static int recon = 1, stat = 0, decode = 1, dec_threads = 1, dec16 = 0, eos_mode = 0, teardown_after = -1, dumprecon = 0, dumpdec = 0, qpfly = 0;

static int sample(int k, int x, int y, int plane) {
    int maxv = (1 << bits) - 1;
    int v;
    switch (content) {
    case 0: v = (x * 3 + y * 2 + k * 5 + plane * 40) & 255; break;
    case 1: { unsigned s = (unsigned)(cseed * 2654435761u) ^ (unsigned)(k * 97 + plane * 13) ^ (unsigned)(y * 7919 + x); s ^= s << 13; s ^= s >> 17; s ^= s << 5; v = s & 255; break; }
    case 2: { int bx = (k * 3 + cseed * 11) % (W > 16 ? W - 16 : 1), by = (k * 2 + cseed * 7) % (Hh > 16 ? Hh - 16 : 1);
              int sc = plane ? 2 : 1; int X = x * sc, Y = y * sc;
              v = ((X / 8 + Y / 8) & 1) ? 60 + plane * 30 : 180 - plane * 20;
              v += ((X * 5 + Y * 3) & 7);
              if (X >= bx && X < bx + 16 && Y >= by && Y < by + 16) v = 235 - plane * 60;
              break; }
    case 3: v = 128; break;
    case 4: v = ((x + y + k) & 1) ? 255 : 0; break;
    case 9: { int sh = plane ? 4 : 5; int q_ = 32 >> (cseed % 3); int sq = plane ? q_ / 2 : q_; (void)sh;   /* flat 0 / 255 squares (64, 32 or 16 luma samples by cseed) that invert every picture: full-range flat residuals */
              v = (((x / (sq * 2 > 0 ? sq * 2 : 1)) + (y / (sq * 2 > 0 ? sq * 2 : 1)) + k) & 1) ? 255 : 0; break; }
    case 6: { int sc = plane ? 2 : 1; int X = x * sc, Y = y * sc;
              if (plane) { v = 128 + (plane == 1 ? 8 : -8); break; }
              if (X < 64) { v = 60 + X + Y / 2; break; }
              unsigned s = (unsigned)((cseed + 7) * 2654435761u) ^ (unsigned)(k * 7919 + 13) ^ (unsigned)(Y * 65537 + X * 31); s ^= s << 13; s ^= s >> 17; s ^= s << 5;
              v = 110 + 20 * (((X / 16) + (Y / 16)) & 1) + (int)((s >> 8) % 25) - 12;
              int band = Y / 32, yy = Y % 32, xx = ((X - 64) - 10 * k - 37 * band) % 96; if (xx < 0) xx += 96;
              if (yy >= 10 && yy < 22 && xx < 12) v = ((xx / 4 + yy / 4) & 1) ? 235 : 20;
              break; }
    case 7: { /* the same noisy picture every frame: smooth gradient + fixed approximately gaussian noise */
              unsigned s = (unsigned)((cseed + 3) * 2654435761u) ^ (unsigned)(plane * 131071) ^ (unsigned)(y * 7919 + x * 104729); int a = 0;
              for (int t = 0; t < 12; t++) { s ^= s << 13; s ^= s >> 17; s ^= s << 5; a += (int)(s & 1023); }
              int w_ = plane ? W / 2 : W, h_ = plane ? Hh / 2 : Hh;
              if (plane == 0) v = 60 + (x * 100) / w_ + (y * 40) / h_ + ((a - 6138) * 5) / 1024;
              else if (plane == 1) v = 110 + (x * 30) / w_ + ((a - 6138) * 3) / 1024;
              else v = 140 - (y * 30) / h_ + ((a - 6138) * 3) / 1024;
              if (v < 0) v = 0; if (v > 255) v = 255; break; }
    case 8: { int sc = plane ? 2 : 1; int X = x * sc - W / 2, Y = y * sc - Hh / 2;
              int zx = (X * (256 + 5 * k) - Y * (3 * k)) / 256 + W / 2 + 1000, zy = (Y * (256 + 5 * k) + X * (3 * k)) / 256 + Hh / 2 + 1000;
              unsigned s = (unsigned)((cseed + 11) * 2654435761u) ^ (unsigned)((zy / 14) * 7919 + (zx / 14)); s ^= s << 13; s ^= s >> 17; s ^= s << 5;
              v = plane ? 128 + (int)((s >> 5) % 31) - 15 : 40 + (int)((s >> 7) % 180); break; }
    default: { int sc = plane ? 2 : 1; int X = x * sc, Y = y * sc; v = ((X / 16) * 37 + (Y / 16) * 101 + cseed) & 255; if (((X % 16) == 3 || (Y % 16) == 5)) v = 16; if ((k & 3) == 3 && X < 32 && Y < 32) v = 200; break; }
    }
    if (bits > 8) v = (v << (bits - 8)) | (v >> (16 - bits));
    if (v > maxv) v = maxv;
    return v;
}

static void make_picture(int k, EbSvtIOFormat *io, uint8_t **base_out, size_t *sz_out) {
    int bps = bits > 8 ? 2 : 1;
    int ys = W + stride_pad, cs = W / 2 + stride_pad;
    size_t ysz = (size_t)ys * Hh * bps, csz = (size_t)cs * (Hh / 2) * bps;
    uint8_t *base = malloc(ysz + 2 * csz);
    unsigned prs = (unsigned)(cseed * 31 + k * 17 + 12345);
    for (size_t i = 0; i < ysz + 2 * csz; i++) { prs ^= prs << 13; prs ^= prs >> 17; prs ^= prs << 5; base[i] = padfill == 256 ? (uint8_t)prs : (uint8_t)padfill; }
    uint8_t *pl[3] = {base, base + ysz, base + ysz + csz};
    for (int p = 0; p < 3; p++) {
        int w = p ? W / 2 : W, h = p ? Hh / 2 : Hh, st = p ? cs : ys;
        for (int y = 0; y < h; y++) for (int x = 0; x < w; x++) {
            int v = sample(k, x, y, p);
            if (bps == 1) pl[p][(size_t)y * st + x] = (uint8_t)v;
            else { pl[p][((size_t)y * st + x) * 2] = (uint8_t)(v & 255); pl[p][((size_t)y * st + x) * 2 + 1] = (uint8_t)(v >> 8); }
        }
    }
    memset(io, 0, sizeof *io);
    io->luma = pl[0]; io->cb = pl[1]; io->cr = pl[2];
    io->y_stride = ys; io->cb_stride = cs; io->cr_stride = cs;
    io->width = W; io->height = Hh; io->color_fmt = EB_YUV420; io->bit_depth = bits > 8 ? EB_TEN_BIT : EB_EIGHT_BIT;
    *base_out = base; *sz_out = ysz + 2 * csz;
}

static EbComponentType *enc, *dec;
static int npkt = 0, nrec = 0, ndec = 0, eos_seen = 0;
static uint8_t *recon_buf; static size_t recon_sz;
static uint8_t *allpk = NULL; static size_t allpk_n = 0, allpk_cap = 0;
static size_t pk_off[100000], pk_len[100000];

static void on_packet(EbBufferHeaderType *o) {
    fprintf(H, "PKT %d %u %lld %lld %x %u %u %u %u %u %016llx %d\n", npkt, o->n_filled_len, (long long)o->pts, (long long)o->dts, o->flags, o->pic_type, o->qp,
            o->luma_sse, o->cb_sse, o->cr_sse, fnv(o->p_buffer, o->n_filled_len, FNV0), o->p_app_private ? 1 : 0);
    uint32_t sz = o->n_filled_len; int64_t pts = o->pts;
    fwrite(&sz, 4, 1, P); fwrite(&pts, 8, 1, P); fwrite(o->p_buffer, 1, sz, P);
    if (allpk_n + sz > allpk_cap) { allpk_cap = (allpk_n + sz) * 2 + 4096; allpk = realloc(allpk, allpk_cap); }
    memcpy(allpk + allpk_n, o->p_buffer, sz); pk_off[npkt] = allpk_n; pk_len[npkt] = sz; allpk_n += sz;
    if (o->flags & EB_BUFFERFLAG_EOS) eos_seen = 1;
    npkt++;
}
static int poll_packets(int done) {
    int got = 0;
    for (;;) {
        EbBufferHeaderType *o = NULL;
        EbErrorType e = svt_av1_enc_get_packet(enc, &o, (uint8_t)done);
        if (e == EB_ErrorMax) { fprintf(H, "CALL get_packet %x\n", (unsigned)e); return -1; }
        if (e != EB_ErrorNone || !o) break;
        on_packet(o); got++;
        svt_av1_enc_release_out_buffer(&o);
        if (done) break;      /* blocking mode: one packet per call, so that the caller can drain the recon queue in between */
    }
    return got;
}
static int recon_eos = 0;
static int suffix = 0; static int keypk[4096]; static int nkeypk = 0; static int pk_first_dec[100000];
static uint8_t *sent_copy[4096];   /* visible samples of every submitted 8-bit picture, planar W*H + 2*(W/2*H/2) */
static void poll_recon(void) {
    if (!recon) return;
    for (;;) {
        EbBufferHeaderType r; memset(&r, 0, sizeof r);
        r.size = sizeof r; r.p_buffer = recon_buf; r.n_alloc_len = (uint32_t)recon_sz;
        EbErrorType e = svt_av1_get_recon(enc, &r);
        if (e != EB_ErrorNone) break;
        fprintf(H, "RECON %d %lld %x %u %016llx", nrec, (long long)r.pts, r.flags, r.n_filled_len, fnv(r.p_buffer, r.n_filled_len, FNV0));
        if (bits == 8 && r.pts >= 0 && r.pts < 4096 && sent_copy[r.pts] && r.n_filled_len == (uint32_t)(W * Hh * 3 / 2)) {
            unsigned long long sse[3] = {0, 0, 0}; size_t off = 0;
            for (int p = 0; p < 3; p++) { size_t n = p ? (size_t)(W / 2) * (Hh / 2) : (size_t)W * Hh;
                for (size_t i = 0; i < n; i++) { long d = (long)sent_copy[r.pts][off + i] - (long)r.p_buffer[off + i]; sse[p] += (unsigned long long)(d * d); }
                off += n; }
            fprintf(H, " sse=%llu,%llu,%llu", sse[0], sse[1], sse[2]);
        }
        fprintf(H, "\n");
        if (dumprecon) { char fn[600]; extern char outp[]; snprintf(fn, sizeof fn, "%s.recon.%lld.yuv", outp, (long long)r.pts); FILE *f = fopen(fn, "wb"); fwrite(r.p_buffer, 1, r.n_filled_len, f); fclose(f); }
        nrec++;
        if (r.flags & EB_BUFFERFLAG_EOS) { recon_eos = 1; break; }
    }
}
char outp[512] = "scn";

/* twopass=1: a complete first pass over the same pictures with the same settings (rc_firstpass_stats_out = 1); its statistics
   are handed to the session under test as rc_twopass_stats_in */
static int first_pass(const EbSvtAv1EncConfiguration *base, void **buf, uint64_t *sz) {
    EbComponentType *h = NULL; EbSvtAv1EncConfiguration c;
    memset(&c, 0, sizeof c);
    if (svt_av1_enc_init_handle(&h, NULL, &c)) return -1;
    c = *base; c.rc_firstpass_stats_out = 1; c.rc_twopass_stats_in.buf = NULL; c.rc_twopass_stats_in.sz = 0; c.recon_enabled = 0; c.stat_report = 0;
    if (svt_av1_enc_set_parameter(h, &c) || svt_av1_enc_init(h)) { svt_av1_enc_deinit(h); svt_av1_enc_deinit_handle(h); return -2; }
    int eos = 0, got = 0;
    for (int k = 0; k <= N && !eos; k++) {
        EbBufferHeaderType in; memset(&in, 0, sizeof in); in.size = sizeof in; in.pic_type = EB_AV1_INVALID_PICTURE;
        EbSvtIOFormat io; uint8_t *base_ = NULL; size_t bsz = 0;
        if (k < N) { make_picture(k, &io, &base_, &bsz); in.p_buffer = (uint8_t *)&io; in.n_filled_len = (uint32_t)((size_t)W * Hh * 3 / 2 * (bits > 8 ? 2 : 1)); in.pts = 1000 + 3 * (int64_t)k; }
        else in.flags = EB_BUFFERFLAG_EOS;
        svt_av1_enc_send_picture(h, &in); free(base_);
        for (;;) {
            EbBufferHeaderType *o = NULL; EbErrorType e = svt_av1_enc_get_packet(h, &o, (uint8_t)(k == N));
            if (e == EB_NoErrorEmptyQueue || !o) break;
            if (e == EB_ErrorMax) { eos = 1; break; }
            got++; if (o->flags & EB_BUFFERFLAG_EOS) eos = 1;
            svt_av1_enc_release_out_buffer(&o);
            if (eos) break;
        }
    }
    SvtAv1FixedBuf st; int rc = -3;
    if (svt_av1_enc_get_stream_info(h, SVT_AV1_STREAM_INFO_FIRST_PASS_STATS_OUT, &st) == EB_ErrorNone && st.sz) { *buf = malloc(st.sz); memcpy(*buf, st.buf, st.sz); *sz = st.sz; rc = got; }
    svt_av1_enc_deinit(h); svt_av1_enc_deinit_handle(h);
    return rc;
}

int main(int argc, char **argv) {
    static long long fidx[256], fval[256]; int nf = 0; unsigned long long cpu = 0; int have_cpu = 0;
    for (int i = 1; i < argc; i++) {
        char *eq = strchr(argv[i], '='); if (!eq) continue; *eq = 0; const char *k = argv[i], *v = eq + 1;
        if (!strcmp(k, "out")) snprintf(outp, sizeof outp, "%s", v);
        else if (!strcmp(k, "w")) W = atoi(v); else if (!strcmp(k, "h")) Hh = atoi(v); else if (!strcmp(k, "n")) N = atoi(v);
        else if (!strcmp(k, "content")) content = atoi(v); else if (!strcmp(k, "cseed")) cseed = atoi(v); else if (!strcmp(k, "bits")) bits = atoi(v);
        else if (!strcmp(k, "stride_pad")) stride_pad = atoi(v); else if (!strcmp(k, "padfill")) padfill = atoi(v); else if (!strcmp(k, "scribble")) scribble = atoi(v);
        else if (!strcmp(k, "pace")) pace = atoi(v); else if (!strcmp(k, "delay_us")) delay_us = atoi(v); else if (!strcmp(k, "pseed")) pseed = atoi(v); else if (!strcmp(k, "recon")) recon = atoi(v);
        else if (!strcmp(k, "twopass")) twopass = atoi(v); else if (!strcmp(k, "stat")) stat = atoi(v); else if (!strcmp(k, "decode")) decode = atoi(v); else if (!strcmp(k, "dec_threads")) dec_threads = atoi(v);
        else if (!strcmp(k, "dec16")) dec16 = atoi(v); else if (!strcmp(k, "eos_mode")) eos_mode = atoi(v); else if (!strcmp(k, "qpfly")) qpfly = atoi(v); else if (!strcmp(k, "teardown_after")) teardown_after = atoi(v);
        else if (!strcmp(k, "suffix")) suffix = atoi(v);
        else if (!strcmp(k, "dumprecon")) dumprecon = atoi(v); else if (!strcmp(k, "dumpdec")) dumpdec = atoi(v);
        else if (!strcmp(k, "cpu")) { cpu = strtoull(v, NULL, 16); have_cpu = 1; }
        else if (k[0] == 'f' && k[1] >= '0' && k[1] <= '9') { fidx[nf] = atoi(k + 1); fval[nf] = (long long)strtoull(v, NULL, 10); nf++; }
    }
    char fn[600];
    snprintf(fn, sizeof fn, "%s.hist", outp); H = fopen(fn, "w");
    snprintf(fn, sizeof fn, "%s.pkts", outp); P = fopen(fn, "wb");
    if (!H || !P) return 2;
    setvbuf(H, NULL, _IOLBF, 0);
    rs = (unsigned)pseed * 2654435761u + 1;
    int so = dup(1); int nul = open("/dev/null", 1); fflush(stdout); dup2(nul, 1); if (!getenv("SCN_KEEP_STDERR")) dup2(nul, 2);   /* the library logs to stdout/stderr; sanitizer reports need stderr */
    (void)so;
    EbSvtAv1EncConfiguration cfg; memset(&cfg, 0, sizeof cfg);
    EbErrorType e = svt_av1_enc_init_handle(&enc, NULL, &cfg);
    fprintf(H, "CALL enc_init_handle %x\n", (unsigned)e);
    if (e) { fprintf(H, "END init_handle_failed\n"); return 0; }
    cfg.source_width = W; cfg.source_height = Hh; cfg.encoder_bit_depth = bits; cfg.recon_enabled = recon; cfg.stat_report = stat;
    cfg.frame_rate = 30 << 16; cfg.frame_rate_numerator = 0; cfg.frame_rate_denominator = 0;
    if (have_cpu) cfg.use_cpu_flags = cpu;
    for (int i = 0; i < nf; i++) set_field(&cfg, (int)fidx[i], fval[i]);
    if (twopass) {
        void *sb = NULL; uint64_t ssz = 0; int r1 = first_pass(&cfg, &sb, &ssz);
        fprintf(H, "CALL first_pass %d %llu\n", r1, (unsigned long long)ssz);
        if (r1 < 0) { fprintf(H, "END first_pass_failed\n"); return 0; }
        cfg.rc_twopass_stats_in.buf = sb; cfg.rc_twopass_stats_in.sz = ssz;
    }
    e = svt_av1_enc_set_parameter(enc, &cfg);
    fprintf(H, "CALL enc_set_parameter %x\n", (unsigned)e);
    if (e) { fprintf(H, "END set_parameter_rejected\n"); return 0; }
    e = svt_av1_enc_init(enc);
    fprintf(H, "CALL enc_init %x\n", (unsigned)e);
    if (e) { fprintf(H, "END enc_init_failed\n"); return 0; }
    EbBufferHeaderType *sh = NULL;
    e = svt_av1_enc_stream_header(enc, &sh);
    if (e == EB_ErrorNone && sh) { fprintf(H, "HDR %u %016llx", sh->n_filled_len, fnv(sh->p_buffer, sh->n_filled_len, FNV0)); for (uint32_t i = 0; i < sh->n_filled_len && i < 64; i++) fprintf(H, "%s%02x", i ? "" : " ", sh->p_buffer[i]); fprintf(H, "\n"); svt_av1_enc_stream_header_release(sh); }
    else fprintf(H, "CALL enc_stream_header %x\n", (unsigned)e);
    recon_sz = (size_t)W * Hh * 3 * (bits > 8 || cfg.is_16bit_pipeline ? 2 : 1); recon_buf = malloc(recon_sz + 64);
    for (int k = 0; k < N; k++) {
        EbSvtIOFormat io; uint8_t *base; size_t bsz;
        make_picture(k, &io, &base, &bsz);
        EbBufferHeaderType in; memset(&in, 0, sizeof in);
        in.size = sizeof in; in.p_buffer = (uint8_t *)&io; in.n_filled_len = (uint32_t)((size_t)W * Hh * 3 / 2 * (bits > 8 ? 2 : 1));
        in.pts = 1000 + 3 * (int64_t)k; in.pic_type = EB_AV1_INVALID_PICTURE; in.flags = (eos_mode == 1 && k == N - 1) ? EB_BUFFERFLAG_EOS : 0;
        in.p_app_private = (void *)(uintptr_t)(0x1000 + k);
        /* qpfly=1: a per-picture QP supplied through the buffer header (use_qp_file = 1), values below, inside and at the ends of 0..63 */
        if (qpfly) { static const uint32_t pat[6] = {0, 20, 0, 35, 1, 63}; in.qp = pat[k % 6]; }
        if (bits == 8 && k < 4096 && stat) {
            uint8_t *c = malloc((size_t)W * Hh * 3 / 2); size_t o = 0;
            for (int y = 0; y < Hh; y++) { memcpy(c + o, io.luma + (size_t)y * io.y_stride, W); o += W; }
            for (int y = 0; y < Hh / 2; y++) { memcpy(c + o, io.cb + (size_t)y * io.cb_stride, W / 2); o += W / 2; }
            for (int y = 0; y < Hh / 2; y++) { memcpy(c + o, io.cr + (size_t)y * io.cr_stride, W / 2); o += W / 2; }
            sent_copy[k] = c;
        }
        e = svt_av1_enc_send_picture(enc, &in);
        fprintf(H, "SEND %d %lld %x\n", k, (long long)in.pts, (unsigned)e);
        if (scribble) { memset(base, 0x5A, bsz); }
        free(base);
        if (teardown_after >= 0 && k + 1 >= teardown_after) break;
        int dopoll = pace == 1 || (pace >= 2 && (k + 1) % pace == 0) || (pace == -1 && (rnd() & 3) == 0);
        if (delay_us > 0) usleep((unsigned)(delay_us < 0 ? 0 : ((rnd() & 1) ? delay_us : delay_us / 4)));
        if (dopoll) { if (poll_packets(0) < 0) break; poll_recon(); }
    }
    if (teardown_after < 0) {
        if (eos_mode == 0) {
            EbBufferHeaderType in; memset(&in, 0, sizeof in); in.size = sizeof in; in.flags = EB_BUFFERFLAG_EOS; in.pic_type = EB_AV1_INVALID_PICTURE;
            e = svt_av1_enc_send_picture(enc, &in);
            fprintf(H, "CALL send_eos %x\n", (unsigned)e);
        }
        if (N > 0 || eos_mode == 0) {
            /* drain: blocking gets until the EOS packet */
            int guard = 0;
            if (recon && !getenv("SCN_BLOCKING_DRAIN")) {
                /* with recon enabled the drain must not sit in the blocking packet wait: the encoder may need recon buffers back
                   before it can finish the next packet (see DESIGN.md, finding on blocking drain with recon) */
                while (!eos_seen && N > 0) { int g = poll_packets(0); if (g < 0) break; poll_recon(); if (g == 0) usleep(500); }
            } else
            while (!eos_seen && guard++ < 4 * N + 64 && N > 0) { if (poll_packets(1) < 0) break; poll_recon(); }
            int spins = 0;
            while (recon && !recon_eos && N > 0 && spins++ < 2000) { poll_recon(); if (!recon_eos) usleep(1000); }
            /* anything after EOS? */
            usleep(20000);
            int extra = poll_packets(0);
            if (extra > 0) fprintf(H, "EXTRA packets_after_eos %d\n", extra);
        }
    }
    e = svt_av1_enc_deinit(enc); fprintf(H, "CALL enc_deinit %x\n", (unsigned)e);
    e = svt_av1_enc_deinit_handle(enc); fprintf(H, "CALL enc_deinit_handle %x\n", (unsigned)e);
    fclose(P);
    if (decode && npkt > 0) {
        EbSvtAv1DecConfiguration dc; memset(&dc, 0, sizeof dc);
        e = svt_av1_dec_init_handle(&dec, NULL, &dc);
        fprintf(H, "CALL dec_init_handle %x\n", (unsigned)e);
        dc.max_picture_width = W; dc.max_picture_height = Hh; dc.max_bit_depth = bits > 8 ? EB_TEN_BIT : EB_EIGHT_BIT; dc.max_color_format = EB_YUV420;
        dc.threads = dec_threads; dc.is_16bit_pipeline = dec16; dc.skip_film_grain = 0; dc.eight_bit_output = 0; dc.num_p_frames = 1;
        e = svt_av1_dec_set_parameter(dec, &dc); fprintf(H, "CALL dec_set_parameter %x\n", (unsigned)e);
        e = svt_av1_dec_init(dec); fprintf(H, "CALL dec_init %x\n", (unsigned)e);
        if (e == EB_ErrorNone) {
            int bps = bits > 8 ? 2 : 1; int we = (W + 1) & ~1, he = (Hh + 1) & ~1;
            EbBufferHeaderType rb; memset(&rb, 0, sizeof rb); EbSvtIOFormat io; memset(&io, 0, sizeof io);
            rb.p_buffer = (uint8_t *)&io;
            io.luma = malloc((size_t)we * he * bps); io.cb = malloc((size_t)we * he * bps / 4 + 64); io.cr = malloc((size_t)we * he * bps / 4 + 64);
            io.y_stride = we; io.cb_stride = W / 2; io.cr_stride = W / 2; io.width = W; io.height = Hh; io.bit_depth = bits > 8 ? EB_TEN_BIT : EB_EIGHT_BIT; io.color_fmt = EB_YUV420;
            EbAV1StreamInfo si; EbAV1FrameInfo fi;
            for (int k = 0; k < npkt; k++) {
              /* split the temporal unit before every frame / frame-header OBU (the first chunk keeps the leading TD / sequence header),
                 so that the decoder's parsed header can be read after each coded frame */
              size_t cuts[64]; int ncut = 0; size_t off = 0; const uint8_t *b = allpk + pk_off[k]; size_t L = pk_len[k]; int seen_frame = 0;
              cuts[ncut++] = 0;
              while (off < L) {
                  int type = (b[off] >> 3) & 15, ext = (b[off] >> 2) & 1, has_size = (b[off] >> 1) & 1;
                  size_t hp = off + 1 + ext, sz = 0; int sh = 0;
                  if (!has_size) break;
                  while (hp < L) { uint8_t c = b[hp++]; sz |= (size_t)(c & 127) << sh; sh += 7; if (!(c & 128)) break; }
                  if ((type == 6 || type == 3)) { if (seen_frame && ncut < 63) cuts[ncut++] = off; seen_frame = 1; }
                  off = hp + sz;
              }
              cuts[ncut] = L;
              for (int c = 0; c < ncut; c++) {
                e = svt_av1_dec_frame(dec, b + cuts[c], cuts[c + 1] - cuts[c], 0);
                if (e != EB_ErrorNone) fprintf(H, "CALL dec_frame %x\n", (unsigned)e);
                {
                    EbDecHandle *dh = (EbDecHandle *)dec->p_component_private; FrameHeader *fh = &dh->frame_header; SeqHeader *sq = &dh->seq_header;
                    fprintf(H, "FH %d %d sef=%d type=%d show=%d showable=%d oh=%u refresh=%u intrabc=%d sct=%d qidx=%u lf0=%d lf1=%d lfu=%d lfv=%d cdef_bits=%u cdef_y0=%u cdef_uv0=%u lr0=%d lr1=%d lr2=%d "
                               "tcl=%u trl=%u warped=%d rtx=%d mms=%d grain=%d fw=%u fh=%u sden=%u upw=%u refmode=%d skipmode=%d err=%d dcdf=%d primary=%u "
                               "seq_fi=%d seq_iedge=%d seq_ii=%d seq_masked=%d seq_warp=%d seq_dual=%d seq_oh=%d seq_ohbits=%u seq_jnt=%d seq_refmvs=%d seq_sr=%d seq_cdef=%d seq_lr=%d seq_sb128=%d seq_grain=%d seq_sct=%u seq_still=%d",
                            k, c, fh->show_existing_frame, (int)fh->frame_type, fh->show_frame, fh->showable_frame, fh->order_hint, fh->refresh_frame_flags, fh->allow_intrabc, fh->allow_screen_content_tools,
                            fh->quantization_params.base_q_idx, fh->loop_filter_params.filter_level[0], fh->loop_filter_params.filter_level[1], fh->loop_filter_params.filter_level_u, fh->loop_filter_params.filter_level_v,
                            fh->cdef_params.cdef_bits, fh->cdef_params.cdef_y_strength[0], fh->cdef_params.cdef_uv_strength[0],
                            (int)fh->lr_params[0].frame_restoration_type, (int)fh->lr_params[1].frame_restoration_type, (int)fh->lr_params[2].frame_restoration_type,
                            fh->tiles_info.tile_cols_log2, fh->tiles_info.tile_rows_log2, fh->allow_warped_motion, fh->reduced_tx_set, fh->is_motion_mode_switchable, fh->film_grain_params.apply_grain,
                            fh->frame_size.frame_width, fh->frame_size.frame_height, fh->frame_size.superres_denominator, fh->frame_size.superres_upscaled_width, (int)fh->reference_mode, fh->skip_mode_params.skip_mode_flag,
                            fh->error_resilient_mode, fh->disable_cdf_update, fh->primary_ref_frame,
                            sq->filter_intra_level, sq->enable_intra_edge_filter, sq->enable_interintra_compound, sq->enable_masked_compound, sq->enable_warped_motion, sq->enable_dual_filter,
                            sq->order_hint_info.enable_order_hint, sq->order_hint_info.order_hint_bits, sq->order_hint_info.enable_jnt_comp, sq->order_hint_info.enable_ref_frame_mvs,
                            sq->enable_superres, sq->cdef_level, sq->enable_restoration, sq->sb_size == BLOCK_128X128, sq->film_grain_params_present, sq->seq_force_screen_content_tools, sq->still_picture);
                    if (fh->show_existing_frame == 0 && fh->frame_type == KEY_FRAME && fh->show_frame && k > 0 && nkeypk < 4096 && (nkeypk == 0 || keypk[nkeypk - 1] != k)) keypk[nkeypk++] = k;
                    {   /* per-block tool usage of the frame just parsed (decoder mode-info arrays), global-motion types of its header */
                        unsigned nb = 0, pal = 0, ibc = 0, obmc = 0, warp = 0, fint = 0, cfl = 0, ii = 0, gm = 0, cmp = 0;
                        if (!fh->show_existing_frame && e == EB_ErrorNone) {
                            FrameMiMap *mm = &dh->main_frame_buf.frame_mi_map;
                            for (int sb = 0; sb < mm->sb_rows * mm->sb_cols; sb++) {
                                SBInfo *si_ = mm->pps_sb_info ? mm->pps_sb_info[sb] : NULL;
                                if (!si_ || !si_->sb_mode_info) continue;
                                for (int bi = 0; bi < si_->num_block; bi++) {
                                    BlockModeInfo *m = &si_->sb_mode_info[bi]; nb++;
                                    pal += (m->palette_size[0] > 0 || m->palette_size[1] > 0); ibc += m->use_intrabc != 0;
                                    int inter = m->use_intrabc || m->ref_frame[0] > INTRA_FRAME;
                                    obmc += inter && m->motion_mode == OBMC_CAUSAL; warp += inter && m->motion_mode == WARPED_CAUSAL;
                                    fint += !inter && m->filter_intra_mode_info.use_filter_intra; cfl += !inter && m->uv_mode == UV_CFL_PRED;
                                    ii += !m->use_intrabc && m->ref_frame[0] > INTRA_FRAME && m->ref_frame[1] == INTRA_FRAME; cmp += inter && m->ref_frame[1] > INTRA_FRAME;
                                }
                            }
                            if (dh->cur_pic_buf[0]) for (int r = 1; r < 8; r++) gm += dh->cur_pic_buf[0]->global_motion[r].gm_type > TRANSLATION;
                        }
                        fprintf(H, " gupd=%d gseed=%u", fh->film_grain_params.apply_grain ? (int)fh->film_grain_params.update_parameters : -1, (unsigned)fh->film_grain_params.random_seed);
                        fprintf(H, " nblk=%u pal=%u ibc=%u obmc=%u warpblk=%u fintra=%u cfl=%u interintra=%u gm=%u compound=%u tcols=%u trows=%u", nb, pal, ibc, obmc, warp, fint, cfl, ii, gm, cmp,
                                (unsigned)fh->tiles_info.tile_cols, (unsigned)fh->tiles_info.tile_rows);
                    }
                    fprintf(H, " refidx=");
                    for (int r = 0; r < 7; r++) fprintf(H, "%s%u", r ? "," : "", fh->ref_frame_idx[r]);
                    fprintf(H, "\n");
                }
                if (svt_av1_dec_get_picture(dec, &rb, &si, &fi) != EB_DecNoOutputPicture) {
                    unsigned long long hh = FNV0;
                    for (int y = 0; y < Hh; y++) hh = fnv(io.luma + (size_t)y * io.y_stride * bps, (size_t)W * bps, hh);
                    for (int y = 0; y < Hh / 2; y++) hh = fnv(io.cb + (size_t)y * io.cb_stride * bps, (size_t)(W / 2) * bps, hh);
                    for (int y = 0; y < Hh / 2; y++) hh = fnv(io.cr + (size_t)y * io.cr_stride * bps, (size_t)(W / 2) * bps, hh);
                    fprintf(H, "DEC %d %d %d %016llx %d", ndec, W, Hh, hh, k);
                    if (stat && bits == 8 && ndec < 4096 && sent_copy[ndec]) {   /* SSE of the picture decoded from the stream against the submitted one (display order) */
                        unsigned long long ds[3] = {0, 0, 0}; size_t off = 0;
                        const uint8_t *pl[3] = {io.luma, io.cb, io.cr}; const size_t st_[3] = {io.y_stride, io.cb_stride, io.cr_stride};
                        for (int p_ = 0; p_ < 3; p_++) { int pw = p_ ? W / 2 : W, ph = p_ ? Hh / 2 : Hh;
                            for (int y = 0; y < ph; y++) for (int x = 0; x < pw; x++) { long d = (long)sent_copy[ndec][off + (size_t)y * pw + x] - (long)pl[p_][(size_t)y * st_[p_] + x]; ds[p_] += (unsigned long long)(d * d); }
                            off += (size_t)pw * ph; }
                        fprintf(H, " dsse=%llu,%llu,%llu", ds[0], ds[1], ds[2]);
                    }
                    fprintf(H, "\n");
                    if (k < 100000 && !pk_first_dec[k]) pk_first_dec[k] = ndec + 1;
                    if (dumpdec) { snprintf(fn, sizeof fn, "%s.dec.%d.yuv", outp, ndec); FILE *f = fopen(fn, "wb");
                        for (int y = 0; y < Hh; y++) fwrite(io.luma + (size_t)y * io.y_stride * bps, 1, (size_t)W * bps, f);
                        for (int y = 0; y < Hh / 2; y++) fwrite(io.cb + (size_t)y * io.cb_stride * bps, 1, (size_t)(W / 2) * bps, f);
                        for (int y = 0; y < Hh / 2; y++) fwrite(io.cr + (size_t)y * io.cr_stride * bps, 1, (size_t)(W / 2) * bps, f);
                        fclose(f); }
                    ndec++;
                }
              }
            }
            e = svt_av1_dec_deinit(dec); fprintf(H, "CALL dec_deinit %x\n", (unsigned)e);
            /* random access: decode again starting at every packet that carries a shown key frame */
            for (int s = 0; suffix && s < nkeypk; s++) {
                EbComponentType *d2 = NULL; EbSvtAv1DecConfiguration dc2 = dc;
                svt_av1_dec_deinit_handle(dec); dec = NULL;
                if (svt_av1_dec_init_handle(&d2, NULL, &dc2) != EB_ErrorNone) break;
                dc2 = dc; svt_av1_dec_set_parameter(d2, &dc2);
                if (svt_av1_dec_init(d2) != EB_ErrorNone) { svt_av1_dec_deinit_handle(d2); break; }
                int idx = 0;
                for (int k = keypk[s]; k < npkt; k++) {
                    e = svt_av1_dec_frame(d2, allpk + pk_off[k], pk_len[k], 0);
                    if (e != EB_ErrorNone) fprintf(H, "CALL dec_frame_suffix %x\n", (unsigned)e);
                    if (svt_av1_dec_get_picture(d2, &rb, &si, &fi) != EB_DecNoOutputPicture) {
                        unsigned long long hh = FNV0;
                        for (int y = 0; y < Hh; y++) hh = fnv(io.luma + (size_t)y * io.y_stride * bps, (size_t)W * bps, hh);
                        for (int y = 0; y < Hh / 2; y++) hh = fnv(io.cb + (size_t)y * io.cb_stride * bps, (size_t)(W / 2) * bps, hh);
                        for (int y = 0; y < Hh / 2; y++) hh = fnv(io.cr + (size_t)y * io.cr_stride * bps, (size_t)(W / 2) * bps, hh);
                        fprintf(H, "DECS %d %d %016llx %d\n", keypk[s], idx++, hh, k);
                    }
                }
                svt_av1_dec_deinit(d2); svt_av1_dec_deinit_handle(d2);
            }
        }
        if (dec)
        e = svt_av1_dec_deinit_handle(dec); fprintf(H, "CALL dec_deinit_handle %x\n", (unsigned)e);
    }
    fprintf(H, "END ok sent=%d packets=%d recon=%d decoded=%d\n", N, npkt, nrec, ndec);
    fclose(H);
    return 0;
}
