/* C15 / C16: session life cycle under resource accounting and single-failure injection.
 * Linked with -Wl,--wrap=malloc,calloc,realloc,posix_memalign,free,pthread_create,pthread_mutex_init,pthread_mutex_destroy,sem_init,sem_destroy
 * so that every allocation / OS object creation of the (statically linked) library goes through the wrappers below.
 *   res_harness E|D count <variant>                       -> "COUNT n_after_handle n_after_setparam n_after_init"
 *   res_harness E|D fail <variant> <k1> <k2> ...          -> one forked child per k: "FAIL k rc_handle rc_set rc_init status live=<n> threads=<n> sync=<n>"
 *   res_harness E|D teardown <variant> <point> <nsend> <nget> [cycles] -> "TEAR status live=<n>/<bytes> threads=<n> sync=<n> growth=<bytes per cycle>"
 *     point: 0 after init_handle, 1 after rejected set_parameter, 2 after accepted set_parameter, 3 after init, 4 mid-stream, 5 after EOS + drain */
#define _GNU_SOURCE
#include "../no_rt.h"   /* ordinary threads instead of SCHED_FIFO/99 (see the header) */
#include <stdio.h>
#include <stdlib.h>
#include <string.h>
#include <stdint.h>
#include <unistd.h>
#include <signal.h>
#include <fcntl.h>
#include <errno.h>
#include <dirent.h>
#include <pthread.h>
#include <semaphore.h>
#include <sys/wait.h>
#include "EbSvtAv1Enc.h"
#include "EbSvtAv1Dec.h"

void *__real_malloc(size_t); void *__real_calloc(size_t, size_t); void *__real_realloc(void *, size_t); int __real_posix_memalign(void **, size_t, size_t); void __real_free(void *);
int __real_pthread_create(pthread_t *, const pthread_attr_t *, void *(*)(void *), void *); int __real_pthread_mutex_init(pthread_mutex_t *, const pthread_mutexattr_t *);
int __real_pthread_mutex_destroy(pthread_mutex_t *); int __real_sem_init(sem_t *, int, unsigned); int __real_sem_destroy(sem_t *);

#define TAB (1u << 21)
static struct { void *p; size_t n; } tab[TAB];
static volatile int lk = 0; static volatile int tracking = 0;
static long events = 0, fail_at = -1; static long live_n = 0, live_b = 0, sync_live = 0, threads_made = 0;
static void lock(void) { while (__sync_lock_test_and_set(&lk, 1)) ; }
static void unlock(void) { __sync_lock_release(&lk); }
#define MAXEV 400000
static int site_fd = -1;
static void *site_of[MAXEV]; static int log_sites = 0; static void *failed_site = NULL;
static int event_at(void *ra) { /* returns 1 when this creation must fail */ int f = 0; if (!tracking) return 0; lock(); events++; if (log_sites && events < MAXEV) site_of[events] = ra; if (events == fail_at) { f = 1; failed_site = ra; if (site_fd >= 0) { char b[40]; int n = snprintf(b, sizeof b, "%p", ra); if (write(site_fd, b, (size_t)n) < 0) {} } } unlock(); return f; }
#define event() event_at(__builtin_return_address(0))
static void add(void *p, size_t n) { if (!p || !tracking) return; lock(); uint32_t h = (uint32_t)(((uintptr_t)p >> 4) * 2654435761u) & (TAB - 1); while (tab[h].p && tab[h].p != (void *)1) h = (h + 1) & (TAB - 1); tab[h].p = p; tab[h].n = n; live_n++; live_b += (long)n; unlock(); }
static void del(void *p) { if (!p) return; lock(); uint32_t h = (uint32_t)(((uintptr_t)p >> 4) * 2654435761u) & (TAB - 1); for (uint32_t i = 0; i < TAB && tab[h].p; i++, h = (h + 1) & (TAB - 1)) if (tab[h].p == p) { tab[h].p = (void *)1; live_n--; live_b -= (long)tab[h].n; break; } unlock(); }
void *__wrap_malloc(size_t n) { if (event()) return NULL; void *p = __real_malloc(n); add(p, n); return p; }
void *__wrap_calloc(size_t a, size_t b) { if (event()) return NULL; void *p = __real_calloc(a, b); add(p, a * b); return p; }
void *__wrap_realloc(void *q, size_t n) { if (event()) return NULL; void *p = __real_realloc(q, n); if (p) { del(q); add(p, n); } return p; }
int __wrap_posix_memalign(void **pp, size_t al, size_t n) { if (event()) return ENOMEM; int r = __real_posix_memalign(pp, al, n); if (!r) add(*pp, n); return r; }
void __wrap_free(void *p) { del(p); __real_free(p); }
int __wrap_pthread_create(pthread_t *t, const pthread_attr_t *a, void *(*f)(void *), void *arg) { if (event()) return EAGAIN; int r = __real_pthread_create(t, a, f, arg); if (!r) __sync_fetch_and_add(&threads_made, 1); return r; }
int __wrap_pthread_mutex_init(pthread_mutex_t *m, const pthread_mutexattr_t *a) { if (event()) return ENOMEM; int r = __real_pthread_mutex_init(m, a); if (!r && tracking) __sync_fetch_and_add(&sync_live, 1); return r; }
int __wrap_pthread_mutex_destroy(pthread_mutex_t *m) { if (tracking) __sync_fetch_and_sub(&sync_live, 1); return __real_pthread_mutex_destroy(m); }
int __wrap_sem_init(sem_t *s, int sh, unsigned v) { if (event()) { errno = ENOSPC; return -1; } int r = __real_sem_init(s, sh, v); if (!r && tracking) __sync_fetch_and_add(&sync_live, 1); return r; }
int __wrap_sem_destroy(sem_t *s) { if (tracking) __sync_fetch_and_sub(&sync_live, 1); return __real_sem_destroy(s); }

static int nthreads(void) { int n = 0; DIR *d = opendir("/proc/self/task"); if (!d) return -1; struct dirent *e; while ((e = readdir(d))) if (e->d_name[0] != '.') n++; closedir(d); return n; }

#define W 128
#define H 96
static uint8_t pic[W * H * 3];
static uint8_t *stream; static size_t stream_len;

static void enc_cfg(EbSvtAv1EncConfiguration *c, int variant) {
    c->source_width = W; c->source_height = H; c->enc_mode = 8; c->encoder_bit_depth = 8; c->logical_processors = 1; c->qp = 40; c->recon_enabled = variant & 1;
    if (variant & 2) { c->encoder_bit_depth = 10; }
    if (variant & 4) { c->logical_processors = 4; }
    if (variant & 64) { c->logical_processors = 2; }     /* 2 and 3 logical processors: the process counts of the stages differ from each other only here */
    if (variant & 128) { c->logical_processors = 3; }
    if (variant & 8) { c->screen_content_mode = 1; }
    if (variant & 16) { c->enc_mode = 4; }
    if (variant & 32) { c->stat_report = 1; }
}
static unsigned send_one(EbComponentType *enc, int k, int tenbit) {
    EbSvtIOFormat io; EbBufferHeaderType in; memset(&io, 0, sizeof io); memset(&in, 0, sizeof in);
    int bps = tenbit ? 2 : 1;
    io.luma = pic; io.cb = pic + W * H * bps; io.cr = pic + W * H * bps + W * H / 4 * bps; io.y_stride = W; io.cb_stride = io.cr_stride = W / 2; io.width = W; io.height = H; io.color_fmt = EB_YUV420; io.bit_depth = tenbit ? EB_TEN_BIT : EB_EIGHT_BIT;
    in.size = sizeof in; in.p_buffer = (uint8_t *)&io; in.n_filled_len = W * H * 3 / 2 * bps; in.pts = k; in.pic_type = EB_AV1_INVALID_PICTURE;
    return svt_av1_enc_send_picture(enc, &in);
}
static int poll_out(EbComponentType *enc, int recon, int maxn) {
    int got = 0; static uint8_t rbuf[W * H * 6];
    for (;;) { EbBufferHeaderType *pk = NULL; if (got >= maxn) break; if (svt_av1_enc_get_packet(enc, &pk, 0) != 0 || !pk) break; got++; svt_av1_enc_release_out_buffer(&pk); }
    if (recon) for (;;) { EbBufferHeaderType rb; memset(&rb, 0, sizeof rb); rb.size = sizeof rb; rb.p_buffer = rbuf; rb.n_alloc_len = sizeof rbuf; if (svt_av1_get_recon(enc, &rb) != 0) break; }
    return got;
}

/* one encoder session up to `point`, then teardown; returns 0 when every call returned */
static void enc_session(int variant, int point, int nsend, int nget, unsigned *rcs) {
    EbComponentType *enc = NULL; EbSvtAv1EncConfiguration cfg; memset(&cfg, 0, sizeof cfg);
    rcs[0] = svt_av1_enc_init_handle(&enc, NULL, &cfg);
    if (rcs[0] || !enc) return;
    int inited = 0;
    if (point >= 1) { EbSvtAv1EncConfiguration b = cfg; enc_cfg(&b, variant); b.qp = 200; if (point == 1) rcs[1] = svt_av1_enc_set_parameter(enc, &b); }
    if (point >= 2) { enc_cfg(&cfg, variant); rcs[1] = svt_av1_enc_set_parameter(enc, &cfg); }
    if (point >= 3 && rcs[1] == 0) { rcs[2] = svt_av1_enc_init(enc); inited = 1; }
    if (point >= 4 && rcs[2] == 0) {
        int got = 0;
        for (int k = 0; k < nsend; k++) { send_one(enc, k, variant & 2); if (got < nget) got += poll_out(enc, variant & 1, nget - got); }
        if (point >= 5) {
            EbBufferHeaderType in; memset(&in, 0, sizeof in); in.size = sizeof in; in.flags = EB_BUFFERFLAG_EOS; in.pic_type = EB_AV1_INVALID_PICTURE; svt_av1_enc_send_picture(enc, &in);
            for (int guard = 0; guard < 100000; guard++) { EbBufferHeaderType *pk = NULL; unsigned r = svt_av1_enc_get_packet(enc, &pk, 0); int e = pk && (pk->flags & EB_BUFFERFLAG_EOS); if (pk) svt_av1_enc_release_out_buffer(&pk); poll_out(enc, variant & 1, 0); if (e) break; if (r) usleep(300); }
            poll_out(enc, variant & 1, 0);
        }
    }
    (void)inited; rcs[3] = svt_av1_enc_deinit(enc);   /* the property's teardown is always deinit followed by deinit_handle */
    rcs[4] = svt_av1_enc_deinit_handle(enc);
}
static void dec_session(int variant, int point, int nframes, unsigned *rcs) {
    EbComponentType *dec = NULL; EbSvtAv1DecConfiguration dc; memset(&dc, 0, sizeof dc);
    rcs[0] = svt_av1_dec_init_handle(&dec, NULL, &dc);
    if (rcs[0] || !dec) return;
    int inited = 0;
    if (point >= 2) { dc.threads = (variant & 4) ? 4 : 1; dc.num_p_frames = 1; dc.max_color_format = EB_YUV420; dc.is_16bit_pipeline = (variant & 2) ? 1 : 0; rcs[1] = svt_av1_dec_set_parameter(dec, &dc); }
    if (point >= 3 && rcs[1] == 0) { rcs[2] = svt_av1_dec_init(dec); inited = 1; }
    if (point >= 4 && rcs[2] == 0 && stream_len) {
        EbBufferHeaderType rb; EbSvtIOFormat io; memset(&rb, 0, sizeof rb); memset(&io, 0, sizeof io); rb.p_buffer = (uint8_t *)&io;
        size_t off = 0;
        for (int k = 0; k < nframes && off + 4 <= stream_len; k++) {
            uint32_t l; memcpy(&l, stream + off, 4); off += 4; if (off + l > stream_len) break;
            uint8_t *d = __real_calloc(1, l + 16); memcpy(d, stream + off, l); off += l;
            if (svt_av1_dec_frame(dec, d, l, 0) == 0) { EbAV1StreamInfo si; EbAV1FrameInfo fi; svt_av1_dec_get_picture(dec, &rb, &si, &fi); }
            __real_free(d);
        }
        free(io.luma); free(io.cb); free(io.cr);
    }
    (void)inited; rcs[3] = svt_av1_dec_deinit(dec);
    rcs[4] = svt_av1_dec_deinit_handle(dec);
}

int main(int argc, char **argv) {
    if (argc < 4) return 2;
    int is_enc = argv[1][0] == 'E'; const char *mode = argv[2]; int variant = atoi(argv[3]);
    for (int i = 0; i < W * H * 3; i++) pic[i] = (uint8_t)((i * 7 + (i >> 7) * 3) & ((variant & 2) && (i & 1) ? 3 : 255));
    if (getenv("RES_STREAM")) { FILE *f = fopen(getenv("RES_STREAM"), "rb"); if (f) { stream = __real_malloc(1 << 22); stream_len = fread(stream, 1, 1 << 22, f); fclose(f); } }
    int nul = open("/dev/null", O_WRONLY); int so = dup(1); dup2(nul, 1); dup2(nul, 2); FILE *out = fdopen(so, "w");
    if (!strcmp(mode, "count")) {
        long marks[3] = {0, 0, 0}; log_sites = getenv("RES_SITES") != NULL; tracking = 1;
        if (is_enc) { EbComponentType *enc = NULL; EbSvtAv1EncConfiguration cfg; memset(&cfg, 0, sizeof cfg); svt_av1_enc_init_handle(&enc, NULL, &cfg); marks[0] = events; enc_cfg(&cfg, variant); svt_av1_enc_set_parameter(enc, &cfg); marks[1] = events; svt_av1_enc_init(enc); marks[2] = events; tracking = 0; svt_av1_enc_deinit(enc); svt_av1_enc_deinit_handle(enc); }
        else { unsigned rcs[5]; dec_session(variant, 4, 2, rcs); marks[0] = marks[1] = 3; marks[2] = events; tracking = 0; }
        fprintf(out, "COUNT %ld %ld %ld\n", marks[0], marks[1], marks[2]);
        if (log_sites) { /* one line per distinct calling site: first event, an event in the middle, last event, number of events */
            long n = marks[2] < MAXEV ? marks[2] : MAXEV - 1;
            for (long k = 1; k <= n; k++) { void *a = site_of[k]; if (!a) continue; long first = k, last = k, cnt = 0, mid = k; for (long j = k; j <= n; j++) if (site_of[j] == a) { cnt++; last = j; site_of[j] = NULL; } long seen = 0; (void)seen; mid = first + (last - first) / 2; fprintf(out, "SITE %p %ld %ld %ld %ld\n", a, first, mid, last, cnt); }
        }
        fflush(out); _exit(0);
    }
    if (!strcmp(mode, "fail")) {
        for (int a = 4; a < argc; a++) {
            long k = atol(argv[a]); int pfd[2], sfd[2]; if (pipe(pfd) || pipe(sfd)) return 4; fflush(out);
            pid_t p = fork();
            if (p == 0) {
                close(pfd[0]); close(sfd[0]); site_fd = sfd[1]; alarm(90);
                unsigned rcs[5] = {0xffff, 0xffff, 0xffff, 0xffff, 0xffff};
                int t0 = nthreads();
                fail_at = k; tracking = 1;
                if (is_enc) enc_session(variant, 3, 0, 0, rcs); else dec_session(variant, 4, 2, rcs);
                tracking = 0;
                usleep(20000);
                char buf[256]; int n = snprintf(buf, sizeof buf, "%x %x %x %x %x live=%ld threads=%d sync=%ld site=%p", rcs[0], rcs[1], rcs[2], rcs[3], rcs[4], live_n, nthreads() - t0, sync_live, failed_site);
                if (write(pfd[1], buf, (size_t)n) < 0) _exit(9);
                _exit(0);
            }
            close(pfd[1]); close(sfd[1]); char buf[512]; ssize_t n = read(pfd[0], buf, sizeof buf - 1); if (n < 0) n = 0; buf[n] = 0; close(pfd[0]);
            char sb[64]; ssize_t sn = read(sfd[0], sb, sizeof sb - 1); if (sn < 0) sn = 0; sb[sn] = 0; close(sfd[0]);
            int st = 0; waitpid(p, &st, 0);
            fprintf(out, "FAIL %ld %s fsite=%s ", k, n ? buf : "- - - - - live=-1 threads=-1 sync=-1 site=-", sn ? sb : "-");
            if (WIFSIGNALED(st)) fprintf(out, WTERMSIG(st) == SIGALRM ? "timeout\n" : "signal%d\n", WTERMSIG(st)); else fprintf(out, WEXITSTATUS(st) ? "exit%d\n" : "ok\n", WEXITSTATUS(st));
            fflush(out);
        }
        _exit(0);
    }
    if (!strcmp(mode, "teardown")) {
        int point = atoi(argv[4]), nsend = argc > 5 ? atoi(argv[5]) : 0, nget = argc > 6 ? atoi(argv[6]) : 0, cycles = argc > 7 ? atoi(argv[7]) : 1;
        alarm(45);
        int t0 = nthreads(); long first_b = -1, last_b = 0; unsigned rcs[5] = {0xffff, 0xffff, 0xffff, 0xffff, 0xffff};
        tracking = 1;
        for (int c = 0; c < cycles; c++) {
            for (int i = 0; i < 5; i++) rcs[i] = 0xffff;
            if (is_enc) enc_session(variant, point, nsend, nget, rcs); else dec_session(variant, point, nsend, rcs);
            usleep(20000);
            if (c == 0) first_b = live_b; last_b = live_b;
        }
        tracking = 0;
        fprintf(out, "TEAR %x %x %x %x %x live=%ld/%ld threads=%d sync=%ld growth=%ld\n", rcs[0], rcs[1], rcs[2], rcs[3], rcs[4], live_n, live_b, nthreads() - t0, sync_live, cycles > 1 ? (last_b - first_b) / (cycles - 1) : 0);
        fflush(out); _exit(0);
    }
    return 2;
}
