/* C17: several encoder / decoder instances in one process, each in its own thread, started with staggered delays.
 * usage: multi_inst <spec> [<spec> ...]     spec = E:<w>x<h>:<bits>:<preset>:<lp>:<cpuhex>:<grain>:<content>:<n>:<delay_ms>  or  D:<streamfile>:<threads>:<delay_ms>
 * prints one line per instance: "I <index> <ok|fail> packets=<n> pk=<hash> rec=<hash> pics=<n> dec=<hash>" */
#include "../no_rt.h"   /* ordinary threads instead of SCHED_FIFO/99 (see the header) */
#include <stdio.h>
#include <stdlib.h>
#include <string.h>
#include <stdint.h>
#include <unistd.h>
#include <pthread.h>
#include <fcntl.h>
#include "EbSvtAv1Enc.h"
#include "EbSvtAv1Dec.h"

typedef struct { int idx; char kind; int w, h, bits, preset, lp, grain, content, n, delay; unsigned long long cpu; char path[512]; int threads;
                 int ok, packets, pics; unsigned long long pk, rec, dec; } Inst;
static pthread_mutex_t init_mx = PTHREAD_MUTEX_INITIALIZER; static int serial_init = 0;
static unsigned long long fnv(const uint8_t *p, size_t n, unsigned long long h) { for (size_t i = 0; i < n; i++) { h ^= p[i]; h *= 1099511628211ULL; } return h; }
#define FNV0 1469598103934665603ULL
static int sample(Inst *s, int k, int x, int y, int plane) {
    int v;
    switch (s->content) {
    case 0: v = (x * 3 + y * 2 + k * 5 + plane * 40) & 255; break;
    case 1: { unsigned r = (unsigned)(k * 97 + plane * 13) ^ (unsigned)(y * 7919 + x); r ^= r << 13; r ^= r >> 17; r ^= r << 5; v = r & 255; break; }
    default: { int sc = plane ? 2 : 1, X = x * sc, Y = y * sc, bx = (k * 3 + 11) % (s->w > 16 ? s->w - 16 : 1), by = (k * 2 + 7) % (s->h > 16 ? s->h - 16 : 1);
               v = ((X / 8 + Y / 8) & 1) ? 60 + plane * 30 : 180 - plane * 20; v += ((X * 5 + Y * 3) & 7); if (X >= bx && X < bx + 16 && Y >= by && Y < by + 16) v = 235 - plane * 60; break; }
    }
    if (s->bits > 8) v = (v << 2) | (v >> 6);
    return v;
}
static void *enc_thread(void *arg) {
    Inst *s = arg; usleep(1000 * s->delay);
    EbComponentType *enc = NULL; EbSvtAv1EncConfiguration cfg; memset(&cfg, 0, sizeof cfg);
    if (serial_init) pthread_mutex_lock(&init_mx);
    if (svt_av1_enc_init_handle(&enc, NULL, &cfg)) { if (serial_init) pthread_mutex_unlock(&init_mx); return NULL; }
    cfg.source_width = s->w; cfg.source_height = s->h; cfg.encoder_bit_depth = s->bits; cfg.enc_mode = (int8_t)s->preset; cfg.logical_processors = s->lp; cfg.recon_enabled = 1; cfg.frame_rate = 30 << 16;
    cfg.use_cpu_flags = s->cpu; cfg.film_grain_denoise_strength = s->grain; cfg.qp = 40;
    int bad = svt_av1_enc_set_parameter(enc, &cfg) || svt_av1_enc_init(enc);
    if (serial_init) pthread_mutex_unlock(&init_mx);
    if (bad) { svt_av1_enc_deinit_handle(enc); return NULL; }
    int bps = s->bits > 8 ? 2 : 1; size_t ysz = (size_t)s->w * s->h * bps, csz = ysz / 4;
    uint8_t *buf = malloc(ysz + 2 * csz), *rbuf = malloc((size_t)s->w * s->h * 3 * 2);
    s->pk = FNV0; s->rec = FNV0; int eos = 0, rec_eos = 0;
    for (int k = 0; k <= s->n; k++) {
        if (k < s->n) {
            uint8_t *pl[3] = {buf, buf + ysz, buf + ysz + csz};
            for (int p = 0; p < 3; p++) { int w = p ? s->w / 2 : s->w, h = p ? s->h / 2 : s->h;
                for (int y = 0; y < h; y++) for (int x = 0; x < w; x++) { int v = sample(s, k, x, y, p); if (bps == 1) pl[p][y * w + x] = (uint8_t)v; else { pl[p][(y * w + x) * 2] = (uint8_t)v; pl[p][(y * w + x) * 2 + 1] = (uint8_t)(v >> 8); } } }
            EbSvtIOFormat io; memset(&io, 0, sizeof io); io.luma = pl[0]; io.cb = pl[1]; io.cr = pl[2]; io.y_stride = s->w; io.cb_stride = io.cr_stride = s->w / 2; io.width = s->w; io.height = s->h; io.color_fmt = EB_YUV420; io.bit_depth = bps == 2 ? EB_TEN_BIT : EB_EIGHT_BIT;
            EbBufferHeaderType in; memset(&in, 0, sizeof in); in.size = sizeof in; in.p_buffer = (uint8_t *)&io; in.n_filled_len = (uint32_t)(ysz + 2 * csz); in.pts = k; in.pic_type = EB_AV1_INVALID_PICTURE;
            svt_av1_enc_send_picture(enc, &in);
        } else { EbBufferHeaderType in; memset(&in, 0, sizeof in); in.size = sizeof in; in.flags = EB_BUFFERFLAG_EOS; in.pic_type = EB_AV1_INVALID_PICTURE; svt_av1_enc_send_picture(enc, &in); }
        for (int spin = 0; spin < (k < s->n ? 1 : 400000); spin++) {
            EbBufferHeaderType *pk = NULL; int got = 0;
            while (svt_av1_enc_get_packet(enc, &pk, 0) == 0 && pk) { s->pk = fnv(pk->p_buffer, pk->n_filled_len, s->pk); s->packets++; if (pk->flags & EB_BUFFERFLAG_EOS) eos = 1; svt_av1_enc_release_out_buffer(&pk); pk = NULL; got = 1; }
            for (;;) { EbBufferHeaderType rb; memset(&rb, 0, sizeof rb); rb.size = sizeof rb; rb.p_buffer = rbuf; rb.n_alloc_len = (uint32_t)((size_t)s->w * s->h * 3 * 2); if (svt_av1_get_recon(enc, &rb) != 0) break; /* recon arrives in decode order: combine order-independently */ s->rec += fnv(rb.p_buffer, rb.n_filled_len, FNV0 ^ (unsigned long long)rb.pts * 1000003ULL); if (rb.flags & EB_BUFFERFLAG_EOS) rec_eos = 1; }
            if (k < s->n || eos) break;
            if (!got) usleep(300);
        }
    }
    (void)rec_eos;
    s->ok = eos && s->packets == s->n;
    if (serial_init) pthread_mutex_lock(&init_mx);
    svt_av1_enc_deinit(enc); svt_av1_enc_deinit_handle(enc); free(buf); free(rbuf);
    if (serial_init) pthread_mutex_unlock(&init_mx);
    return NULL;
}
static void *dec_thread(void *arg) {
    Inst *s = arg; usleep(1000 * s->delay);
    FILE *f = fopen(s->path, "rb"); if (!f) return NULL;
    EbComponentType *dec = NULL; EbSvtAv1DecConfiguration dc; memset(&dc, 0, sizeof dc);
    if (svt_av1_dec_init_handle(&dec, NULL, &dc)) return NULL;
    dc.threads = s->threads; dc.num_p_frames = 1; dc.max_color_format = EB_YUV420;
    if (svt_av1_dec_set_parameter(dec, &dc) || svt_av1_dec_init(dec)) return NULL;
    EbBufferHeaderType rb; EbSvtIOFormat io; memset(&rb, 0, sizeof rb); memset(&io, 0, sizeof io); rb.p_buffer = (uint8_t *)&io; s->dec = FNV0; s->ok = 1;
    for (;;) { uint32_t l; int64_t pts; if (fread(&l, 4, 1, f) != 1 || fread(&pts, 8, 1, f) != 1) break; uint8_t *d = calloc(1, l + 16); if (fread(d, 1, l, f) != l) { free(d); break; }
        if (svt_av1_dec_frame(dec, d, l, 0) == 0) { EbAV1StreamInfo si; EbAV1FrameInfo fi; if (svt_av1_dec_get_picture(dec, &rb, &si, &fi) != EB_DecNoOutputPicture) { int bps = io.bit_depth == EB_EIGHT_BIT ? 1 : 2;
            for (uint32_t y = 0; y < io.height; y++) s->dec = fnv(io.luma + (size_t)y * io.y_stride * bps, (size_t)io.width * bps, s->dec);
            for (uint32_t y = 0; y < (io.height + 1) / 2; y++) { s->dec = fnv(io.cb + (size_t)y * io.cb_stride * bps, (size_t)((io.width + 1) / 2) * bps, s->dec); s->dec = fnv(io.cr + (size_t)y * io.cr_stride * bps, (size_t)((io.width + 1) / 2) * bps, s->dec); } s->pics++; } } else s->ok = 0;
        free(d); }
    fclose(f); free(io.luma); free(io.cb); free(io.cr);
    svt_av1_dec_deinit(dec); svt_av1_dec_deinit_handle(dec);
    return NULL;
}
int main(int argc, char **argv) {
    static Inst inst[16]; pthread_t th[16]; int n = 0;
    int so = dup(1); int nul = open("/dev/null", O_WRONLY); dup2(nul, 1); dup2(nul, 2); FILE *out = fdopen(so, "w");
    alarm(600); serial_init = getenv("MULTI_SERIAL_INIT") != NULL;
    for (int a = 1; a < argc && n < 16; a++) {
        Inst *s = &inst[n]; memset(s, 0, sizeof *s); s->idx = n;
        if (argv[a][0] == 'E') { s->kind = 'E'; if (sscanf(argv[a], "E:%dx%d:%d:%d:%d:%llx:%d:%d:%d:%d", &s->w, &s->h, &s->bits, &s->preset, &s->lp, &s->cpu, &s->grain, &s->content, &s->n, &s->delay) != 10) return 2; }
        else { s->kind = 'D'; char *p = argv[a] + 2; char *c = strchr(p, ':'); if (!c) return 2; *c = 0; snprintf(s->path, sizeof s->path, "%s", p); if (sscanf(c + 1, "%d:%d", &s->threads, &s->delay) != 2) return 2; }
        n++;
    }
    for (int i = 0; i < n; i++) pthread_create(&th[i], NULL, inst[i].kind == 'E' ? enc_thread : dec_thread, &inst[i]);
    for (int i = 0; i < n; i++) pthread_join(th[i], NULL);
    for (int i = 0; i < n; i++) fprintf(out, "I %d %s packets=%d pk=%016llx rec=%016llx pics=%d dec=%016llx\n", i, inst[i].ok ? "ok" : "fail", inst[i].packets, inst[i].pk, inst[i].rec, inst[i].pics, inst[i].dec);
    fflush(out); _exit(0);
}
