/* C14: runs API call scripts against the real encoder / decoder, one forked child per script under a watchdog.
 * stdin: one script per line: "<id> <E|D> op op op ..."; output: "S <id> op=rc ... END <ok|signal N|timeout|exit N>" */
#include "../no_rt.h"   /* ordinary threads instead of SCHED_FIFO/99 (see the header) */
#include <stdio.h>
#include <stdlib.h>
#include <string.h>
#include <stdint.h>
#include <unistd.h>
#include <signal.h>
#include <fcntl.h>
#include <sys/wait.h>
#include "EbSvtAv1Enc.h"
#include "EbSvtAv1Dec.h"

#define W 128
#define H 64
static EbComponentType *enc, *dec;
static EbSvtAv1EncConfiguration cfg; static EbSvtAv1DecConfiguration dcfg;
static uint8_t *pic; static int sent = 0; static uint8_t *stream; static size_t stream_len;
static FILE *out;

static void emit(const char *op, unsigned rc) { fprintf(out, " %s=%x", op, rc); fflush(out); }

static unsigned enc_op(const char *op) {
    EbSvtIOFormat io; EbBufferHeaderType in; EbBufferHeaderType *pk = NULL; EbBufferHeaderType rb;
    memset(&io, 0, sizeof io); memset(&in, 0, sizeof in); memset(&rb, 0, sizeof rb);
    io.luma = pic; io.cb = pic + W * H; io.cr = pic + W * H + W * H / 4; io.y_stride = W; io.cb_stride = io.cr_stride = W / 2; io.width = W; io.height = H; io.color_fmt = EB_YUV420; io.bit_depth = EB_EIGHT_BIT;
    in.size = sizeof in; in.p_buffer = (uint8_t *)&io; in.n_filled_len = W * H * 3 / 2; in.pts = sent; in.pic_type = EB_AV1_INVALID_PICTURE;
    if (!strcmp(op, "ih")) return svt_av1_enc_init_handle(&enc, NULL, &cfg);
    if (!strcmp(op, "ih_nullpp")) return svt_av1_enc_init_handle(NULL, NULL, &cfg);
    if (!strcmp(op, "ih_nullcfg")) { EbComponentType *t = NULL; unsigned r = svt_av1_enc_init_handle(&t, NULL, NULL); if (r == 0 && t) { if (!enc) enc = t; } return r; }
    if (!strcmp(op, "sp_ok")) { cfg.source_width = W; cfg.source_height = H; cfg.enc_mode = 8; cfg.encoder_bit_depth = 8; cfg.recon_enabled = 1; cfg.logical_processors = 2; cfg.qp = 40; return svt_av1_enc_set_parameter(enc, &cfg); }
    if (!strcmp(op, "sp_bad")) { EbSvtAv1EncConfiguration b = cfg; b.source_width = W; b.source_height = H; b.qp = 200; return svt_av1_enc_set_parameter(enc, &b); }
    if (!strcmp(op, "sp_bad2")) { EbSvtAv1EncConfiguration b = cfg; b.source_width = 3; b.source_height = H; return svt_av1_enc_set_parameter(enc, &b); }
    if (!strcmp(op, "sp_nullcfg")) return svt_av1_enc_set_parameter(enc, NULL);
    if (!strcmp(op, "sp_nullh")) return svt_av1_enc_set_parameter(NULL, &cfg);
    if (!strcmp(op, "init")) return svt_av1_enc_init(enc);
    if (!strcmp(op, "init_nullh")) return svt_av1_enc_init(NULL);
    if (!strcmp(op, "hdr")) { EbBufferHeaderType *h = NULL; unsigned r = svt_av1_enc_stream_header(enc, &h); if (r == 0 && h) svt_av1_enc_stream_header_release(h); return r; }
    if (!strcmp(op, "hdr_nullh")) { EbBufferHeaderType *h = NULL; return svt_av1_enc_stream_header(NULL, &h); }
    if (!strcmp(op, "hdr_nullout")) return svt_av1_enc_stream_header(enc, NULL);
    if (!strcmp(op, "hdrrel_null")) return svt_av1_enc_stream_header_release(NULL);
    if (!strcmp(op, "send")) { unsigned r = svt_av1_enc_send_picture(enc, &in); sent++; return r; }
    if (!strcmp(op, "send_nullh")) return svt_av1_enc_send_picture(NULL, &in);
    if (!strcmp(op, "send_nullbuf")) return svt_av1_enc_send_picture(enc, NULL);
    if (!strcmp(op, "eos")) { in.p_buffer = NULL; in.n_filled_len = 0; in.flags = EB_BUFFERFLAG_EOS; return svt_av1_enc_send_picture(enc, &in); }
    if (!strcmp(op, "get")) { unsigned r = svt_av1_enc_get_packet(enc, &pk, 0); if (pk) svt_av1_enc_release_out_buffer(&pk); return r; }
    if (!strcmp(op, "drain")) { unsigned r = 0; int guard = 0; for (;;) { pk = NULL; r = svt_av1_enc_get_packet(enc, &pk, 1); int e = pk && (pk->flags & EB_BUFFERFLAG_EOS); if (pk) svt_av1_enc_release_out_buffer(&pk); { static uint8_t rbuf[W * H * 3]; rb.size = sizeof rb; rb.p_buffer = rbuf; rb.n_alloc_len = sizeof rbuf; while (svt_av1_get_recon(enc, &rb) == 0) {} } if (e || r != 0 || ++guard > 200) break; } return r; }
    if (!strcmp(op, "get_nullh")) return svt_av1_enc_get_packet(NULL, &pk, 0);
    if (!strcmp(op, "get_nullout")) return svt_av1_enc_get_packet(enc, NULL, 0);
    if (!strcmp(op, "rel_null")) { svt_av1_enc_release_out_buffer(NULL); return 0x80001005; }
    if (!strcmp(op, "rel_nullp")) { EbBufferHeaderType *z = NULL; svt_av1_enc_release_out_buffer(&z); return 0x80001005; }
    if (!strcmp(op, "recon")) { static uint8_t buf[W * H * 3]; rb.size = sizeof rb; rb.p_buffer = buf; rb.n_alloc_len = sizeof buf; unsigned r = svt_av1_get_recon(enc, &rb); return r; }
    if (!strcmp(op, "recon_nullh")) { static uint8_t buf[W * H * 3]; rb.p_buffer = buf; rb.n_alloc_len = sizeof buf; return svt_av1_get_recon(NULL, &rb); }
    if (!strcmp(op, "recon_nullbuf")) return svt_av1_get_recon(enc, NULL);
    if (!strcmp(op, "wait")) { usleep(1500000); return 0; }   /* not an API call: lets the pipeline finish what was submitted */
    if (!strcmp(op, "deinit")) return svt_av1_enc_deinit(enc);
    if (!strcmp(op, "deinit_nullh")) return svt_av1_enc_deinit(NULL);
    if (!strcmp(op, "dh")) { unsigned r = svt_av1_enc_deinit_handle(enc); enc = NULL; return r; }
    if (!strcmp(op, "dh_nullh")) return svt_av1_enc_deinit_handle(NULL);
    return 0xdeadbeef;
}

static unsigned dec_op(const char *op) {
    static EbBufferHeaderType rb; static EbSvtIOFormat io; EbAV1StreamInfo si; EbAV1FrameInfo fi; memset(&si, 0, sizeof si); memset(&fi, 0, sizeof fi);
    rb.p_buffer = (uint8_t *)&io;
    if (!strcmp(op, "ih")) return svt_av1_dec_init_handle(&dec, NULL, &dcfg);
    if (!strcmp(op, "ih_nullpp")) return svt_av1_dec_init_handle(NULL, NULL, &dcfg);
    if (!strcmp(op, "ih_nullcfg")) { EbComponentType *t = NULL; unsigned r = svt_av1_dec_init_handle(&t, NULL, NULL); if (r == 0 && t && !dec) dec = t; return r; }
    if (!strcmp(op, "sp_ok")) { dcfg.threads = 1; dcfg.num_p_frames = 1; dcfg.max_color_format = EB_YUV420; dcfg.max_bit_depth = EB_EIGHT_BIT; return svt_av1_dec_set_parameter(dec, &dcfg); }
    if (!strcmp(op, "sp_nullcfg")) return svt_av1_dec_set_parameter(dec, NULL);
    if (!strcmp(op, "sp_nullh")) return svt_av1_dec_set_parameter(NULL, &dcfg);
    if (!strcmp(op, "init")) return svt_av1_dec_init(dec);
    if (!strcmp(op, "init_nullh")) return svt_av1_dec_init(NULL);
    if (!strcmp(op, "frame")) { uint8_t *d = calloc(1, stream_len + 16); memcpy(d, stream, stream_len); unsigned r = svt_av1_dec_frame(dec, d, stream_len, 0); free(d); return r; }
    if (!strcmp(op, "frame_nullh")) return svt_av1_dec_frame(NULL, stream, stream_len, 0);
    if (!strcmp(op, "frame_nulldata")) return svt_av1_dec_frame(dec, NULL, 0, 0);
    if (!strcmp(op, "frame_nulldata_len")) return svt_av1_dec_frame(dec, NULL, 100, 0);
    if (!strcmp(op, "pic")) return svt_av1_dec_get_picture(dec, &rb, &si, &fi);
    if (!strcmp(op, "pic_nullh")) return svt_av1_dec_get_picture(NULL, &rb, &si, &fi);
    if (!strcmp(op, "pic_nullbuf")) return svt_av1_dec_get_picture(dec, NULL, &si, &fi);
    if (!strcmp(op, "deinit")) return svt_av1_dec_deinit(dec);
    if (!strcmp(op, "deinit_nullh")) return svt_av1_dec_deinit(NULL);
    if (!strcmp(op, "dh")) { unsigned r = svt_av1_dec_deinit_handle(dec); dec = NULL; return r; }
    if (!strcmp(op, "dh_nullh")) return svt_av1_dec_deinit_handle(NULL);
    return 0xdeadbeef;
}

int main(int argc, char **argv) {
    static char line[1 << 16];
    pic = malloc(W * H * 3 / 2); for (int i = 0; i < W * H * 3 / 2; i++) pic[i] = (uint8_t)(i * 7 + (i >> 7) * 3);
    if (argc > 1) { FILE *f = fopen(argv[1], "rb"); if (f) { stream = malloc(1 << 20); stream_len = fread(stream, 1, 1 << 20, f); fclose(f); } }
    while (fgets(line, sizeof line, stdin)) {
        char *save = NULL; char *id = strtok_r(line, " \n", &save); char *kind = strtok_r(NULL, " \n", &save);
        if (!id || !kind) continue;
        int pfd[2]; if (pipe(pfd)) return 4;
        fflush(stdout);
        pid_t p = fork();
        if (p == 0) {
            close(pfd[0]); out = fdopen(pfd[1], "w");
            int nul = open("/dev/null", O_WRONLY); dup2(nul, 1); dup2(nul, 2);
            alarm(30);
            for (char *op = strtok_r(NULL, " \n", &save); op; op = strtok_r(NULL, " \n", &save)) {
                fprintf(out, " >%s", op); fflush(out);
                unsigned rc = kind[0] == 'E' ? enc_op(op) : dec_op(op);
                emit(op, rc);
            }
            fflush(out); _exit(0);
        }
        close(pfd[1]);
        static char buf[1 << 16]; size_t n = 0; ssize_t k;
        while ((k = read(pfd[0], buf + n, sizeof buf - 1 - n)) > 0) n += (size_t)k;
        buf[n] = 0; close(pfd[0]);
        int st = 0; waitpid(p, &st, 0);
        printf("S %s%s END ", id, buf);
        if (WIFSIGNALED(st)) printf(WTERMSIG(st) == SIGALRM ? "timeout\n" : "signal %d\n", WTERMSIG(st)); else if (WEXITSTATUS(st)) printf("exit %d\n", WEXITSTATUS(st)); else printf("ok\n");
        fflush(stdout);
    }
    return 0;
}
