/* C27: calls the real load_default_buffer_configuration_settings (this translation unit is EbEncHandle.c) on a sequence
 * control set filled from each input line and prints the pool sizes / process counts / segment counts it wrote.
 * line:  nproc sock ng lp frame_rate hl res lad sbs h w tile_rows overlays tf scd ip tpl cpu cpu_use use_cpu_flags
 * (nproc, cpu, cpu_use are what the OS reports: the harness prints them first, the values in the line are ignored) */
#include "EbEncHandle.c"
#include <stdio.h>

int main(void) {
    static char line[4096];
    FILE *out = fdopen(dup(1), "w");
    int nul = open("/dev/null", 1); fflush(stdout); dup2(nul, 1); dup2(nul, 2);
    fprintf(out, "OS %u %llu %llu\n", get_num_processors(), (unsigned long long)get_cpu_flags(), (unsigned long long)get_cpu_flags_to_use());
    while (fgets(line, sizeof line, stdin)) {
        long long v[20]; int n = 0; char *p = line, *end;
        while (n < 20) { long long x = strtoll(p, &end, 10); if (end == p) break; if (x == LLONG_MAX) x = (long long)strtoull(p, &end, 10); v[n++] = x; p = end; }
        if (n < 20) continue;
        SequenceControlSet *scs = calloc(1, sizeof *scs);
        EbSvtAv1EncConfiguration *c = &scs->static_config;
        c->target_socket = (int32_t)v[1]; num_groups = (uint8_t)v[2]; c->logical_processors = (uint32_t)v[3]; c->frame_rate = (uint32_t)v[4];
        c->hierarchical_levels = (uint32_t)v[5]; scs->input_resolution = (EbInputResolution)v[6]; c->look_ahead_distance = (uint32_t)v[7];
        c->super_block_size = (uint32_t)v[8]; scs->max_input_luma_height = (uint16_t)v[9]; scs->max_input_luma_width = (uint16_t)v[10];
        c->tile_rows = (int32_t)v[11]; c->enable_overlays = (EbBool)v[12]; c->tf_level = (int8_t)v[13]; c->scene_change_detection = (uint32_t)v[14];
        c->intra_period_length = (int32_t)v[15]; c->enable_tpl_la = (uint8_t)v[16]; c->use_cpu_flags = (CPU_FLAGS)v[19];
        EbErrorType e = load_default_buffer_configuration_settings(scs);
        if (e != EB_ErrorNone) { fprintf(out, "R NONE\n"); free(scs); continue; }
        fprintf(out, "R %u %u %u %u %u %u %u %u %u %u %u %u %u %u %u %u %u %u %u %u %llu\n",
                scs->input_buffer_fifo_init_count, scs->picture_control_set_pool_init_count, scs->picture_control_set_pool_init_count_child,
                scs->pa_reference_picture_buffer_init_count, scs->reference_picture_buffer_init_count, scs->output_recon_buffer_fifo_init_count,
                scs->overlay_input_picture_buffer_init_count, scs->output_stream_buffer_fifo_init_count, scs->me_pool_init_count, (unsigned)scs->scd_delay,
                scs->total_process_init_count, scs->enc_dec_process_init_count, scs->motion_estimation_process_init_count,
                (unsigned)scs->me_segment_column_count_array[0], (unsigned)scs->me_segment_row_count_array[0],
                (unsigned)scs->enc_dec_segment_col_count_array[0], (unsigned)scs->enc_dec_segment_row_count_array[0],
                (unsigned)scs->tile_group_row_count_array[0], (unsigned)scs->rest_segment_column_count, (unsigned)scs->rest_segment_row_count,
                (unsigned long long)c->use_cpu_flags);
        free(scs);
    }
    fflush(out);
    return 0;
}
