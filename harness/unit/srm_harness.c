/* C23 correspondence harness. Includes the REAL EbSystemResourceManager.c so that its static functions
 * (svt_release_process, svt_fifo_pop_front, ...) can be driven one critical section at a time, in any
 * interleaving chosen by the script on stdin; also runs whole API calls. After every operation it prints
 * the result and a dump of the complete data structure.
 * script: NEW nobj nprod ncons | RPE f | RPF f | SWE f | SWF f | POPE f | POPF f | PEEK f | POST o | REL o |
 *         INC o n | EN o | DIS o | SHUT | API_GE f | API_GF f | API_GFNB f | END                                 */
#include <stdio.h>
#include <stdlib.h>
#include <string.h>
#include <semaphore.h>
#include "EbSystemResourceManager.c"

typedef struct Dummy { EbDctor dctor; int id; } Dummy;
static EbErrorType dummy_creator(EbPtr *object_dbl_ptr, EbPtr init) { (void)init; Dummy *d = calloc(1, sizeof *d); *object_dbl_ptr = d; return d ? EB_ErrorNone : EB_ErrorInsufficientResources; }
static void dummy_destroyer(EbPtr p) { free(p); }

static EbSystemResource *R;
static int nobj, nprod, ncons;

static int widx(EbObjectWrapper *w) { for (int i = 0; i < nobj; i++) if (R->wrapper_ptr_pool[i] == w) return i; return -1; }
static int fidx(EbMuxingQueue *q, void *f) { for (uint32_t i = 0; i < q->process_total_count; i++) if (q->process_fifo_ptr_array[i] == f) return (int)i; return -1; }

static void dump_ring(EbCircularBuffer *b, EbMuxingQueue *q, int is_proc) {
    printf("%u,%u,%u,%u:", b->buffer_total_count, b->head_index, b->tail_index, b->current_count);
    for (uint32_t i = 0; i < b->buffer_total_count; i++) {
        if (i) printf(",");
        if (!b->array_ptr[i]) printf("-"); else printf("%d", is_proc ? fidx(q, b->array_ptr[i]) : widx((EbObjectWrapper *)b->array_ptr[i]));
    }
}
static void dump_mq(EbMuxingQueue *q) {
    printf("o:"); dump_ring(q->object_queue, q, 0); printf(";p:"); dump_ring(q->process_queue, q, 1); printf(";f:");
    for (uint32_t i = 0; i < q->process_total_count; i++) {
        EbFifo *f = q->process_fifo_ptr_array[i]; int v = 0; sem_getvalue((sem_t *)f->counting_semaphore, &v);
        if (i) printf("/");
        printf("%d,%d:", v, f->quit_signal ? 1 : 0);
        int n = 0; for (EbObjectWrapper *w = f->first_ptr; w && n < 100000; w = w->next_ptr, n++) printf("%s%d", n ? "," : "", widx(w));
    }
}
static void dump(void) {
    printf(" | E "); dump_mq(R->empty_queue);
    printf(" F "); if (R->full_queue) dump_mq(R->full_queue); else printf("none");
    printf(" W ");
    for (int i = 0; i < nobj; i++) printf("%s%u,%d", i ? ";" : "", R->wrapper_ptr_pool[i]->live_count, R->wrapper_ptr_pool[i]->release_enable ? 1 : 0);
    printf("\n"); fflush(stdout);
}
static EbFifo *ef(int f) { return (f >= 0 && f < nprod) ? R->empty_queue->process_fifo_ptr_array[f] : NULL; }
static EbFifo *ff(int f) { return (R->full_queue && f >= 0 && f < ncons) ? R->full_queue->process_fifo_ptr_array[f] : NULL; }

int main(void) {
    char cmd[32]; int a, b;
    while (scanf("%31s", cmd) == 1) {
        if (!strcmp(cmd, "NEW")) {
            if (scanf("%d %d %d", &nobj, &nprod, &ncons) != 3) return 2;
            if (R) { EB_DELETE(R); }
            EbErrorType e = svt_system_resource_ctor((R = calloc(1, sizeof *R)), nobj, nprod, ncons, dummy_creator, NULL, dummy_destroyer);
            printf("R %s", e == EB_ErrorNone ? "none" : "err"); dump(); continue;
        }
        if (!strcmp(cmd, "END")) break;
        if (!strcmp(cmd, "SHUT")) { svt_shutdown_process(R); printf("R none"); dump(); continue; }
        if (scanf("%d", &a) != 1) return 2;
        if (!strcmp(cmd, "RPE")) { if (ef(a)) { svt_release_process(ef(a)); printf("R none"); } else printf("R err"); }
        else if (!strcmp(cmd, "RPF")) { if (ff(a)) { svt_release_process(ff(a)); printf("R none"); } else printf("R err"); }
        else if (!strcmp(cmd, "SWE") || !strcmp(cmd, "SWF")) {
            EbFifo *f = cmd[2] == 'E' ? ef(a) : ff(a);
            if (!f) printf("R err"); else printf(sem_trywait((sem_t *)f->counting_semaphore) == 0 ? "R none" : "R blocked");
        } else if (!strcmp(cmd, "POPE")) {
            EbFifo *f = ef(a);
            if (!f || !f->first_ptr) printf("R err");
            else { EbObjectWrapper *w; svt_block_on_mutex(f->lockout_mutex); svt_fifo_pop_front(f, &w); w->live_count = 0; w->release_enable = EB_TRUE; svt_release_mutex(f->lockout_mutex); printf("R obj %d", widx(w)); }
        } else if (!strcmp(cmd, "POPF")) {
            EbFifo *f = ff(a);
            if (!f) printf("R err");
            else { svt_block_on_mutex(f->lockout_mutex);
                   if (f->quit_signal) printf("R shutdown");
                   else if (!f->first_ptr) printf("R err");
                   else { EbObjectWrapper *w; svt_fifo_pop_front(f, &w); printf("R obj %d", widx(w)); }
                   svt_release_mutex(f->lockout_mutex); }
        } else if (!strcmp(cmd, "PEEK")) {
            EbFifo *f = ff(a);
            if (!f) printf("R err");
            else { svt_block_on_mutex(f->lockout_mutex); EbBool e = f->quit_signal ? EB_TRUE : svt_fifo_peak_front(f); svt_release_mutex(f->lockout_mutex); printf("R bool %d", e ? 1 : 0); }
        } else if (!strcmp(cmd, "POST")) { if (a >= 0 && a < nobj && R->full_queue) { svt_post_full_object(R->wrapper_ptr_pool[a]); printf("R none"); } else printf("R err"); }
        else if (!strcmp(cmd, "REL")) { if (a >= 0 && a < nobj) { svt_release_object(R->wrapper_ptr_pool[a]); printf("R none"); } else printf("R err"); }
        else if (!strcmp(cmd, "INC")) { if (scanf("%d", &b) != 1) return 2; if (a >= 0 && a < nobj) { svt_object_inc_live_count(R->wrapper_ptr_pool[a], (uint32_t)b); printf("R none"); } else printf("R err"); }
        else if (!strcmp(cmd, "EN")) { if (a >= 0 && a < nobj) { svt_object_release_enable(R->wrapper_ptr_pool[a]); printf("R none"); } else printf("R err"); }
        else if (!strcmp(cmd, "DIS")) { if (a >= 0 && a < nobj) { svt_object_release_disable(R->wrapper_ptr_pool[a]); printf("R none"); } else printf("R err"); }
        /* whole API calls: the script only issues them when they cannot block */
        else if (!strcmp(cmd, "API_GE")) { EbObjectWrapper *w = NULL; svt_get_empty_object(ef(a), &w); printf("R obj %d", widx(w)); }
        else if (!strcmp(cmd, "API_GF")) { EbObjectWrapper *w = NULL; EbErrorType e = svt_get_full_object(ff(a), &w); if (e == EB_NoErrorFifoShutdown) printf("R shutdown"); else printf("R obj %d", widx(w)); }
        else if (!strcmp(cmd, "API_GFNB")) { EbObjectWrapper *w = NULL; EbErrorType e = svt_get_full_object_non_blocking(ff(a), &w); if (e == EB_NoErrorFifoShutdown) printf("R shutdown"); else if (w) printf("R obj %d", widx(w)); else printf("R none"); }
        else { printf("R badcmd"); }
        dump();
        fflush(stdout);
    }
    return 0;
}
