/* C24: calls the REAL enc_dec_segments_ctor / enc_dec_segments_init for each grid on stdin and dumps the arrays.
 * input line:  W H cols rows maxcols maxrows
 * output line: W H B R SBB ttl valid[ttl] xs[ttl] ys[ttl] lo[R] hi[R] dep[ttl] */
#include <stdio.h>
#include <stdlib.h>
#include "EbEncDecSegments.h"
int main(void) {
    unsigned W, H, c, r, mc, mr;
    while (scanf("%u %u %u %u %u %u", &W, &H, &c, &r, &mc, &mr) == 6) {
        EncDecSegments *s = NULL;
        s = calloc(1, sizeof *s);
        if (enc_dec_segments_ctor(s, mc, mr) != EB_ErrorNone) { printf("CTORFAIL\n"); continue; }
        enc_dec_segments_init(s, c, r, W, H);
        unsigned ttl = s->segment_ttl_count, R = s->segment_row_count;
        printf("%u %u %u %u %u %u", W, H, s->segment_band_count, R, s->sb_band_count, ttl);
        for (unsigned i = 0; i < ttl; i++) printf(" %u", s->valid_sb_count_array[i]);
        for (unsigned i = 0; i < ttl; i++) printf(" %u", s->x_start_array[i]);
        for (unsigned i = 0; i < ttl; i++) printf(" %u", s->y_start_array[i]);
        for (unsigned i = 0; i < R; i++) printf(" %u", s->row_array[i].starting_seg_index);
        for (unsigned i = 0; i < R; i++) printf(" %u", s->row_array[i].ending_seg_index);
        for (unsigned i = 0; i < ttl; i++) printf(" %u", s->dep_map.dependency_map[i]);
        printf("\n");
        s->dctor(s); free(s);
    }
    return 0;
}
