/* C21: the real input copy (row-wise memcpy of `stride` bytes, as copy_frame_buffer does), pad_input_picture and generate_padding
 * on small generated planes. stdin: one case per line "T L W Wal R H Hal B stride seed" (L == R, T == B: generate_padding takes
 * one width and one height); stdout: the case in the model driver's format followed by the resulting internal plane ("C" rows). */
#include <stdio.h>
#include <stdlib.h>
#include <string.h>
#include <stdint.h>
void generate_padding(uint8_t *src_pic, uint32_t src_stride, uint32_t original_src_width, uint32_t original_src_height, uint32_t padding_width, uint32_t padding_height);
void pad_input_picture(uint8_t *src_pic, uint32_t src_stride, uint32_t original_src_width, uint32_t original_src_height, uint32_t pad_right, uint32_t pad_bottom);
void setup_common_rtcd_internal(uint64_t flags);
static uint32_t rs;
static uint32_t rnd(void) { rs ^= rs << 13; rs ^= rs >> 17; rs ^= rs << 5; return rs; }
int main(void) {
    static char line[4096];
    setup_common_rtcd_internal(0x1ff);   /* svt_memcpy is a dispatched pointer */
    while (fgets(line, sizeof line, stdin)) {
        int T, L, W, Wal, R, H, Hal, B, stride; unsigned seed;
        if (sscanf(line, "%d %d %d %d %d %d %d %d %d %u", &T, &L, &W, &Wal, &R, &H, &Hal, &B, &stride, &seed) != 10) continue;
        rs = seed * 2654435761u + 1;
        int pitch = L + Wal + R, rows = T + Hal + B;
        uint8_t *in = malloc((size_t)pitch * rows + 64), *src = malloc((size_t)stride * H + 64);
        for (int i = 0; i < pitch * rows; i++) in[i] = (uint8_t)rnd();
        for (int i = 0; i < stride * H; i++) src[i] = (uint8_t)rnd();
        printf("P %d %d %d %d %d %d %d %d %d\n", T, L, W, Wal, R, H, Hal, B, stride);
        for (int r = 0; r < rows; r++) { printf("I"); for (int c = 0; c < pitch; c++) printf(" %d", in[r * pitch + c]); printf("\n"); }
        for (int r = 0; r < H; r++) { printf("S"); for (int c = 0; c < stride; c++) printf(" %d", src[r * stride + c]); printf("\n"); }
        for (int r = 0; r < H; r++) memcpy(in + (size_t)(T + r) * pitch + L, src + (size_t)r * stride, (size_t)stride);
        pad_input_picture(in + (size_t)T * pitch + L, (uint32_t)pitch, (uint32_t)W, (uint32_t)H, (uint32_t)(Wal - W), (uint32_t)(Hal - H));
        generate_padding(in, (uint32_t)pitch, (uint32_t)Wal, (uint32_t)Hal, (uint32_t)L, (uint32_t)T);
        for (int r = 0; r < rows; r++) { printf("C"); for (int c = 0; c < pitch; c++) printf(" %d", in[r * pitch + c]); printf("\n"); }
        printf("E\n");
        free(in); free(src);
    }
    return 0;
}
