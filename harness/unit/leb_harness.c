/* C02 correspondence harness for the LEB128 routines.
 * leb_sliced.inc (written by tools/checks/c02.py on every run) holds the text of svt_aom_uleb_size_in_bytes, svt_aom_uleb_encode and their
 * two constants sliced from Source/Lib/Encoder/Codec/EbEntropyCoding.c; the decoder side is Source/Lib/Decoder/Codec/EbDecBitstream.c itself,
 * compiled beside this file.  Output: one line per case, replayed through the extracted Coq definitions by obs/c02l.ml.
 *   S hi lo size                      svt_aom_uleb_size_in_bytes(value)
 *   E hi lo avail rc n b0 .. bn-1     svt_aom_uleb_encode(value, avail, buf, &n)     (n, bytes only when rc == 0; untouched guard bytes checked here)
 *   D skip nbytes b.. | hi lo len     dec_get_bits_leb128 after `skip` bytes were read with dec_get_bits(bs, 8)
 *   O hdr psize total b.. | rc lf b..   obu_mem_move + write_uleb_obu_size on a buffer holding header, payload and `total-hdr-psize` spare bytes
 */
#include <stdio.h>
#include <stdlib.h>
#include <string.h>
#include <stdint.h>
#include "EbDefinitions.h"
#include "EbDecBitstream.h"
#include "leb_sliced.inc"

static uint64_t rs;
static uint64_t rnd(void) { rs ^= rs << 13; rs ^= rs >> 7; rs ^= rs << 17; return rs; }

static void do_size(uint64_t v) { printf("S %u %u %zu\n", (unsigned)(v >> 32), (unsigned)v, svt_aom_uleb_size_in_bytes(v)); }

static int do_encode(uint64_t v, size_t avail, uint8_t *out, size_t *n) {
    uint8_t buf[24];
    memset(buf, 0xA5, sizeof buf);
    size_t  cs = 777;
    int32_t rc = svt_aom_uleb_encode(v, avail, buf + 4, &cs);
    printf("E %u %u %zu %d", (unsigned)(v >> 32), (unsigned)v, avail, rc);
    if (rc == 0) {
        printf(" %zu", cs);
        for (size_t i = 0; i < cs && i < 16; i++) printf(" %u", buf[4 + i]);
        /* nothing outside the coded bytes may be written */
        for (size_t i = 0; i < sizeof buf; i++)
            if ((i < 4 || i >= 4 + cs) && buf[i] != 0xA5) printf(" OVERWRITE@%zu", i);
        if (out) { memcpy(out, buf + 4, cs); *n = cs; }
    } else {
        if (cs != 777) printf(" SIZE_WRITTEN_ON_ERROR");
        for (size_t i = 0; i < sizeof buf; i++)
            if (buf[i] != 0xA5) { printf(" WRITE_ON_ERROR@%zu", i); break; }
        if (n) *n = 0;
    }
    printf("\n");
    return rc;
}

static void do_decode(const uint8_t *bytes, size_t nbytes, unsigned skip) {
    /* 4-byte aligned buffer, zero padded: the reader prefetches two words */
    static uint32_t store[32];
    uint8_t *b = (uint8_t *)store;
    memset(store, 0, sizeof store);
    for (unsigned i = 0; i < skip; i++) b[i] = (uint8_t)(0x80 | rnd());
    memcpy(b + skip, bytes, nbytes);
    Bitstrm bs;
    dec_bits_init(&bs, b, skip + nbytes + 32);
    for (unsigned i = 0; i < skip; i++) (void)dec_get_bits(&bs, 8);
    size_t value = 12345, length = 99;
    dec_get_bits_leb128(&bs, nbytes, &value, &length);
    printf("D %u %zu", skip, nbytes + 24);
    for (size_t i = 0; i < nbytes + 24; i++) printf(" %u", b[skip + i]);
    /* position of the reader afterwards, in bytes from the start of the field: next byte read must be the one after the field */
    uint32_t nxt = dec_get_bits(&bs, 8);
    printf(" | %u %u %zu %u\n", (unsigned)((uint64_t)value >> 32), (unsigned)value, length, nxt);
}

static void do_obu(unsigned hdr, unsigned psize, unsigned spare) {
    unsigned total = hdr + psize + spare;
    uint8_t *b     = malloc(total + 16);
    for (unsigned i = 0; i < total + 16; i++) b[i] = (uint8_t)rnd();
    printf("O %u %u %u", hdr, psize, total);
    for (unsigned i = 0; i < total; i++) printf(" %u", b[i]);
    size_t  lf = obu_mem_move(hdr, psize, b);
    int32_t rc = write_uleb_obu_size(hdr, psize, b);
    printf(" | %d %zu", rc == AOM_CODEC_OK ? 0 : -1, lf);
    for (unsigned i = 0; i < total; i++) printf(" %u", b[i]);
    printf("\n");
    free(b);
}

int main(int argc, char **argv) {
    rs           = 0x9E3779B97F4A7C15ull ^ (argc > 1 ? strtoull(argv[1], 0, 10) * 0x2545F4914F6CDD1Dull : 0);
    int     nrnd = argc > 2 ? atoi(argv[2]) : 2000;
    uint8_t enc[16];
    size_t  n;
    /* boundaries of every size class, of the accepted domain and of the type */
    for (int k = 0; k <= 9; k++) {
        uint64_t p = 1ull << (7 * k);
        uint64_t c[] = {p - 1, p, p + 1, p | (p >> 1), (p << 1) - 1};
        for (int j = 0; j < 5; j++) {
            uint64_t v = k == 0 && j == 0 ? 0 : c[j];
            do_size(v);
            for (size_t avail = 0; avail <= 11; avail++) {
                if (do_encode(v, avail, enc, &n) == 0 && (avail == 8 || avail == n)) {
                    uint8_t t[16];
                    memcpy(t, enc, n);
                    for (int q = 0; q < 4; q++) t[n + q] = (uint8_t)rnd();
                    do_decode(t, n + 4, (unsigned)(rnd() % 8));
                }
            }
        }
    }
    uint64_t ext[] = {0, 0xFFFFFFFFFFFFFFull, 0x100000000000000ull, 0x100000000000001ull, 0x7FFFFFFFFFFFFFFFull, 0x8000000000000000ull, 0xFFFFFFFFFFFFFFFFull, 0xFFFFFFFFull, 0x100000000ull};
    for (unsigned j = 0; j < sizeof ext / sizeof ext[0]; j++) {
        do_size(ext[j]);
        for (size_t avail = 0; avail <= 11; avail++) do_encode(ext[j], avail, 0, 0);
        do_encode(ext[j], (size_t)-1, 0, 0);
    }
    /* random values of every bit length, random space */
    for (int i = 0; i < nrnd; i++) {
        unsigned bits = (unsigned)(rnd() % 65);
        uint64_t v    = bits == 0 ? 0 : (rnd() >> (64 - bits));
        if (bits && (rnd() & 1)) v |= 1ull << (bits - 1);
        size_t avail = (rnd() & 3) ? (size_t)(rnd() % 12) : 16;
        do_size(v);
        if (do_encode(v, avail, enc, &n) == 0) {
            uint8_t t[16];
            memcpy(t, enc, n);
            for (int q = 0; q < 4; q++) t[n + q] = (uint8_t)rnd();
            do_decode(t, n + 4, (unsigned)(rnd() % 8));
        }
    }
    /* closing an OBU: payload sizes around the one/two/three-byte size fields, header of 1 or 2 bytes, spare room 4..7 */
    {
        unsigned ps[] = {0, 1, 2, 126, 127, 128, 129, 255, 256, 16382, 16383, 16384, 16385};
        for (unsigned j = 0; j < sizeof ps / sizeof ps[0]; j++)
            for (unsigned hdr = 1; hdr <= 2; hdr++) do_obu(hdr, ps[j], 4 + (unsigned)(rnd() % 4));
        for (int i = 0; i < nrnd / 40; i++) do_obu(1 + (unsigned)(rnd() & 1), (unsigned)(rnd() % ((rnd() & 3) ? 300 : 20000)), 4 + (unsigned)(rnd() % 4));
    }
    /* byte strings that are not encoder output: long continuation runs (8 bytes and more), over-long encodings, zero groups */
    for (int i = 0; i < nrnd; i++) {
        uint8_t  t[16];
        unsigned len = 1 + (unsigned)(rnd() % 12);
        unsigned mode = (unsigned)(rnd() % 4);
        for (unsigned q = 0; q < len; q++) {
            uint8_t x = (uint8_t)rnd();
            if (mode == 0) x |= 0x80;                       /* never terminates within len */
            else if (mode == 1) x = (q + 1 < len) ? (x | 0x80) : (x & 0x7f);
            else if (mode == 2) x = (q + 1 < len) ? 0x80 : 0x00; /* over-long zero */
            t[q] = x;
        }
        do_decode(t, len, (unsigned)(rnd() % 8));
    }
    return 0;
}
