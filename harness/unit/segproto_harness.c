/* C24: the REAL assign_enc_dec_segments (its text is cut out of EbEncDecProcess.c into seg_assign.inc by tools/checks/c24.py on every
 * run) driven one call at a time on segment arrays built by the real enc_dec_segments_ctor / _init.
 * stdin:  G W H cols rows maxcols maxrows   new grid  -> "G ttl R B lo.. hi.."
 *         M                                 a task of type MDC_INPUT            -> result line
 *         E row                             a task of type ENCDEC_INPUT (feedback for a row)
 *         C seg                             the worker that ran segment seg calls again (CONTINUE)
 * result line: "R <continue> <segment or -1> F <feedback row or -1> D dep[0..ttl) U cur[0..R)" */
#include <stdio.h>
#include <stdlib.h>
#include <string.h>
#include "EbEncDecSegments.h"
#include "EbEncDecTasks.h"
#include "EbSystemResourceManager.h"

static EncDecTasks   fb_task;
static EbObjectWrapper fb_wrapper;
static int fb_row = -1;
/* the two system-resource calls the function makes for the feedback task */
EbErrorType svt_get_empty_object(EbFifo *f, EbObjectWrapper **w) { (void)f; memset(&fb_task, 0, sizeof fb_task); fb_wrapper.object_ptr = &fb_task; *w = &fb_wrapper; return EB_ErrorNone; }
EbErrorType svt_post_full_object(EbObjectWrapper *w) { fb_row = ((EncDecTasks *)w->object_ptr)->enc_dec_segment_row; return EB_ErrorNone; }

#include "seg_assign.inc"

static void result(EncDecSegments *s, EbBool cont, int seg) {
    printf("R %d %d F %d D", cont ? 1 : 0, cont ? seg : -1, fb_row);
    for (unsigned i = 0; i < s->segment_ttl_count; i++) printf(" %d", (int)s->dep_map.dependency_map[i]);
    printf(" U");
    for (unsigned i = 0; i < s->segment_row_count; i++) printf(" %u", (unsigned)s->row_array[i].current_seg_index);
    printf("\n"); fflush(stdout);
}

int main(void) {
    char line[256]; EncDecSegments *s = NULL;
    while (fgets(line, sizeof line, stdin)) {
        unsigned W, H, c, r, mc, mr, a;
        if (sscanf(line, "G %u %u %u %u %u %u", &W, &H, &c, &r, &mc, &mr) == 6) {
            if (s) { s->dctor(s); free(s); }
            s = calloc(1, sizeof *s);
            if (enc_dec_segments_ctor(s, mc, mr) != EB_ErrorNone) { printf("CTORFAIL\n"); fflush(stdout); free(s); s = NULL; continue; }
            enc_dec_segments_init(s, c, r, W, H);
            printf("G %u %u %u", s->segment_ttl_count, s->segment_row_count, s->segment_band_count);
            for (unsigned i = 0; i < s->segment_row_count; i++) printf(" %u", s->row_array[i].starting_seg_index);
            for (unsigned i = 0; i < s->segment_row_count; i++) printf(" %u", s->row_array[i].ending_seg_index);
            printf("\n"); fflush(stdout);
        } else if (s && line[0] == 'M') {
            EncDecTasks t; memset(&t, 0, sizeof t); t.input_type = ENCDEC_TASKS_MDC_INPUT; uint16_t seg = 0xffff; fb_row = -1;
            EbBool k = assign_enc_dec_segments(s, &seg, &t, NULL); result(s, k, seg);
        } else if (s && sscanf(line, "E %u", &a) == 1) {
            EncDecTasks t; memset(&t, 0, sizeof t); t.input_type = ENCDEC_TASKS_ENCDEC_INPUT; t.enc_dec_segment_row = (int16_t)a; uint16_t seg = 0xffff; fb_row = -1;
            EbBool k = assign_enc_dec_segments(s, &seg, &t, NULL); result(s, k, seg);
        } else if (s && sscanf(line, "C %u", &a) == 1) {
            EncDecTasks t; memset(&t, 0, sizeof t); t.input_type = ENCDEC_TASKS_CONTINUE; uint16_t seg = (uint16_t)a; fb_row = -1;
            EbBool k = assign_enc_dec_segments(s, &seg, &t, NULL); result(s, k, seg);
        } else { printf("?\n"); fflush(stdout); }
    }
    return 0;
}
