/* C10: feeds byte strings to a fresh single-threaded decoder, one forked child per case, under a watchdog.
 * usage: dec_fuzz <cases.bin> <errdir> [only_case]
 * cases.bin: repeated { u32 id; u32 annexb; u32 nchunks; { u32 len; bytes }* }
 * prints "CASE <id> <ok|exit N|signal N|timeout> frames_ok=<n> pictures=<n>" per case. */
#include "../no_rt.h"   /* ordinary threads instead of SCHED_FIFO/99 (see the header) */
#include <stdio.h>
#include <stdlib.h>
#include <string.h>
#include <stdint.h>
#include <unistd.h>
#include <signal.h>
#include <fcntl.h>
#include <sys/wait.h>
#include "EbSvtAv1Dec.h"

static size_t pad = 16;
static int run_case(uint32_t annexb, uint32_t n, uint8_t **chunk, uint32_t *len, int *frames_ok, int *pictures) {
    EbComponentType *dec = NULL; EbSvtAv1DecConfiguration dc; memset(&dc, 0, sizeof dc);
    if (svt_av1_dec_init_handle(&dec, NULL, &dc) != EB_ErrorNone) return 10;
    dc.max_picture_width = 0; dc.max_picture_height = 0; dc.max_bit_depth = EB_EIGHT_BIT; dc.max_color_format = EB_YUV420; dc.threads = 1; dc.num_p_frames = 1;
    dc.skip_film_grain = 0; dc.eight_bit_output = 0; dc.is_16bit_pipeline = 0;
    if (svt_av1_dec_set_parameter(dec, &dc) != EB_ErrorNone) return 11;
    if (svt_av1_dec_init(dec) != EB_ErrorNone) return 12;
    EbBufferHeaderType rb; memset(&rb, 0, sizeof rb); EbSvtIOFormat io; memset(&io, 0, sizeof io); rb.p_buffer = (uint8_t *)&io;
    for (uint32_t i = 0; i < n; i++) {
        /* heap copy with DEC_FUZZ_PAD bytes of zero slack after the data (0 = exact size: any read past the end is caught) */
        uint8_t *d = calloc(1, (len[i] ? len[i] : 1) + pad); memcpy(d, chunk[i], len[i]);
        EbErrorType e = svt_av1_dec_frame(dec, d, len[i], annexb);
        free(d);
        if (e != EB_ErrorNone) continue;
        (*frames_ok)++;
        EbAV1StreamInfo si; EbAV1FrameInfo fi; memset(&si, 0, sizeof si); memset(&fi, 0, sizeof fi);
        /* the library (re)allocates the planes of the output image itself when the size or format changes */
        if (svt_av1_dec_get_picture(dec, &rb, &si, &fi) != EB_DecNoOutputPicture) (*pictures)++;
    }
    free(io.luma); free(io.cb); free(io.cr);
    if (svt_av1_dec_deinit(dec) != EB_ErrorNone) return 13;
    if (svt_av1_dec_deinit_handle(dec) != EB_ErrorNone) return 14;
    return 0;
}

int main(int argc, char **argv) {
    if (argc < 3) return 2;
    FILE *f = fopen(argv[1], "rb"); if (!f) return 2;
    long only = argc > 3 ? atol(argv[3]) : -1;
    if (getenv("DEC_FUZZ_PAD")) pad = (size_t)atol(getenv("DEC_FUZZ_PAD"));
    uint32_t hdr[3];
    while (fread(hdr, 4, 3, f) == 3) {
        uint32_t id = hdr[0], annexb = hdr[1], n = hdr[2];
        uint8_t **chunk = calloc(n + 1, sizeof *chunk); uint32_t *len = calloc(n + 1, sizeof *len);
        for (uint32_t i = 0; i < n; i++) { if (fread(&len[i], 4, 1, f) != 1) return 3; chunk[i] = malloc(len[i] ? len[i] : 1); if (len[i] && fread(chunk[i], 1, len[i], f) != len[i]) return 3; }
        if (only < 0 || (uint32_t)only == id) {
            int pfd[2]; if (pipe(pfd)) return 4;
            fflush(stdout);
            pid_t p = fork();
            if (p == 0) {
                char fn[600]; snprintf(fn, sizeof fn, "%s/%u.err", argv[2], id);
                int fd = open(fn, O_WRONLY | O_CREAT | O_TRUNC, 0644); int nul = open("/dev/null", O_WRONLY);
                dup2(fd, 2); dup2(nul, 1); close(pfd[0]);
                alarm(40);
                int fo = 0, pi = 0; int rc = run_case(annexb, n, chunk, len, &fo, &pi);
                int res[2] = {fo, pi}; if (write(pfd[1], res, sizeof res) < 0) _exit(99);
                _exit(rc);
            }
            close(pfd[1]);
            int st = 0; waitpid(p, &st, 0);
            int res[2] = {-1, -1}; if (read(pfd[0], res, sizeof res) < 0) res[0] = -1;
            close(pfd[0]);
            if (WIFSIGNALED(st)) printf("CASE %u %s %d frames_ok=%d pictures=%d\n", id, WTERMSIG(st) == SIGALRM ? "timeout" : "signal", WTERMSIG(st), res[0], res[1]);
            else if (WEXITSTATUS(st)) printf("CASE %u exit %d frames_ok=%d pictures=%d\n", id, WEXITSTATUS(st), res[0], res[1]);
            else printf("CASE %u ok 0 frames_ok=%d pictures=%d\n", id, res[0], res[1]);
        }
        for (uint32_t i = 0; i < n; i++) free(chunk[i]);
        free(chunk); free(len);
    }
    return 0;
}
