/* C25 correspondence harness: drives the REAL range writer (EbBitstreamUnit.c, aom_write_symbol / update_cdf)
 * and the REAL reader (EbDecBitstreamUnit.h, aom_read_symbol_ / dec_update_cdf) on operation lists read from stdin.
 * Case line: adapt nctx (n c_0..c_{n-1} counter)*nctx nops (kind a b)*nops ; kind 0 symbol(ctx,sym) ; 1 bool(f,val)
 * Output:    T tells | B bytes | D decoded | W writer tables | R reader tables            */
#include <stdio.h>
#include <stdlib.h>
#include <string.h>
#include "EbBitstreamUnit.h"
#include "EbDecBitstreamUnit.h"
#include "EbDecBitReader.h"

void (*svt_memcpy)(void *, const void *, size_t) = 0;
void svt_memcpy_c(void *d, const void *s, size_t n) { memcpy(d, s, n); }

#define MAXCTX 64
#define MAXOPS 400000
static uint16_t wtab[MAXCTX][18], rtab[MAXCTX][18];
static int      nsy[MAXCTX];
static int      kind[MAXOPS], oa[MAXOPS], ob[MAXOPS];

int main(void) {
    static char line[1 << 23];
    while (fgets(line, sizeof line, stdin)) {
        char *p = line;
        long  adapt = strtol(p, &p, 10), nctx = strtol(p, &p, 10);
        for (int c = 0; c < nctx; c++) {
            nsy[c] = (int)strtol(p, &p, 10);
            for (int k = 0; k <= nsy[c]; k++) wtab[c][k] = rtab[c][k] = (uint16_t)strtol(p, &p, 10);
        }
        long nops = strtol(p, &p, 10);
        for (long i = 0; i < nops; i++) { kind[i] = (int)strtol(p, &p, 10); oa[i] = (int)strtol(p, &p, 10); ob[i] = (int)strtol(p, &p, 10); }
        AomWriter w; memset(&w, 0, sizeof w);
        svt_od_ec_enc_init(&w.ec, 64);
        w.allow_update_cdf = (uint8_t)adapt;
        printf("T");
        for (long i = 0; i < nops; i++) {
            if (kind[i] == 0) aom_write_symbol(&w, ob[i], wtab[oa[i]], nsy[oa[i]]);
            else svt_od_ec_encode_bool_q15(&w.ec, ob[i], (unsigned)oa[i]);
            printf(" %d", svt_od_ec_enc_tell(&w.ec));
        }
        uint32_t nb = 0; uint8_t *out = svt_od_ec_enc_done(&w.ec, &nb);
        printf(" | B");
        for (uint32_t k = 0; k < nb; k++) printf(" %u", out[k]);
        /* exact-size copy so that an over-read is visible to a sanitizer build */
        uint8_t *copy = (uint8_t *)malloc(nb ? nb : 1); memcpy(copy, out, nb);
        SvtReader r; memset(&r, 0, sizeof r);
        svt_aom_daala_reader_init(&r, copy, (int)nb);
        r.allow_update_cdf = (uint8_t)adapt;
        printf(" | D");
        for (long i = 0; i < nops; i++) {
            int s;
            if (kind[i] == 0) s = aom_read_symbol_(&r, rtab[oa[i]], nsy[oa[i]]);
            else s = od_ec_decode_bool_q15(&r.ec, (unsigned)oa[i]);
            printf(" %d", s);
        }
        printf(" | W");
        for (int c = 0; c < nctx; c++) for (int k = 0; k <= nsy[c]; k++) printf(" %u", wtab[c][k]);
        printf(" | R");
        for (int c = 0; c < nctx; c++) for (int k = 0; k <= nsy[c]; k++) printf(" %u", rtab[c][k]);
        printf("\n");
        free(copy);
        svt_od_ec_enc_clear(&w.ec);
    }
    return 0;
}
