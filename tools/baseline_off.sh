#!/bin/bash
# Runs the repository's pinned baseline (the 42 stable API tests of /root/.vp/BASELINE.json) with the hook guard OFF:
# plain configure of /repo/_build (no -DSVT_AV1_VERIF anywhere), the API test binary only (the default target also wants to
# git-clone libaom for the end-to-end tests, which cannot work offline), then every stable test must be reported OK.
set -u
cmake -G Ninja -S /repo -B /repo/_build -DCMAKE_BUILD_TYPE=RelWithDebInfo -DBUILD_TESTING=ON > /repo/_build/verif_configure.log 2>&1 || { echo "configure failed"; exit 2; }
ninja -C /repo/_build SvtAv1ApiTests > /repo/_build/verif_build.log 2>&1 || { echo "build failed"; tail -5 /repo/_build/verif_build.log; exit 2; }
if grep -rq "SVT_AV1_VERIF" /repo/_build/CMakeCache.txt; then echo "guard is ON in this build"; exit 2; fi
LD_LIBRARY_PATH=/repo/Bin/RelWithDebInfo /repo/Bin/RelWithDebInfo/SvtAv1ApiTests --gtest_filter='EncParam*:EncApi*' > /repo/_build/verif_baseline.log 2>&1
python3 - <<'PY'
import json, re, sys
names = json.load(open('/root/.vp/BASELINE.json'))['stable_pass']
log = open('/repo/_build/verif_baseline.log', errors='replace').read()
ok = set(m.group(1).replace('.', '::') for m in re.finditer(r'\[\s+OK \] ([\w.]+)', log))
missing = [n for n in names if n not in ok]
print('%d of %d pinned tests passed with the guard off' % (len(names) - len(missing), len(names)))
for n in missing[:10]:
    print('NOT PASSED:', n)
sys.exit(1 if missing else 0)
PY
