#!/bin/bash
# Runs the repository's pinned baseline (42 stable tests) with the hook guard OFF:
# plain configure of /repo/_build (no -DSVT_AV1_VERIF anywhere), then ctest.
set -e
cmake -G Ninja -S /repo -B /repo/_build -DCMAKE_BUILD_TYPE=RelWithDebInfo -DBUILD_TESTING=ON >/dev/null
cmake --build /repo/_build -j16 >/dev/null
ctest --test-dir /repo/_build -j8 --timeout 900 --output-junit /repo/_build/verif_baseline.junit.xml
