"""C24: EncDec segment wavefront. Verified checker grid_ok_b (Coq, extracted) applied to the arrays the real
enc_dec_segments_init produces for every grid of the domain; protocol theorems hold for every accepted grid."""
import os, sys, re, json, random
from concurrent.futures import ThreadPoolExecutor
from lib.core import *
from lib import build, obs

LEVEL = 'proof'
SRC = ['Source/Lib/Encoder/Codec/EbEncDecSegments.c', 'Source/Lib/Common/Codec/EbMalloc.c', 'Source/Lib/Common/Codec/EbLog.c', 'Source/Lib/Common/Codec/EbThreads.c']


def domain(tier, rng):
    """(W, H, cols, rows, maxcols, maxrows) the encoder can reach (64x64 and 128x128 superblocks, the three
    logical-processor classes of load_default_buffer_configuration_settings, uniform tile rows) + arbitrary counts."""
    out = set()
    for (maxW, maxH) in ((65, 34), (33, 17)):
        for W in range(1, maxW + 1):
            for H in range(1, maxH + 1):
                combos = {(1, 1), (W, H), (max(1, W // 2), max(1, H // 2))}
                if tier == 'thorough':
                    combos |= {(max(1, W - 1), H), (W, max(1, H - 1)), (max(1, W - 1), max(1, H - 1)), (max(1, (W - 1) // 2), max(1, (H - 1) // 2))}
                for (c, r) in combos:
                    out.add((W, H, c, r, c, r))
                    # tile groups: uniform tile rows -> group heights; counts limited by MIN(rows, H / groups)
                    for tg in ((2, 4, 8) if tier == 'thorough' or (W * 7 + H) % 5 == 0 else ()):
                        if H >= tg:
                            for hg in {H // tg, -(-H // tg), H - (tg - 1) * (-(-H // tg))}:
                                if hg >= 1:
                                    out.add((W, hg, c, min(r, max(1, H // tg)), c, r))
    n_rand = 2500 if tier == 'quick' else 60000
    for _ in range(n_rand):
        W = rng.randrange(1, 66); H = rng.randrange(1, 35)
        mc = rng.randrange(1, 61); mr = rng.randrange(1, 38)
        c = rng.randrange(1, mc + 1); r = rng.randrange(1, mr + 1)
        out.add((W, H, c, r, mc, mr))
    if tier == 'thorough':
        for W in range(1, 41):
            for H in range(1, 25):
                for c in range(1, W + 1):
                    for r in range(1, H + 1):
                        out.add((W, H, c, r, c, r))
    return sorted(out)


def parse_grid(line):
    v = [int(x) for x in line.split()]
    W, H, B, R, SBB, ttl = v[:6]; p = 6
    def take(n):
        nonlocal p
        r = v[p:p + n]; p += n; return r
    return dict(W=W, H=H, B=B, R=R, sbband=SBB, ttl=ttl, valid=take(ttl), xs=take(ttl), ys=take(ttl), start=take(R), end=take(R), dep=take(ttl))


def simulate(g, rng):
    """Search oracle on the C-produced arrays: walk coverage + a run of the assignment protocol (random worker order).
    Returns None if everything is fine, else a description of the concrete failure."""
    W, H, B, R = g['W'], g['H'], g['B'], g['R']
    seen = {}
    for s in range(g['ttl']):
        if g['valid'][s]:
            r = s // B; b = s - r * B
            bs = (g['sbband'] * (b + 1) + B - 1) // B
            x0 = g['xs'][s]; y = g['ys'][s]; cnt = g['valid'][s]; n = 0; guard = 0
            while n < cnt:
                x = x0
                while x < W and x + y < bs and n < cnt:
                    if (x, y) in seen:
                        return 'superblock (%d,%d) processed twice (segments %d and %d)' % (x, y, seen[(x, y)], s)
                    if y >= H:
                        return 'walk of segment %d leaves the picture at (%d,%d)' % (s, x, y)
                    seen[(x, y)] = s; n += 1; x += 1
                x0 = x0 - 1 if x0 > 0 else 0
                y += 1; guard += 1
                if guard > 4 * (W + H) + 8:
                    return 'walk of segment %d does not terminate' % s
    if len(seen) != W * H:
        miss = [(x, y) for y in range(H) for x in range(W) if (x, y) not in seen][:3]
        return 'superblocks never processed: %s' % miss
    dep = list(g['dep']) + [0] * (B + 2); cur = list(g['start'])
    order = []; work = []
    s = cur[0]; cur[0] += 1; order.append(s); work.append(s); pend = []
    finished = set()
    steps = 0
    while work or pend:
        steps += 1
        if steps > 10 * g['ttl'] + 100:
            return 'protocol does not terminate'
        if pend and (not work or rng.random() < 0.5):
            r = pend.pop(rng.randrange(len(pend)))
            n = cur[r]; cur[r] += 1; order.append(n); work.append(n); continue
        s = work.pop(rng.randrange(len(work)))
        # dependency order at start: checked when finishing (all needed neighbours must be finished or same segment)
        finished.add(s)
        r = s // B; selfa = False
        if s < g['end'][r]:
            if s + 1 < len(dep):
                dep[s + 1] -= 1
                if dep[s + 1] == 0:
                    n = cur[r]; cur[r] += 1; order.append(n); work.append(n); selfa = True
        if r < R - 1 and s + B >= g['start'][r + 1]:
            dep[s + B] -= 1
            if dep[s + B] == 0:
                if selfa:
                    pend.append(r + 1)
                else:
                    n = cur[r + 1]; cur[r + 1] += 1; order.append(n); work.append(n)
    need = sorted(s for s in range(g['ttl']) if g['valid'][s])
    if sorted(order) != need:
        never = sorted(set(need) - set(order))
        if never:
            lost = [p for p, s in seen.items() if s in never][:3]
            return 'picture never completes: segments %s are never started, superblocks %s never coded' % (never[:5], lost)
        return 'segments started that hold no superblock or started twice: %s' % sorted(set(order) - set(need))[:5]
    pos = {s: i for i, s in enumerate(order)}
    # start order respects dependencies in every sequentialisation considered: left / up / up-right / up-left neighbours
    for (x, y), s in seen.items():
        for (nx, ny) in ((x - 1, y), (x, y - 1), (x + 1, y - 1), (x - 1, y - 1)):
            if 0 <= nx < W and 0 <= ny < H:
                t = seen[(nx, ny)]
                if t != s and pos[t] > pos[s]:
                    return 'segment %d started before segment %d that holds its neighbour (%d,%d)' % (s, t, nx, ny)
    return None


def regenerate():
    sys.path.insert(0, os.path.join(VERIF, 'translators'))
    import tr_locks
    txt, m = tr_locks.generate_seg_guard()
    write_if_changed(os.path.join(GEN, 'SegGuardGen.v'), txt)
    return m


def cut_assign_function(dst):
    """The text of assign_enc_dec_segments as it stands in /repo, written to dst (included by harness/unit/segproto_harness.c)."""
    src = open(os.path.join(REPO, 'Source/Lib/Encoder/Codec/EbEncDecProcess.c'), errors='replace').read()
    i = src.index('EbBool assign_enc_dec_segments(')
    j = src.index('\n}\n', i) + 3
    write_if_changed(dst, src[i:j])
    return src[i:j]


class Lock2:
    """the real function and the extracted protocol model, driven with the same lines"""
    def __init__(self, hbin, mbin):
        import subprocess
        self.a = subprocess.Popen([hbin], stdin=subprocess.PIPE, stdout=subprocess.PIPE, stderr=subprocess.DEVNULL, text=True, bufsize=1)
        self.b = subprocess.Popen([mbin], stdin=subprocess.PIPE, stdout=subprocess.PIPE, stderr=subprocess.DEVNULL, text=True, bufsize=1)

    def real(self, line):
        self.a.stdin.write(line + '\n'); self.a.stdin.flush(); return self.a.stdout.readline().strip()

    def model(self, line):
        self.b.stdin.write(line + '\n'); self.b.stdin.flush(); return self.b.stdout.readline().strip()

    def close(self):
        for p in (self.a, self.b):
            try:
                p.stdin.close(); p.kill(); p.wait()
            except Exception:
                pass


def parse_res(l, inrange):
    m = re.match(r'R (\d) (-?\d+) F (-?\d+) D(.*) U(.*)$', l)
    if not m:
        return None
    dep = [int(x) for x in m.group(4).split()]
    return (int(m.group(1)), int(m.group(2)), int(m.group(3)), tuple(d for i, d in enumerate(dep) if i in inrange), tuple(int(x) for x in m.group(5).split()))


def protocol_run(lk, grid, rng, workers, with_model=True):
    """One picture: seeded scheduler over `workers` workers. Returns (violation or None, model/real difference or None, script)."""
    script = ['G %d %d %d %d %d %d' % grid]
    g = lk.real(script[0])
    if not g.startswith('G '):
        return None, None, script          # constructor refused the grid
    v = [int(x) for x in g.split()[1:]]
    ttl, R, B = v[0], v[1], v[2]; lo = v[3:3 + R]; hi = v[3 + R:3 + 2 * R]
    if with_model:
        lk.model(g)
    inrange = set(s_ for r in range(R) for s_ in range(lo[r], hi[r] + 1))
    running = []; pend = []; started = []; done = set()
    def both(line):
        script.append(line)
        a = lk.real(line); b = lk.model(line) if with_model else a
        pa = parse_res(a, inrange); pb = parse_res(b, inrange)
        return pa, (None if pa == pb and pa is not None else dict(step=len(script) - 1, cmd=line, real=a[:300], model=b[:300]))
    r, d = both('M')
    if d:
        return None, d, script
    running.append(r[1]); started.append(r[1])
    for _ in range(4 * ttl + 20):
        choices = [('C', s_) for s_ in running] + ([('E', x) for x in pend] if len(running) < workers else [])
        if not choices:
            break
        k, x = rng.choice(choices)
        r, d = both('%s %d' % (k, x))
        if d:
            return None, d, script
        if k == 'C':
            running.remove(x); done.add(x)
        else:
            pend.remove(x)
        if r[0]:
            if r[1] in started:
                return dict(kind='segment_started_twice', what='segment %d is handed out a second time' % r[1]), None, script
            running.append(r[1]); started.append(r[1])
        if r[2] >= 0:
            pend.append(r[2])
    if running or pend or set(started) != inrange:
        return dict(kind='picture_incomplete', what='no call can make progress but segments %s were never started (running %s, pending rows %s)' % (sorted(inrange - set(started))[:8], running, pend)), None, script
    return None, None, script


def run(ck):
    ck.trust('Coq 8.16.1 kernel (coqc); no native_compute', 'extraction (ExtrOcamlBasic only; nat stays unary) + obs/c24.ml',
             'harness/unit/seg_harness.c calls the real enc_dec_segments_ctor/init; the superblock walk is transcribed in SegGrid.v from EbEncDecProcess.c (compared on the C arrays); the assignment protocol of SegProto.v runs call by call against the current text of assign_enc_dec_segments (harness/unit/segproto_harness.c, obs/c24p.ml; ExtrOcamlNatInt)', 'gcc')
    try:
        gm = regenerate()
        ck.obligation('translate(critical sections of assign_enc_dec_segments -> gen/SegGuardGen.v)', gm['keyed'] >= 4 and gm['plain'] >= 2, '%d row-cursor writes, %d dependency-map writes found (expected at least 4 / 2)' % (gm['keyed'], gm['plain']))
    except Exception as e:
        ck.obligation('translate(critical sections of assign_enc_dec_segments -> gen/SegGuardGen.v)', False, repr(e)[:400])
    ck.prove('Properties_C24', extra_modules=['Proofs_C24', 'SegGrid', 'SegProto', 'GuardFlow'], gen_modules=['SegGuardGen'])
    hd = os.path.join(CACHE, 'h', 'c24'); os.makedirs(hd, exist_ok=True)
    hbin = os.path.join(hd, 'seg_h')
    ok, log = build.cc(hbin, [os.path.join(VERIF, 'harness/unit/seg_harness.c')] + [os.path.join(REPO, s) for s in SRC], flags='-DNDEBUG -w')
    ck.obligation('build harness against /repo EbEncDecSegments.c', ok, log[-500:])
    okb, mbin, blog = obs.build_obs('C24')
    ck.obligation('extract + build verified checker', okb, blog[-300:])
    if not (ok and okb):
        ck.violation('tie_broken', 'C24 harness or checker does not build: ' + (log + blog)[-300:], dict(log=(log + blog)[-2000:]), False)
        return
    # ---- the assignment protocol itself: real assign_enc_dec_segments against the extracted SegProto step functions, call by call
    pbin = os.path.join(hd, 'segproto_h'); okp = False; okq = False; qbin = None
    try:
        cut_assign_function(os.path.join(hd, 'seg_assign.inc'))
        okp, plog = build.cc(pbin, [os.path.join(VERIF, 'harness/unit/segproto_harness.c')] + [os.path.join(REPO, s) for s in SRC], flags='-DNDEBUG -w -I%s -I%s/Source/Lib/Encoder/Globals' % (hd, REPO))
    except Exception as e:
        plog = repr(e)
    ck.obligation('build protocol harness around the current text of assign_enc_dec_segments', okp, plog[-400:])
    okq, qbin, qlog = obs.build_obs('C24P')
    ck.obligation('extract + build protocol model driver (SegProto.init / right_step / down_step / start)', okq, qlog[-300:])
    if okp and okq:
        lk = Lock2(pbin, qbin)
        prng = random.Random(ck.seed * 104729 + 5)
        grids = [(W, H, c, r, max(c, 1), max(r, 1)) for W in (1, 2, 3, 5, 8, 13, 20, 33, 60) for H in (1, 2, 3, 5, 9, 17, 34) for (c, r) in ((1, 1), (2, 2), (3, 2), (6, 4), (8, 6), (10, 6))]
        if ck.tier == 'thorough':
            grids += [(prng.randrange(1, 66), prng.randrange(1, 35), prng.randrange(1, 11), prng.randrange(1, 7), 10, 6) for _ in range(3000)]
        npr = 0; pdiff = None; pviol = None; nsteps = 0
        for g in grids:
            for workers in (1, 2, prng.choice([3, 4, 8, 16])):
                v, d, script = protocol_run(lk, g, prng, workers)
                npr += 1; nsteps += len(script)
                if d and pdiff is None:
                    pdiff = dict(grid=g, workers=workers, script=script, difference=d)
                if d and pviol is None:
                    # the model no longer follows the code: look for a failing schedule on the real function alone
                    lk.close(); lk = Lock2(pbin, qbin)
                    for k_ in range(6):
                        v2, _, script2 = protocol_run(lk, g, random.Random(ck.seed * 31 + k_), workers, with_model=False)
                        if v2:
                            pviol = dict(grid=g, workers=workers, script=script2, violation=v2); break
                if v and pviol is None:
                    pviol = dict(grid=g, workers=workers, script=script, violation=v)
                if d or v:
                    lk.close(); lk = Lock2(pbin, qbin)
        lk.close()
        ck.evals += npr
        ck.cov['protocol_runs'] = npr; ck.cov['protocol_calls'] = nsteps
        if pviol:
            ck.violation('protocol_' + pviol['violation']['kind'], 'the real assign_enc_dec_segments violates C24 on grid W=%d H=%d cols=%d rows=%d with %d workers: %s' % (pviol['grid'][0], pviol['grid'][1], pviol['grid'][2], pviol['grid'][3], pviol['workers'], pviol['violation']['what']), pviol, True)
        ck.obligation('correspondence(protocol model = real assign_enc_dec_segments: result, feedback row, dependency map, row cursors after every call; %d pictures, %d calls)' % (npr, nsteps), pdiff is None,
                      '' if pdiff is None else 'first difference: grid %s, %d workers, step %d %s: real "%s" model "%s"' % (pdiff['grid'], pdiff['workers'], pdiff['difference']['step'], pdiff['difference']['cmd'], pdiff['difference']['real'][:120], pdiff['difference']['model'][:120]))
    dom = domain(ck.tier, ck.rng)
    nsh = NCPU
    shards = [dom[i::nsh] for i in range(nsh)]
    def work(sh_):
        inp = ''.join('%d %d %d %d %d %d\n' % t for t in sh_)
        rc, out = sh(hbin, input=inp, timeout=3000)
        lines = [l for l in out.split('\n') if l.strip()]
        rc2, out2 = sh(mbin, input='\n'.join(lines) + '\n', timeout=3000)
        return sh_, lines, [l for l in out2.split('\n') if l.strip()], rc, rc2
    with ThreadPoolExecutor(nsh) as ex:
        results = list(ex.map(work, shards))
    nfail = 0; nok = 0; found = []; unfound = []
    kf_d1 = 0
    for sh_, glines, verdicts, rc, rc2 in results:
        if rc or rc2 or len(glines) != len(sh_) or len(verdicts) != len(sh_):
            ck.obligation('harness/checker ran on a shard', False, 'rc=%d/%d lines=%d/%d/%d' % (rc, rc2, len(sh_), len(glines), len(verdicts)))
            continue
        for t, gl, v in zip(sh_, glines, verdicts):
            ck.case(t, nontrivial=(t[2] > 1 or t[3] > 1))
            if v == 'OK':
                nok += 1; continue
            nfail += 1
            g = parse_grid(gl)
            why = None
            for k in range(6):
                why = simulate(g, random.Random(ck.seed * 7919 + k))
                if why:
                    break
            (found if why else unfound).append((t, v, why))
    ck.cov['exhaustive'] = True
    ck.cov['traces_validated_against_impl'] = nok + nfail
    ck.cov['input_distribution'] = dict(grids=len(dom), accepted=nok, rejected=nfail, widths='1..65', heights='1..34')
    ck.cov['rule'] = 'all tile-group sizes 1..65 x 1..34 (and 1..33 x 1..17) with the segment counts the encoder derives (3 lp classes, tile-row groups) + seeded arbitrary counts; non-trivial = more than one segment column or row'
    ck.sample(dict(grid=dom[len(dom) // 2], verdict='OK'))
    seen_sig = set()
    for t, v, why in found:
        W, H, c, r, mc, mr = t
        sig = 'one_sb_wide_multirow' if (W == 1 and min(r, H, mr) >= 2) else 'grid_%s' % re.sub(r'[^a-z]+', '_', v.lower())
        if sig in seen_sig and sig != 'one_sb_wide_multirow':
            continue
        if sig in seen_sig:
            continue
        seen_sig.add(sig)
        ck.violation(sig, 'segment grid W=%d H=%d cols=%d rows=%d (max %dx%d) from the real enc_dec_segments_init violates C24: %s [checker: %s; %d grids fail this way]' % (
            W, H, c, r, mc, mr, why, v, sum(1 for x in found if True)), dict(grid=dict(W=W, H=H, cols=c, rows=r, maxcols=mc, maxrows=mr), checker=v, failure=why,
            how_to_replay='echo "%d %d %d %d %d %d" | .cache/h/c24/seg_h | .cache/obs/c24/c24' % t), True)
    if unfound and not found:
        t, v, _ = unfound[0]
        ck.violation('checker_rejects', 'grid_ok_b rejects %d grids produced by the real init (first: %s %s) but the protocol/walk simulation on those arrays shows no failure' % (len(unfound), t, v),
                     dict(first=t, verdict=v, count=len(unfound), theorem='Properties_C24 hypotheses (wf_b / cover_b / deps_b)'), False)
    br = ck.broken_obligations()
    if br and not found and not unfound:
        ck.violation('obligation_broken', 'C24 proof/tie no longer checks: ' + '; '.join('%s (%s)' % (n, d[:200]) for n, d in br[:3]),
                     dict(broken=[dict(name=n, detail=d) for n, d in br], searched='%d grids accepted by the verified checker' % nok), False)
    ck.cov['explanation'] = 'verified checker accepted %d of %d real grids; protocol theorems (all interleavings, any worker count) hold for each accepted grid' % (nok, nok + nfail)
