"""C26: reported SSE exact. Verified equality monitor between the SSE attached to each packet and the SSE recomputed by
the driver from the submitted picture and the reconstructed picture of the same display position (recon = decode is C01)."""
import os, sys, json
from lib.core import *
from lib import e2e, obs

LEVEL = 'other'


def scenarios(rng, tier):
    out = []
    sizes = [(96, 80), (100, 70), (132, 92), (128, 96), (70, 66), (200, 136)] + ([(264, 200), (322, 180), (176, 144), (66, 130)] if tier == 'thorough' else [])
    for i, (w, h) in enumerate(sizes):
        out.append(dict(w=w, h=h, n=10, stat=1, content=[2, 0, 1, 5][i % 4], **{'f:enc_mode': 8, 'f:hierarchical_levels': [3, 4, 2][i % 3]}))
    out.append(dict(w=132, h=92, n=17, stat=1, **{'f:enc_mode': 8, 'f:tf_level': 1, 'f:hierarchical_levels': 4}))      # temporal filtering on: SSE against the unfiltered source
    out.append(dict(w=132, h=92, n=17, stat=1, **{'f:enc_mode': 8, 'f:tf_level': 0}))
    out.append(dict(w=100, h=70, n=8, stat=1, content=4, **{'f:enc_mode': 8, 'f:qp': 63}))                                  # extreme content, large errors
    out.append(dict(w=100, h=70, n=8, stat=1, **{'f:enc_mode': 8, 'f:rate_control_mode': 1, 'f:target_bit_rate': 100000}))
    # temporal filtering of layer-1 pictures (presets <= 6) on clean content at low qp: the filter strength is adjusted down to its minimum
    out.append(dict(w=192, h=128, n=17, stat=1, content=2, **{'f:enc_mode': 6, 'f:qp': 20}))
    out.append(dict(w=200, h=132, n=17, stat=1, content=8, **{'f:enc_mode': 4, 'f:qp': 12}))
    # reconstruction output disabled: the encoder may skip work it only does for the recon port; the statistics must still be those of the decoded picture
    out.append(dict(w=192, h=128, n=17, stat=1, recon=0, decode=1, **{'f:enc_mode': 8, 'f:qp': 32}))
    out.append(dict(w=132, h=92, n=10, stat=1, recon=0, decode=1, content=1, **{'f:enc_mode': 6}))
    if tier == 'thorough':
        out.append(dict(w=132, h=92, n=10, stat=1, **{'f:enc_mode': 4}))
        out.append(dict(w=200, h=136, n=17, stat=1, recon=0, decode=1, content=6, **{'f:enc_mode': 7, 'f:qp': 45}))
    return out


def run(ck):
    ck.trust('Coq 8.16.1 kernel (monitor soundness)', 'the recomputation in harness/scn/svt_scn.c (sum of squared differences over the visible samples, 64-bit)', 'recon picture taken as "the picture decoded from that packet": their equality is checked by C01', 'extraction + obs/mon.ml')
    ck.prove('Properties_C26', extra_modules=['Monitors'])
    ok, binp, stamp = e2e.driver(ck)
    okm, mbin, mlog = obs.build_obs('MON')
    ck.obligation('extract + build verified monitors', okm, mlog[-300:])
    if not (ok and okm):
        ck.violation('tie_broken', 'scenario driver or monitor does not build', dict(log=mlog[-500:]), False); return
    scs = scenarios(ck.rng, ck.tier)
    res = e2e.run_many(binp, stamp, scs, timeout=120)
    lines = []; meta = []; nz = 0
    for a, r in zip(scs, res):
        ck.case(e2e.describe(a))
        h = r['hist']
        if r['outcome'] != 'ok' or len(h['pkts']) != a['n']:
            ck.violation('encode_%s:%s' % (r['outcome'].split('(')[0], e2e.describe(a)[:80]), 'encode did not complete (%s): %s' % (r['outcome'], e2e.describe(a)), dict(scenario=a, cmd=r.get('cmd')), True); continue
        rec = {x['pts']: x for x in h['recon']}
        rep = []; comp = []
        okc = True
        norecon = a.get('recon', 1) == 0
        bypts = sorted(range(len(h['pkts'])), key=lambda i: h['pkts'][i]['pts'])     # display position of each packet
        pos = {i: d for d, i in enumerate(bypts)}
        for k, p in enumerate(h['pkts']):
            if norecon:
                d = h['dec'][pos[k]] if pos[k] < len(h['dec']) else None
                x = dict(sse=d['dsse']) if d and 'dsse' in d else None
            else:
                x = rec.get(k)
            if x is None or 'sse' not in x:
                okc = False; break
            rep += [p['luma_sse'], p['cb_sse'], p['cr_sse']]; comp += x['sse']
            nz += 1 if p['luma_sse'] else 0
        if not okc:
            ck.obligation('recomputed SSE available for every packet', False, e2e.describe(a)); continue
        # every recon picture must also equal the decoded picture of that position (so that "decoded from that packet" is what was compared)
        dech = [d['hash'] for d in h['dec']]; rech = [rec[k]['hash'] for k in range(len(h['pkts']))] if not norecon else dech
        if dech != rech:
            ck.note = 'recon != decode in ' + e2e.describe(a)
        lines.append('C26 %d %s %s' % (len(h['pkts']), ' '.join(map(str, rep)), ' '.join(map(str, comp)))); meta.append((a, r, rep, comp))
    rc_, out = sh(mbin, input='\n'.join(lines) + '\n', timeout=300)
    verdicts = [l.strip() for l in out.split('\n') if l.strip() in ('0', '1')]
    ck.obligation('monitor ran on every history', len(verdicts) == len(lines), '%d/%d' % (len(verdicts), len(lines)))
    for (a, r, rep, comp), v in zip(meta, verdicts):
        if v != '1':
            i = [j for j in range(len(rep)) if rep[j] != comp[j] % (1 << 32)][0]
            ck.violation('sse_inexact:%s%dx%d' % ('recon_disabled:' if a.get('recon', 1) == 0 else '', a['w'], a['h']), 'packet %d plane %s: reported SSE %d, recomputed %d (%s)' % (i // 3, 'Y Cb Cr'.split()[i % 3], rep[i], comp[i], e2e.describe(a)),
                         dict(scenario=a, packet=i // 3, plane=i % 3, reported=rep[i], recomputed=comp[i], cmd=r.get('cmd')), True)
    ck.cov['traces_validated_against_impl'] = len(lines)
    ck.cov['packets_with_nonzero_sse'] = nz
    ck.cov['rule'] = 'sizes that are and are not multiples of 8 (100x70, 132x92, 70x66 ...), 4 content types, hierarchy 2-4, temporal filtering on/off, qp 63 on extreme content, VBR; SSE of the three planes of every packet'
    ck.sample(dict(scenario=e2e.describe(scs[1])))
    br = ck.broken_obligations()
    if br and not ck.violations:
        ck.violation('obligation_broken', 'C26 proof/tie no longer checks: ' + '; '.join('%s (%s)' % (n, d[:200]) for n, d in br[:3]), dict(broken=[dict(name=n, detail=d) for n, d in br]), False)
    ck.cov['explanation'] = 'equality monitor (verified) accepted %d of %d streams (%d packets with non-zero SSE)' % (sum(1 for v in verdicts if v == '1'), len(lines), nz)
