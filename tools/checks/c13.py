"""C13: defaults complete and well defined. init_param regenerated from svt_svt_enc_init_parameter (cell by cell),
independence theorem, dirty-prior dumps from the real svt_av1_enc_init_handle, acceptance sweep on the real code."""
import os, sys, re, json
from lib.core import *
from lib import build, obs, spharness
from checks import c12
sys.path.insert(0, os.path.join(VERIF, 'translators'))

LEVEL = 'proof'


def regenerate():
    import tr_defaults
    c12.regenerate()
    txt, meta = tr_defaults.generate()
    write_if_changed(os.path.join(GEN, 'DefaultsGen.v'), txt)
    return meta


def run(ck):
    import confmodel
    ck.trust('Coq 8.16.1 kernel (coqc); vm_compute for the evaluated examples; no native_compute', 'translators/cast.py + tr_defaults.py on clang 14 typed AST',
             'generated C driver: svt_av1_enc_init_handle on caller memory pre-filled with 0x00/0xFF/0xA5/random', 'extraction (ExtrOcamlBasic only) + obs/c13.ml', 'gcc')
    meta = None
    try:
        meta = regenerate()
        ck.obligation('translate(svt_svt_enc_init_parameter -> gen/DefaultsGen.v)', True, 'unassigned cells: %s' % meta['unassigned'])
    except Exception as e:
        ck.obligation('translate(svt_svt_enc_init_parameter -> gen/DefaultsGen.v)', False, repr(e)[:500])
    ck.prove('Properties_C13', extra_modules=['Proofs_C13'], gen_modules=['DefaultsGen', 'VerifyGen'])
    fields = confmodel.config_fields()
    ok, hbin, log = c12.build_harness(fields)
    ck.obligation('build API driver against the current library', ok, log)
    if not ok:
        ck.violation('tie_broken', 'API driver does not build: ' + log[-300:], dict(log=log), False)
        return
    npat = 8 if ck.tier == 'quick' else 40
    dumps = []
    for pat in range(npat):
        rc, out = sh('%s defaults %d' % (hbin, pat), timeout=60)
        last = out.strip().split('\n')[-1].split()
        ck.case(('pattern', pat), nontrivial=pat > 0)
        if rc != 0 or len(last) != len(fields) + 1:
            ck.violation('init_handle_fails:pattern%d' % pat, 'svt_av1_enc_init_handle crashed or failed with the caller memory pre-filled with pattern %d (rc=%d)' % (pat, rc), dict(pattern=pat, output=out[-300:]), True)
            continue
        dumps.append((pat, last[0], [int(x) for x in last[1:]]))
    names = ['0x00', '0xFF', '0xA5'] + ['random#%d' % k for k in range(40)]
    ck.sample(dict(pattern=names[0], defaults=dict(list(zip([f[1] for f in fields], dumps[0][2]))[:12])) if dumps else {})
    diffs = []
    if dumps:
        ref = dumps[0]
        for pat, rc_, vals in dumps[1:]:
            for i, (a, b) in enumerate(zip(ref[2], vals)):
                if a != b:
                    diffs.append((fields[i][1], names[ref[0]], a, names[pat], b))
        cells = sorted(set(d[0] for d in diffs))
        for cell in cells[:6]:
            d = [x for x in diffs if x[0] == cell][0]
            ck.violation('default_depends_on_prior_memory:%s' % cell, 'svt_av1_enc_init_handle leaves configuration cell %s dependent on what the caller\'s memory held: %s -> %d, %s -> %d' % (cell, d[1], d[2], d[3], d[4]),
                         dict(cell=cell, prior_a=d[1], value_a=d[2], prior_b=d[3], value_b=d[4], how='harness "defaults <pattern>"'), True)
    # model vs real
    okb, mbin, blog = obs.build_obs('C13') if os.path.exists(os.path.join(COQ, 'gen', 'DefaultsGen.vo')) else (False, '', 'generated model did not compile')
    ck.obligation('extract + build model driver', okb, blog[-300:])
    if okb and dumps:
        rc, out = sh(mbin, input='', timeout=60)
        m = [l for l in out.split('\n') if l.startswith('M ')]
        mv = [int(x) for x in m[0].split()[1:]] if m else []
        bad = [(fields[i][1], a, b) for i, (a, b) in enumerate(zip(mv, dumps[0][2])) if a != b and fields[i][3] != 'blob']
        ck.obligation('correspondence(generated init_param = defaults dumped by the real svt_av1_enc_init_handle, all %d cells)' % len(fields), not bad and len(mv) == len(fields), str(bad[:4]))
    # the defaults (+ size) are accepted: sweep of sizes on the real validation path
    if dumps:
        iw = [i for i, f in enumerate(fields) if f[1] == 'source_width'][0]; ih = [i for i, f in enumerate(fields) if f[1] == 'source_height'][0]
        sizes = [(w, 480) for w in range(64, 4097, 2)] + [(640, h) for h in range(64, 2161, 2)] + [(ck.rng.randrange(32, 2049) * 2, ck.rng.randrange(32, 1081) * 2) for _ in range(2000)]
        res = c12.run_direct(hbin, [{iw: w, ih: h} for w, h in sizes])
        rej = [(s, r) for s, r in zip(sizes, res) if r != 'rc 0']
        ck.evals += len(sizes)
        ck.cov['size_sweep'] = len(sizes)
        if rej:
            ck.violation('defaults_rejected:%dx%d' % rej[0][0], 'the library defaults with picture size %dx%d are rejected by the validation (%s); %d of %d sizes' % (rej[0][0][0], rej[0][0][1], rej[0][1], len(rej), len(sizes)),
                         dict(size=rej[0][0], returned=rej[0][1], count=len(rej)), True)
    ck.cov['traces_validated_against_impl'] = len(dumps)
    ck.cov['rule'] = 'caller memory patterns 0x00 / 0xFF / 0xA5 / seeded random before svt_av1_enc_init_handle; every configuration cell compared (aggregates by hash); all even widths at height 480, all even heights at width 640, 2000 random even sizes through the validation'
    br = ck.broken_obligations()
    if br and not ck.violations:
        ck.violation('obligation_broken', 'C13 proof/tie no longer checks: ' + '; '.join('%s (%s)' % (n, d[:200]) for n, d in br[:3]),
                     dict(broken=[dict(name=n, detail=d) for n, d in br], searched='%d prior-memory patterns and %d sizes on the real code: no failing input' % (npat, ck.cov.get('size_sweep', 0))), False)
    ck.cov['explanation'] = 'defaults_independent proved on the model regenerated this run; real init_handle dumps identical across %d prior-memory patterns and equal to the model' % len(dumps)
