"""C05: output independent of logical-processor count, pinning and socket. Metamorphic encodes + Coq: segment grids of
every lp class are well formed (C24) and hand out work in an order fixed by data dependencies only."""
import os, sys
from lib.core import *
from lib import e2e, meta

LEVEL = 'other'


def run(ck):
    ck.trust('Coq 8.16.1 kernel for the imported theorems (C24 wavefront, C23 resource manager)', 'byte comparison of packets and recon pictures between runs of the same build', 'harness/scn/svt_scn.c')
    ck.prove('Properties_C05', extra_modules=['Reorder'])
    ok, binp, stamp = e2e.driver(ck)
    if not ok:
        ck.violation('tie_broken', 'scenario driver does not build', dict(), False); return
    bases = [dict(w=256, h=192, n=10, decode=0, content=2, **{'f:enc_mode': 8}),
             dict(w=320, h=256, n=8, decode=0, content=1, **{'f:enc_mode': 8, 'f:qp': 35}),
             dict(w=200, h=136, n=9, decode=0, content=5, **{'f:enc_mode': 8, 'f:screen_content_mode': 1}),
             dict(w=384, h=128, n=9, decode=0, content=0, **{'f:enc_mode': 8, 'f:tile_columns': 1}),
             dict(w=256, h=256, n=6, decode=0, content=2, **{'f:enc_mode': 6}),
             # >= 10 superblocks wide / >= 6 superblock rows: sizes at which the segment grids really differ between core counts
             dict(w=704, h=64, n=8, decode=0, content=6, **{'f:enc_mode': 8}),
             dict(w=128, h=448, n=8, decode=0, content=6, **{'f:enc_mode': 8})]
    if ck.tier == 'thorough':
        bases += [dict(w=640, h=384, n=8, decode=0, content=c, **{'f:enc_mode': p}) for c in (1, 2) for p in (4, 8)]
    variants = [('1', {'f:logical_processors': 1}), ('2', {'f:logical_processors': 2}), ('3', {'f:logical_processors': 3}), ('4', {'f:logical_processors': 4}),
                ('8', {'f:logical_processors': 8}), ('16', {'f:logical_processors': 16}), ('0', {'f:logical_processors': 0}),
                ('4 unpin 0', {'f:logical_processors': 4, 'f:unpin': 0}), ('4 socket 0', {'f:logical_processors': 4, 'f:target_socket': 0, 'f:unpin': 0})]
    n = meta.compare(ck, binp, stamp, bases, variants, 'logical_processors', timeout=240, jobs=6)
    ck.cov['traces_validated_against_impl'] = n * len(variants)
    ck.cov['rule'] = '7 contents/sizes/tool sets x logical processors 0,1,2,3,4,8,16, pinned/unpinned, socket 0; CQP (one-pass VBR/CVBR are known to be schedule dependent: finding owned by C04)'
    ck.sample(dict(base=e2e.describe(bases[0]), variants=[v[0] for v in variants]))
    br = ck.broken_obligations()
    if br and not ck.violations:
        ck.violation('obligation_broken', 'C05 proof/tie no longer checks: ' + '; '.join('%s (%s)' % (n_, d[:200]) for n_, d in br[:3]), dict(broken=[dict(name=n_, detail=d) for n_, d in br]), False)
    ck.cov['explanation'] = 'identical packets and recon for %d inputs across %d thread/pinning settings; the hand-off structure (segment wavefront, reorder queues) is proved independent of thread count, data races are only exhibited by runs' % (n, len(variants))
