"""C14: API calls in any order return error codes instead of crashing or blocking.
Coq: (1) verified lock-discipline checker (LockFlow.v) applied to the control-flow skeleton of every library function that takes a
mutex, regenerated from the C sources: every path returns with every mutex released; (2) executable specification of the call
protocol (ApiProto.v). Runs: call scripts - legal sessions with NULL-handle / NULL-buffer calls inserted everywhere, rejected
configurations followed by valid ones - against the real encoder and decoder, each script in a forked child under a watchdog;
result classes compared with the specification."""
import os, sys, re, json
from lib.core import *
from lib import build, obs
sys.path.insert(0, os.path.join(VERIF, 'translators'))

LEVEL = 'proof'
NULL_E = ['ih_nullpp', 'ih_nullcfg', 'sp_nullcfg', 'sp_nullh', 'init_nullh', 'hdr_nullh', 'hdr_nullout', 'hdrrel_null', 'send_nullh', 'send_nullbuf', 'get_nullh', 'get_nullout', 'rel_null', 'rel_nullp',
          'recon_nullh', 'recon_nullbuf', 'deinit_nullh', 'dh_nullh']
NULL_D = ['ih_nullpp', 'sp_nullh', 'sp_nullcfg', 'init_nullh', 'frame_nullh', 'frame_nulldata_len', 'pic_nullh', 'pic_nullbuf', 'deinit_nullh', 'dh_nullh']


def known_lock_findings():
    out = set()
    for f in load_findings().get('findings', []):
        m = re.fullmatch(r'lock_discipline:(\w+)', f.get('signature', '') or '')
        if m:
            out.add(m.group(1))
    return out


def regenerate():
    import tr_locks
    txt, m = tr_locks.generate(os.path.join(CACHE, 'lockast'), known=known_lock_findings())
    write_if_changed(os.path.join(GEN, 'LockGen.v'), txt)
    json.dump(m, open(os.path.join(CACHE, 'LockGen.meta.json'), 'w'))
    return m


def classify(rc):
    return 'ok' if rc == 0 else 'empty' if rc == 0x80002033 else 'err'


def run(ck):
    ck.trust('Coq 8.16.1 kernel (vm_compute over the skeleton table)', 'translators/tr_locks.py: clang AST (macros expanded) -> lock / unlock / branch / loop / break / return skeleton; the identity of a mutex is the structure of its argument expression; functions are found by a textual scan for the two mutex calls',
             'ApiProto.v is a specification written from the API header, tied to the library by the script runs', 'extraction (ExtrOcamlBasic only) + obs/c14.ml', 'harness/unit/api_proto.c', 'gcc')
    m = None
    try:
        m = regenerate()
        bad = [f for f in m['functions'] if f['error'] and 'no definition' not in f['error']]
        ck.obligation('translate(every function with svt_block_on_mutex / svt_release_mutex -> gen/LockGen.v)', not bad, '; '.join('%s: %s' % (f['name'], f['error']) for f in bad[:3]))
        ck.cov['functions_analysed'] = len(m['analysed']); ck.cov['functions_not_compiled_in_this_configuration'] = [f['name'] for f in m['functions'] if f['error'] and 'no definition' in f['error']]
    except Exception as e:
        ck.obligation('translate(every function with svt_block_on_mutex / svt_release_mutex -> gen/LockGen.v)', False, repr(e)[:400])
    ck.prove('Properties_C14', extra_modules=['LockFlow', 'ApiProto'], gen_modules=['LockGen'])
    okb, mbin, blog = obs.build_obs('C14') if os.path.exists(os.path.join(COQ, 'theories', 'ApiProto.vo')) and os.path.exists(os.path.join(COQ, 'gen', 'LockGen.vo')) else (False, '', 'model did not compile')
    ck.obligation('extract + build model driver', okb, blog[-300:])
    okl, d, log = build.ensure_lib('rel')
    lp = build.lib_paths('rel')
    hb = os.path.join(CACHE, 'h', 'c14', 'api_proto')
    okh, hlog = build.cc(hb, [os.path.join(VERIF, 'harness/unit/api_proto.c')], flags='-w -I%s/Source/API' % REPO, libs='%s %s' % (lp['enc'], lp['dec'])) if okl else (False, log[-300:])
    ck.obligation('build the API script harness against the current library', okh, hlog[-300:])
    if not (okb and okh):
        ck.violation('tie_broken', 'model driver or API harness does not build', dict(), False); return
    # ---- scripts
    rng = ck.rng
    legal = ['ih', 'sp_ok', 'init', 'hdr', 'send', 'get', 'send', 'get', 'recon', 'eos', 'drain', 'deinit', 'dh']
    scripts = []
    scripts.append(('E', legal))
    scripts.append(('E', ['ih', 'sp_bad', 'sp_ok', 'init', 'send', 'eos', 'drain', 'deinit', 'dh']))
    scripts.append(('E', ['ih', 'sp_bad', 'sp_bad2', 'sp_nullcfg', 'sp_bad', 'sp_ok', 'sp_ok', 'init', 'send', 'eos', 'drain', 'deinit', 'dh']))
    scripts.append(('E', NULL_E))
    # polling after deinit (packets may still be queued): every call must return
    scripts.append(('E', ['ih', 'sp_ok', 'init'] + ['send'] * 24 + ['deinit'] + ['get'] * 40 + ['dh']))
    scripts.append(('E', ['ih', 'sp_ok', 'init'] + ['send'] * 24 + ['deinit'] + ['recon'] * 30 + ['get'] * 10 + ['dh']))
    scripts.append(('E', ['ih', 'sp_ok', 'init', 'deinit', 'get', 'get', 'recon', 'hdr', 'dh']))
    scripts.append(('E', ['ih', 'sp_ok', 'init'] + ['send'] * 10 + ['eos', 'wait', 'deinit'] + ['get'] * 30 + ['recon'] * 30 + ['dh']))   # everything encoded, nothing retrieved
    for pos in range(len(legal) + 1):           # every NULL call at every point of a legal session
        for op in NULL_E:
            if ck.tier == 'thorough' or rng.random() < 0.22:
                scripts.append(('E', legal[:pos] + [op] + legal[pos:]))
    for _ in range(40 if ck.tier == 'quick' else 400):   # several NULL / rejected calls sprinkled
        s = list(legal)
        for _k in range(rng.randrange(1, 6)):
            pos = rng.randrange(len(s) + 1); op = rng.choice(NULL_E + (['sp_bad', 'sp_bad2'] if pos <= s.index('sp_ok') else []))   # a rejected configuration is always followed by the accepted one
            s.insert(pos, op)
        scripts.append(('E', s))
    dlegal = ['ih', 'sp_ok', 'init', 'frame', 'pic', 'frame', 'pic', 'deinit', 'dh']
    scripts.append(('D', dlegal)); scripts.append(('D', ['ih', 'sp_ok', 'init', 'deinit', 'dh'])); scripts.append(('D', NULL_D))
    for pos in range(len(dlegal) + 1):
        for op in NULL_D:
            if ck.tier == 'thorough' or rng.random() < 0.35:
                scripts.append(('D', dlegal[:pos] + [op] + dlegal[pos:]))
    # a one-packet stream for the decoder scripts
    spath = os.path.join(CACHE, 'h', 'c14', 'stream.bin')
    from lib import e2e, scn
    okd, binp, stamp = e2e.driver(ck)
    if okd:
        r = e2e.run_many(binp, stamp, [dict(w=128, h=64, n=2, content=2, decode=0, recon=0, **{'f:enc_mode': 8})], timeout=120)[0]
        pk = scn.read_packets(r.get('prefix', '') + '.pkts')
        if not pk:
            r = e2e.run_many(binp, stamp, [dict(w=128, h=64, n=2, content=2, decode=0, recon=0, **{'f:enc_mode': 8})], timeout=120, use_cache=False)[0]; pk = scn.read_packets(r.get('prefix', '') + '.pkts')
        open(spath, 'wb').write(pk[0][1] if pk else b'')
    inp = ''.join('%d %s %s\n' % (i, k, ' '.join(ops)) for i, (k, ops) in enumerate(scripts))
    from concurrent.futures import ThreadPoolExecutor
    chunks = [scripts[i::8] for i in range(8)]
    def runchunk(j):
        txt = ''.join('%d %s %s\n' % (j + 8 * n_, k, ' '.join(ops)) for n_, (k, ops) in enumerate(chunks[j]))
        return sh('%s %s' % (hb, spath), input=txt, timeout=3000)[1]
    with ThreadPoolExecutor(8) as ex:
        outs = list(ex.map(runchunk, range(8)))
    real = {}
    for o in outs:
        for l in o.split('\n'):
            mm = re.match(r'S (\d+)(.*) END (.*)$', l)
            if mm:
                real[int(mm.group(1))] = (mm.group(2), mm.group(3))
    rc2, out2 = sh(mbin, input=''.join(' '.join(o for o in ops if o != 'wait') + '\n' for k, ops in scripts if k == 'E'), timeout=120)
    lines2 = out2.strip().split('\n')
    verdicts = [l for l in lines2 if l.startswith('V ')]
    exp_lines = [l for l in lines2 if not l.startswith('V ')]
    # ---- lock discipline verdicts (names for the report)
    if verdicts and m:
        v = verdicts[0].split()[1:]
        for name, ok_ in zip(m['analysed'], v):
            ck.case(('lock', name))
            if ok_ == '0':
                f = [x for x in m['functions'] if x['name'] == name][0]
                ck.violation('lock_discipline:%s' % name, 'function %s (%s) has an execution path that returns with a mutex held, re-locks a held mutex or releases one it does not hold; skeleton: %s' % (name, f['src'], f['skeleton'][:300]),
                             dict(function=name, file=f['src'], skeleton=f['skeleton'], mutexes=f['mutexes']), True)
    ei = 0; nsteps = 0
    for i, (k, ops) in enumerate(scripts):
        ck.case(('script', k, tuple(o for o in ops if o.endswith(('_nullh', '_nullcfg', '_nullout', '_nullbuf', '_nullpp', '_null', '_nullp', '_nulldata_len')) or o.startswith('sp_bad'))))
        trace, end = real.get(i, ('', 'missing'))
        rcs = [x for x in re.findall(r' (\w+)=([0-9a-f]+)', trace) if x[0] != 'wait']
        started = re.findall(r' >(\w+)', trace)
        exp = exp_lines[ei].split() if k == 'E' and ei < len(exp_lines) else None
        if k == 'E':
            ei += 1
        if end != 'ok':
            started = [x for x in started if x != 'wait']
            op = started[len(rcs)] if len(started) > len(rcs) else '?'
            kind = 'blocks' if end == 'timeout' else 'crashes'
            ck.violation('api_%s:%s:%s' % (kind, 'enc' if k == 'E' else 'dec', op), 'API call %s %s (%s) in the %s script: %s' % (op, 'does not return' if end == 'timeout' else 'crashes the process', end, 'encoder' if k == 'E' else 'decoder', ' '.join(ops)),
                         dict(script=ops, component=k, failing_call=op, completed=rcs, how='echo "0 %s %s" | %s %s' % (k, ' '.join(ops), hb, spath)), True)
            continue
        for j, (op, rc) in enumerate(rcs):
            nsteps += 1; ck.evals += 1
            c = classify(int(rc, 16))
            if k == 'E' and exp:
                e = exp[j]
                good = (e == 'ok' and c == 'ok') or (e == 'err' and c == 'err') or (e == 'okempty' and c in ('ok', 'empty')) or e == 'nofault'
            else:   # decoder: NULL-argument calls must report an error, the others must not fail
                isnull = op in NULL_D
                good = (c == 'err') if isnull else (c in ('ok', 'empty') or (op == 'pic' and rc in ('40001004',)) or op == 'pic')
            if not good:
                ck.violation('api_result:%s:%s' % ('enc' if k == 'E' else 'dec', op), 'API call %s returned %s where the protocol specification expects %s (script: %s)' % (op, rc, exp[j] if exp else ('an error' if op in NULL_D else 'success'), ' '.join(ops)),
                             dict(script=ops, component=k, call=op, returned=rc, results=rcs), True)
                break
    ck.cov['scripts'] = len(scripts); ck.cov['calls_compared'] = nsteps
    ck.sample(dict(script=' '.join(scripts[6][1])))
    ck.cov['traces_validated_against_impl'] = len(scripts)
    ck.cov['rule'] = 'legal encoder / decoder sessions with each NULL-handle or NULL-buffer call inserted at each position (sampled in the quick tier), rejected configurations (two kinds, NULL) before the valid one, random mixtures; every script in its own process under a 30 s watchdog'
    br = ck.broken_obligations()
    if br and not ck.violations:
        ck.violation('obligation_broken', 'C14 proof/tie no longer checks: ' + '; '.join('%s (%s)' % (n_, d_[:200]) for n_, d_ in br[:3]), dict(broken=[dict(name=n_, detail=d_) for n_, d_ in br]), False)
    ck.cov['explanation'] = 'lock discipline proved for %s functions of the current source (checker sound for all paths); %d API scripts / %d calls agree with the protocol specification' % (ck.cov.get('functions_analysed'), len(scripts), nsteps)
