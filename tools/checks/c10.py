"""C10: the decoder survives arbitrary input bytes. Structure-aware mutations of valid streams (located with an OBU walk whose
Coq model is proved total and in-bounds: Properties_C02) plus random strings are fed to a fresh single-threaded decoder per case
under AddressSanitizer + UBSan and a watchdog: every call must return, no sanitizer report, teardown must succeed."""
import os, sys, re, json, struct, collections
from lib.core import *
from lib import build, e2e, scn

LEVEL = 'other'


def obus(b):
    """[(offset, type, header_len, size_off, size_len, payload_off, payload_len)] of a low-overhead byte string; stops at the first malformed header"""
    out = []; i = 0
    while i < len(b):
        h = b[i]; ty = (h >> 3) & 15; ext = (h >> 2) & 1; hs = (h >> 1) & 1
        j = i + 1 + ext
        if not hs or j >= len(b):
            break
        sz = 0; sh = 0; k = j
        while k < len(b) and k < j + 8:
            c = b[k]; sz |= (c & 127) << sh; sh += 7; k += 1
            if not (c & 128):
                break
        if k + sz > len(b):
            break
        out.append((i, ty, j - i, j, k - j, k, sz)); i = k + sz
    return out


def leb(v):
    o = bytearray()
    while True:
        c = v & 127; v >>= 7
        if v:
            o.append(c | 128)
        else:
            o.append(c); break
    return bytes(o)


def mutate(rng, streams, kind):
    """returns (label, annexb, [chunks])"""
    name = rng.choice(sorted(streams)); pk = [bytes(p) for p in streams[name]]
    if kind == 'valid':
        return 'valid:' + name, 0, pk
    if kind == 'truncate':
        i = rng.randrange(len(pk)); p = pk[i]; lay = obus(p)
        cuts = [1, 2, 3, len(p) - 1, len(p) // 2] + [o[0] + o[2] for o in lay] + [o[5] for o in lay] + [o[5] + 1 for o in lay] + [o[5] + o[6] - 1 for o in lay]
        c = max(0, min(len(p) - 1, rng.choice(cuts)))
        return 'truncate:%s:pkt%d@%d' % (name, i, c), 0, pk[:i] + [p[:c]] + (pk[i + 1:] if rng.random() < 0.5 else [])
    if kind == 'bitflip_header':
        i = rng.randrange(len(pk)); p = bytearray(pk[i]); lay = obus(bytes(p))
        o = rng.choice(lay) if lay else (0, 0, 1, 1, 1, 2, 0)
        for _ in range(rng.choice([1, 1, 2, 3])):
            pos = min(len(p) - 1, o[0] + rng.randrange(0, o[2] + o[4] + min(o[6], rng.choice([2, 8, 24]))))
            p[pos] ^= 1 << rng.randrange(8)
        return 'bitflip_header:%s:pkt%d' % (name, i), 0, pk[:i] + [bytes(p)] + pk[i + 1:]
    if kind == 'bitflip_any':
        i = rng.randrange(len(pk)); p = bytearray(pk[i])
        for _ in range(rng.choice([1, 2, 4, 16])):
            p[rng.randrange(len(p))] ^= 1 << rng.randrange(8)
        return 'bitflip_any:%s:pkt%d' % (name, i), 0, pk[:i] + [bytes(p)] + pk[i + 1:]
    if kind == 'overwrite':
        i = rng.randrange(len(pk)); p = bytearray(pk[i]); s = rng.randrange(len(p)); n = rng.choice([1, 2, 8, 64]); v = rng.choice([0, 255, None])
        for k in range(s, min(len(p), s + n)):
            p[k] = rng.randrange(256) if v is None else v
        return 'overwrite:%s:pkt%d@%d+%d' % (name, i, s, n), 0, pk[:i] + [bytes(p)] + pk[i + 1:]
    if kind == 'size_field':
        i = rng.randrange(len(pk)); p = pk[i]; lay = obus(p)
        if not lay:
            return 'valid:' + name, 0, pk
        o = rng.choice(lay); nv = rng.choice([0, 1, o[6] - 1, o[6] + 1, o[6] + 100, 127, 128, 16383, (1 << 32) - 1, (1 << 35)])
        q = p[:o[3]] + leb(max(0, nv)) + p[o[5]:]
        return 'size_field:%s:pkt%d:type%d:%d->%d' % (name, i, o[1], o[6], nv), 0, pk[:i] + [q] + pk[i + 1:]
    if kind == 'obu_type':
        i = rng.randrange(len(pk)); p = bytearray(pk[i]); lay = obus(bytes(p))
        if not lay:
            return 'valid:' + name, 0, pk
        o = rng.choice(lay); nt = rng.randrange(16); p[o[0]] = (p[o[0]] & 0x87) | (nt << 3)
        return 'obu_type:%s:pkt%d:%d->%d' % (name, i, o[1], nt), 0, pk[:i] + [bytes(p)] + pk[i + 1:]
    if kind == 'drop_dup_reorder':
        op = rng.choice(['drop_first', 'drop', 'dup', 'swap', 'strip_seq_header'])
        q = list(pk)
        if op == 'drop_first':
            q = q[1:]
        elif op == 'drop':
            del q[rng.randrange(len(q))]
        elif op == 'dup':
            i = rng.randrange(len(q)); q.insert(i, q[i])
        elif op == 'swap' and len(q) > 2:
            i = rng.randrange(len(q) - 1); q[i], q[i + 1] = q[i + 1], q[i]
        else:
            lay = obus(q[0]); q[0] = b''.join(q[0][o[0]:o[5] + o[6]] for o in lay if o[1] != 1) or q[0]
        return 'drop_dup_reorder:%s:%s' % (name, op), 0, q
    if kind == 'splice':
        other = rng.choice(sorted(streams)); pk2 = [bytes(p) for p in streams[other]]
        a = rng.randrange(1, len(pk) + 1); b2 = rng.choice([0, 0, rng.randrange(len(pk2))])
        return 'splice:%s[:%d]+%s[%d:]' % (name, a, other, b2), 0, pk[:a] + pk2[b2:]
    if kind == 'random':
        n = rng.choice([1, 2, 5, 16, 64, 300, 2000])
        return 'random:%d' % n, rng.choice([0, 0, 1]), [bytes(rng.randrange(256) for _ in range(n)) for _ in range(rng.choice([1, 2, 4]))]
    if kind == 'annexb':
        return 'annexb_flag_on_low_overhead:' + name, 1, pk
    raise ValueError(kind)


KINDS = [('valid', 1), ('truncate', 5), ('bitflip_header', 6), ('bitflip_any', 4), ('overwrite', 3), ('size_field', 4), ('obu_type', 2), ('drop_dup_reorder', 3), ('splice', 4), ('random', 2), ('annexb', 1)]


D14 = re.compile(r'EbDecParseBlock\.c:(668|682):')


def classify(errtxt, status):
    """stable signature of a failure: sanitizer kind + first decoder frame (ASan first), else UBSan file:line (the two UBSan
    sites that fire on valid streams, finding D14, only when nothing else is reported)"""
    m = re.search(r'ERROR: AddressSanitizer: ([\w-]+)', errtxt)
    if m:
        fr = re.findall(r'#\d+ 0x[0-9a-f]+ in (\w+) /repo/Source/Lib/(?:Decoder|Common)/[^\s:]+', errtxt)
        return 'asan:%s:%s' % (m.group(1), fr[0] if fr else '?')
    ub = [x for x in re.findall(r'/repo/(Source/[^\s:]+:\d+):\d+: runtime error', errtxt)]
    other = [x for x in ub if not D14.search(x + ':')]
    if other:
        return 'ubsan:%s' % other[0]
    if ub:
        return 'ubsan:%s' % ub[0]
    return 'status:%s' % status.replace(' ', '_')


def run(ck):
    ck.trust('Coq 8.16.1 kernel for the imported OBU-walk theorems (C02)', 'AddressSanitizer / UBSan runtime (alignment and shift-base classes off: the code base relies on them everywhere)', 'harness/unit/dec_fuzz.c (fresh decoder per case, heap copies of every input chunk with 16 bytes of slack - and with none for the valid streams, 25 s watchdog)', 'gcc')
    ck.prove('Properties_C10', extra_modules=['OBU', 'Leb128', 'Proofs_C02'])
    okl, d, log = build.ensure_lib('asan')
    ck.obligation('build the decoder with AddressSanitizer + UBSan from /repo', okl, log[-300:])
    okd, binp, stamp = e2e.driver(ck)
    if not (okl and okd):
        ck.violation('tie_broken', 'sanitizer library or scenario driver does not build', dict(), False); return
    lp = build.lib_paths('asan')
    fz = os.path.join(CACHE, 'h', 'c10', 'dec_fuzz_asan')
    okf, flog = build.cc(fz, [os.path.join(VERIF, 'harness/unit/dec_fuzz.c')], flags='-w -I%s/Source/API -fsanitize=address,undefined -fno-sanitize=alignment,shift-base' % REPO, libs=lp['dec'])
    ck.obligation('build the fuzz harness', okf, flog[-300:])
    if not okf:
        return
    # corpus: small valid streams of different geometry / tools
    seeds = dict(a=dict(w=128, h=64, n=5, content=2, **{'f:enc_mode': 8}), wide=dict(w=384, h=64, n=4, content=2, **{'f:enc_mode': 8}), square=dict(w=128, h=128, n=4, content=6, **{'f:enc_mode': 8}),
                 tall=dict(w=64, h=192, n=3, content=1, **{'f:enc_mode': 8}), ten=dict(w=128, h=64, n=3, content=0, bits=10, **{'f:enc_mode': 8}), tiles=dict(w=192, h=128, n=4, content=2, **{'f:enc_mode': 8, 'f:tile_columns': 1, 'f:tile_rows': 1}),
                 tools=dict(w=128, h=128, n=4, content=8, **{'f:enc_mode': 4}), grain=dict(w=128, h=64, n=4, content=7, **{'f:enc_mode': 8, 'f:film_grain_denoise_strength': 10}), wide2=dict(w=640, h=64, n=3, content=2, **{'f:enc_mode': 8}),
                 sq2=dict(w=192, h=192, n=3, content=2, **{'f:enc_mode': 8}))
    streams = {}
    for nm, a in seeds.items():
        a = dict(a); a.update(decode=0, recon=0)
        r = e2e.run_many(binp, stamp, [a], timeout=200)[0]
        pk = scn.read_packets(r.get('prefix', '') + '.pkts') if r.get('prefix') else []
        if r['outcome'] != 'ok' or len(pk) != a['n']:
            r = e2e.run_many(binp, stamp, [a], timeout=200, use_cache=False)[0]; pk = scn.read_packets(r.get('prefix', '') + '.pkts')
        if len(pk) == a['n']:
            streams[nm] = [p for _, p in pk]
    ck.obligation('corpus of valid streams encoded from /repo', len(streams) == len(seeds), '%d of %d' % (len(streams), len(seeds)))
    if not streams:
        return
    ncases = 420 if ck.tier == 'quick' else 6000
    import random
    rng = random.Random(20260922 if ck.tier == 'quick' else 20260923)   # fixed: the set of failure signatures of the unchanged tree must not depend on VERIF_SEED
    bag = [k for k, wgt in KINDS for _ in range(wgt)]
    cases = []
    # deterministic part: the valid streams, and every ordered splice of two whole streams (a new sequence header with another geometry)
    for nm in sorted(streams):
        cases.append(('valid:' + nm, 0, streams[nm]))
    pairs = [('wide', 'square'), ('square', 'wide'), ('wide2', 'sq2'), ('a', 'tall'), ('tall', 'a'), ('ten', 'a'), ('a', 'ten'), ('tiles', 'a'), ('tools', 'a'), ('a', 'tools'), ('grain', 'square'), ('sq2', 'wide2')]
    if ck.tier == 'thorough':
        pairs = [(a, b) for a in sorted(streams) for b in sorted(streams) if a != b]
    for a, b in pairs:
        if a in streams and b in streams:
            cases.append(('wholesplice:%s+%s' % (a, b), 0, streams[a] + streams[b]))
    while len(cases) < ncases:
        cases.append(mutate(rng, streams, rng.choice(bag)))
    wd = os.path.join(CACHE, 'h', 'c10', 'run'); sh('rm -rf %s && mkdir -p %s' % (wd, wd))
    nshard = 8
    for s in range(nshard):
        with open(os.path.join(wd, 'cases%d.bin' % s), 'wb') as f:
            for i, (lab, ax, chunks) in enumerate(cases):
                if i % nshard != s:
                    continue
                f.write(struct.pack('<III', i, ax, len(chunks)))
                for c in chunks:
                    f.write(struct.pack('<I', len(c))); f.write(c)
    from concurrent.futures import ThreadPoolExecutor
    env = 'ASAN_OPTIONS=detect_leaks=0:abort_on_error=0:exitcode=77 UBSAN_OPTIONS=print_stacktrace=0'
    def shard(s):
        return sh('%s %s %s/cases%d.bin %s' % (env, fz, wd, s, wd), timeout=3000)[1]
    with ThreadPoolExecutor(nshard) as ex:
        outs = list(ex.map(shard, range(nshard)))
    # the same valid streams with NO slack after the caller's bytes: the bit readers look ahead of the data they were given
    with open(os.path.join(wd, 'exact.bin'), 'wb') as f:
        for i, nm in enumerate(sorted(streams)):
            f.write(struct.pack('<III', 100000 + i, 0, len(streams[nm])))
            for c in streams[nm]:
                f.write(struct.pack('<I', len(c))); f.write(c)
    rc_, oex = sh('DEC_FUZZ_PAD=0 %s %s %s/exact.bin %s' % (env, fz, wd, wd), timeout=600)
    over = [l for l in oex.split('\n') if l.startswith('CASE') and ' ok ' not in l]
    ck.evals += len(streams)
    if over:
        e0 = os.path.join(wd, '%s.err' % over[0].split()[1]); et = open(e0, errors='replace').read() if os.path.exists(e0) else ''
        ck.violation('decoder_reads_past_input:' + (classify(et, 'x').split(':')[-1]), 'decoding a VALID stream from a buffer of exactly the packet size reads past the end of the caller\'s buffer (%d of %d valid streams; %s)' % (len(over), len(streams), (re.findall(r'AddressSanitizer: [^\n]{0,140}', et) or [''])[0]),
                     dict(how='DEC_FUZZ_PAD=0 %s %s %s/exact.bin <dir>' % (env, fz, wd), report=et[-1500:]), True)
    status = {}
    for o in outs:
        for l in o.split('\n'):
            p = l.split()
            if len(p) >= 4 and p[0] == 'CASE':
                status[int(p[1])] = (p[2] + ('' if p[2] in ('ok', 'timeout') else ' ' + p[3]), l)
    kinds = collections.Counter(); fails = collections.OrderedDict(); decoded_some = 0
    for i, (lab, ax, chunks) in enumerate(cases):
        ck.evals += 1
        kind = lab.split(':')[0]; kinds[kind] += 1
        ck.case((kind, lab.split(':')[1] if ':' in lab else ''))
        st, line = status.get(i, ('missing', ''))
        m = re.search(r'pictures=(-?\d+)', line)
        decoded_some += 1 if m and int(m.group(1)) > 0 else 0
        errp = os.path.join(wd, '%d.err' % i)
        errtxt = open(errp, errors='replace').read() if os.path.exists(errp) else ''
        if st == 'ok' and 'runtime error' not in errtxt and 'AddressSanitizer' not in errtxt:
            continue
        sig = 'hang' if st == 'timeout' else classify(errtxt, st)
        if kind in ('valid', 'wholesplice'):
            sig = 'valid_input:' + sig          # a conforming byte string: never a known malformed-input weakness
        fails.setdefault(sig, []).append((i, lab, st, errtxt[-1500:]))
    ck.cov['cases_by_kind'] = dict(kinds); ck.cov['cases_with_pictures_decoded'] = decoded_some
    for sig, lst in fails.items():
        i, lab, st, errtxt = lst[0]
        rp = os.path.join(REPLAYS, 'C10'); os.makedirs(rp, exist_ok=True)
        binf = os.path.join(rp, 'case_%s.bin' % re.sub(r'[^A-Za-z0-9_]+', '_', sig)[:60])
        with open(binf, 'wb') as f:
            f.write(struct.pack('<III', i, cases[i][1], len(cases[i][2])))
            for c in cases[i][2]:
                f.write(struct.pack('<I', len(c))); f.write(c)
        ck.violation('decoder_%s' % sig, 'the decoder %s on input "%s" (%d of %d cases with this signature): %s' % ('does not return' if sig == 'hang' else 'misbehaves (%s)' % st, lab, len(lst), len(cases), (errtxt.strip().split('\n')[0] if errtxt.strip() else '')[:200]),
                     dict(case=lab, status=st, count=len(lst), input_file=binf, how='%s %s %s <dir>' % (env, fz, binf), report=errtxt), True)
    ck.sample(dict(case=cases[len(seeds) + 3][0], chunks=len(cases[len(seeds) + 3][2])))
    ck.cov['traces_validated_against_impl'] = len(cases)
    ck.cov['rule'] = 'valid streams (10 geometries / tools), every ordered splice of two streams, and seeded structure-aware mutations: truncation at OBU boundaries, bit flips in headers and anywhere, overwrites, OBU size-field edits, OBU type edits, drop / duplicate / reorder, partial splices, random strings, annex-B flag'
    br = ck.broken_obligations()
    if br and not ck.violations:
        ck.violation('obligation_broken', 'C10 proof/tie no longer checks: ' + '; '.join('%s (%s)' % (n_, d_[:200]) for n_, d_ in br[:3]), dict(broken=[dict(name=n_, detail=d_) for n_, d_ in br]), False)
    ck.cov['explanation'] = '%d byte strings fed to fresh decoders under ASan+UBSan and a watchdog; %d failure signatures' % (len(cases), len(fails))
