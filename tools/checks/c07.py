"""C07: every SIMD kernel is a bit-exact drop-in for its C reference.
Differential runs generated from the dispatch tables of the current source (families recognised by prototype: intra predictors
8/16 bit, variance, SAD, SADx4, OBMC SAD/variance, distortion / residual / SSE kernels) on extreme, random and structured samples;
Coq: the 16-bit lane sums of the AVX2 variance kernels instantiated in the source cannot wrap, for all sample values."""
import os, sys, re, json, collections
from lib.core import *
from lib import build
from checks import c06
sys.path.insert(0, os.path.join(VERIF, 'translators'))

LEVEL = 'other'
KERNEL_TEXT_SHA1 = '04006eaa3bac55d8d9e71e5481a438ae48243a19'   # the helper functions LaneSum.v transcribes (variance_avx2.c)

FAMILIES = {
    ('void', 'uint8_t *, ptrdiff_t, const uint8_t *, const uint8_t *'): 1,
    ('void', 'uint16_t *, ptrdiff_t, const uint16_t *, const uint16_t *, int32_t'): 2,
    ('void', 'uint16_t *, ptrdiff_t, const uint16_t *, const uint16_t *, int'): 2,
    ('unsigned int', 'const uint8_t *, int, const uint8_t *, int, unsigned int *'): 3,
    ('uint32_t', 'const uint8_t *, int, const uint8_t *, int'): 4,
    ('void', 'const uint8_t *, int, const uint8_t * const ref_ptr[], int, uint32_t *'): 5,
    ('unsigned int', 'const uint8_t *, int, const int32_t *, const int32_t *'): 6,
    ('unsigned int', 'const uint8_t *, int, const int32_t *, const int32_t *, unsigned int *'): 7,
}
EXPLICIT = {'svt_spatial_full_distortion_kernel': 8, 'svt_residual_kernel8bit': 9, 'svt_residual_kernel16bit': 10, 'svt_aom_sse': 11, 'svt_nxm_sad_kernel': 12, 'svt_picture_average_kernel': 13, 'svt_cdef_filter_block': 14, 'svt_cdef_find_dir': 15,
            'svt_av1_quantize_fp': 16, 'svt_av1_quantize_fp_32x32': 16, 'svt_av1_quantize_fp_64x64': 16}


def regenerate():
    import tr_variance
    m = c06.regenerate()
    txt, vm = tr_variance.generate()
    write_if_changed(os.path.join(GEN, 'VarianceGen.v'), txt)
    return m, vm


def prototypes():
    protos = {}
    for h in ('Source/Lib/Common/Codec/common_dsp_rtcd.h', 'Source/Lib/Encoder/Codec/aom_dsp_rtcd.h'):
        t = open(os.path.join(REPO, h)).read()
        t = re.sub(r'/\*.*?\*/', '', t, flags=re.S); t = re.sub(r'//[^\n]*', '', t)
        for mm in re.finditer(r'RTCD_EXTERN\s+([\w\s\*]+?)\(\s*\*\s*(\w+)\s*\)\s*\(([^;]*?)\)\s*;', t, flags=re.S):
            args = []
            for p in re.sub(r'\s+', ' ', mm.group(3)).strip().split(','):
                p = p.strip()
                args.append(re.sub(r'\b\w+$', '', p).strip() if not p.endswith('*') else p)
            protos[mm.group(2)] = (re.sub(r'\s+', ' ', mm.group(1)).strip(), ', '.join(args))
    return protos


def items_for(m):
    protos = prototypes()
    items = []; skipped = collections.Counter()
    for e in m['entries']:
        if not e['c'] or not e['variants']:
            skipped['no SIMD variant or no C reference'] += 1; continue
        fam = EXPLICIT.get(e['ptr']) or FAMILIES.get(protos.get(e['ptr'], ('', '')))
        if not fam:
            skipped['prototype family not covered by the differential runner'] += 1; continue
        mm = re.search(r'_?(\d+)x(\d+)(x4d)?$', e['ptr'])
        w, h = (int(mm.group(1)), int(mm.group(2))) if mm else (0, 0)
        if fam in (1, 2, 3, 4, 5, 6, 7) and not mm:
            skipped['no block size in the name'] += 1; continue
        if fam in (3, 4, 5, 6, 7) and 'highbd' in e['ptr']:
            skipped['high bit depth kernels behind the CONVERT_TO_SHORTPTR convention'] += 1; continue
        if fam == 4 and 'sad' not in e['ptr']:
            skipped['prototype family not covered by the differential runner'] += 1; continue
        items.append(dict(name=e['ptr'], fam=fam, w=w, h=h, c=e['c'], variants=e['variants']))
    return items, skipped


def build_kern(items):
    d = os.path.join(CACHE, 'h', 'c07'); os.makedirs(d, exist_ok=True)
    incs = []
    for f in ('Source/Lib/Common/Codec/common_dsp_rtcd.c', 'Source/Lib/Encoder/Codec/aom_dsp_rtcd.c'):
        for l in open(os.path.join(REPO, f)):
            mm = re.match(r'#include "([^"]+)"', l)
            if mm and mm.group(1) not in incs and mm.group(1) != 'cpuinfo.h':
                incs.append(mm.group(1))
    write_if_changed(os.path.join(d, 'kern_includes.inc'), '\n'.join('#include "%s"' % i for i in incs) + '\n')
    rows = []
    for it in items:
        vs = it['variants'][:4]
        rows.append('  {"%s", %d, %d, %d, (void *)%s, %d, {%s}, {%s}, {%s}}' % (it['name'], it['fam'], it['w'], it['h'], it['c'], len(vs), ', '.join('(void *)%s' % v for _, v in vs),
                                                                             ', '.join(str(b) for b, _ in vs), ', '.join('"%s"' % v for _, v in vs)))
    write_if_changed(os.path.join(d, 'kern_items.inc'), 'static const Item items[] = {\n' + ',\n'.join(rows) + '\n};\n')
    ok, bd, log = build.ensure_lib('rel')
    if not ok:
        return False, None, log[-600:]
    lp = build.lib_paths('rel')
    ok, log = build.cc(os.path.join(d, 'kern'), [os.path.join(VERIF, 'harness/kern/kern_main.c')],
                       flags='-w -DNDEBUG -DARCH_X86_64=1 -DEN_AVX512_SUPPORT=0 -DSAFECLIB_STR_NULL_SLACK=1 -I%s -I%s/harness/kern -I%s/b/rel/Source/Lib/Common/Codec -I%s/Source/Lib/Common/ASM_AVX512 -I%s/Source/Lib/Encoder/ASM_AVX512' % (d, VERIF, CACHE, REPO, REPO), libs=lp['enc'])
    return ok, os.path.join(d, 'kern'), log[-1200:]


def run(ck):
    ck.trust('Coq 8.16.1 kernel (vm_compute for the instance table)', 'LaneSum.v is a transcription of the sum path of variance_avx2.c (which lanes meet in 16 bit before widening); the transcribed helper functions are pinned by a digest of their text',
             'translators/tr_variance.py, tr_rtcd.py', 'harness/kern (direct calls of the C reference and of every SIMD variant the CPU supports)', 'gcc')
    m = vm = None
    try:
        m, vm = regenerate()
        ck.obligation('translate(dispatch tables, variance_avx2.c instantiations -> gen/DispatchGen.v, gen/VarianceGen.v)', True, '%d variance instances' % len(vm['instances']))
        ck.obligation('transcription pinned: the helper functions modelled in LaneSum.v are unchanged', vm['kernel_text_sha1'] == KERNEL_TEXT_SHA1,
                      'variance_avx2.c helper functions changed (digest %s): LaneSum.v must be re-read against them' % vm['kernel_text_sha1'])
    except Exception as e:
        ck.obligation('translate(dispatch tables, variance_avx2.c instantiations -> gen/DispatchGen.v, gen/VarianceGen.v)', False, repr(e)[:500])
    ck.prove('Properties_C07', extra_modules=['LaneSum'], gen_modules=['VarianceGen'])
    mism = []
    if m:
        items, skipped = items_for(m)
        ok, kbin, log = build_kern(items)
        ck.obligation('build differential kernel runner from the dispatch tables (%d kernels with SIMD variants covered, %s)' % (len(items), dict(skipped)), ok, log)
        if ok:
            rc, out = sh('%s/h/c06/ptrdump 0' % CACHE, timeout=30) if os.path.exists('%s/h/c06/ptrdump' % CACHE) else (1, '')
            a = [l for l in out.split('\n') if l.startswith('A ')]
            avail = int(a[0].split()[1]) if a else 0x1FF
            rc, out = sh('%s %x' % (kbin, avail), timeout=1500)
            done = [l for l in out.split('\n') if l.startswith('DONE')]
            mism = [l.split() for l in out.split('\n') if l.startswith('MISMATCH')]
            ck.obligation('differential runner completed', rc == 0 and bool(done), out[-300:] if not done else '')
            if done:
                nit, ncall, nm = [int(x) for x in done[0].split()[1:4]]
                ck.evals += ncall
                ck.cov['kernel_variants_run'] = nit; ck.cov['calls'] = ncall
            for it in items:
                ck.case(('kernel', it['fam'], it['w'], it['h']))
            fam_count = collections.Counter(it['fam'] for it in items)
            ck.cov['families'] = {str(k): v for k, v in sorted(fam_count.items())}
            ck.cov['not_covered'] = dict(skipped)
            ck.cov['cpu_flags_detected'] = avail
            ck.sample(dict(kernel=items[0]['name'], reference=items[0]['c'], variants=[v for _, v in items[0]['variants']]))
            seen = set()
            for mm in mism:
                key = (mm[1], mm[2])
                if key in seen or len(seen) >= 6:
                    continue
                seen.add(key)
                ck.violation('kernel_differs:%s' % mm[2], 'SIMD kernel %s returns a different result than its C reference %s (%s case %s)' % (mm[2], [it['c'] for it in items if it['name'] == mm[1]][0], mm[3], ' '.join(mm[4:])),
                             dict(kernel=mm[1], variant=mm[2], family=mm[3], case=mm[4:], cmd='%s %x %s' % (kbin, avail, mm[1])), True)
    ck.cov['traces_validated_against_impl'] = ck.evals
    ck.cov['rule'] = 'per kernel: zeros, max, alternating, random, random-high vs random-low (large DC offset), ramps, sparse extremes; tight and padded strides, unaligned starts; bit depths 8 and 10; widths 4..128 for the size-parameterised kernels'
    br = ck.broken_obligations()
    if br and not ck.violations:
        ck.violation('obligation_broken', 'C07 proof/tie no longer checks: ' + '; '.join('%s (%s)' % (n_, d[:200]) for n_, d in br[:3]), dict(broken=[dict(name=n_, detail=d) for n_, d in br], searched='%d differential calls: no differing kernel' % ck.evals), False)
    ck.cov['explanation'] = 'variance lane sums proved exact for the instantiations in the source; %s kernel variants agree with their C references on every generated case' % ck.cov.get('kernel_variants_run')
