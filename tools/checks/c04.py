"""C04: deterministic output under every thread interleaving. Seeded schedule perturbation (hook H1 in EbThreads.c) drives
the same encode through different interleavings; Coq: hand-off structure (SRM FIFO order, reorder confluence, wavefront)."""
import os, sys
from lib.core import *
from lib import e2e, meta

LEVEL = 'other'


def run(ck):
    ck.trust('Coq 8.16.1 kernel for the hand-off theorems (C23 posting order / conservation, C24 wavefront under all interleavings, reorder confluence)',
             'hook H1 (guarded by SVT_AV1_VERIF): seeded yields / micro-sleeps around every mutex and semaphore operation', 'byte comparison between runs of the same build', 'the kernel scheduler')
    ck.prove('Properties_C04', extra_modules=['Reorder'])
    ok, binp, stamp = e2e.driver(ck)
    if not ok:
        ck.violation('tie_broken', 'scenario driver does not build', dict(), False); return
    bases = [dict(w=256, h=192, n=12, decode=0, content=2, **{'f:enc_mode': 8}),
             dict(w=320, h=256, n=8, decode=0, content=1, **{'f:enc_mode': 8, 'f:qp': 35, 'f:tile_rows': 1}),
             dict(w=200, h=136, n=14, decode=0, content=5, **{'f:enc_mode': 8, 'f:screen_content_mode': 1, 'f:hierarchical_levels': 3}),
             # the stages that are off at preset 8 (restoration search, more reference pictures, temporal filtering of more layers): more
             # pictures than worker threads, so that per-thread context and recycled picture control sets are reused across pictures
             dict(w=192, h=128, n=16, decode=0, content=2, **{'f:enc_mode': 6, 'f:logical_processors': 4}), dict(w=128, h=128, n=20, decode=0, content=8, **{'f:enc_mode': 4, 'f:logical_processors': 3})]
    if ck.tier == 'thorough':
        bases += [dict(w=384, h=256, n=16, decode=0, content=c, **{'f:enc_mode': p}) for c in (0, 1, 2) for p in (6, 8)]
    nseeds = 6 if ck.tier == 'quick' else 24
    variants = [('none', {})] + [(str(s), {'env:SVT_VERIF_SCHED': ck.seed * 100 + s}) for s in range(1, nseeds + 1)]
    n = meta.compare(ck, binp, stamp, bases, variants, 'schedule_seed', timeout=300, jobs=6, repeat_on_diff=False)
    # one-pass VBR / CVBR consume packetization feedback in arrival order: sampled on purpose, owned finding
    rcb = [dict(w=256, h=192, n=20, decode=0, content=2, **{'f:enc_mode': 8, 'f:rate_control_mode': rc, 'f:target_bit_rate': 300000}) for rc in (1, 2)]
    meta.compare(ck, binp, stamp, rcb, variants[:4], 'schedule_seed_rate_control', timeout=300, jobs=6, repeat_on_diff=False, sig_prefix='rc_differs')
    ck.cov['traces_validated_against_impl'] = (n + len(rcb)) * len(variants)
    ck.cov['rule'] = '5 inputs (presets 8, 6, 4) x (unperturbed + %d perturbation seeds), CQP; plus one-pass VBR / CVBR under 3 seeds (known schedule dependence)' % nseeds
    ck.sample(dict(base=e2e.describe(bases[0]), seeds=[v[0] for v in variants]))
    br = ck.broken_obligations()
    if br and not ck.violations:
        ck.violation('obligation_broken', 'C04 proof/tie no longer checks: ' + '; '.join('%s (%s)' % (n_, d[:200]) for n_, d in br[:3]), dict(broken=[dict(name=n_, detail=d) for n_, d in br]), False)
    ck.cov['explanation'] = 'identical output for %d inputs under %d schedules; termination of every run under a watchdog; freedom from data races on picture state is only exhibited by the runs' % (n, len(variants))
