"""C21: output depends only on the visible samples. Metamorphic encodes: tight buffer vs larger strides with zero / 0xFF /
random bytes in the stride padding vs caller memory overwritten and freed right after send; Coq: copy + padding model."""
import os, sys
from lib.core import *
from lib import e2e, meta

LEVEL = 'proof'


def run(ck):
    ck.trust('Coq 8.16.1 kernel (copy/padding model theorem)', 'byte comparison between runs of the same build', 'harness/scn/svt_scn.c builds the caller pictures (stride, padding fill, scribble + free after send)')
    ck.prove('Properties_C21', extra_modules=['InputCopy'])
    # ---- the model against the real copy / pad_input_picture / generate_padding, plane by plane
    from lib import build, obs
    okl, d_, log_ = build.ensure_lib('rel')
    lp = build.lib_paths('rel')
    pb = os.path.join(CACHE, 'h', 'c21', 'pad')
    okp, plog = build.cc(pb, [os.path.join(VERIF, 'harness/unit/pad_harness.c')], flags='-w', libs=lp['enc']) if okl else (False, log_[-300:])
    okm, mb, mlog = obs.build_obs('C21') if os.path.exists(os.path.join(COQ, 'theories', 'InputCopy.vo')) else (False, '', 'model did not compile')
    ck.obligation('build the padding harness and the extracted model', okp and okm, (plog + mlog)[-300:])
    if okp and okm:
        cases = []
        rng = ck.rng
        for _ in range(400 if ck.tier == 'quick' else 4000):
            W = rng.choice([1, 2, 3, 7, 8, 9, 13, 16, 20, 24]); H = rng.choice([1, 2, 3, 5, 8, 9, 12])
            Wal = rng.choice([W, (W + 7) // 8 * 8, W + rng.randrange(0, 5)]); Hal = rng.choice([H, (H + 7) // 8 * 8, H + rng.randrange(0, 4)])
            L = rng.choice([0, 1, 4, 8]); T = rng.choice([0, 1, 3, 4])
            stride = rng.choice([W, min(Wal + L, W + 1), Wal, Wal + L, rng.randrange(W, Wal + L + 1)])
            cases.append((T, L, W, Wal, L, H, Hal, T, stride, rng.randrange(1, 1 << 30)))
        inp = ''.join(' '.join(map(str, c)) + '\n' for c in cases)
        rc1, real = sh(pb, input=inp, timeout=300)
        rc2, mod = sh(mb, input=real, timeout=600)
        def blocks(txt, tag):
            out = []; cur = []
            for l in txt.split('\n'):
                if l.startswith(tag + ' '):
                    cur.append(l[2:])
                elif l.startswith('E'):
                    out.append(cur); cur = []
            return out
        rb, mbk = blocks(real, 'C'), blocks(mod, 'M')
        bad = [i for i in range(min(len(rb), len(mbk))) if rb[i] != mbk[i]]
        okc = len(rb) == len(cases) == len(mbk) and not bad
        ck.obligation('correspondence(extracted process_picture = real row copy + pad_input_picture + generate_padding on %d generated planes)' % len(cases), okc, 'first differing case: %s' % (cases[bad[0]],) if bad else '%d / %d / %d blocks' % (len(rb), len(mbk), len(cases)))
        ck.evals += len(cases)
        for c in cases:
            ck.case(('plane', c[2] == c[3], c[5] == c[6], c[1] == 0, c[8] == c[2]))
    ok, binp, stamp = e2e.driver(ck)
    if not ok:
        ck.violation('tie_broken', 'scenario driver does not build', dict(), False); return
    sizes = [(128, 96), (100, 96), (108, 88), (104, 100), (100, 100), (130, 66), (64 + 2, 64 + 6), (200, 136)]
    if ck.tier == 'thorough':
        sizes += [(322, 180), (426, 240), (98, 72), (136, 70), (262, 198)]
    bases = []
    for i, (w, h) in enumerate(sizes):
        bases.append(dict(w=w, h=h, n=6, decode=0, content=[1, 2, 0, 5][i % 4], **{'f:enc_mode': 8}))
    bases.append(dict(w=100, h=96, n=5, decode=0, content=1, bits=10, **{'f:enc_mode': 8}))
    bases.append(dict(w=108, h=100, n=5, decode=0, content=2, bits=10, **{'f:enc_mode': 8}))
    variants = [('tight', {}), ('stride+8 zeros', dict(stride_pad=8, padfill=0)), ('stride+64 0xFF', dict(stride_pad=64, padfill=255)),
                ('stride+64 random', dict(stride_pad=64, padfill=256)), ('stride+1 random', dict(stride_pad=1, padfill=256)),
                ('scribble+free after send', dict(scribble=1)), ('stride+32 random + scribble', dict(stride_pad=32, padfill=256, scribble=1))]
    n = meta.compare(ck, binp, stamp, bases, variants, 'caller_buffer_layout', timeout=180, jobs=8)
    ck.cov['traces_validated_against_impl'] = n * len(variants)
    ck.cov['rule'] = 'sizes with width and/or height not a multiple of 8 (and aligned ones), 8 and 10 bit, 4 contents x strides w+0/1/8/32/64 with zero / 0xFF / random padding bytes, caller buffer overwritten and freed after send'
    ck.sample(dict(base=e2e.describe(bases[1]), variants=[v[0] for v in variants]))
    br = ck.broken_obligations()
    if br and not ck.violations:
        ck.violation('obligation_broken', 'C21 proof/tie no longer checks: ' + '; '.join('%s (%s)' % (n_, d[:200]) for n_, d in br[:3]), dict(broken=[dict(name=n_, detail=d) for n_, d in br]), False)
    ck.cov['explanation'] = 'identical output for %d pictures sets across %d caller-buffer layouts' % (n, len(variants))
