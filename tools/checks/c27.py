"""C27: output and progress independent of how the application paces its calls.
Coq: abstract hand-off model (Pacing.v) - completed schedules give the same output, a pool covering the pipeline window never
deadlocks, a shorter pool never completes; the pool sizes of the CURRENT source (load_default_buffer_configuration_settings,
regenerated) cover the window (PoolSpec.v) for every configuration of the domain. Tie: regenerated model vs the real function
on thousands of inputs; pacing patterns on the real encoder under a watchdog."""
import os, sys, re, json, itertools
from lib.core import *
from lib import build, obs, e2e, meta
sys.path.insert(0, os.path.join(VERIF, 'translators'))

LEVEL = 'proof'


def regenerate():
    import tr_buffers
    txt, m = tr_buffers.coq()
    write_if_changed(os.path.join(GEN, 'BuffersGen.v'), txt)
    os.makedirs(CACHE, exist_ok=True)
    json.dump(m, open(os.path.join(CACHE, 'BuffersGen.meta.json'), 'w'))
    return m


def build_harness():
    ok, d, log = build.ensure_lib('rel')
    if not ok:
        return False, None, log[-800:]
    lp = build.lib_paths('rel')
    out = os.path.join(CACHE, 'h', 'c27', 'buf')
    ok, log = build.cc(out, [os.path.join(VERIF, 'harness/unit/buf_harness.c')],
                       flags='-w -DNDEBUG -include fcntl.h -include limits.h -DARCH_X86_64=1 -DEN_AVX512_SUPPORT=0 -DSAFECLIB_STR_NULL_SLACK=1 -I%s/b/rel/Source/Lib/Common/Codec' % CACHE, libs=lp['enc'])
    return ok, out, log[-600:]


ORDER = ['nproc', 'sock', 'ng', 'lp', 'frame_rate', 'hl', 'res', 'lad', 'sbs', 'h', 'w', 'tile_rows', 'overlays', 'tf', 'scd', 'ip', 'tpl', 'cpu', 'cpu_use', 'use_cpu_flags']
EXPECTED_INPUTS = ['os_processor_count', 'scs_ptr->static_config.target_socket', 'num_groups', 'scs_ptr->static_config.logical_processors', 'scs_ptr->static_config.frame_rate',
                   'scs_ptr->static_config.hierarchical_levels', 'scs_ptr->input_resolution', 'scs_ptr->static_config.look_ahead_distance', 'scs_ptr->static_config.super_block_size',
                   'scs_ptr->max_input_luma_height', 'scs_ptr->max_input_luma_width', 'scs_ptr->static_config.tile_rows', 'scs_ptr->static_config.enable_overlays',
                   'scs_ptr->static_config.tf_level', 'scs_ptr->static_config.scene_change_detection', 'scs_ptr->static_config.intra_period_length', 'scs_ptr->static_config.enable_tpl_la',
                   'os_cpu_flags', 'os_cpu_flags_to_use', 'scs_ptr->static_config.use_cpu_flags']


def gen_inputs(ck, osv, n_random):
    nproc, cpu, cpu_use = osv
    rng = ck.rng
    out = []
    def mk(**kw):
        d = dict(nproc=nproc, sock=-1, ng=1, lp=0, frame_rate=30 << 16, hl=4, res=0, lad=0, sbs=64, h=64, w=128, tile_rows=0, overlays=0, tf=1, scd=1, ip=-1, tpl=0, cpu=cpu, cpu_use=cpu_use, use_cpu_flags=cpu_use)
        d.update(kw); return d
    # the boundaries of the window formula: every hl, look-ahead around multiples of the mini-GOP, intra periods aligned / not aligned,
    # every core-count class (1, 2, 3, 4..15, 16, more than the machine), overlays, scene-change / temporal filtering windows
    for hl in range(6):
        m = 1 << hl
        lads = sorted(set([0, 1, m - 1, m, m + 1, 2 * m - 1, 2 * m, 2 * m + 1, 3 * m, 17, 33, 60, 119, 120]) - {-1})
        ips = sorted(set([-2, -1, 0, 1, m - 2, m - 1, m, 2 * m - 1, 2 * m, 31, 32, 63, 119, 255]))
        for lad in lads:
            for ip in ips:
                for lp in (1, 2, 3, 4, 0):
                    for ov in (0, 1):
                        out.append(mk(hl=hl, lad=lad, ip=ip, lp=lp, overlays=ov, tf=rng.choice([0, 1, 1, -1]), scd=rng.choice([0, 1]), tpl=rng.choice([0, 1])))
    for _ in range(n_random):
        hl = rng.randrange(6)
        out.append(mk(hl=hl, lad=rng.choice([0, rng.randrange(0, 121), rng.randrange(0, 40)]), ip=rng.choice([-2, -1, rng.randrange(0, 300), (1 << hl) * rng.randrange(1, 9) - 1]),
                      lp=rng.choice([0, 1, 2, 3, 4, 5, 8, 12, 15, 16, 17, 32, 64, 200, 4000000000]), sock=rng.choice([-1, -1, 0, 1]), ng=rng.choice([1, 1, 2, 4]),
                      frame_rate=rng.choice([1, 24, 25, 30, 60, 120, 240, 1000, 1001, 24 << 16, 30 << 16, 60 << 16, 120 << 16, 240 << 16, (1 << 32) - 1]),
                      res=rng.randrange(0, 7), sbs=rng.choice([64, 128]), h=rng.choice([64, 66, 128, 352, 360, 720, 1080, 2160, 4320, 8704]), w=rng.choice([64, 128, 600, 608, 640, 1280, 1920, 3840, 7680, 16384]),
                      tile_rows=rng.randrange(0, 7), overlays=rng.choice([0, 0, 1]), tf=rng.choice([0, 1, 2, 3, -1]), scd=rng.choice([0, 1]), tpl=rng.choice([0, 1]),
                      use_cpu_flags=rng.choice([0, 1, 3, 255, cpu_use, cpu, (1 << 62) - 1])))
    return out


def realizable(c):
    """API configuration whose effective sequence-control-set values are the candidate's (CQP, TPL look-ahead off, look-ahead within the CQP cap)."""
    if c['tpl'] != 0 or c['lad'] > (2 << c['hl']) + 1 or c['lp'] == 0 or c['lp'] > 4 or c['ip'] < -1 or c['ip'] > 255 or c['sock'] != -1:
        return None
    a = {'f:hierarchical_levels': c['hl'], 'f:look_ahead_distance': c['lad'], 'f:intra_period_length': c['ip'], 'f:logical_processors': c['lp'], 'f:enable_tpl_la': 0,
         'f:enc_mode': 8, 'f:scene_change_detection': 1 if c['scd'] else 0}
    if c['overlays']:
        a['f:enable_overlays'] = 1
    if c['ip'] >= 0:
        a['f:intra_refresh_type'] = 2
    return a


def run(ck):
    ck.trust('Coq 8.16.1 kernel (coqc), no native_compute', 'translators/cast.py + tr_buffers.py on clang 14 typed AST (get_num_processors / get_cpu_flags are inputs of the model)',
             'PoolSpec.v: the pipeline window (demand) is a specification written from the hold rules of the stages, not derived from the kernels',
             'Pacing.v is an abstract model of the hand-off (one window, packets in submission order), tied to the code only through the pacing runs',
             'extraction (ExtrOcamlBasic only) + obs/c27.ml', 'harness/unit/buf_harness.c (#include of EbEncHandle.c)', 'harness/scn/svt_scn.c', 'gcc')
    m = None
    try:
        m = regenerate()
        okin = m['inputs'] == EXPECTED_INPUTS
        ck.obligation('translate(load_default_buffer_configuration_settings, set_parent_pcs -> gen/BuffersGen.v)', okin, '' if okin else 'the function now reads a different set of objects: %s' % m['inputs'])
    except Exception as e:
        ck.obligation('translate(load_default_buffer_configuration_settings, set_parent_pcs -> gen/BuffersGen.v)', False, repr(e)[:500])
    ck.prove('Properties_C27', extra_modules=['Pacing', 'PoolSpec', 'Proofs_C27'], gen_modules=['BuffersGen'])
    ok, hbin, log = build_harness()
    ck.obligation('build harness around the real load_default_buffer_configuration_settings', ok, log)
    okb, mbin, blog = obs.build_obs('C27') if os.path.exists(os.path.join(COQ, 'theories', 'PoolSpec.vo')) else (False, '', 'model did not compile')
    ck.obligation('extract + build model driver', okb, blog[-300:])
    shortfalls = []
    if ok:
        rc, out = sh(hbin, input='', timeout=60)
        osv = [int(x) for x in out.split()[1:4]] if out.startswith('OS') else None
        ins = gen_inputs(ck, osv, 3000 if ck.tier == 'quick' else 60000)
        lines = '\n'.join(' '.join(str(c[k]) for k in ORDER) for c in ins) + '\n'
        rc, out = sh(hbin, input=lines, timeout=600)
        real = [l.split()[1:] for l in out.split('\n') if l.startswith('R ')]
        ck.evals += len(ins)
        for c in ins:
            ck.case(('buf', c['hl'], c['lad'] % (1 << c['hl']) == 0, (c['ip'] + 1) % (1 << c['hl']) == 0, min(c['lp'], 5), c['overlays'], c['tf'] != 0 or c['scd'] != 0, c['tpl']), nontrivial=c['lad'] > 0)
        model = None; sl = None
        if okb:
            rc2, out2 = sh(mbin, input=''.join('B ' + l + '\n' for l in lines.strip().split('\n')), timeout=600)
            model = [l.split()[1:] for l in out2.split('\n') if l.startswith('R ')]
            sl = [l.split()[1:] for l in out2.split('\n') if l.startswith('S ')]
            bad = [(c, r, mm) for c, r, mm in zip(ins, real, model) if r != mm]
            okc = len(real) == len(ins) and len(model) == len(ins) and not bad
            ck.obligation('correspondence(regenerated buffers model = real load_default_buffer_configuration_settings on %d inputs, 21 outputs each)' % len(ins), okc,
                          '' if okc else 'first disagreement: input %s real %s model %s' % (bad[0][0] if bad else '?', bad[0][1] if bad else len(real), bad[0][2] if bad else len(model)))
        # the property of the model evaluated on the REAL outputs: pools cover the window, for every input of the domain
        if sl and len(sl) == len(ins) and len(real) == len(ins):
            for c, r, s in zip(ins, real, sl):
                if s[0] != '1' or r[0] == 'NONE':
                    continue
                d, dp = int(s[1]), int(s[3])
                if int(r[0]) < d or int(r[1]) < dp:
                    shortfalls.append((c, d, int(r[0]), dp, int(r[1])))
            ck.cov['inputs_in_domain'] = sum(1 for s in sl if s[0] == '1')
        ck.sample(dict(input=ins[7], real=real[7] if len(real) > 7 else None))
    # pacing patterns on the real encoder
    okd, binp, stamp = e2e.driver(ck)
    if not okd:
        ck.violation('tie_broken', 'scenario driver does not build', dict(), False); return
    reported = set()
    if shortfalls:
        ck.notes.append('%d inputs where the real pool sizes are below the window, e.g. %s' % (len(shortfalls), shortfalls[0]))
        cands = []
        for c, d, p, dp, pp in shortfalls:
            a = realizable(c)
            if a is not None and not any(x[1] == a for x in cands):
                cands.append((c, a, d, p, dp, pp))
        cands = cands[:12]
        runs = [dict(w=128, h=64, n=max(p, pp) + 24, decode=0, recon=0, pace=1, content=2, **a) for c, a, d, p, dp, pp in cands]
        res = e2e.run_many(binp, stamp, runs, timeout=30, jobs=8)
        for (c, a, d, p, dp, pp), r_, run_ in zip(cands, res, runs):
            if r_['outcome'] != 'ok' or len(r_['hist']['pkts']) != run_['n']:
                sig = 'stall:hl%d_lad%d_ip%d_lp%d_ov%d' % (c['hl'], c['lad'], c['ip'], c['lp'], c['overlays'])
                if sig not in reported and len(reported) < 3:
                    reported.add(sig)
                    ck.violation(sig, 'the encoder stalls although the application drains after every submission: input pool %d / picture pool %d below the pipeline window %d / %d (%s, %d pictures sent of %d, %d packets)' % (
                        p, pp, d, dp, e2e.describe(run_), len(r_['hist']['sends']), run_['n'], len(r_['hist']['pkts'])), dict(scenario=run_, pools=dict(input=p, parent=pp), window=dict(input=d, parent=dp), cmd=r_.get('cmd')), True)
        if not reported:
            c, d, p, dp, pp = shortfalls[0]
            ck.violation('pool_below_window', 'the pool sizes computed by the current source are below the pipeline window for e.g. hl=%d lad=%d ip=%d lp=%d overlays=%d: input pool %d < %d or picture pool %d < %d; no stall reproduced on %d realizable configurations' % (
                c['hl'], c['lad'], c['ip'], c['lp'], c['overlays'], p, d, pp, dp, len(cands)), dict(input=c, pools=dict(input=p, parent=pp), window=dict(input=d, parent=dp)), False)
    bases = [dict(w=128, h=64, n=40, decode=0, recon=1, content=2, **{'f:enc_mode': 8}),
             dict(w=128, h=64, n=45, decode=0, recon=0, content=2, **{'f:enc_mode': 8, 'f:logical_processors': 1, 'f:hierarchical_levels': 3, 'f:look_ahead_distance': 10, 'f:enable_tpl_la': 0, 'f:intra_period_length': -1}),
             dict(w=128, h=64, n=34, decode=0, recon=1, content=1, **{'f:enc_mode': 8, 'f:logical_processors': 2, 'f:hierarchical_levels': 2, 'f:look_ahead_distance': 5, 'f:enable_tpl_la': 0, 'f:intra_period_length': -1}),
             dict(w=128, h=64, n=70, decode=0, recon=0, content=5, **{'f:enc_mode': 8, 'f:logical_processors': 1, 'f:hierarchical_levels': 4, 'f:look_ahead_distance': 20, 'f:enable_tpl_la': 0, 'f:intra_period_length': -1}),
             dict(w=128, h=64, n=50, decode=0, recon=1, content=2, **{'f:enc_mode': 8, 'f:logical_processors': 1, 'f:hierarchical_levels': 3, 'f:look_ahead_distance': 12, 'f:enable_tpl_la': 0, 'f:intra_period_length': 31, 'f:intra_refresh_type': 2}),
             dict(w=192, h=128, n=36, decode=0, recon=1, content=6, **{'f:enc_mode': 8, 'f:logical_processors': 4, 'f:hierarchical_levels': 3, 'f:intra_period_length': 15, 'f:intra_refresh_type': 2}),
             # six layers on one logical processor: exactly the minimum reference / PA-reference pools (c27_reference_pools_cover_structure)
             dict(w=128, h=64, n=100, decode=0, recon=0, content=2, **{'f:enc_mode': 8, 'f:logical_processors': 1, 'f:hierarchical_levels': 5, 'f:look_ahead_distance': 17, 'f:enable_tpl_la': 0, 'f:intra_period_length': 63, 'f:intra_refresh_type': 2})]
    if ck.tier == 'thorough':
        bases += [dict(w=128, h=64, n=n, decode=0, recon=rc_, content=2, **{'f:enc_mode': 8, 'f:logical_processors': lp, 'f:hierarchical_levels': hl, 'f:look_ahead_distance': lad, 'f:enable_tpl_la': 0, 'f:intra_period_length': ip})
                  for hl, lad, ip, lp, n, rc_ in [(2, 3, -1, 1, 40, 0), (2, 7, 11, 2, 40, 1), (3, 17, -1, 2, 60, 0), (4, 33, -1, 1, 90, 0), (5, 40, -1, 1, 120, 0), (1, 1, -1, 1, 30, 1), (0, 1, 7, 1, 30, 1), (3, 9, 23, 1, 60, 1)]]
    variants = [('after every send', dict(pace=1)), ('every 2', dict(pace=2)), ('every 3', dict(pace=3)), ('every 7', dict(pace=7)), ('random polling a', dict(pace=-1, pseed=1)),
                ('random polling b', dict(pace=-1, pseed=2)), ('after every send, pauses', dict(pace=1, delay_us=3000)), ('every 3, pauses', dict(pace=3, delay_us=2000, pseed=5)), ('only at the end', dict(pace=0))]
    runs = []
    for b in bases:
        for lab, ov in variants:
            if ov.get('pace') == 0 and b['recon']:
                continue    # with recon enabled an application that retrieves nothing until the end is outside the property's completion clause and stalls by design (recon pool)
            a = dict(b); a.update(ov); runs.append((b, lab, a))
    res = e2e.run_many(binp, stamp, [a for _, _, a in runs], timeout=60, jobs=8)
    ncmp = 0
    for b in bases:
        grp = [(lab, a, r) for (bb, lab, a), r in zip(runs, res) if bb is b]
        ck.case(('pace', e2e.describe(b)))
        lab0, a0, r0 = grp[0]
        if r0['outcome'] != 'ok' or len(r0['hist']['pkts']) != b['n']:
            sig = 'stall:drain_after_every_send'
            ck.violation(sig + ':' + e2e.describe(b)[:80], 'encoding does not complete although the application drains after every submission (%s; %d of %d pictures sent, %d packets): %s' % (r0['outcome'], len(r0['hist']['sends']), b['n'], len(r0['hist']['pkts']), e2e.describe(b)),
                         dict(scenario=a0, cmd=r0.get('cmd')), True)
            continue
        ref = meta.digest(r0['hist']); ncmp += 1
        for lab, a, r in grp[1:]:
            if r['outcome'] != 'ok' or len(r['hist']['pkts']) != b['n']:
                ck.notes.append('call pattern "%s" did not complete (%s) for %s (allowed by the property: only drain-after-every-send must complete)' % (lab, r['outcome'], e2e.describe(b)))
                continue
            if meta.digest(r['hist']) != ref:
                rr = e2e.run_many(binp, stamp, [a0, a], timeout=60, use_cache=False)
                if all(x['outcome'] == 'ok' for x in rr) and meta.digest(rr[0]['hist']) == meta.digest(rr[1]['hist']):
                    ck.violation('nondeterministic:pacing', 'the same encode gives different output on repetition (%s vs %s): %s' % (lab0, lab, e2e.describe(b)), dict(scenario=b), True)
                else:
                    ck.violation('differs:pacing', 'output differs between call pattern "%s" and "%s": %s' % (lab0, lab, e2e.describe(b)), dict(scenario=b, variant_a=a0, variant_b=a, cmd_a=r0.get('cmd'), cmd_b=r.get('cmd')), True)
                break
    # blocking drain with recon enabled, under load (known finding: schedule dependent)
    stress = [dict(w=128, h=64, n=N, decode=0, recon=1, pace=1, **{'f:enc_mode': 8, 'f:hierarchical_levels': hl, 'f:intra_period_length': 31, 'f:intra_refresh_type': 2, 'env:SCN_BLOCKING_DRAIN': '1'})
              for hl in (3, 4) for N in (34, 40) for _ in range(3 if ck.tier == 'quick' else 12)]
    for i, s in enumerate(stress):
        s['cseed'] = 1 + i
    sres = e2e.run_many(binp, stamp, stress, timeout=30, jobs=12, use_cache=False)
    stalled = [(s, r) for s, r in zip(stress, sres) if r['outcome'] != 'ok']
    ck.evals += len(stress)
    ck.cov['blocking_drain_recon_runs'] = len(stress); ck.cov['blocking_drain_recon_stalls'] = len(stalled)
    if stalled:
        s, r = stalled[0]
        ck.violation('stall:blocking_get_packet_after_eos_with_recon', 'with recon enabled, an application that after end-of-stream alternates a blocking get_packet with a recon drain can stall: the next temporal unit needs a recon buffer while all recon buffers wait in the recon queue (%d of %d runs under load; %d packets, %d recon retrieved; e.g. %s)' % (
            len(stalled), len(stress), len(r['hist']['pkts']), len(r['hist']['recon']), e2e.describe(s)), dict(scenario=s, cmd=r.get('cmd')), True)
    ck.cov['traces_validated_against_impl'] = len(runs) + len(stress)
    ck.cov['rule'] = 'buffer-settings inputs: every hl x look-ahead around mini-GOP multiples x aligned/unaligned intra periods x core-count classes x overlays + seeded random (sizes, frame rates, sockets); pacing: drain after every send / every 2,3,7 / random / with pauses / only at the end, recon on and off, lp 1,2,4'
    br = ck.broken_obligations()
    if br and not ck.violations:
        ck.violation('obligation_broken', 'C27 proof/tie no longer checks: ' + '; '.join('%s (%s)' % (n, d[:200]) for n, d in br[:3]),
                     dict(broken=[dict(name=n, detail=d) for n, d in br], searched='%d buffer-settings inputs on the real function, %d pacing runs: no failing input' % (ck.evals, len(runs))), False)
    ck.cov['explanation'] = 'pool sizes of the regenerated model proved to cover the pipeline window; regenerated model equal to the real function on every generated input; %d configurations x up to %d call patterns byte-identical and complete' % (ncmp, len(variants))
