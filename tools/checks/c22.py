"""C22: order-hint distance helpers (regenerated model + theorem + exhaustive C correspondence)."""
import os, sys, re
from lib.core import *
from lib import build, obs, slicer
sys.path.insert(0, os.path.join(VERIF, 'translators'))

LEVEL = 'proof'


def make_harness():
    import tr_reldist
    parts = ['#include <stdio.h>\n#include <stdlib.h>\n#include <assert.h>\n#include "EbDefinitions.h"\n#include "EbAv1Structs.h"\n#ifndef INLINE\n#define INLINE inline\n#endif\n']
    calls = []
    for i, (tag, src, fname) in enumerate(tr_reldist.COPIES):
        txt = slicer.slice_function(src, fname)
        if txt is None:
            return None, 'cannot slice %s from %s' % (fname, src)
        txt = re.sub(r'\b%s\b' % fname, 'copy_%d' % i, txt, count=1)
        parts.append('/* %s */\n%s\n' % (src, txt))
        first = re.search(r'\(([^,)]*)', txt).group(1)
        calls.append((i, 'SeqHeader' in first))
    main = ['int main(int argc,char**argv){int maxbits=atoi(argv[1]);SeqHeader sh;OrderHintInfo oh;\n',
            'for(int en=0;en<2;en++)for(int bits=1;bits<=maxbits;bits++){int n=1<<bits;for(int a=0;a<n;a++)for(int b=0;b<n;b++){\n',
            ' oh.enable_order_hint=en;oh.order_hint_bits=bits;sh.order_hint_info=oh;\n']
    for i, is_sh in calls:
        main.append(' printf("%d %%d %%d %%d %%d %%d\\n",en,bits,a,b,copy_%d(%s,a,b));\n' % (i, i, '&sh' if is_sh else '&oh'))
    main.append('}}\n /* out-of-contract arguments too: negative and large hints */\n')
    main.append('int ex[]={-5,-1,0,1,127,128,129,255,256,1000,65535,-65536};for(int bits=1;bits<=12;bits++)for(int i=0;i<12;i++)for(int j=0;j<12;j++){oh.enable_order_hint=1;oh.order_hint_bits=bits;sh.order_hint_info=oh;\n')
    for i, is_sh in calls:
        main.append(' printf("%d 1 %%d %%d %%d %%d\\n",bits,ex[i],ex[j],copy_%d(%s,ex[i],ex[j]));\n' % (i, i, '&sh' if is_sh else '&oh'))
    main.append('}return 0;}\n')
    return ''.join(parts) + ''.join(main), None


def run(ck):
    import tr_reldist, cast
    ck.trust('Coq 8.16.1 kernel (coqc); no native_compute', 'translators/cast.py + clang 14 typed AST (C typing and macro expansion by clang)',
             'function slicer + gcc for the exhaustive C run', 'extraction (ExtrOcamlBasic only) + obs/zconv.ml + obs/c22.ml')
    # 1. regenerate the model from the working tree
    try:
        gen = tr_reldist.generate()
        write_if_changed(os.path.join(GEN, 'RelDistGen.v'), gen)
        ck.obligation('translate(5 copies of get_relative_dist -> gen/RelDistGen.v)', True)
    except Exception as e:
        ck.obligation('translate(5 copies of get_relative_dist -> gen/RelDistGen.v)', False, repr(e)[:400])
    # 1b. every ordering decision between two order hints goes through one of the distance helpers: no direct relational comparison
    #     of two order-hint expressions anywhere in the library (a plain `a > b` is wrong across the wrap)
    direct = []
    for root, _, files in os.walk(os.path.join(REPO, 'Source', 'Lib')):
        for fn in files:
            if not fn.endswith(('.c', '.h')):
                continue
            txt = re.sub(r'/\*.*?\*/', lambda m_: re.sub(r'[^\n]', ' ', m_.group(0)), open(os.path.join(root, fn), errors='replace').read(), flags=re.S)
            for ln, line in enumerate(txt.split('\n'), 1):
                line = line.split('//')[0].replace('->', '.')
                if re.search(r'order_hint[A-Za-z0-9_\.\[\]]*\s*(<=|>=|<|>)\s*[A-Za-z0-9_\.\(\)\*&]*order_hint', line) and '<<' not in line and '>>' not in line:
                    direct.append('%s:%d: %s' % (os.path.relpath(os.path.join(root, fn), REPO), ln, line.strip()[:120]))
    ck.obligation('no direct relational comparison of two order hints in Source/Lib (all ordering goes through the proved distance helpers)', not direct, '; '.join(direct[:4]))
    # 2. prove
    ck.prove('Properties_C22', extra_modules=['Proofs_C22', 'RelDistSpec', 'RelDistOrder'], gen_modules=['RelDistGen'])
    # 3. correspondence + search: exhaustive run of the real C text of every copy against the spec and the generated model
    maxbits = 8 if ck.tier == 'quick' else 10
    src, err = make_harness()
    spec_fail = None
    if src is None:
        ck.obligation('slice+compile C copies', False, err)
    else:
        hd = os.path.join(CACHE, 'h', 'c22'); os.makedirs(hd, exist_ok=True)
        open(os.path.join(hd, 'h.c'), 'w').write(src)
        ok, log = build.cc(os.path.join(hd, 'h'), [os.path.join(hd, 'h.c')], flags='-DNDEBUG -w')
        ck.obligation('slice+compile C copies', ok, log[-400:])
        if ok:
            rc, out = sh('%s %d' % (os.path.join(hd, 'h'), maxbits), timeout=600)
            lines = out.split('\n')
            # (a) the property itself on the C results: signed distance modulo the period
            n = 0
            for l in lines:
                p = l.split()
                if len(p) != 6:
                    continue
                c, en, bits, a, b, r = map(int, p)
                n += 1
                ck.evals += 1
                if en == 0:
                    good = (r == 0)
                else:
                    good = ((r - (a - b)) % (1 << bits) == 0 and -(1 << (bits - 1)) <= r < (1 << (bits - 1)))
                if not good and spec_fail is None:
                    spec_fail = dict(copy=tr_reldist.COPIES[c][1] + ':' + tr_reldist.COPIES[c][2], enable=en, bits=bits, a=a, b=b, returned=r,
                                     expected='signed (a-b) mod 2^bits in [-2^(bits-1), 2^(bits-1))')
            ck.distinct.update(('rd', i) for i in range(min(n, 1 << 20) // 5))
            ck.cov['exhaustive'] = True
            ck.cov['rule'] = 'all (enable, bits<=%d, a, b in [0,2^bits)) for each of the 5 copies, plus 12x12 out-of-contract hints for bits<=12; distinct = argument tuples' % maxbits
            ck.sample(dict(copy=0, en=1, bits=7, a=2, b=126, expect=4))
            if rc != 0:
                ck.obligation('C harness ran', False, 'rc=%d %s' % (rc, out[-300:]))
            # (b) model vs implementation
            okb, binp, blog = obs.build_obs('C22') if getattr(ck, 'coq_ok', False) or os.path.exists(os.path.join(COQ, 'gen', 'RelDistGen.vo')) else (False, '', 'generated model did not compile')
            if okb:
                rc2, out2 = sh(binp, input=out, timeout=600)
                m = re.search(r'DONE n=(\d+) bad=(\d+)', out2)
                bad = int(m.group(2)) if m else -1
                ck.cov['traces_validated_against_impl'] = int(m.group(1)) if m else 0
                ck.obligation('correspondence(generated model = sliced C on the exhaustive domain)', bad == 0, out2[:400])
            else:
                ck.obligation('correspondence(generated model = sliced C on the exhaustive domain)', False, 'model not runnable: ' + blog[-300:])
    # 3b. end to end: streams longer than the order-hint period (128) and than the encoder's circular queues, with real motion:
    #     every picture decodes to the encoder's reconstruction, one packet per picture in order
    from lib import e2e
    okd, dbin, dstamp = e2e.driver(ck)
    long_fail = None
    if okd:
        longs = [dict(w=192, h=128, n=150, content=8, decode=1, recon=1, **{'f:enc_mode': 8, 'f:qp': 32}),
                 dict(w=128, h=64, n=270, content=2, decode=1, recon=1, **{'f:enc_mode': 8, 'f:hierarchical_levels': 3, 'f:intra_period_length': 100, 'f:intra_refresh_type': 2}),
                 # no key frame after the first: the base-layer pictures past the wrap (144, 272, ...) reference pictures on both sides of it
                 dict(w=64, h=64, n=160, content=2, decode=1, recon=1, **{'f:enc_mode': 8, 'f:qp': 35, 'f:intra_period_length': -1}),
                 dict(w=128, h=64, n=290, content=8, decode=1, recon=1, **{'f:enc_mode': 8, 'f:qp': 30, 'f:intra_period_length': -1, 'f:hierarchical_levels': 3})]
        if ck.tier == 'thorough':
            longs += [dict(w=192, h=128, n=400, content=8, decode=1, recon=1, **{'f:enc_mode': 6, 'f:hierarchical_levels': 4}),
                      dict(w=128, h=64, n=700, content=6, decode=1, recon=1, **{'f:enc_mode': 8, 'f:hierarchical_levels': 5, 'f:logical_processors': 2})]
        lres = e2e.run_many(dbin, dstamp, longs, timeout=900, jobs=4)
        for a, r in zip(longs, lres):
            ck.evals += 1; ck.case(('long', a['n'], a['content']))
            hh = r['hist']
            if r['outcome'] != 'ok' or len(hh['pkts']) != a['n']:
                long_fail = long_fail or (a, r, 'the encode / decode does not complete (%s, %d of %d packets)' % (r['outcome'], len(hh['pkts']), a['n']))
                continue
            dec = [d['hash'] for d in hh['dec']]; rec = [x['hash'] for x in sorted(hh['recon'], key=lambda x: x['pts'])]
            pts = [p_['pts'] for p_ in hh['pkts']]
            if dec != rec:
                first = next((i for i, (x, y) in enumerate(zip(dec, rec)) if x != y), min(len(dec), len(rec)))
                long_fail = long_fail or (a, r, 'decoded pictures differ from the reconstruction from display position %d on (%d decoded, %d reconstructed)' % (first, len(dec), len(rec)))
            elif pts != sorted(pts) or len(set(pts)) != len(pts):
                long_fail = long_fail or (a, r, 'packets are not in submission order')
        ck.cov['long_streams'] = [a['n'] for a in longs]
        if long_fail:
            a, r, why = long_fail
            ck.violation('long_stream:%d' % a['n'], 'a stream longer than the order-hint period is not encoded as well as a short one: %s: %s' % (why, e2e.describe(a)), dict(scenario=a, cmd=r.get('cmd')), True)
    # 4. decide
    if spec_fail:
        ck.violation('rel_dist_wrong:' + spec_fail['copy'], 'order-hint distance helper returns a value that is not the signed distance modulo the period: %s' % spec_fail, spec_fail, True)
    else:
        br = ck.broken_obligations()
        if br and not long_fail:
            ck.violation('obligation_broken', 'C22 proof/tie no longer checks: ' + '; '.join('%s (%s)' % (n, d[:120]) for n, d in br[:4]),
                         dict(broken=[dict(name=n, detail=d) for n, d in br], searched='exhaustive C run of all copies, bits<=%d: no failing input' % maxbits), False)
    ck.cov['explanation'] = ('rel_dist_all_copies proved (Coq) for the Gallina translation of the 5 C copies regenerated from /repo on this run; '
                             'the same C text was run exhaustively and compared with the spec and with the generated model')
