"""C01: encoder reconstruction == decode of its own bitstream, by display position, over a sweep of configurations,
contents and sizes. The decoder is the library's own libSvtAv1Dec (no third-party AV1 decoder exists in this sandbox)."""
import os, sys, json
from lib.core import *
from lib import e2e, obs

LEVEL = 'other'


def scenarios(rng, tier):
    out = []
    def S(**kw):
        d = dict(w=192, h=128, n=9, **{'f:enc_mode': 8}); d.update(kw); out.append(d)
    S(); S(w=128, h=96, content=0); S(w=200, h=136, content=1, **{'f:qp': 30}); S(w=132, h=100, content=5)
    S(**{'f:tile_columns': 1, 'f:tile_rows': 1}, w=256, h=256)
    # uniform tile spacing that yields fewer tiles than 2^log2 (3 columns of a requested 4; 3 rows of a requested 4; 3 x 2)
    S(**{'f:tile_columns': 2}, w=192, h=128, content=2); S(**{'f:tile_rows': 2}, w=128, h=192, content=6); S(**{'f:tile_columns': 2, 'f:tile_rows': 1}, w=320, h=128, content=8)
    S(content=5, **{'f:screen_content_mode': 1, 'f:intrabc_mode': 1, 'f:palette_level': 6})
    S(**{'f:superres_mode': 1, 'f:superres_denom': 11, 'f:superres_kf_denom': 13})
    S(**{'f:superres_mode': 2})
    S(content=1, **{'f:film_grain_denoise_strength': 10})
    S(**{'f:disable_dlf_flag': 1}); S(**{'f:cdef_level': 0, 'f:enable_restoration_filtering': 0}); S(**{'f:enable_restoration_filtering': 1, 'f:enc_mode': 6})
    S(n=20, **{'f:rate_control_mode': 1, 'f:target_bit_rate': 200000}); S(n=20, **{'f:rate_control_mode': 2, 'f:target_bit_rate': 200000})
    S(**{'f:qp': 1}, content=1, w=128, h=96); S(**{'f:qp': 63})
    S(n=20, **{'f:enable_overlays': 1, 'f:hierarchical_levels': 4}); S(n=17, **{'f:tf_level': 0})
    S(bits=10); S(bits=10, content=1, **{'f:qp': 40})
    S(n=150, w=128, h=64, content=8); S(n=140, w=128, h=64, content=2, **{'f:hierarchical_levels': 3, 'f:pred_structure': 2})     # across the 7-bit order-hint wrap (skip mode, sign bias, motion-field projection)
    S(**{'f:hierarchical_levels': 0}); S(**{'f:hierarchical_levels': 2, 'f:intra_period_length': 4}); S(n=14, **{'f:intra_refresh_type': 1, 'f:intra_period_length': 5})
    S(**{'f:enable_global_motion': 0, 'f:enable_warped_motion': 0, 'f:obmc_level': 0}); S(**{'f:enable_mfmv': 1, 'f:compound_level': 2}, n=14)
    S(**{'f:is_16bit_pipeline': 1}, w=200, h=136)           # 16-bit pipeline with 8-bit input (baseline finding D18)
    if tier == 'thorough':
        for p in (4, 6):
            S(**{'f:enc_mode': p}); S(**{'f:enc_mode': p}, content=5, **{'f:screen_content_mode': 1})
        for (w, h) in ((320, 192), (352, 288), (264, 200), (640, 360)):
            S(w=w, h=h, content=rng.randrange(6))
    return out


def run(ck):
    ck.trust('Coq 8.16.1 kernel for the logic layers (C25 entropy coder round trip, C02 framing, C03 pairing) and the pairing monitor', 'libSvtAv1Dec as decoding oracle: it shares Source/Lib/Common kernels with the encoder, so a defect common to both sides is invisible',
             'harness/scn/svt_scn.c')
    ck.prove('Properties_C01', extra_modules=['Monitors'])
    ok, binp, stamp = e2e.driver(ck)
    if not ok:
        ck.violation('tie_broken', 'scenario driver does not build', dict(), False); return
    scs = scenarios(ck.rng, ck.tier)
    res = e2e.run_many(binp, stamp, scs, timeout=180)
    npic = 0; nok = 0
    for a, r in zip(scs, res):
        ck.case(e2e.describe(a))
        h = r['hist']
        key = e2e.describe({k: v for k, v in a.items() if k.startswith('f:') and k != 'f:enc_mode'} or {'default': 1})
        if r['outcome'] != 'ok' or len(h['pkts']) != a['n']:
            ck.violation('encode_%s:%s' % (r['outcome'].split('(')[0], key), 'encode/decode did not complete (%s, %d packets): %s' % (r['outcome'], len(h['pkts']), e2e.describe(a)), dict(scenario=a, cmd=r.get('cmd')), True); continue
        decerr = [c for c in h['calls'] if c[0].startswith('dec_') and c[1] != '0']
        if decerr:
            ck.violation('decoder_rejects:' + key, 'the library\'s decoder reports %s on the encoder\'s own stream: %s' % (decerr[0], e2e.describe(a)), dict(scenario=a, calls=decerr[:4], cmd=r.get('cmd')), True); continue
        rec = {x['pts']: x['hash'] for x in h['recon']}
        rech = [rec.get(k) for k in range(a['n'])]; dech = [d['hash'] for d in h['dec']]
        npic += a['n']
        if len(dech) != a['n']:
            ck.violation('decoded_count:' + key, 'decoder returned %d pictures for %d packets: %s' % (len(dech), a['n'], e2e.describe(a)), dict(scenario=a, cmd=r.get('cmd')), True); continue
        bad = [k for k in range(a['n']) if rech[k] != dech[k]]
        if bad:
            sig = 'recon_differs:' + key
            ck.violation(sig, 'recon picture differs from the decoded picture at display positions %s (%d of %d): %s' % (bad[:8], len(bad), a['n'], e2e.describe(a)),
                         dict(scenario=a, positions=bad, cmd=r.get('cmd') + ' dumprecon=1 dumpdec=1'), True)
        else:
            nok += 1
    ck.cov['traces_validated_against_impl'] = len(scs)
    ck.cov['pictures_compared'] = npic
    ck.cov['rule'] = 'presets, tiles, screen content tools, superres, film grain, filters on/off, VBR/CVBR, qp extremes, overlays, 10 bit, hierarchies, open/closed GOP, sizes incl. non-multiples of 8; recon digest vs decoded digest per display position'
    ck.sample(dict(scenario=e2e.describe(scs[5])))
    br = ck.broken_obligations()
    if br and not ck.violations:
        ck.violation('obligation_broken', 'C01 proof/tie no longer checks: ' + '; '.join('%s (%s)' % (n, d[:200]) for n, d in br[:3]), dict(broken=[dict(name=n, detail=d) for n, d in br]), False)
    ck.cov['explanation'] = 'recon == decode in %d of %d encodes (%d pictures); the entropy, framing and pairing layers are proved (C25, C02, C03); pixel reconstruction is compared, not proved' % (nok, len(scs), npic)
