"""C12: parameter validation. Model regenerated from copy_api_from_app + verify_settings (clang AST -> Gallina),
theorem against the golden documented domain (DocDomain.v), boundary differential against the real
svt_av1_enc_set_parameter, documented-vs-accepted deviations replayed on the real API."""
import os, sys, re, json
from concurrent.futures import ThreadPoolExecutor
from lib.core import *
from lib import build, obs, spharness
sys.path.insert(0, os.path.join(VERIF, 'translators'))

LEVEL = 'proof'
BAD = '80001005'


def regenerate():
    import tr_verify
    txt, meta = tr_verify.generate()
    write_if_changed(os.path.join(GEN, 'VerifyGen.v'), txt)
    json.dump(meta, open(os.path.join(CACHE, 'VerifyGen.meta.json'), 'w'))
    return meta


def build_harness(fields):
    hd = os.path.join(CACHE, 'h', 'c12'); os.makedirs(hd, exist_ok=True)
    src = spharness.gen_source(fields)
    write_if_changed(os.path.join(hd, 'sp.c'), src)
    ok, d, log = build.ensure_lib('rel')
    if not ok:
        return False, None, log[-800:]
    lp = build.lib_paths('rel')
    ok, log = build.cc(os.path.join(hd, 'sp'), [os.path.join(hd, 'sp.c')], flags='-w -include fcntl.h', libs=lp['enc'])
    if not ok:
        return ok, os.path.join(hd, 'sp'), log[-600:]
    # direct mode: the harness translation unit includes EbEncHandle.c itself (static functions callable)
    ok, log = build.cc(os.path.join(hd, 'spd'), [os.path.join(hd, 'sp.c')],
                       flags='-w -DDIRECT -DNDEBUG -include fcntl.h -DARCH_X86_64=1 -DEN_AVX512_SUPPORT=0 -DSAFECLIB_STR_NULL_SLACK=1 -I%s/b/rel/Source/Lib/Common/Codec' % CACHE, libs=lp['enc'])
    return ok, os.path.join(hd, 'sp'), log[-600:]


def run_direct(hbin, cases):
    lines = [' '.join('%d %d' % (i, v) for i, v in sorted(c.items())) for c in cases]
    res = []
    i = 0
    while i < len(lines):
        rc, out = sh('%sd direct' % hbin, input='\n'.join(lines[i:]) + '\n', timeout=3000)
        outs = [l.strip() for l in out.split('\n') if re.match(r'(rc [0-9a-f]+|crash \d+)$', l.strip())]
        res += outs
        i = len(res)
        if rc == 0 or not outs:
            break
    return res + ['missing'] * (len(cases) - len(res))


def run_impl(hbin, cases, nsh=NCPU):
    """cases: list of {idx: val}. Returns list of outcome strings ('rc 0', 'rc 80001005', 'crash 11', 'timeout')."""
    lines = [' '.join('%d %d' % (i, v) for i, v in sorted(c.items())) for c in cases]
    shards = [list(range(k, len(cases), nsh)) for k in range(nsh)]
    res = [None] * len(cases)
    def work(ix):
        if not ix:
            return
        rc, out = sh('%s run 10' % hbin, input='\n'.join(lines[i] for i in ix) + '\n', timeout=3000)
        outs = [l.strip() for l in out.split('\n') if re.match(r'(rc |crash|timeout|init )', l.strip())]
        for k, i in enumerate(ix):
            res[i] = outs[k] if k < len(outs) else 'missing'
    with ThreadPoolExecutor(nsh) as ex:
        list(ex.map(work, shards))
    # a watchdog expiry under load is not a hang of set_parameter: those cases run again, alone, with a long watchdog
    late = [i for i, r in enumerate(res) if r in ('timeout', 'missing')]
    if late:
        rc, out = sh('%s run 120' % hbin, input='\n'.join(lines[i] for i in late) + '\n', timeout=3000)
        outs = [l.strip() for l in out.split('\n') if re.match(r'(rc |crash|timeout|init )', l.strip())]
        for k, i in enumerate(late):
            res[i] = outs[k] if k < len(outs) else 'missing'
    return res


def run_model(mbin, base, cases):
    inp = 'D ' + ' '.join(str(v) for v in base) + '\n' + ''.join('C ' + ' '.join('%d %d' % (i, v) for i, v in sorted(c.items())) + '\n' for c in cases)
    rc, out = sh(mbin, input=inp, timeout=3000)
    ls = [l.split() for l in out.split('\n') if re.match(r'^[01] [01] -?\d+ -?\d+$', l.strip())]
    return [(int(a), int(b), int(c), int(d)) for a, b, c, d in ls]


def gen_cases(meta, fields, base, rng, tier):
    name_idx = {f[1].replace('[', '_').replace(']', '').replace('.', '_'): i for i, f in enumerate(fields)}
    size = {name_idx['source_width']: 640, name_idx['source_height']: 480}
    cases = [dict(size)]
    allints = sorted(set(x for c in meta['clause_info'] for x in c['ints']))
    def clampv(i, v):
        lo, hi = (-(1 << (fields[i][2][1] - 1)), (1 << (fields[i][2][1] - 1)) - 1) if fields[i][2][0] else (0, (1 << fields[i][2][1]) - 1)
        return lo <= v <= hi
    # every cell: type extremes and small values
    for i, f in enumerate(fields):
        if f[3] == 'blob':
            continue
        lo, hi = (-(1 << (f[2][1] - 1)), (1 << (f[2][1] - 1)) - 1) if f[2][0] else (0, (1 << f[2][1]) - 1)
        for v in {lo, hi, -1, 0, 1, 2, 3}:
            if clampv(i, v) and not (f[3] == 'ptr' and v not in (0, 1)):
                c = dict(size); c[i] = v; cases.append(c)
    # per clause: constants +-1 on the cells it depends on, singly and pairwise
    for cl in meta['clause_info']:
        cells = [name_idx[x] for x in cl['cells'] if x in name_idx]
        vals = sorted(set(v + d for v in cl['ints'] for d in (-1, 0, 1)))
        for i in cells:
            for v in vals:
                if clampv(i, v) and fields[i][3] != 'ptr':
                    c = dict(size); c[i] = v; cases.append(c)
        if 2 <= len(cells) <= 6:
            import itertools
            per = []
            for i in cells:
                vs = [v for v in sorted(set(vals + [base[i]])) if clampv(i, v) and fields[i][3] != 'ptr'] or [base[i]]
                per.append(vs)
            total = 1
            for vs in per:
                total *= len(vs)
            if total <= (3000 if tier == 'quick' else 60000):
                for combo in itertools.product(*per):
                    c = dict(size)
                    for i, v in zip(cells, combo):
                        c[i] = v
                    cases.append(c)
            else:
                for _ in range(1500 if tier == 'quick' else 30000):
                    c = dict(size)
                    for i, vs in zip(cells, per):
                        c[i] = rng.choice(vs)
                    cases.append(c)
    # random multi-cell
    for _ in range(300 if tier == 'quick' else 5000):
        c = dict(size)
        for _ in range(rng.randrange(1, 4)):
            i = rng.randrange(len(fields))
            if fields[i][3] != 'int':
                continue
            v = rng.choice(allints) + rng.choice([-1, 0, 1])
            if clampv(i, v):
                c[i] = v
        cases.append(c)
    seen = set(); out = []
    for c in cases:
        k = tuple(sorted(c.items()))
        if k not in seen:
            seen.add(k); out.append(c)
    return out


def describe(fields, c):
    return {fields[i][1]: v for i, v in c.items()}


def run(ck):
    import confmodel
    ck.trust('Coq 8.16.1 kernel (coqc); no native_compute', 'translators/cast.py + tr_verify.py on clang 14 typed AST (copy_api_from_app, verify_settings, helpers inlined)',
             'golden documented domain theories/DocDomain.v (guide ranges + header constraints, deviations annotated)', 'generated C driver around svt_av1_enc_init_handle/set_parameter (forked child per case)',
             'extraction (ExtrOcamlBasic only) + obs/c12.ml', 'gcc')
    meta = None
    try:
        meta = regenerate()
        ck.obligation('translate(copy_api_from_app + verify_settings -> gen/VerifyGen.v)', True, '%d clauses' % meta['clauses'])
    except Exception as e:
        ck.obligation('translate(copy_api_from_app + verify_settings -> gen/VerifyGen.v)', False, repr(e)[:500])
    ck.prove('Properties_C12', extra_modules=['DocDomain', 'Proofs_C12'], gen_modules=['VerifyGen'])
    fields = confmodel.config_fields()
    ok, hbin, log = build_harness(fields)
    ck.obligation('build API driver against the current library', ok, log)
    okb, mbin, blog = obs.build_obs('C12') if os.path.exists(os.path.join(COQ, 'gen', 'VerifyGen.vo')) and os.path.exists(os.path.join(COQ, 'theories', 'DocDomain.vo')) else (False, '', 'generated model did not compile')
    ck.obligation('extract + build model driver', okb, blog[-300:])
    if not ok:
        ck.violation('tie_broken', 'API driver does not build: ' + log[-300:], dict(log=log), False)
        return
    rc, out = sh('%s defaults 0' % hbin)
    base = [int(x) for x in out.strip().split('\n')[-1].split()[1:]]
    if meta is None:
        try:
            meta = json.load(open(os.path.join(CACHE, 'VerifyGen.meta.json')))
        except Exception:
            meta = dict(clause_info=[])
    cases = gen_cases(meta, fields, base, ck.rng, ck.tier)
    impl = run_direct(hbin, cases)
    model = run_model(mbin, base, cases) if okb else []
    # the public API on a sample (every crash, plus a seeded mix) must agree with the direct calls
    sample_ix = [k for k, o in enumerate(impl) if o.startswith('crash')][:20]
    rest = [k for k in range(len(cases)) if impl[k] == 'rc ' + BAD]
    acc = [k for k in range(len(cases)) if impl[k] == 'rc 0']
    sample_ix += ck.rng.sample(rest, min(len(rest), 150 if ck.tier == 'quick' else 1500)) + ck.rng.sample(acc, min(len(acc), 40 if ck.tier == 'quick' else 400))
    api = run_impl(hbin, [cases[k] for k in sample_ix])
    in_scope = lambda k: (k >= len(model)) or model[k][1] == 1
    api_bad = [(describe(fields, cases[k]), impl[k], a) for k, a in zip(sample_ix, api) if in_scope(k) and (a.split()[0] != impl[k].split()[0] or (a.startswith('rc') and a != impl[k]))]
    ck.cov['api_out_of_scope_outcomes'] = sorted(set('%s -> %s' % (sorted(set(describe(fields, cases[k])) - {'source_width', 'source_height'}), a) for k, a in zip(sample_ix, api) if not in_scope(k)))[:10]
    ck.obligation('public API (forked child per case) agrees with the direct calls on the sample', not api_bad, str(api_bad[:2])[:400])
    ck.cov['api_sample'] = len(sample_ix)
    kinds = {}
    ndiff = 0; first = None; ncrash = 0; crashes = []
    for k, c in enumerate(cases):
        o = impl[k]
        kinds[o] = kinds.get(o, 0) + 1
        ck.case(tuple(sorted(c.items())), nontrivial=len(c) > 2)
        if o.startswith('crash') or o == 'timeout':
            ncrash += 1; crashes.append((c, o)); continue
        if k < len(model):
            rej, scope, which, gold = model[k]
            if scope and (rej == 1) != (o == 'rc ' + BAD):
                ndiff += 1
                if first is None:
                    first = dict(config=describe(fields, c), impl=o, model_rejects=rej, model_clause=which)
    ck.cov['traces_validated_against_impl'] = len(cases)
    ck.cov['input_distribution'] = dict(cases=len(cases), outcomes=kinds, cells=len(fields), clauses=len(meta.get('clause_info', [])))
    ck.cov['rule'] = 'every configuration cell at its type extremes and small values; every constant of every clause +-1 on the cells it depends on (singly, and jointly for coupled cells); seeded random multi-cell; non-trivial = a cell other than the picture size is set'
    ck.sample(dict(config=describe(fields, cases[min(50, len(cases) - 1)]), impl=impl[min(50, len(cases) - 1)]))
    if okb:
        ck.obligation('correspondence(generated model = real svt_av1_enc_set_parameter return code on boundary cases)', ndiff == 0 and len(model) == len(cases),
                      '' if ndiff == 0 else '%d of %d differ; first: %s' % (ndiff, len(cases), json.dumps(first)[:500]))
    # crashes / hangs are violations of C14 (owned there); here they only mark where the model has no counterpart
    for c, o in crashes[:50]:
        d = describe(fields, c)
        key = sorted(k for k in d if k not in ('source_width', 'source_height'))
        sig = 'set_parameter_%s:%s' % (o.split()[0], '+'.join(key))
        if sig not in [v['signature'] for v in ck.violations]:
            ck.violation(sig, 'svt_av1_enc_set_parameter does not return (outcome %s) for %s' % (o, d), dict(config=d, outcome=o), True)
    from checks import c12_doc
    c12_doc.compare_with_guide(ck, fields, base, hbin, run_direct)
    # the documented domain in the CALLER's terms where the copy stage derives a cell instead of copying it: the frame rate. The theorem
    # speaks about the effective configuration (what copy_api_from_app leaves behind); which caller fields feed the validated cell is
    # checked here on the public API: numerator and denominator, when both are set, replace frame_rate (EbSvtAv1Enc.h), 1..240 fps
    ix = {n: i for i, (_, n) in enumerate([(f[0], f[1]) for f in fields])}
    if all(k_ in ix for k_ in ('frame_rate', 'frame_rate_numerator', 'frame_rate_denominator', 'source_width', 'source_height')):
        trip = [((fr, nu, de), ok_) for (fr, nu, de, ok_) in [
            (30, 0, 0, True), (60 << 16, 0, 0, True), (240 << 16, 0, 0, True), (0, 0, 0, False), (241 << 16, 0, 0, False),
            (30 << 16, 30, 1, True), (0, 30, 1, True), (0xFFFFFFFF, 30000, 1001, True), (500 << 16, 60, 1, True), (25 << 16, 240, 1, True), (0, 24000, 1001, True),
            (30 << 16, 241, 1, False), (30 << 16, 1000, 1, False), (60, 480, 1, False), (25 << 16, 482, 2, False), (30 << 16, 65535, 2, False),
            # millihertz / 1001-style time bases: numerators of 2^16 and above (a derivation that shifts the numerator by 16 bits wraps here)
            (0, 65536, 1000, True), (30 << 16, 120000, 1001, True), (0, 131072, 1000, True), (0, 240000, 1000, True), (0, 262144, 2000, True), (0, 1000000, 10000, True),
            (0, 241000, 1000, False), (30 << 16, 300000, 1001, False), (0, 480000, 1001, False), (0, 1000000, 1000, False), (0, 16000000, 1000, False)]]
        tcases = [{ix['source_width']: 640, ix['source_height']: 480, ix['frame_rate']: t[0], ix['frame_rate_numerator']: t[1], ix['frame_rate_denominator']: t[2]} for t, _ in trip]
        tout = run_impl(hbin, tcases)
        wrong = [(t, ok_, o) for (t, ok_), o in zip(trip, tout) if (o == 'rc 0') != ok_]
        ck.evals += len(trip)
        ck.obligation('caller-level frame-rate domain: numerator / denominator, when both set, decide acceptance (1..240 fps) whatever frame_rate holds (%d triples on the public API)' % len(trip), not wrong,
                      '; '.join('frame_rate=%d num=%d den=%d: documented %s, returned %s' % (t[0], t[1], t[2], 'valid' if ok_ else 'invalid', o) for t, ok_, o in wrong[:3]))
        for t, ok_, o in wrong[:2]:
            ck.violation(('rejects_documented' if ok_ else 'accepts_undocumented') + ':frame_rate_triple', 'svt_av1_enc_set_parameter %s frame_rate=%d numerator=%d denominator=%d (640x480, all else default), which the documented domain %s: numerator / denominator give %.3f fps and replace frame_rate' % (
                'rejects' if ok_ else 'accepts', t[0], t[1], t[2], 'admits' if ok_ else 'excludes', t[1] / t[2] if t[2] else 0.0), dict(config=dict(source_width=640, source_height=480, frame_rate=t[0], frame_rate_numerator=t[1], frame_rate_denominator=t[2]), returned=o), True)
    # the property against the golden documented domain, on the real code, for every boundary case
    ngold = 0
    if okb and len(model) == len(cases):
        for k, c in enumerate(cases):
            rej, scope, which, gold = model[k]
            o = impl[k]
            if not scope or not o.startswith('rc'):
                continue
            impl_rej = (o == 'rc ' + BAD)
            if impl_rej != (gold >= 0):
                ngold += 1
                d = describe(fields, c)
                key = '+'.join(sorted(k2 for k2 in d if k2 not in ('source_width', 'source_height'))) or 'size'
                sig = ('rejects_documented:' if impl_rej else 'accepts_undocumented:') + key
                if sig not in [v['signature'] for v in ck.violations] and len([v for v in ck.violations if v['signature'].startswith(('rejects_', 'accepts_'))]) < 5:
                    ck.violation(sig, 'svt_av1_enc_set_parameter %s configuration %s, which the documented domain %s (%s)' % (
                        'rejects' if impl_rej else 'accepts', d, 'admits' if impl_rej else 'excludes',
                        'code site %d' % which if impl_rej else 'DocDomain condition %d' % gold), dict(config=d, returned=o, documented_condition_violated=gold, code_site=which), True)
        ck.cov['golden_domain_disagreements'] = ngold
    br = ck.broken_obligations()
    if br and not any(v['signature'].startswith('accepts_') or v['signature'].startswith('rejects_') for v in ck.violations):
        # search for a configuration on which the acceptance differs from the golden domain, on the real API
        if True:
            ck.violation('obligation_broken', 'C12 proof/tie no longer checks: ' + '; '.join('%s (%s)' % (n, d[:200]) for n, d in br[:3]),
                         dict(broken=[dict(name=n, detail=d) for n, d in br], first_model_vs_impl_difference=first,
                              searched='%d boundary configurations on the real API against the golden domain: no difference' % len(cases)), False)
    ck.cov['explanation'] = 'verify_iff_documented proved on the model regenerated this run; model = real API on %d boundary configurations' % len(cases)
