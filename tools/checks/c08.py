"""C08: the decoder's output matches the reference. Reference available offline: the encoder's reconstruction (an independent
implementation of the decoding process; film-grain synthesis is shared code and is covered by a theorem instead).
Encodes over tools / sizes / bit depths / film grain / superres / tiles, decoded with is_16bit_pipeline 0 and 1;
decoded pictures must equal the reconstruction sample for sample and in display order."""
import os, sys, json
from lib.core import *
from lib import e2e
sys.path.insert(0, os.path.join(VERIF, 'translators'))

LEVEL = 'other'


def regenerate():
    import tr_grain
    txt, m = tr_grain.generate()
    write_if_changed(os.path.join(GEN, 'GrainGen.v'), txt)
    return m


def run(ck):
    ck.trust('Coq 8.16.1 kernel (vm_compute sweep over 65536 register values x 16 bit counts)', 'translators/cast.py + tr_grain.py', 'GrainSpec.v transcribes section 7.18.3.2 of the AV1 specification',
             'reference = encoder reconstruction (no independent AV1 decoder is available offline); harness/scn/svt_scn.c', 'gcc')
    try:
        regenerate(); ck.obligation('translate(get_random_number -> gen/GrainGen.v)', True, '')
    except Exception as e:
        ck.obligation('translate(get_random_number -> gen/GrainGen.v)', False, repr(e)[:400])
    ck.prove('Properties_C08', extra_modules=['GrainSpec'], gen_modules=['GrainGen'])
    okd, binp, stamp = e2e.driver(ck)
    if not okd:
        ck.violation('tie_broken', 'scenario driver does not build', dict(), False); return
    bases = [dict(w=192, h=128, n=8, content=2, **{'f:enc_mode': 8}), dict(w=128, h=192, n=6, content=1, **{'f:enc_mode': 8}),
             dict(w=200, h=136, n=7, content=5, **{'f:enc_mode': 6, 'f:screen_content_mode': 1}), dict(w=256, h=192, n=8, content=8, **{'f:enc_mode': 4}),
             dict(w=192, h=128, n=6, content=0, bits=10, **{'f:enc_mode': 8}), dict(w=256, h=128, n=12, content=7, **{'f:enc_mode': 8, 'f:film_grain_denoise_strength': 10}),
             dict(w=192, h=128, n=8, content=1, **{'f:enc_mode': 8, 'f:film_grain_denoise_strength': 20}), dict(w=256, h=128, n=8, content=6, **{'f:enc_mode': 8, 'f:tile_columns': 1, 'f:tile_rows': 1}),
             dict(w=256, h=192, n=8, content=2, **{'f:enc_mode': 8, 'f:superres_mode': 1, 'f:superres_denom': 12, 'f:superres_kf_denom': 12}),
             dict(w=192, h=128, n=8, content=6, bits=10, **{'f:enc_mode': 5, 'f:film_grain_denoise_strength': 8}), dict(w=136, h=264, n=5, content=2, **{'f:enc_mode': 8, 'f:tile_rows': 2}),
             # longer than the 7-bit order-hint period with real motion: references on both sides of the wrap (motion-field projection, skip mode, reference signs)
             dict(w=128, h=64, n=150, content=8, **{'f:enc_mode': 8, 'f:logical_processors': 2})]
    if ck.tier == 'thorough':
        bases += [dict(w=w, h=h, n=8, content=c, bits=b, **{'f:enc_mode': p, 'f:qp': q, 'f:film_grain_denoise_strength': g})
                  for (w, h, c, b, p, q, g) in [(320, 192, 8, 8, 2, 30, 0), (192, 320, 6, 10, 4, 45, 12), (264, 136, 7, 8, 6, 20, 30), (128, 128, 4, 8, 8, 10, 0), (384, 256, 5, 8, 3, 55, 0), (200, 200, 1, 10, 7, 63, 50), (256, 128, 7, 10, 8, 35, 15)]]
    runs = []
    for b in bases:
        for d in (0, 1):
            a = dict(b); a.update(decode=1, recon=1, dec16=d); runs.append(a)
    res = e2e.run_many(binp, stamp, runs, timeout=600, jobs=8)
    grainframes = 0; n_ok = 0
    for a, r in zip(runs, res):
        ck.case((a['w'] > a['h'], a.get('bits', 8), a.get('content'), a.get('f:enc_mode'), a.get('f:film_grain_denoise_strength', 0) > 0, a['dec16'], a.get('f:superres_mode', 0), a.get('f:tile_columns', 0) + a.get('f:tile_rows', 0) > 0))
        hh = r['hist']
        if r['outcome'] != 'ok' or len(hh['pkts']) != a['n']:
            kind = 'decode_crash' if len(hh['pkts']) == a['n'] else 'encode_failed'
            ck.violation('%s:%s' % (kind, e2e.describe(a)[:70]), '%s (%s; %d packets, %d pictures decoded): %s' % ('the decoder crashes or hangs on a valid stream' if kind == 'decode_crash' else 'encode did not complete', r['outcome'], len(hh['pkts']), len(hh['dec']), e2e.describe(a)),
                         dict(scenario=a, cmd=r.get('cmd')), True); continue
        dec = [d['hash'] for d in hh['dec']]; rec = [x['hash'] for x in sorted(hh['recon'], key=lambda x: x['pts'])]
        ck.evals += 1
        grainframes += sum(1 for f in hh['fh'] if f.get('grain'))
        if dec != rec:
            first = next((i for i, (x, y) in enumerate(zip(dec, rec)) if x != y), min(len(dec), len(rec)))
            ck.violation('decode_differs:dec16=%d:%s' % (a['dec16'], 'grain' if a.get('f:film_grain_denoise_strength') else 'nograin'), 'decoded pictures differ from the reference reconstruction from display position %d (%d decoded, %d reference) with decoder is_16bit_pipeline=%d: %s' % (first, len(dec), len(rec), a['dec16'], e2e.describe(a)),
                         dict(scenario=a, first_differing_position=first, cmd=r.get('cmd')), True)
        else:
            n_ok += 1
    ck.cov['frames_with_film_grain'] = grainframes
    ck.cov['traces_validated_against_impl'] = len(runs)
    ck.sample(dict(scenario=e2e.describe(runs[10])))
    ck.cov['rule'] = 'landscape and portrait sizes, 8/10 bit, presets 4-8 (64 and 128 superblocks), screen content, tiles, superres, film grain on moving and on static noisy sources (parameter inheritance), each decoded with both internal pipeline depths'
    br = ck.broken_obligations()
    if br and not ck.violations:
        ck.violation('obligation_broken', 'C08 proof/tie no longer checks: ' + '; '.join('%s (%s)' % (n_, d[:200]) for n_, d in br[:3]), dict(broken=[dict(name=n_, detail=d) for n_, d in br]), False)
    ck.cov['explanation'] = '%d of %d decodes equal to the reference reconstruction; %d frames with film grain (a static noisy source is included: its inter frames inherit the grain parameters of a reference frame)' % (n_ok, len(runs), grainframes)
