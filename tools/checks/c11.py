"""C11: encoding never corrupts memory, hits undefined behaviour or hangs. Full sessions (init .. EOS .. teardown) of the real encoder
under AddressSanitizer + UBSan and a watchdog over accepted configurations x contents x sizes, error packets counted as failures;
plus large incompressible pictures on the release build. Coq: the bitstream buffer size regenerated from the source covers
3 bytes per luma sample for small pictures (and provably not the raw picture for large ones: finding D24)."""
import os, sys, re, json
from lib.core import *
from lib import e2e, scn
sys.path.insert(0, os.path.join(VERIF, 'translators'))

LEVEL = 'other'


def regenerate():
    import tr_bufsize
    txt, m = tr_bufsize.generate()
    write_if_changed(os.path.join(GEN, 'BufSizeGen.v'), txt)
    return m


def classify(err):
    m = re.search(r'ERROR: AddressSanitizer: ([\w-]+)', err)
    if m:
        fr = re.findall(r'#\d+ 0x[0-9a-f]+ in (\w+) /repo/Source/Lib/[^\s:]+', err)
        return 'asan:%s:%s' % (m.group(1), fr[0] if fr else '?')
    m = re.search(r'/repo/(Source/[^\s:]+:\d+):\d+: runtime error', err)
    if m:
        return 'ubsan:%s' % m.group(1)
    return None


def run(ck):
    ck.trust('Coq 8.16.1 kernel', 'translators/cast.py + tr_bufsize.py', 'the 3-bytes-per-sample margin is a measured constant (10-bit noise at qp 0 costs about 2.5)', 'AddressSanitizer / UBSan runtime (alignment and shift-base classes off)', 'harness/scn/svt_scn.c', 'gcc')
    try:
        regenerate(); ck.obligation('translate(EB_OUTPUTSTREAMBUFFERSIZE_MACRO -> gen/BufSizeGen.v)', True, '')
    except Exception as e:
        ck.obligation('translate(EB_OUTPUTSTREAMBUFFERSIZE_MACRO -> gen/BufSizeGen.v)', False, repr(e)[:300])
    ck.prove('Properties_C11', gen_modules=['BufSizeGen'])
    oka, abin, alog = scn.build_driver('asan')
    ck.obligation('build the library and the driver with AddressSanitizer + UBSan', oka, alog[-300:])
    okd, binp, stamp = e2e.driver(ck)
    if not (oka and okd):
        ck.violation('tie_broken', 'drivers do not build', dict(), False); return
    import hashlib
    astamp = 'asan' + hashlib.sha1(open(abin, 'rb').read()).hexdigest()[:16]
    san = {'env:ASAN_OPTIONS': 'detect_leaks=0:abort_on_error=1', 'env:UBSAN_OPTIONS': 'print_stacktrace=0', 'env:SCN_KEEP_STDERR': '1'}
    S = lambda w, h, n, c, bits=8, **f: dict(w=w, h=h, n=n, content=c, bits=bits, decode=0, recon=1, **{'f:' + k: v for k, v in f.items()}, **san)
    runs = [S(128, 96, 3, 1, 10, enc_mode=8, qp=0), S(128, 96, 3, 1, 8, enc_mode=8, qp=0), S(64, 64, 3, 1, 10, enc_mode=8, qp=2), S(196, 100, 3, 1, 10, enc_mode=8, qp=4), S(128, 96, 4, 4, 8, enc_mode=8, qp=63),
            S(130, 66, 4, 0, 8, enc_mode=8), S(72, 72, 4, 3, 8, enc_mode=6), S(200, 136, 4, 5, 8, enc_mode=6, screen_content_mode=1), S(192, 128, 4, 2, 10, enc_mode=4), S(256, 128, 4, 6, 8, enc_mode=8, tile_columns=2, tile_rows=1, qp=0),
            S(192, 128, 5, 7, 8, enc_mode=8, film_grain_denoise_strength=20), S(256, 192, 4, 2, 8, enc_mode=8, superres_mode=1, superres_denom=12, superres_kf_denom=12), S(128, 192, 4, 8, 8, enc_mode=6),
            S(192, 128, 6, 2, 8, enc_mode=8, rate_control_mode=1, target_bit_rate=200000), S(192, 128, 4, 1, 8, enc_mode=8, qp=0, tile_columns=1), S(136, 72, 4, 4, 10, enc_mode=8, qp=1),
            # a first pass longer than the statistics ring (MAX_LAG_BUFFERS = 35 entries)
            S(64, 64, 40, 2, 8, enc_mode=8, rc_firstpass_stats_out=1)]
    if ck.tier == 'thorough':
        runs += [S(w, h, 4, c, b, enc_mode=p, qp=q) for (w, h, c, b, p, q) in [(320, 192, 1, 10, 8, 0), (66, 130, 2, 8, 8, 30), (384, 256, 8, 8, 2, 40), (256, 256, 4, 10, 6, 63), (200, 200, 5, 8, 3, 20), (640, 360, 1, 8, 8, 0), (128, 96, 1, 10, 8, 5), (128, 96, 1, 10, 8, 6)]]
    res = e2e.run_many(abin, astamp, runs, timeout=1200, jobs=6)
    for a, r in zip(runs, res):
        ck.case((a['bits'], a['content'], a.get('f:enc_mode'), a.get('f:qp', -1) in (0, 1, 2, 4), a['w'] % 8 == 0 and a['h'] % 8 == 0, a.get('f:tile_columns', 0) > 0)); ck.evals += 1
        err = r.get('stderr') or ''; hh = r['hist']
        desc = e2e.describe({k: v for k, v in a.items() if not k.startswith('env:')})
        sig = classify(err)
        errpk = [p for p in hh['pkts'] if p['flags'] & 0xfffffff0]
        if r['outcome'] == 'timeout':
            ck.violation('encode_hangs:%s' % desc[:60], 'the encode does not finish within the watchdog under the sanitizers: %s' % desc, dict(scenario=a, cmd=r.get('cmd')), True)
        elif sig:
            ck.violation('encode_%s' % sig, 'sanitizer report during the encode (%s): %s' % (sig, desc), dict(scenario=a, cmd=r.get('cmd'), report=err[-1500:]), True)
        elif r['outcome'] != 'ok' or len(hh['pkts']) != a['n']:
            ck.violation('encode_fails:%s' % r['outcome'].split('(')[0], 'the encode %s (%d of %d packets): %s' % (r['outcome'], len(hh['pkts']), a['n'], desc), dict(scenario=a, cmd=r.get('cmd'), stderr=err[-800:]), True)
        elif errpk:
            ck.violation('error_packet', 'the encoder returned a packet flagged as error: %s' % desc, dict(scenario=a), True)
    # large incompressible pictures on the release build (a heap overflow of megabytes crashes without a sanitizer)
    big = [dict(w=1024, h=640, n=2, content=1, bits=8, decode=0, recon=0, **{'f:enc_mode': 8, 'f:qp': 0}), dict(w=1600, h=900, n=2, content=1, bits=8, decode=0, recon=0, **{'f:enc_mode': 8, 'f:qp': 0})]
    bres = e2e.run_many(binp, stamp, big, timeout=600, jobs=2)
    for a, r in zip(big, bres):
        ck.evals += 1
        if r['outcome'] != 'ok' or len(r['hist']['pkts']) != a['n']:
            sizes = [p['size'] for p in r['hist']['pkts']]
            ck.violation('bitstream_buffer_overflow:%dx%d' % (a['w'], a['h']), 'incompressible %dx%d content at qp 0: the encoder %s (packets of %s bytes against a bitstream buffer of %d bytes)' % (a['w'], a['h'], r['outcome'], sizes, 2000000 if a['w'] * a['h'] < 1497600 else 3000000),
                         dict(scenario=a, cmd=r.get('cmd'), packet_sizes=sizes), True)
    # prediction-structure space on the release build under a watchdog: layers x logical processors (1 and 2 allocate exactly the
    # minimum pool sizes) x intra period / refresh type x overlays x stream lengths that end inside a mini-GOP
    P = lambda n, **f: dict(w=128, h=64, n=n, content=2, bits=8, decode=0, recon=0, **{'f:' + k: v for k, v in dict(enc_mode=8, **f).items()})
    struct = [P(100, hierarchical_levels=5, logical_processors=1), P(100, hierarchical_levels=5, logical_processors=2, intra_period_length=63), P(90, hierarchical_levels=4, logical_processors=1, intra_period_length=47),
              P(40, hierarchical_levels=4, intra_refresh_type=1, intra_period_length=17, enable_tpl_la=1), P(40, hierarchical_levels=3, intra_refresh_type=1, intra_period_length=17, enable_tpl_la=1),
              P(40, hierarchical_levels=4, intra_refresh_type=1, intra_period_length=17, enable_tpl_la=0), P(60, hierarchical_levels=4, enable_overlays=1), P(40, hierarchical_levels=4, enable_overlays=1),
              P(60, hierarchical_levels=3, enable_overlays=1)]
    if ck.tier == 'thorough':
        struct += [P(n, hierarchical_levels=hl, logical_processors=lp, intra_period_length=k, look_ahead_distance=lad) for hl in (3, 4, 5) for lp in (1, 2) for (n, k, lad) in ((150, -1, 0), (120, 63, 40), (130, 100, 120), (75, 31, 17))]
        struct += [P(n, hierarchical_levels=hl, intra_refresh_type=1, intra_period_length=k, enable_tpl_la=t) for hl in (4, 5) for k in (16, 32, 100) for t in (0, 1) for n in (70,)]
        struct += [P(n, hierarchical_levels=hl, enable_overlays=1, logical_processors=lp) for hl in (3, 4, 5) for lp in (0, 1) for n in (57, 60, 64, 120)]
    sres = e2e.run_many(binp, stamp, struct, timeout=75, jobs=8)
    for a, r in zip(struct, sres):
        ck.evals += 1; ck.case(('structure', a.get('f:hierarchical_levels'), a.get('f:logical_processors', 0), a.get('f:intra_refresh_type', 2), a.get('f:enable_overlays', 0), a['n'] % 16))
        if r['outcome'] == 'ok' and len(r['hist']['pkts']) == a['n']:
            continue
        cls = 'enable_overlays=1' if a.get('f:enable_overlays') else 'intra_refresh_type=1+enable_tpl_la=%d' % a.get('f:enable_tpl_la', 1) if a.get('f:intra_refresh_type') == 1 else 'hierarchical_levels=%d+logical_processors=%d' % (a.get('f:hierarchical_levels', 4), a.get('f:logical_processors', 0))
        kind = 'hang' if r['outcome'] == 'timeout' else 'crash'
        ck.violation('structure_%s:%s' % (kind, cls), 'the encode %s (%s; %d of %d packets): %s' % ('does not finish' if kind == 'hang' else 'crashes', r['outcome'], len(r['hist']['pkts']), a['n'], e2e.describe(a)), dict(scenario=a, cmd=r.get('cmd')), True)
    ck.cov['traces_validated_against_impl'] = len(runs) + len(big) + len(struct)
    ck.sample(dict(scenario=e2e.describe({k: v for k, v in runs[0].items() if not k.startswith('env:')})))
    ck.cov['rule'] = 'ASan+UBSan sessions: noise at qp 0-4 in 8 and 10 bit (the most bytes per sample), extremes at qp 63, sizes that are not multiples of 8, flat, screen content, 128 superblocks, tiles, film grain, superres, portrait, VBR, a 40-picture first pass; release build: 1024x640 and 1600x900 noise at qp 0'
    br = ck.broken_obligations()
    if br and not ck.violations:
        ck.violation('obligation_broken', 'C11 proof/tie no longer checks: ' + '; '.join('%s (%s)' % (n_, d_[:200]) for n_, d_ in br[:3]), dict(broken=[dict(name=n_, detail=d_) for n_, d_ in br]), False)
    ck.cov['explanation'] = '%d sanitizer sessions, %d large incompressible encodes, %d prediction-structure sessions under a watchdog' % (len(runs), len(big), len(struct))
