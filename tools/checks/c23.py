"""C23: system resource manager. Deque-level Coq theorems (all interleavings) + ring-level executable model run in
lockstep with the real EbSystemResourceManager.c, one critical section at a time under a seeded scheduler."""
import os, sys, re, json, subprocess
from lib.core import *
from lib import build, obs

LEVEL = 'proof'
SRC = ['Source/Lib/Common/Codec/EbThreads.c', 'Source/Lib/Common/Codec/EbMalloc.c', 'Source/Lib/Common/Codec/EbLog.c']


def regenerate():
    sys.path.insert(0, os.path.join(VERIF, 'translators'))
    import tr_locks
    txt, m = tr_locks.generate_guard()
    write_if_changed(os.path.join(GEN, 'GuardGen.v'), txt)
    return m


class Proc:
    def __init__(self, path):
        self.p = subprocess.Popen([path], stdin=subprocess.PIPE, stdout=subprocess.PIPE, stderr=subprocess.DEVNULL, text=True, bufsize=1)

    def cmd(self, line):
        try:
            self.p.stdin.write(line + '\n'); self.p.stdin.flush()
            r = self.p.stdout.readline()
        except (BrokenPipeError, OSError):
            return 'CRASH'
        return r.rstrip('\n') if r else 'CRASH'

    def close(self):
        try:
            self.p.stdin.write('END\n'); self.p.stdin.flush()
        except Exception:
            pass
        try:
            self.p.kill()
        except Exception:
            pass
        self.p.wait()


def parse_ring(t):
    hdr, slots = t.split(':')
    cap, head, tail, cnt = [int(x) for x in hdr.split(',')]
    sl = [None if x == '-' else int(x) for x in slots.split(',')] if slots != '' else []
    return dict(cap=cap, head=head, tail=tail, cnt=cnt, slots=sl)


def parse_mq(t):
    if t == 'none':
        return None
    o, p, f = t.split(';')
    fifos = []
    for ft in f[2:].split('/'):
        h, items = ft.split(':')
        sem, quit = h.split(',')
        fifos.append(dict(sem=int(sem), quit=int(quit), items=[int(x) for x in items.split(',')] if items else []))
    return dict(oq=parse_ring(o[2:]), pq=parse_ring(p[2:]), fifos=fifos)


def parse_line(l):
    m = re.match(r'R (.*?) \| E (.*) F (.*) W (.*)$', l)
    if not m:
        return None
    return dict(res=m.group(1), E=parse_mq(m.group(2)), F=parse_mq(m.group(3)),
                W=[tuple(int(x) for x in w.split(',')) for w in m.group(4).split(';')])


class Scenario:
    """Seeded scheduler over logical threads; decisions depend only on the implementation's replies."""

    def __init__(self, rng, nobj, nprod, ncons, steps, nb_ok, shut, stale=False):
        self.stale = stale
        self.rng = rng; self.nobj = nobj; self.nprod = nprod; self.ncons = ncons
        self.steps = steps; self.nb_ok = nb_ok; self.shut = shut
        self.script = []

    def run(self, impl, model):
        rng = self.rng
        viol = None; diff = None
        def do(line, ghost=None):
            nonlocal diff
            self.script.append(line)
            a = impl.cmd(line); b = model.cmd(line)
            if diff is None and a != b:
                diff = dict(step=len(self.script) - 1, cmd=line, impl=a, model=b)
            return parse_line(a) if a != 'CRASH' else None, a
        st, raw = do('NEW %d %d %d' % (self.nobj, self.nprod, self.ncons))
        if st is None:
            return dict(viol=dict(kind='crash', what='crash constructing the resource'), diff=diff)
        holder = {o: None for o in range(self.nobj)}       # None = in pool; ('p',i) ; 'posted' ; ('c',i)
        need = {o: 0 for o in range(self.nobj)}            # releases still needed to free
        enabled = {o: True for o in range(self.nobj)}
        post_seq = {}; seqno = 0; last_seq = {c: -1 for c in range(self.ncons)}
        claimedE = [0] * self.nprod; claimedF = [0] * self.ncons; tokens = [0] * self.ncons
        shut_done = False
        # thread program counters
        prod = [dict(pc='idle', obj=None) for _ in range(self.nprod)]
        cons = [dict(pc='idle', obj=None, nb=False, done=False) for _ in range(self.ncons)]
        posted_order = []; popped_by_single = []; returned = set()

        def check_state(st, where):
            # conservation: every object exactly once among queues, fifos and holders
            seen = []
            for q in (st['E'], st['F']):
                if q is None:
                    continue
                seen += [x for x in q['oq']['slots'] if x is not None]
                for f in q['fifos']:
                    seen += f['items']
            held = [o for o in holder if holder[o] not in (None, 'posted')]
            allo = sorted(seen + held)
            if allo != list(range(self.nobj)):
                return dict(kind='conservation', what='objects in queues+fifos+holders = %s, pool = 0..%d (%s)' % (allo, self.nobj - 1, where))
            for name, q, claimed in (('empty', st['E'], claimedE), ('full', st['F'], claimedF)):
                if q is None:
                    continue
                no = sum(1 for x in q['oq']['slots'] if x is not None); npq = sum(1 for x in q['pq']['slots'] if x is not None)
                if no > 0 and npq > 0:
                    return dict(kind='lost_wakeup', what='%s queue holds %d objects while %d processes wait (%s)' % (name, no, npq, where))
                for i, f in enumerate(q['fifos']):
                    exp = len(f['items']) - claimed[i] + (tokens[i] if name == 'full' else 0)
                    if f['sem'] != exp:
                        return dict(kind='semaphore', what='%s fifo %d: semaphore %d but %d unclaimed items (%s)' % (name, i, f['sem'], exp, where))
            # side condition of the ring -> deque refinement theorem (RingRefine.ring_step_refines): no circular buffer was ever
            # pushed beyond its capacity, i.e. each one is a window of cnt entries starting at head (RingRefine.wf)
            for name, q in (('empty', st['E']), ('full', st['F'])):
                if q is None:
                    continue
                for rn in ('oq', 'pq'):
                    if rn == 'pq' and self.nb_ok:
                        # svt_get_full_object_non_blocking queues its (single) consumer again on every poll: the capacity-1
                        # process ring is rewritten with the same pointer and only its counter grows. Harmless for C23 (the
                        # monitors above still apply) but outside the side condition of the refinement theorem.
                        continue
                    r = q[rn]; c = r['cap']
                    some = [k for k, x in enumerate(r['slots']) if x is not None]
                    win = sorted((r['head'] + k) % c for k in range(max(0, min(r['cnt'], c)))) if c else []
                    if not (0 <= r['cnt'] <= c and some == win and r['tail'] == ((r['head'] + r['cnt']) % c if c else 0)):
                        return dict(kind='ring_capacity', what='%s queue %s ring is not a window of its entries: cap=%d head=%d tail=%d cnt=%d occupied=%s (%s)' % (name, rn, c, r['head'], r['tail'], r['cnt'], some, where))
            # an object is in the pool structures iff it is free
            pool = [x for x in st['E']['oq']['slots'] if x is not None] + [x for f in st['E']['fifos'] for x in f['items']]
            for o in range(self.nobj):
                if (o in pool) != (holder[o] is None):
                    return dict(kind='release_exact', what='object %d %s the pool but its holder state is %s (%s)' % (o, 'in' if o in pool else 'not in', holder[o], where))
            return None

        v = check_state(st, 'after construction')
        if v:
            return dict(viol=v, diff=diff)
        nsteps = 0
        shut_at = rng.randrange(self.steps // 2, self.steps) if self.shut and self.ncons else None
        while nsteps < self.steps * 3:
            nsteps += 1
            draining = nsteps > self.steps
            if shut_at is not None and nsteps == shut_at and not shut_done:
                st, raw = do('SHUT'); shut_done = True; tokens = [1] * self.ncons
                if st is None:
                    return dict(viol=dict(kind='crash', what='crash in svt_shutdown_process'), diff=diff)
                v = check_state(st, 'after shutdown')
                if v:
                    return dict(viol=v, diff=diff)
                continue
            # surplus release: an object that went back to its pool by its last release is released once more before it is handed out
            # again (a stage releasing without a matching inc_live_count). The released-marker makes this a no-op; the pool predicates of
            # check_state (conservation: no object twice) are evaluated on the real structure afterwards.
            if self.stale and returned and rng.random() < 0.06:
                cand = sorted(o for o in returned if holder[o] is None)
                if cand:
                    o = rng.choice(cand)
                    st, raw = do('REL %d' % o)
                    if st is None:
                        return dict(viol=dict(kind='crash', what='crash in a surplus svt_release_object'), diff=diff)
                    v = check_state(st, 'after surplus release of pooled object %d (step %d)' % (o, len(self.script) - 1))
                    if v:
                        v['kind'] = 'duplicate_after_surplus_release' if v['kind'] == 'conservation' else v['kind']
                        return dict(viol=v, diff=diff)
            # choose a thread that can take a step
            cands = [('p', i) for i in range(self.nprod)] + [('c', i) for i in range(self.ncons) if not cons[i]['done']]
            rng.shuffle(cands)
            progressed = False
            for kind, i in cands:
                if kind == 'p':
                    t = prod[i]
                    if t['pc'] == 'idle':
                        if draining:
                            continue
                        # whole-API call when it cannot block, else step-wise
                        f = st['E']['fifos'][i]
                        if rng.random() < 0.3 and (f['sem'] > 0 or any(x is not None for x in st['E']['oq']['slots'])) and claimedE[i] == 0:
                            st2, raw = do('API_GE %d' % i)
                            line = 'API_GE'
                            if st2 is None:
                                return dict(viol=dict(kind='crash', what='crash in svt_get_empty_object'), diff=diff)
                            m = re.match(r'obj (-?\d+)', st2['res'])
                            o = int(m.group(1)) if m else -1
                            if o < 0 or holder.get(o) is not None:
                                return dict(viol=dict(kind='double_handout', what='get_empty returned object %d whose state is %s' % (o, holder.get(o))), diff=diff)
                            holder[o] = ('p', i); returned.discard(o); need[o] = 1; enabled[o] = True; t['obj'] = o; t['pc'] = 'have'; st = st2
                        else:
                            st, raw = do('RPE %d' % i); t['pc'] = 'wait'
                    elif t['pc'] == 'wait':
                        st2, raw = do('SWE %d' % i)
                        if st2 is None:
                            return dict(viol=dict(kind='crash', what='crash'), diff=diff)
                        st = st2
                        if st2['res'] == 'blocked':
                            continue
                        claimedE[i] += 1; t['pc'] = 'pop'
                    elif t['pc'] == 'pop':
                        st2, raw = do('POPE %d' % i)
                        if st2 is None:
                            return dict(viol=dict(kind='crash', what='crash'), diff=diff)
                        claimedE[i] -= 1
                        m = re.match(r'obj (-?\d+)', st2['res'])
                        if not m:
                            return dict(viol=dict(kind='lost_object', what='producer %d passed the semaphore but its fifo is empty (%s)' % (i, st2['res'])), diff=diff)
                        o = int(m.group(1))
                        if o < 0 or holder.get(o) is not None:
                            return dict(viol=dict(kind='double_handout', what='get_empty returned object %d whose state is %s' % (o, holder.get(o))), diff=diff)
                        holder[o] = ('p', i); returned.discard(o); need[o] = 1; enabled[o] = True; t['obj'] = o; t['pc'] = 'have'; st = st2
                    elif t['pc'] == 'have':
                        o = t['obj']; r = rng.random()
                        if r < 0.2:
                            n = rng.choice([1, 1, 2, 3]); st, raw = do('INC %d %d' % (o, n))
                            need[o] = n if need[o] == 1 and st['W'][o][0] == n else need[o] + n
                            need[o] = st['W'][o][0] if st['W'][o][0] > 0 else 1
                        elif r < 0.28:
                            st, raw = do('DIS %d' % o); enabled[o] = False
                        elif r < 0.36 and not enabled[o]:
                            st, raw = do('EN %d' % o); enabled[o] = True
                        elif self.ncons and r < 0.8 and not shut_done:
                            st, raw = do('POST %d' % o); holder[o] = 'posted'; post_seq[o] = seqno; seqno += 1; posted_order.append(o)
                            t['pc'] = 'idle'; t['obj'] = None
                        else:
                            if not enabled[o]:
                                st, raw = do('EN %d' % o); enabled[o] = True
                            else:
                                st, raw = do('REL %d' % o)
                                need[o] -= 1
                                if need[o] <= 0:
                                    holder[o] = None; t['pc'] = 'idle'; t['obj'] = None; returned.add(o)
                    progressed = True
                else:
                    t = cons[i]
                    if t['pc'] == 'idle':
                        if draining and not any(h == 'posted' for h in holder.values()) and not shut_done:
                            continue
                        if self.nb_ok and rng.random() < 0.4:
                            st, raw = do('RPF %d' % i); t['pc'] = 'peek'
                        else:
                            st, raw = do('RPF %d' % i); t['pc'] = 'wait'
                    elif t['pc'] == 'peek':
                        st, raw = do('PEEK %d' % i)
                        if st['res'] == 'bool 0':
                            st, raw = do('RPF %d' % i); t['pc'] = 'wait'
                        else:
                            t['pc'] = 'idle'
                            if shut_done:
                                t['done'] = True
                    elif t['pc'] == 'wait':
                        st2, raw = do('SWF %d' % i)
                        if st2 is None:
                            return dict(viol=dict(kind='crash', what='crash'), diff=diff)
                        st = st2
                        if st2['res'] == 'blocked':
                            continue
                        claimedF[i] += 1; t['pc'] = 'pop'
                    elif t['pc'] == 'pop':
                        st2, raw = do('POPF %d' % i)
                        if st2 is None:
                            return dict(viol=dict(kind='crash', what='crash'), diff=diff)
                        claimedF[i] -= 1; st = st2
                        if st2['res'] == 'shutdown':
                            tokens[i] -= 1
                            t['done'] = True; t['pc'] = 'idle'
                            if not shut_done:
                                return dict(viol=dict(kind='spurious_shutdown', what='get_full reported shutdown before shutdown'), diff=diff)
                        else:
                            m = re.match(r'obj (-?\d+)', st2['res'])
                            if not m:
                                return dict(viol=dict(kind='lost_object', what='consumer %d passed the semaphore but its fifo is empty (%s)' % (i, st2['res'])), diff=diff)
                            o = int(m.group(1))
                            if o < 0 or holder.get(o) != 'posted':
                                return dict(viol=dict(kind='double_handout', what='get_full returned object %d whose state is %s' % (o, holder.get(o))), diff=diff)
                            if post_seq[o] < last_seq[i]:
                                return dict(viol=dict(kind='order', what='consumer %d received object posted #%d after one posted #%d' % (i, post_seq[o], last_seq[i])), diff=diff)
                            last_seq[i] = post_seq[o]
                            if self.ncons == 1:
                                popped_by_single.append(o)
                                if posted_order[:len(popped_by_single)] != popped_by_single:
                                    return dict(viol=dict(kind='order', what='single consumer received %s, posting order %s' % (popped_by_single, posted_order)), diff=diff)
                            holder[o] = ('c', i); t['obj'] = o; t['pc'] = 'have'
                    elif t['pc'] == 'have':
                        o = t['obj']
                        if not enabled[o]:
                            st, raw = do('EN %d' % o); enabled[o] = True
                        else:
                            st, raw = do('REL %d' % o); need[o] -= 1
                            if need[o] <= 0:
                                holder[o] = None; t['pc'] = 'idle'; t['obj'] = None; returned.add(o)
                    progressed = True
                if st is None:
                    return dict(viol=dict(kind='crash', what='implementation crashed at: ' + self.script[-1]), diff=diff)
                v = check_state(st, 'after step %d: %s' % (len(self.script) - 1, self.script[-1]))
                if v:
                    return dict(viol=v, diff=diff)
                break
            if not progressed:
                # nobody can move: every thread is idle (draining) or blocked on a semaphore
                blockedP = [i for i in range(self.nprod) if prod[i]['pc'] == 'wait']
                blockedC = [i for i in range(self.ncons) if cons[i]['pc'] == 'wait' and not cons[i]['done']]
                free = [o for o in holder if holder[o] is None]; posted = [o for o in holder if holder[o] == 'posted']
                if blockedP and free:
                    return dict(viol=dict(kind='lost_wakeup', what='producers %s blocked in get_empty while objects %s are free' % (blockedP, free)), diff=diff)
                if blockedC and posted:
                    return dict(viol=dict(kind='lost_wakeup', what='consumers %s blocked in get_full while objects %s are posted and unclaimed' % (blockedC, posted)), diff=diff)
                if blockedC and shut_done:
                    return dict(viol=dict(kind='shutdown', what='consumers %s still blocked after shutdown' % blockedC), diff=diff)
                break
        return dict(viol=None, diff=diff)


def run(ck):
    ck.trust('Coq 8.16.1 kernel (coqc); no native_compute', 'translators/tr_locks.py (generate_guard): which calls / field writes count as shared accesses is a fixed list (circular-buffer, muxing-queue and FIFO operations; live_count, release_enable, quit_signal)', 'hand model SV.SRMring tied by lockstep differential run of every critical section against the real code (harness #includes EbSystemResourceManager.c)',
             'atomicity: each model step is one mutex-protected section of the C (pthread mutex / POSIX semaphore semantics trusted)', 'extraction (ExtrOcamlBasic only) + obs/c23.ml', 'gcc')
    try:
        gm = regenerate()
        ck.obligation('translate(critical sections of EbSystemResourceManager.c -> gen/GuardGen.v)', sum(f['touches'] for f in gm['functions']) >= 20 and len(gm['functions']) >= 12,
                      '%d functions, %d shared accesses (expected at least 12 / 20: the translator may have lost sight of the queue operations)' % (len(gm['functions']), sum(f['touches'] for f in gm['functions'])))
        ck.cov['critical_section_skeletons'] = {f['name']: f['touches'] for f in gm['functions']}
    except Exception as e:
        ck.obligation('translate(critical sections of EbSystemResourceManager.c -> gen/GuardGen.v)', False, repr(e)[:400])
    ck.prove('Properties_C23', extra_modules=['SRM', 'SRMorder', 'SRMring', 'Proofs_C23', 'RingRefine', 'SRMrelease', 'GuardFlow'], gen_modules=['GuardGen'])
    hd = os.path.join(CACHE, 'h', 'c23'); os.makedirs(hd, exist_ok=True)
    hbin = os.path.join(hd, 'srm_h')
    ok, log = build.cc(hbin, [os.path.join(VERIF, 'harness/unit/srm_harness.c')] + [os.path.join(REPO, s) for s in SRC], flags='-DNDEBUG -w')
    ck.obligation('build harness against /repo EbSystemResourceManager.c', ok, log[-500:])
    okb, mbin, blog = obs.build_obs('C23')
    ck.obligation('extract + build model driver', okb, blog[-300:])
    if not (ok and okb):
        ck.violation('tie_broken', 'C23 harness or model driver does not build: ' + (log + blog)[-300:], dict(log=(log + blog)[-2000:]), False)
        return
    nscn = 600 if ck.tier == 'quick' else 20000
    impl = Proc(hbin); model = Proc(mbin)
    dist = dict(scenarios=0, steps=0, by_shape={}, ops={})
    ndiff = 0; first_diff = None; nviol = 0
    import random
    for k in range(nscn):
        rng = random.Random(ck.seed * 1000003 + k)
        nobj = rng.choice([1, 1, 2, 2, 3, 4, 6]); nprod = rng.choice([1, 1, 2, 3]); ncons = rng.choice([0, 1, 1, 2, 3, 4])
        nb_ok = (ncons == 1) and rng.random() < 0.5
        sc = Scenario(rng, nobj, nprod, ncons, rng.choice([20, 60, 150]), nb_ok, rng.random() < 0.4, stale=(k % 4 == 3))
        r = sc.run(impl, model)
        dist['scenarios'] += 1; dist['steps'] += len(sc.script)
        dist['scenarios_with_surplus_releases'] = dist.get('scenarios_with_surplus_releases', 0) + (1 if k % 4 == 3 else 0)
        dist['non_blocking_polls_outside_refinement_side_condition'] = dist.get('non_blocking_polls_outside_refinement_side_condition', 0) + (1 if nb_ok else 0)
        key = '%d/%d/%d' % (nobj, nprod, ncons); dist['by_shape'][key] = dist['by_shape'].get(key, 0) + 1
        for l in sc.script:
            c = l.split()[0]; dist['ops'][c] = dist['ops'].get(c, 0) + 1
        ck.case(' '.join(sc.script), nontrivial=len(sc.script) > 5)
        if k == 0:
            ck.sample(dict(script=sc.script[:40]))
        if r['viol'] or (r['diff'] and 'CRASH' in str(r['diff'])):
            nviol += 1
            impl.close(); model.close(); impl = Proc(hbin); model = Proc(mbin)
            if nviol <= 2:
                v = r['viol'] or dict(kind='crash', what=str(r['diff']))
                ck.violation('srm_' + v['kind'], 'system resource manager violates C23 (%s): %s; scenario objects=%d producers=%d consumers=%d, %d steps' % (v['kind'], v['what'], nobj, nprod, ncons, len(sc.script)),
                             dict(scenario=dict(objects=nobj, producers=nprod, consumers=ncons, seed=ck.seed * 1000003 + k), script=sc.script, violation=v), True)
        elif r['diff']:
            ndiff += 1
            if first_diff is None:
                first_diff = dict(scenario=dict(objects=nobj, producers=nprod, consumers=ncons), script=sc.script[:r['diff']['step'] + 1], diff=r['diff'])
            impl.close(); model.close(); impl = Proc(hbin); model = Proc(mbin)
    impl.close(); model.close()
    ck.cov['traces_validated_against_impl'] = dist['scenarios']
    ck.cov['input_distribution'] = dist
    ck.cov['rule'] = 'seeded scheduler over 1-3 producer and 0-4 consumer threads, 1-6 objects, step = one critical section (or a whole API call when it cannot block); non-trivial = more than 5 steps; distinct scripts counted'
    if nviol == 0:
        ck.obligation('correspondence(ring model = real SRM after every critical section: result + full structure dump)', ndiff == 0,
                      '' if not ndiff else '%d scenarios differ; first: %s' % (ndiff, json.dumps(first_diff)[:700]))
    br = ck.broken_obligations()
    if br and nviol == 0:
        ck.violation('obligation_broken', 'C23 proof/tie no longer checks: ' + '; '.join('%s (%s)' % (n, d[:200]) for n, d in br[:3]),
                     dict(broken=[dict(name=n, detail=d) for n, d in br], first_model_vs_impl_difference=first_diff,
                          searched='%d scheduler scenarios with conservation / hand-out / order / wake-up / release / shutdown predicates evaluated on the real code: no failing input' % dist['scenarios']), False)
    ck.cov['explanation'] = 'deque-level theorems for all interleavings (Coq); ring layer refines the deque layer while no ring exceeds its capacity (RingRefine.ring_run_refines), the capacity window evaluated on every real state (object rings always; process rings except in single-consumer non-blocking polling, where the C re-queues the same consumer); ring-level model in lockstep with the real code over %d scenarios / %d steps; spec predicates evaluated on the real structure after every step' % (dist['scenarios'], dist['steps'])
