"""C18: frame quantizers within the configured QP bounds. Clamp-stage theorem + verified bounds monitor on the base_q_idx of
every coded frame (as parsed by the decoder) of real encodes with tight bounds, QP scaling on and off, VBR/CVBR/CQP."""
import os, sys, re, json
from lib.core import *
from lib import e2e, obs, streaminfo

LEVEL = 'other'


def source_table():
    t = open(os.path.join(REPO, 'Source/Lib/Encoder/Codec/EbModeDecisionProcess.h')).read()
    m = re.search(r'quantizer_to_qindex\[\]\s*=\s*\{([^}]*)\}', t)
    return [int(x) for x in re.findall(r'\d+', m.group(1))] if m else []


def model_table():
    t = open(os.path.join(COQ, 'theories', 'QPClamp.v')).read()
    m = re.search(r'Definition qidx_table : list Z :=\s*\[([^\]]*)\]', t)
    return [int(x) for x in re.findall(r'\d+', m.group(1))] if m else []


def scenarios(rng, tier):
    out = []
    base = dict(w=128, h=128, n=20, suffix=0)
    for rc in (1, 2):
        for (lo, hi) in ((20, 40), (30, 30), (10, 25)) + (((36, 36), (45, 60)) if tier == 'thorough' else ()):
            for fixed in (0, 1):
                for qp in ((55, 12) if fixed else (50,)):
                    out.append(dict(base, **{'f:enc_mode': 8, 'f:rate_control_mode': rc, 'f:min_qp_allowed': lo, 'f:max_qp_allowed': hi, 'f:qp': qp,
                                             'f:use_fixed_qindex_offsets': fixed, 'f:target_bit_rate': 200000, 'f:hierarchical_levels': 3}))
    # second pass of a two-pass VBR encode (the recode loop runs only there) with a QP range rate control wants to leave
    for (lo, hi, tbr) in ((4, 20, 100000), (30, 40, 3000000)) + (((10, 25, 50000),) if tier == 'thorough' else ()):
        out.append(dict(base, n=60, content=1, twopass=1, **{'f:enc_mode': 8, 'f:rate_control_mode': 1, 'f:min_qp_allowed': lo, 'f:max_qp_allowed': hi, 'f:target_bit_rate': tbr}))
    # per-picture QP supplied by the application (use_qp_file): values below the minimum (0), inside and at the top of the range; bounds default and tight
    out.append(dict(base, n=12, qpfly=1, **{'f:enc_mode': 8, 'f:use_qp_file': 1}))
    out.append(dict(base, n=12, qpfly=1, content=1, **{'f:enc_mode': 8, 'f:use_qp_file': 1, 'f:hierarchical_levels': 3}))
    for qp in (20, 50, 63, 1):
        out.append(dict(base, n=10, **{'f:enc_mode': 8, 'f:qp': qp, 'f:use_fixed_qindex_offsets': 1}))     # fixed QP, no scaling: exact index
        out.append(dict(base, n=10, **{'f:enc_mode': 8, 'f:qp': qp}))
    return out


def clamp_sites():
    """The write sites of base_q_idx in rate_control_kernel, normalised: every one must have one of the three forms the clamp model
    QPClamp.base_q_idx is written from (table lookup of the clamped picture_qp; the clipped `qindex` of the fixed-offset path; CLIP3
    between the table entries of min/max QP). Returns (list of problems, dict of statistics)."""
    import re
    from lib import slicer
    txt = slicer.slice_function('Source/Lib/Encoder/Codec/EbRateControlProcess.c', 'rate_control_kernel')
    if txt is None:
        return ['rate_control_kernel not found in EbRateControlProcess.c'], {}
    norm = lambda e: re.sub(r'\((?:uint8_t|int32_t|uint32_t|int)\)', '', re.sub(r'\s+', '', e))
    QMIN, QMAX = 'quantizer_to_qindex[scs_ptr->static_config.min_qp_allowed]', 'quantizer_to_qindex[scs_ptr->static_config.max_qp_allowed]'
    allowed = {'quantizer_to_qindex[pcs_ptr->picture_qp]': 'lookup', 'qindex': 'fixed_offsets',
               'CLIP3(%s,%s,(new_qindex))' % (QMIN, QMAX): 'clip_new_qindex'}
    probs = []; stats = {}
    sites = [(m.start(), norm(m.group(1))) for m in re.finditer(r'quantization_params\s*\.\s*base_q_idx\s*=(?!=)([^;]*);', txt)]
    for pos, rhs in sites:
        k = allowed.get(rhs)
        if k is None:
            probs.append('base_q_idx written with an unmodelled expression: ' + rhs[:160])
        else:
            stats[k] = stats.get(k, 0) + 1
    if not sites:
        probs.append('no write of base_q_idx found in rate_control_kernel')
    # the fixed-offset path clips its index between the table entries of the configured bounds before it is written
    m = re.search(r'\bqindex\s*=\s*CLIP3\s*\(([^;]*)\);', txt)
    if 'fixed_offsets' in stats:
        if not m or norm(m.group(1)) != '%s,%s,qindex' % (QMIN, QMAX):
            probs.append('fixed-offset path: qindex is not clipped as CLIP3(q[min_qp_allowed], q[max_qp_allowed], qindex): ' + (norm(m.group(0))[:160] if m else 'no clip found'))
        else:
            wpos = [p_ for p_, r_ in sites if r_ == 'qindex'][0]
            if not (m.start() < wpos):
                probs.append('fixed-offset path: base_q_idx = qindex precedes the clip')
    # every lookup site in a rate-controlled or on-the-fly path reads a picture_qp that was clipped to [min_qp_allowed, max_qp_allowed] by the
    # statement before it (the first lookup, CQP without scaling, is the unclipped configured qp: CqpFixed of the model)
    clip_qp = [(m_.start(), norm(m_.group(1))) for m_ in re.finditer(r'pcs_ptr->picture_qp\s*=([^;]*CLIP3[^;]*);', txt)]
    for pos, e in clip_qp:
        if not re.match(r'CLIP3\(scs_ptr->static_config\.min_qp_allowed,scs_ptr->static_config\.max_qp_allowed,', e):
            probs.append('picture_qp clipped with other bounds than (min_qp_allowed, max_qp_allowed): ' + e[:160])
    stats['picture_qp_clips'] = len(clip_qp)
    # every assignment to the picture's own QP in the kernel is the configured qp (fixed-offset path) or a clip between the configured bounds
    for m_ in re.finditer(r'(?<![A-Za-z0-9_>])pcs_ptr->picture_qp\s*=(?!=)([^;]*);', txt):
        e = norm(m_.group(1))
        if e != 'scs_ptr->static_config.qp' and not re.match(r'CLIP3\(scs_ptr->static_config\.min_qp_allowed,scs_ptr->static_config\.max_qp_allowed,', e):
            probs.append('picture_qp assigned without the clip between min_qp_allowed and max_qp_allowed: ' + e[:160])
    last_lookup = max([p_ for p_, r_ in sites if r_ == 'quantizer_to_qindex[pcs_ptr->picture_qp]'], default=None)
    if last_lookup is not None:
        before = [p_ for p_, e in clip_qp if p_ < last_lookup]
        between = txt[max(before):last_lookup] if before else None
        if between is None or between.count(';') != 1 or not norm(between).endswith(',pcs_ptr->picture_qp);frm_hdr->'):
            probs.append('the rate-controlled path no longer clips picture_qp in the statement before its table lookup')
    stats['sites'] = len(sites)
    return probs, stats


def run(ck):
    ck.trust('Coq 8.16.1 kernel (clamp-stage theorem, monitor soundness)', 'base_q_idx as parsed by libSvtAv1Dec from the produced stream', 'extraction + obs/mon.ml', 'gcc')
    ck.prove('Properties_C18', extra_modules=['Monitors', 'QPClamp'])
    st, mt = source_table(), model_table()
    ck.obligation('quantizer_to_qindex in EbModeDecisionProcess.h equals the model table (64 entries)', st == mt and len(st) == 64, 'source %s... model %s...' % (st[:4], mt[:4]))
    probs, cstats = clamp_sites()
    ck.obligation('every write of base_q_idx in rate_control_kernel has one of the forms of the clamp model (QPClamp.base_q_idx): table lookup of the clipped picture_qp, clipped qindex, CLIP3 between the table entries of the QP bounds', not probs, '; '.join(probs[:3]))
    ck.cov['clamp_sites'] = cstats
    ok, binp, stamp = e2e.driver(ck)
    okm, mbin, mlog = obs.build_obs('MON')
    ck.obligation('extract + build verified monitors', okm, mlog[-300:])
    if not (ok and okm and st):
        ck.violation('tie_broken', 'scenario driver, monitor or table not available', dict(log=mlog[-500:]), False); return
    scs = scenarios(ck.rng, ck.tier)
    res = e2e.run_many(binp, stamp, scs, timeout=120)
    lines = []; meta = []
    for a, r in zip(scs, res):
        ck.case(e2e.describe(a))
        h = r['hist']
        if r['outcome'] != 'ok' or len(h['pkts']) != a['n']:
            ck.violation('encode_%s:%s' % (r['outcome'].split('(')[0], e2e.describe({k: v for k, v in a.items() if k.startswith('f:')})), 'encode/decode did not complete (%s): %s' % (r['outcome'], e2e.describe(a)), dict(scenario=a, cmd=r.get('cmd')), True)
            continue
        qs = [f['qidx'] for f in streaminfo.coded_frames(h)]
        rc = a.get('f:rate_control_mode', 0)
        if rc:
            lo, hi = st[a['f:min_qp_allowed']], st[a['f:max_qp_allowed']]
        elif a.get('f:use_fixed_qindex_offsets'):
            lo = hi = st[a['f:qp']]           # fixed QP, no scaling, zero offsets: exactly the index of the configured QP
        else:
            lo, hi = st[1], st[63]            # CQP with scaling: the bounds the library substitutes (min 1, max 63)
        lines.append('C18 %d %d %d %s' % (lo, hi, len(qs), ' '.join(map(str, qs)))); meta.append((a, r, lo, hi, qs))
    rc_, out = sh(mbin, input='\n'.join(lines) + '\n', timeout=300)
    verdicts = [l.strip() for l in out.split('\n') if l.strip() in ('0', '1')]
    ck.obligation('monitor ran on every history', len(verdicts) == len(lines), '%d/%d' % (len(verdicts), len(lines)))
    for (a, r, lo, hi, qs), v in zip(meta, verdicts):
        if v != '1':
            bad = [q for q in qs if not lo <= q <= hi]
            ck.violation('qidx_out_of_bounds:' + e2e.describe({k: v2 for k, v2 in a.items() if k.startswith('f:') and k not in ('f:enc_mode', 'f:target_bit_rate')}),
                         'coded frames with base_q_idx %s outside [%d, %d] (qp bounds %s..%s): %s' % (bad[:6], lo, hi, a.get('f:min_qp_allowed', '-'), a.get('f:max_qp_allowed', '-'), e2e.describe(a)),
                         dict(scenario=a, qidx=qs, lo=lo, hi=hi, cmd=r.get('cmd')), True)
    ck.cov['traces_validated_against_impl'] = len(lines)
    ck.cov['rule'] = 'VBR and CVBR with tight / equal min-max QP, QP scaling on and off, configured qp inside and outside the bounds; fixed QP with and without scaling at qp 1/20/50/63'
    ck.sample(dict(scenario=e2e.describe(scs[0])))
    br = ck.broken_obligations()
    if br and not ck.violations:
        ck.violation('obligation_broken', 'C18 proof/tie no longer checks: ' + '; '.join('%s (%s)' % (n, d[:200]) for n, d in br[:3]), dict(broken=[dict(name=n, detail=d) for n, d in br]), False)
    ck.cov['explanation'] = 'bounds monitor (verified) accepted %d of %d streams; the clamp stage is proved for every value rate control may produce; which branch a frame takes is observed' % (sum(1 for v in verdicts if v == '1'), len(lines))
