"""C03: one packet per submitted picture, in order, with pts/dts and EOS. Verified monitor (Coq, extracted) on real
histories over (N, hierarchy, intra period, refresh type, pacing) + the packet-ordering mechanism theorem."""
import os, sys, json
from lib.core import *
from lib import e2e, obs

LEVEL = 'other'
FIND_PRIV = 'app_private_not_propagated'


def scenarios(rng, tier):
    out = []
    hls = (0, 1, 2, 3, 4)
    Ps = (-1, 1, 3, 5, 7, 9, 16) if tier == 'quick' else (-1, 1, 2, 3, 4, 5, 6, 7, 8, 9, 11, 15, 16, 31, 32)
    for hl in hls:
        for P in Ps:
            for rt in (1, 2):
                mg = 1 << hl
                cand = {1, 2, 3, mg - 1, mg, mg + 1, 2 * mg + 1, 13, 11}
                if P > 0:
                    cand |= {P, P + 1, P + 2, 2 * (P + 1), 2 * (P + 1) + 1, 3 * (P + 1) + 1}
                cand = sorted(x for x in cand if 1 <= x <= 40)
                ns = rng.sample(cand, min(len(cand), 2 if tier == 'quick' else 6))
                if P > 0 and 2 * (P + 1) + 1 <= 40 and (P + 1) % mg != 0:
                    ns.append(2 * (P + 1) + 1)        # stream ending exactly on a periodic intra frame that closes a short mini-GOP
                for N in sorted(set(ns)):
                    out.append(dict(w=128, h=64, n=N, decode=0, pace=(rng.choice([0, 1, 1, -1, 3]) if N <= 8 else 1), pseed=rng.randrange(1000),
                                    **{'f:enc_mode': 8, 'f:hierarchical_levels': hl, 'f:intra_period_length': P, 'f:intra_refresh_type': rt}))
    # overlay pictures (ALT-REF + overlay pairs): more coded frames than submitted pictures, so frame counts and picture numbers part ways
    # (three layers and fewer: four and five layers with overlays can hang at end of stream, a listed finding of C11)
    for hl, N in ((3, 17), (3, 25), (2, 13), (3, 9)) + (((3, 33), (2, 21), (1, 12)) if tier == 'thorough' else ()):
        out.append(dict(w=128, h=64, n=N, decode=0, pace=1, pseed=7, **{'f:enc_mode': 8, 'f:hierarchical_levels': hl, 'f:enable_overlays': 1, 'f:intra_period_length': -1}))
    out.append(dict(w=128, h=64, n=0, decode=0, **{'f:enc_mode': 8}))
    return out


def run(ck):
    ck.trust('Coq 8.16.1 kernel (monitor soundness, ordering theorem)', 'extraction (ExtrOcamlBasic only) + obs/mon.ml', 'harness/scn/svt_scn.c drives the public API; watchdog per scenario', 'gcc')
    ck.prove('Properties_C03', extra_modules=['Monitors', 'PackOrder'])
    ok, binp, stamp = e2e.driver(ck)
    okm, mbin, mlog = obs.build_obs('MON')
    ck.obligation('extract + build verified monitors', okm, mlog[-300:])
    if not (ok and okm):
        ck.violation('tie_broken', 'scenario driver or monitor does not build', dict(log=mlog[-500:]), False)
        return
    scs = scenarios(ck.rng, ck.tier)
    res = e2e.run_many(binp, stamp, scs, timeout=40)
    lines = []; idx = []
    nbad = 0; priv_missing = 0; dist = {}
    for a, r in zip(scs, res):
        N = a['n']; h = r['hist']
        ck.case(e2e.describe(a), nontrivial=N > 1)
        key = 'hl%d' % a.get('f:hierarchical_levels', 4); dist[key] = dist.get(key, 0) + 1
        if r['outcome'] != 'ok':
            nbad += 1
            if nbad <= 3:
                ck.violation('encode_%s:%s' % (r['outcome'].split('(')[0], e2e.describe({k: v for k, v in a.items() if k.startswith('f:') or k == 'n'})),
                             'submitting %d pictures then EOS did not complete (%s): %s' % (N, r['outcome'], e2e.describe(a)), dict(scenario=a, outcome=r['outcome'], cmd=r.get('cmd')), True)
            continue
        pk = h['pkts']
        lines.append('C03 %d 1000 3 1 %d %s %d %s' % (N, len(pk), ' '.join('%d %d %d' % (p['pts'], p['dts'], p['flags'] & 1) for p in pk), len(h['recon']), ' '.join(str(x['pts']) for x in h['recon'])))
        idx.append((a, r))
        if h['extra']:
            nbad += 1
            ck.violation('packet_after_eos', 'a packet was delivered after the EOS packet: %s' % e2e.describe(a), dict(scenario=a, extra=h['extra']), True)
        if pk and any(p['priv'] == 0 for p in pk):
            priv_missing += 1
    rc, out = sh(mbin, input='\n'.join(lines) + '\n', timeout=300)
    verdicts = [l.strip() for l in out.split('\n') if l.strip() in ('0', '1')]
    ck.obligation('monitor ran on every history', len(verdicts) == len(lines), '%d/%d' % (len(verdicts), len(lines)))
    for (a, r), v in zip(idx, verdicts):
        if v != '1':
            nbad += 1
            h = r['hist']
            if nbad <= 4:
                ck.violation('c03_monitor_rejects:' + e2e.describe({k: v2 for k, v2 in a.items() if k.startswith('f:') or k == 'n'}),
                             'submitted %d pictures + EOS; delivered %d packets (pts %s, EOS flags %s), %d recon pictures: %s' % (
                                 a['n'], len(h['pkts']), [p['pts'] for p in h['pkts']][:20], [p['flags'] & 1 for p in h['pkts']][:20], len(h['recon']), e2e.describe(a)),
                             dict(scenario=a, packets=h['pkts'], recon=h['recon'], cmd=r.get('cmd')), True)
    if priv_missing:
        ck.violation(FIND_PRIV, 'packets do not carry the application-private pointer of the submitted picture (p_app_private is NULL / internal metadata) in %d of %d histories' % (priv_missing, len(idx)),
                     dict(histories=priv_missing), True)
    ck.cov['traces_validated_against_impl'] = len(idx)
    ck.cov['input_distribution'] = dict(scenarios=len(scs), by_hierarchy=dist, monitor_accepted=sum(1 for v in verdicts if v == '1'))
    ck.cov['rule'] = 'stream lengths around mini-GOP and intra-period boundaries x hierarchical levels 0..4 x intra period x refresh type x pacing pattern; non-trivial = more than one picture'
    if scs:
        ck.sample(dict(scenario=e2e.describe(scs[len(scs) // 2])))
    br = ck.broken_obligations()
    if br and not ck.violations:
        ck.violation('obligation_broken', 'C03 proof/tie no longer checks: ' + '; '.join('%s (%s)' % (n, d[:200]) for n, d in br[:3]), dict(broken=[dict(name=n, detail=d) for n, d in br]), False)
    ck.cov['explanation'] = ('verified monitor check_c03 (sound and complete w.r.t. C03_spec, proved in Coq) accepted %d of %d real histories; the packet-ordering mechanism is proved for every hierarchy depth and stream length; '
                             'that the 6k lines of picture decision feed it as modelled is observed, not proved') % (sum(1 for v in verdicts if v == '1'), len(lines))
