"""C16: allocation and OS-resource failures are reported and unwound cleanly.
Coq: the EB_NEW / destructor discipline unwinds any single failure (CtorCalc.v, for every failure position).
Runs: for the real encoder (handle creation, configuration, init) and decoder (first frames), exactly the k-th allocation / thread /
mutex / semaphore creation is made to fail (link-time --wrap ledger), k chosen so that EVERY distinct creation site of the current
build fails at its first, a middle and its last occurrence (all k in the thorough tier): the failing call must return an error,
teardown must return, and no thread, heap block or synchronisation object may remain."""
import os, sys, re, json, collections
from lib.core import *
from checks import c15

LEVEL = 'other'


def run(ck):
    ck.trust('Coq 8.16.1 kernel', 'CtorCalc.v is a model of the constructor / destructor discipline, tied to the code only through the injection runs', 'harness/unit/res_harness.c: link-time --wrap of malloc / calloc / realloc / posix_memalign / pthread_create / pthread_mutex_init / sem_init; a creation site is the return address of the call', 'gcc')
    ck.prove('Properties_C16', extra_modules=['CtorCalc'])
    ok, rb, log = c15.build_res()
    ck.obligation('build the resource-ledger harness against the current library', ok, log)
    if not ok:
        ck.violation('tie_broken', 'resource harness does not build', dict(), False); return
    sp = c15.stream_file(ck)
    from concurrent.futures import ThreadPoolExecutor
    total_runs = 0
    for comp, variants in (('E', [1] if ck.tier == 'quick' else [1, 2, 8]), ('D', [4] if ck.tier == 'quick' else [0, 4])):
        for v in variants:
            rc, out = sh('RES_SITES=1 RES_STREAM=%s %s %s count %d' % (sp, rb, comp, v), timeout=300)
            L = out.strip().split('\n')
            m = re.match(r'COUNT (\d+) (\d+) (\d+)', L[0]) if L else None
            if not m:
                ck.violation('tie_broken', 'count run failed for %s variant %d: %s' % (comp, v, out[-200:]), dict(), False); continue
            marks = [int(x) for x in m.groups()]
            sites = [l.split() for l in L[1:] if l.startswith('SITE')]
            ks = set()
            for s in sites:
                ks.update([int(s[2])] if ck.tier == 'quick' else [int(s[2]), int(s[4])])
            if ck.tier == 'thorough':
                ks.update(range(1, marks[2] + 1, 997 if comp == 'E' else 3))
            else:
                ks.update(range(1, 30)); ks.update(ck.rng.randrange(1, marks[2] + 1) for _ in range(40))
            ks.add(marks[2] + 5)      # beyond the last creation: nothing fails, everything must succeed
            ks = sorted(ks)
            ck.cov['%s%d_creation_events' % (comp, v)] = marks[2]; ck.cov['%s%d_creation_sites' % (comp, v)] = len(sites)
            chunks = [ks[i::12] for i in range(12)]
            def runc(c):
                return sh('RES_STREAM=%s %s %s fail %d %s' % (sp, rb, comp, v, ' '.join(map(str, c))), timeout=3400)[1] if c else ''
            with ThreadPoolExecutor(12) as ex:
                outs = list(ex.map(runc, chunks))
            seen = set()
            lines = [l.split() for o in outs for l in o.split('\n') if l.startswith('FAIL')]
            addrs = sorted(set(x[11][6:] for x in lines if len(x) >= 13 and x[11].startswith('fsite=0x')))
            names = {}
            if addrs:
                rc_, o_ = sh('addr2line -f -e %s %s' % (rb, ' '.join(addrs)), timeout=120)
                fl = o_.split('\n')
                for i_, a_ in enumerate(addrs):
                    names[a_] = fl[2 * i_] if 2 * i_ < len(fl) else '?'
            for p in lines:
                    if len(p) < 13:
                        continue
                    k = int(p[1]); rcs = p[2:7]; live, thr, sync, st = p[7], p[8], p[9], p[12]
                    fn = names.get(p[11][6:], 'no_creation_failed')
                    total_runs += 1; ck.evals += 1
                    phase = ('handle' if k <= marks[0] else 'configure' if k <= marks[1] else 'init' if k <= marks[2] else 'none') if comp == 'E' else ('decode' if k <= marks[2] else 'none')
                    ck.case((comp, v, phase, st, fn))
                    replay = dict(how='RES_STREAM=%s %s %s fail %d %d' % (sp, rb, comp, v, k), k=k, line=' '.join(p), creating_function=fn)
                    tag = '%s:%s:%s' % (comp, phase, fn)
                    def viol(sig, what):
                        if (sig, v) in seen:
                            return
                        seen.add((sig, v))
                        ck.violation(sig, '%s variant %d: creation number %d of %d (in %s, during %s) made to fail: %s' % ('encoder' if comp == 'E' else 'decoder', v, k, marks[2], fn, phase, what), replay, True)
                    if st != 'ok':
                        viol('alloc_failure_%s:%s' % ('hangs' if st == 'timeout' else 'crashes', tag), 'the process %s (%s)' % ('does not return' if st == 'timeout' else 'crashes', st)); continue
                    if phase == 'none':
                        if any(x not in ('0',) for x in rcs):
                            viol('no_failure_but_error:%s' % comp, 'no creation failed but a call returned an error: %s' % rcs)
                        continue
                    if comp == 'E':
                        reported = (rcs[0] != '0') if phase == 'handle' else (rcs[1] != '0') if phase == 'configure' else (rcs[2] != '0')
                    else:
                        reported = True      # the decoder reports through svt_av1_dec_frame, whose result the harness does not keep per frame
                    if not reported:
                        viol('alloc_failure_not_reported:%s' % tag, 'every call returned success: %s (live=%s %s %s)' % (rcs, live, thr, sync))
                    if live != 'live=0':
                        viol('alloc_failure_leaves_memory:%s' % tag, 'after teardown %s heap blocks of the library remain' % live[5:])
                    if thr != 'threads=0':
                        viol('alloc_failure_leaves_threads:%s' % tag, 'after teardown %s library threads remain' % thr[8:])
                    if sync != 'sync=0' and reported:
                        viol('alloc_failure_leaves_sync:%s' % tag, 'after teardown the mutex / semaphore balance is %s' % sync[5:])
    ck.cov['traces_validated_against_impl'] = total_runs
    ck.sample(dict(note='see coverage: creation events and sites per component / variant'))
    ck.cov['rule'] = 'k = first occurrence of every distinct creation site + the first 30 + 40 seeded random positions (quick; first and last occurrence of every site for three encoder variants and both decoder variants + a stride in the thorough tier); every third / every position (thorough); encoder variants default and recon (quick) + 10 bit, 4 processors, screen content (thorough); decoder with 1 and 4 threads over two frames'
    br = ck.broken_obligations()
    if br and not ck.violations:
        ck.violation('obligation_broken', 'C16 proof no longer checks: ' + '; '.join('%s (%s)' % (n_, d_[:200]) for n_, d_ in br[:3]), dict(broken=[dict(name=n_, detail=d_) for n_, d_ in br]), False)
    ck.cov['explanation'] = '%d single-failure injections covering every creation site of the build' % total_runs
