"""C06: output independent of the CPU instruction set used. Coq: model of the SET_* dispatch macros with the tables regenerated
from the two rtcd files (a variant is chosen only if its flag is requested and detected; flags 0 = C reference everywhere);
tie: the pointers the real setup functions install, for many flag words; metamorphic encodes across use_cpu_flags."""
import os, sys, re, json
from lib.core import *
from lib import build, obs, e2e, meta
from checks import c27
sys.path.insert(0, os.path.join(VERIF, 'translators'))

LEVEL = 'other'

LEVELS = [('c_only', 0), ('mmx..sse2', 0x7), ('..ssse3', 0x1F), ('..sse4_1', 0x3F), ('..sse4_2', 0x7F), ('..avx', 0xFF), ('..avx2', 0x1FF), ('all', 0xFFFF)]


def regenerate():
    import tr_rtcd
    c27.regenerate()
    txt, m = tr_rtcd.generate()
    write_if_changed(os.path.join(GEN, 'DispatchGen.v'), txt)
    json.dump(m, open(os.path.join(CACHE, 'DispatchGen.meta.json'), 'w'))
    return m


def build_ptrdump(m):
    incs = []
    for f in ('Source/Lib/Common/Codec/common_dsp_rtcd.c', 'Source/Lib/Encoder/Codec/aom_dsp_rtcd.c'):
        for l in open(os.path.join(REPO, f)):
            mm = re.match(r'#include "([^"]+)"', l)
            if mm and mm.group(1) not in incs and mm.group(1) != 'cpuinfo.h':
                incs.append(mm.group(1))
    lines = ['#include <stdio.h>', '#include <stdlib.h>'] + ['#include "%s"' % i for i in incs] + ['int main(int argc, char **argv) {',
             '  unsigned long long f = strtoull(argv[1], NULL, 16);', '  setup_common_rtcd_internal((CPU_FLAGS)f); setup_rtcd_internal((CPU_FLAGS)f);',
             '  printf("A %llu\\nS", (unsigned long long)get_cpu_flags_to_use());']
    for e in m['entries']:
        alts = ([e['c']] if e['c'] else ['NULL']) + [v for _, v in e['variants']]
        expr = '-1'
        for k in reversed(range(len(alts))):
            expr = '((void *)%s == (void *)%s ? %d : %s)' % (e['ptr'], alts[k], k, expr)
        lines.append('  printf(" %%d", %s);' % expr)
    lines += ['  printf("\\n"); return 0; }']
    d = os.path.join(CACHE, 'h', 'c06'); os.makedirs(d, exist_ok=True)
    write_if_changed(os.path.join(d, 'ptrdump.c'), '\n'.join(lines) + '\n')
    ok, bd, log = build.ensure_lib('rel')
    if not ok:
        return False, None, log[-600:]
    lp = build.lib_paths('rel')
    ok, log = build.cc(os.path.join(d, 'ptrdump'), [os.path.join(d, 'ptrdump.c')],
                       flags='-w -DNDEBUG -DARCH_X86_64=1 -DEN_AVX512_SUPPORT=0 -DSAFECLIB_STR_NULL_SLACK=1 -I%s/b/rel/Source/Lib/Common/Codec -I%s/Source/Lib/Common/ASM_AVX512 -I%s/Source/Lib/Encoder/ASM_AVX512' % (CACHE, REPO, REPO), libs=lp['enc'])
    return ok, os.path.join(d, 'ptrdump'), log[-800:]


def run(ck):
    ck.trust('Coq 8.16.1 kernel (vm_compute for the two table facts)', 'translators/tr_rtcd.py (gcc -E -fdirectives-only + the SET_* macro definitions read from the same text), validated by the pointer dump',
             'translators/cast.py + tr_buffers.py for the masking of use_cpu_flags', 'extraction (ExtrOcamlBasic only) + obs/c06.ml', 'harness/scn/svt_scn.c', 'gcc')
    m = None
    try:
        m = regenerate()
        ck.obligation('translate(setup_common_rtcd_internal, setup_rtcd_internal -> gen/DispatchGen.v)', True, '%d dispatched pointers' % len(m['entries']))
    except Exception as e:
        ck.obligation('translate(setup_common_rtcd_internal, setup_rtcd_internal -> gen/DispatchGen.v)', False, repr(e)[:500])
    ck.prove('Properties_C06', extra_modules=['Dispatch', 'Proofs_C06'], gen_modules=['DispatchGen', 'BuffersGen'])
    if m:
        ok, pbin, log = build_ptrdump(m)
        ck.obligation('build pointer dump around the real setup_common_rtcd_internal / setup_rtcd_internal', ok, log)
        okb, mbin, blog = obs.build_obs('C06') if os.path.exists(os.path.join(COQ, 'theories', 'Dispatch.vo')) else (False, '', 'model did not compile')
        ck.obligation('extract + build model driver', okb, blog[-300:])
        if ok and okb:
            words = [v for _, v in LEVELS] + [0x100, 0x20, 0x10, 0x4, 0x104, 0x120, 0x30, 0x1EF, 0x1DF, 0xFF00, 0xFE00] + [ck.rng.randrange(0, 1 << 16) for _ in range(40 if ck.tier == 'quick' else 400)]
            bad = []; avail = None
            inp = ''
            reals = []
            for w in words:
                rc, out = sh('%s %x' % (pbin, w), timeout=30)
                a = [l for l in out.split('\n') if l.startswith('A ')]; s = [l for l in out.split('\n') if l.startswith('S')]
                if rc or not a or not s:
                    bad.append((w, 'pointer dump failed: ' + out[-200:])); continue
                avail = int(a[0].split()[1]); reals.append((w, s[0].split()[1:]))
                inp += 'F %d %d\n' % (w, avail)
            rc, out = sh(mbin, input=inp, timeout=120)
            models = [l.split()[1:] for l in out.split('\n') if l.startswith('S ')]
            for (w, r), mo in zip(reals, models):
                ck.case(('flags', w & avail))
                ck.evals += 1
                if r != mo:
                    k = next(i for i in range(min(len(r), len(mo))) if r[i] != mo[i]) if len(r) == len(mo) else -1
                    bad.append((w, 'entry %s (%s): real variant %s, model %s' % (k, m['entries'][k]['ptr'] if k >= 0 else '?', r[k] if k >= 0 else len(r), mo[k] if k >= 0 else len(mo))))
            okc = not bad and len(models) == len(reals) == len(words)
            ck.obligation('correspondence(model select = pointers installed by the real setup functions, %d flag words x %d pointers)' % (len(words), len(m['entries'])), okc, str(bad[:3]))
            ck.cov['cpu_flags_detected'] = avail
            ck.sample(dict(flags=hex(words[3]), chosen=dict(list(zip([e['ptr'] for e in m['entries']], reals[3][1]))[:8]) if len(reals) > 3 else {}))
    okd, binp, stamp = e2e.driver(ck)
    if not okd:
        ck.violation('tie_broken', 'scenario driver does not build', dict(), False); return
    # one width of every residue class mod 64 (multiples of 8): the tail handling of width-parameterised kernels differs per class
    bases = [dict(w=192, h=128, n=8, decode=0, content=2, **{'f:enc_mode': 8}),
             dict(w=136, h=104, n=7, decode=0, content=1, **{'f:enc_mode': 6, 'f:qp': 30}),
             dict(w=144, h=72, n=6, decode=0, content=4, **{'f:enc_mode': 8, 'f:qp': 20}),
             dict(w=152, h=128, n=6, decode=0, content=3, **{'f:enc_mode': 8}),
             dict(w=160, h=96, n=6, decode=0, content=0, bits=10, **{'f:enc_mode': 8}),
             dict(w=168, h=64, n=8, decode=0, content=0, **{'f:enc_mode': 8}),
             dict(w=104, h=64, n=8, decode=0, content=2, **{'f:enc_mode': 5}),
             dict(w=176, h=136, n=7, decode=0, content=5, **{'f:enc_mode': 8, 'f:screen_content_mode': 1}),
             dict(w=184, h=120, n=8, decode=0, content=6, **{'f:enc_mode': 4}),
             # flat full-range residuals at a large quantizer step: transform coefficients at the top of the int16 range (saturating SIMD arithmetic)
             dict(w=128, h=128, n=4, decode=0, content=9, cseed=1, **{'f:enc_mode': 8, 'f:qp': 50}), dict(w=128, h=128, n=4, decode=0, content=9, cseed=3, **{'f:enc_mode': 8, 'f:qp': 50})]
    if ck.tier == 'thorough':
        bases += [dict(w=320, h=192, n=8, decode=0, content=c, bits=b, **{'f:enc_mode': p, 'f:qp': q}) for c, b, p, q in [(1, 8, 2, 25), (2, 10, 4, 35), (4, 10, 8, 10), (6, 8, 0, 40), (5, 8, 5, 50)]]
    variants = [(n, dict(cpu='%x' % v)) for n, v in LEVELS]
    n = meta.compare(ck, binp, stamp, bases, variants, 'use_cpu_flags', timeout=400, jobs=8)
    ck.cov['traces_validated_against_impl'] = n * len(variants)
    ck.cov['rule'] = 'flag words: each cumulative level, single / gapped levels, seeded random words; encodes: 9 sizes covering every width class mod 64, contents (noise, flat, extremes, flat 0/255 squares at qp 50, gradient 10-bit, screen, mixed motion) x 8 instruction-set levels'
    br = ck.broken_obligations()
    if br and not ck.violations:
        ck.violation('obligation_broken', 'C06 proof/tie no longer checks: ' + '; '.join('%s (%s)' % (n_, d[:200]) for n_, d in br[:3]), dict(broken=[dict(name=n_, detail=d) for n_, d in br]), False)
    ck.cov['explanation'] = 'dispatch model proved (flags 0 -> C reference, a variant only with its flag requested and detected) and equal to the pointers the real setup installs; %d inputs byte-identical across %d instruction-set levels' % (n, len(variants))
