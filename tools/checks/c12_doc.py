"""C12: single-parameter probes of the ranges printed in the user guide, on the real verify path."""
import os, sys
from lib.core import VERIF
sys.path.insert(0, os.path.join(VERIF, 'translators'))


def compare_with_guide(ck, fields, base, hbin, run_direct):
    import tr_docdomain
    doc = tr_docdomain.documented()
    idx = {f[1]: i for i, f in enumerate(fields)}
    size = {idx['source_width']: 640, idx['source_height']: 480}
    probes = []
    for fld, d in doc.items():
        if fld not in idx or 'lo' not in d and 'values' not in d:
            continue
        i = idx[fld]; ty = fields[i][2]
        tlo, thi = (-(1 << (ty[1] - 1)), (1 << (ty[1] - 1)) - 1) if ty[0] else (0, (1 << ty[1]) - 1)
        if 'values' in d:
            vals = d['values']; lo, hi = min(vals), max(vals)
            inside = set(vals)
            cand = set(vals) | {lo - 1, hi + 1} | {v for v in range(lo, hi + 1)}
        else:
            lo, hi = d['lo'], d['hi']
            inside = None
            cand = {lo - 1, lo, hi, hi + 1, (lo + hi) // 2}
        if d.get('default_minus_one'):
            cand.add(-1)
        for v in sorted(cand):
            if not (tlo <= v <= thi):
                continue
            ok = (v in inside) if inside is not None else (lo <= v <= hi)
            if d.get('default_minus_one') and v == -1:
                ok = True
            c = dict(size); c[i] = v
            if fld in ('source_width', 'source_height'):
                c[i] = v
            probes.append((fld, v, ok, c, d))
    res = run_direct(hbin, [p[3] for p in probes])
    ndev = 0
    for (fld, v, ok, c, d), o in zip(probes, res):
        ck.evals += 1
        if not o.startswith('rc'):
            continue
        accepted = (o == 'rc 0')
        if accepted != ok:
            ndev += 1
            sig = 'guide_range:%s:%s:%d' % (fld, 'accepts' if accepted else 'rejects', v)
            ck.violation(sig, 'guide line %d documents %s (%s) as %s, but %s = %d (all else default, 640x480) is %s' % (
                d['line'], d['guide_name'], fld, d['raw'] + (' or -1' if d.get('default_minus_one') else ''), fld, v, 'accepted' if accepted else 'rejected'),
                dict(field=fld, value=v, guide=d, returned=o), True)
    ck.cov['guide_probes'] = len(probes); ck.cov['guide_deviations'] = ndev
