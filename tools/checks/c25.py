"""C25: range coder round trip. Coq theorems on the executable model ECrun + byte-exact correspondence with the
real writer/reader (harness/unit/ec_harness.c compiles /repo's EbBitstreamUnit.c and the decoder's reader headers)."""
import os, sys, re, json
from lib.core import *
from lib import build, obs

LEVEL = 'proof'
SRC = ['Source/Lib/Common/Codec/EbBitstreamUnit.c', 'Source/Lib/Common/Codec/EbMalloc.c', 'Source/Lib/Common/Codec/EbLog.c', 'Source/Lib/Common/Codec/EbThreads.c']


def rand_icdf(rng, n, style):
    if style == 0:      # random
        v = sorted((rng.randrange(32768) for _ in range(n - 1)), reverse=True)
    elif style == 1:    # flat-ish
        v = [max(0, 32768 - (32768 * (k + 1)) // n) for k in range(n - 1)]
        v = [min(32767, x) for x in v]
    elif style == 2:    # extremes: tiny / huge steps, equal entries (zero-probability symbols)
        pool = [0, 1, 2, 3, 4, 63, 64, 65, 127, 128, 16383, 16384, 16385, 32704, 32766, 32767]
        v = sorted((rng.choice(pool) for _ in range(n - 1)), reverse=True)
    elif style == 3:    # all equal
        x = rng.choice([0, 1, 64, 16384, 32767]); v = [x] * (n - 1)
    else:               # one dominant symbol
        k = rng.randrange(n); v = [32767 - i if i < k else max(0, 4 - (i - k)) for i in range(n - 1)]
        v = sorted(v, reverse=True)
    return v + [0]


def gen_case(rng, maxlen):
    adapt = rng.randrange(2)
    nctx = rng.randrange(1, 5)
    ctxs = []
    for _ in range(nctx):
        n = rng.choice([2, 2, 3, 4, 5, 7, 8, 9, 13, 15, 16])
        cnt = rng.choice([0, 0, 1, 14, 15, 16, 17, 30, 31, 32])
        ctxs.append((n, rand_icdf(rng, n, rng.randrange(5)), cnt))
    mode = rng.randrange(6)
    L = rng.choice([0, 1, 2, 3, 5, 8, 13, 40, maxlen // 4, maxlen])
    ops = []
    for i in range(L):
        if rng.random() < 0.15:
            f = rng.choice([1, 2, 63, 64, 65, 127, 128, 4096, 16384, 32704, 32766, 32767, rng.randrange(1, 32768)])
            ops.append((1, f, rng.randrange(2)))
        else:
            c = rng.randrange(nctx); n = ctxs[c][0]
            if mode == 0: s = rng.randrange(n)
            elif mode == 1: s = n - 1            # always the last symbol: drives low upward, carries
            elif mode == 2: s = 0                # first-symbol branch (fl = 32768)
            elif mode == 3: s = rng.choice([0, n - 1])
            elif mode == 4: s = min(n - 1, int(rng.expovariate(1.0)))
            else: s = (i * 7) % n
            ops.append((0, c, s))
    return adapt, ctxs, ops


def case_line(case):
    adapt, ctxs, ops = case
    parts = [str(adapt), str(len(ctxs))]
    for n, icdf, cnt in ctxs:
        parts += [str(n)] + [str(x) for x in icdf] + [str(cnt)]
    parts.append(str(len(ops)))
    for k, a, b in ops:
        parts += [str(k), str(a), str(b)]
    return ' '.join(parts)


def parse_out(line):
    f = [x.strip().split() for x in line.split('|')]
    d = {}
    for seg in f:
        if seg:
            d[seg[0]] = [int(x) for x in seg[1:]]
    return d


def judge_impl(case, o):
    """The property on the implementation's own results."""
    adapt, ctxs, ops = case
    want = [b for (k, a, b) in ops]
    if o.get('D') != want:
        return 'reader did not recover the written sequence'
    if o.get('W') != o.get('R'):
        return 'reader tables differ from writer tables'
    tell = o['T'][-1] if o.get('T') else 1
    if len(o.get('B', [])) * 8 < tell and False:
        return 'never'
    if (tell + 7) // 8 < len(o.get('B', [])):
        return 'bit-count estimate under-reports the emitted bytes'
    return None


def run_cases(binp, cases, timeout=2400):
    inp = '\n'.join(case_line(c) for c in cases) + '\n'
    rc, out = sh(binp, input=inp, timeout=timeout)
    res = []
    for l in out.split('\n'):
        if l.startswith('T'):
            try:
                res.append(parse_out(l))
            except Exception:
                break            # a line cut short: the process died while writing it
    return rc, res


def shrink(hbin, case, pred):
    adapt, ctxs, ops = case
    ops = list(ops)
    chunk = max(1, len(ops) // 2)
    while chunk >= 1:
        i = 0
        while i < len(ops):
            cand = ops[:i] + ops[i + chunk:]
            rc, res = run_cases(hbin, [(adapt, ctxs, cand)], timeout=60)
            if res and pred((adapt, ctxs, cand), res[0]):
                ops = cand
            else:
                i += chunk
        chunk //= 2
    return (adapt, ctxs, ops)


def run(ck):
    ck.trust('Coq 8.16.1 kernel (coqc); no native_compute', 'hand model SV.ECrun tied by byte-exact differential run against the real writer/reader',
             'extraction (ExtrOcamlBasic only) + obs/zconv.ml + obs/c25.ml', 'gcc; harness/unit/ec_harness.c')
    ck.prove('Properties_C25', extra_modules=['Proofs_C25', 'ECrun', 'ECideal', 'ECcdf', 'ECdone', 'ECbits', 'ECadapt'])
    hd = os.path.join(CACHE, 'h', 'c25'); os.makedirs(hd, exist_ok=True)
    hbin = os.path.join(hd, 'ec_h')
    ok, log = build.cc(hbin, [os.path.join(VERIF, 'harness/unit/ec_harness.c')] + [os.path.join(REPO, s) for s in SRC], flags='-DNDEBUG -w')
    ck.obligation('build harness against /repo range coder sources', ok, log[-500:])
    okb, mbin, blog = obs.build_obs('C25')
    ck.obligation('extract + build model driver', okb, blog[-300:])
    if not (ok and okb):
        ck.violation('tie_broken', 'C25 harness or model driver does not build: ' + (log + blog)[-300:], dict(log=(log + blog)[-2000:]), False)
        return
    ncases = 1500 if ck.tier == 'quick' else 5000
    maxlen = 600 if ck.tier == 'quick' else 800   # the model keeps the ideal (unbounded) low: quadratic in the op count
    corpus = []
    cdir = os.path.join(VERIF, 'corpus', 'C25')
    if os.path.isdir(cdir):
        for fn in sorted(os.listdir(cdir)):
            corpus.append(tuple(json.load(open(os.path.join(cdir, fn)))['case']))
    cases = [(c[0], [tuple(x) for x in c[1]], [tuple(x) for x in c[2]]) for c in corpus]
    cases += [gen_case(ck.rng, maxlen) for _ in range(ncases)]
    # exhaustive small space: all sequences of length <= L over one 3-symbol extreme CDF and one 2-symbol CDF
    import itertools
    small = []
    Ls = 7 if ck.tier == 'quick' else 9
    for icdf in ([32767, 16384, 0], [16384, 4, 0], [4, 0], [32767, 0]):
        n = len(icdf)
        for L in range(0, Ls + 1):
            for seq in itertools.product(range(n), repeat=L):
                small.append((0, [(n, icdf, 0)], [(0, 0, s) for s in seq]))
    cases += small
    # a few long ones
    for _ in range(3 if ck.tier == 'quick' else 8):
        cases.append(gen_case(ck.rng, 20000))
    rc1, impl = run_cases(hbin, cases)
    rc2, model = run_cases(mbin, cases)
    if rc1 != 0 and len(impl) < len(cases):
        # the real coder died on the case after the last complete answer: that case is the failing input
        pre = cases[:len(impl) + 1]
        alone = None
        for c_ in reversed(pre[-8:]):
            rcx, resx = run_cases(hbin, [c_], timeout=120)
            if rcx != 0:
                alone = c_; break
        if alone is not None:
            ck.violation('coder_crashes', 'the real range coder does not survive a valid symbol sequence (the harness dies on this case alone): %d contexts, %d operations' % (len(alone[1]), len(alone[2])),
                         dict(case=dict(adapt=alone[0], contexts=alone[1], ops=alone[2][:2000], n_ops=len(alone[2])), case_line=case_line(alone)[:20000]), True)
        else:
            ck.violation('coder_crashes_in_sequence', 'the real range coder dies (harness exit %d) while coding case %d of a sequence of valid cases; each of the last cases passes alone, the sequence is the replay' % (rc1, len(impl)),
                         dict(n_cases=len(pre), case_lines=[case_line(c_)[:4000] for c_ in pre[-8:]]), True)
    ck.obligation('harness and model driver ran on all cases', rc1 == 0 and rc2 == 0 and len(impl) == len(cases) == len(model), 'rc=%d/%d n=%d/%d/%d' % (rc1, rc2, len(impl), len(model), len(cases)))
    stats = dict(adapt=0, ops=0, bools=0, lens={}, alph={})
    nviol = 0; ndiff = 0; first_diff = None; nvalid = 0
    for i, case in enumerate(cases):
        if i >= len(impl) or i >= len(model):
            break
        adapt, ctxs, ops = case
        stats['adapt'] += adapt; stats['ops'] += len(ops); stats['bools'] += sum(1 for o in ops if o[0] == 1)
        b = min(len(ops), 10 ** len(str(len(ops))) // 10 * 1 if len(ops) else 0); stats['lens'][str(len(str(len(ops))))] = stats['lens'].get(str(len(str(len(ops)))), 0) + 1
        for n, _, _ in ctxs:
            stats['alph'][str(n)] = stats['alph'].get(str(n), 0) + 1
        ck.case(case_line(case)[:200] + str(hash(case_line(case))), nontrivial=len(ops) > 0)
        nvalid += model[i].get('V', [0])[0]
        why = judge_impl(case, impl[i])
        if why:
            nviol += 1
            if nviol <= 2:
                sm = shrink(hbin, case, lambda c, o: judge_impl(c, o) is not None)
                rcx, res = run_cases(hbin, [sm], timeout=60)
                ck.violation('roundtrip_fails', 'real range coder violates the round trip: %s (shrunk to %d ops)' % (why, len(sm[2])),
                             dict(case=dict(adapt=sm[0], contexts=sm[1], ops=sm[2]), case_line=case_line(sm), impl_output=res[0] if res else None, why=why), True)
        else:
            m = dict(model[i]); m.pop('V', None)
            if m != impl[i]:
                ndiff += 1
                if first_diff is None:
                    first_diff = (case, impl[i], m)
    ck.cov['traces_validated_against_impl'] = len(cases)
    ck.cov['input_distribution'] = dict(cases=len(cases), corpus=len(corpus), exhaustive_small=len(small), adaptive_cases=stats['adapt'], total_ops=stats['ops'], bool_ops=stats['bools'],
                                        cases_by_oplist_digits=stats['lens'], contexts_by_alphabet=stats['alph'], model_hypothesis_ops_ok_true=nvalid)
    ck.cov['rule'] = 'seeded op lists (alphabets 2..16, 5 CDF styles incl. extremes/equal entries, counters at 15/16/31/32, symbol policies first/last/random, booleans) + all sequences up to length %d over 4 extreme CDFs; distinct = distinct non-empty case lines' % Ls
    ck.sample(dict(case_line=case_line(cases[len(corpus)])[:300], impl=str(impl[len(corpus)])[:300]))
    ck.obligation('hypothesis ops_ok holds on every generated case (decided by the extracted ops_okb)', nvalid == len(model), '%d/%d' % (nvalid, len(model)))
    if nviol == 0:
        ck.obligation('correspondence(model bytes/tell/symbols/tables = real writer+reader)', ndiff == 0, '' if ndiff == 0 else '%d cases differ; first: %s' % (ndiff, str(first_diff)[:600]))
    br = ck.broken_obligations()
    if br and nviol == 0:
        rep = dict(broken=[dict(name=n, detail=d) for n, d in br], searched='%d cases on the real coder: every one round-trips' % len(cases))
        if first_diff:
            sm = shrink(hbin, first_diff[0], lambda c, o: (lambda mm: (mm and {k: v for k, v in mm[0].items() if k != 'V'} != o))(run_cases(mbin, [c], timeout=60)[1]))
            rep['model_vs_impl_case'] = case_line(sm)
        ck.violation('obligation_broken', 'C25 proof/tie no longer checks: ' + '; '.join('%s (%s)' % (n, d[:160]) for n, d in br[:3]), rep, False)
    ck.cov['explanation'] = 'ec_roundtrip / tell_covers_bytes proved for the model; model = real coder byte for byte on %d cases' % len(cases)
