"""C02: every packet is one well-formed temporal unit. Verified OBU / sequence-header parser (Coq, extracted) on every
packet of real encodes (sizes chosen to hit byte-boundary cases of the sequence header and multi-byte leb128 sizes)."""
import os, sys, json
from lib.core import *
from lib import e2e, obs, scn, build, slicer

LEVEL = 'other'


def scenarios(rng, tier):
    out = []
    sizes = [(128, 96), (176, 144), (256, 256), (512, 128), (192, 128), (320, 192), (136, 72), (130, 66)]
    if tier == 'thorough':
        sizes += [(640, 360), (352, 288), (1024, 64), (264, 200), (720, 480)]
    for i, (w, h) in enumerate(sizes):
        out.append(dict(w=w, h=h, n=12, decode=0, **{'f:enc_mode': 8, 'f:intra_period_length': 5, 'f:hierarchical_levels': [3, 2, 4, 1][i % 4]}))
    # large packets (multi-byte size fields), tiles, intra-only / open GOP, low delay hierarchy, screen content, 10 bit
    out.append(dict(w=256, h=256, n=5, decode=0, content=1, **{'f:enc_mode': 8, 'f:qp': 10}))
    out.append(dict(w=512, h=256, n=6, decode=0, content=1, **{'f:enc_mode': 8, 'f:qp': 4, 'f:tile_columns': 1, 'f:tile_rows': 1}))
    out.append(dict(w=192, h=128, n=14, decode=0, **{'f:enc_mode': 8, 'f:intra_period_length': 3, 'f:intra_refresh_type': 1, 'f:hierarchical_levels': 2}))
    out.append(dict(w=192, h=128, n=9, decode=0, **{'f:enc_mode': 8, 'f:hierarchical_levels': 0, 'f:intra_period_length': 2}))
    out.append(dict(w=192, h=128, n=9, decode=0, content=5, **{'f:enc_mode': 8, 'f:screen_content_mode': 1}))
    out.append(dict(w=192, h=128, n=7, decode=0, bits=10, **{'f:enc_mode': 8}))
    out.append(dict(w=192, h=128, n=20, decode=0, **{'f:enc_mode': 8, 'f:rate_control_mode': 1, 'f:target_bit_rate': 300000}))
    out.append(dict(w=192, h=128, n=9, decode=0, **{'f:enc_mode': 8, 'f:film_grain_denoise_strength': 8}))
    out.append(dict(w=192, h=128, n=9, decode=0, **{'f:enc_mode': 8, 'f:superres_mode': 1, 'f:superres_denom': 12, 'f:superres_kf_denom': 12}))
    # frame OBUs whose payload is exactly 127 / 128 bytes: the one-byte / two-byte boundary of the leb128 size field (clips found by search;
    # the run records how many boundary-sized OBUs it saw)
    for (c, qp, hl) in ((2, 40, 4), (2, 36, 3), (0, 46, 4)):
        out.append(dict(w=64, h=64, n=40, decode=0, content=c, **{'f:enc_mode': 8, 'f:qp': qp, 'f:hierarchical_levels': hl}))
    if tier == 'thorough':
        for p in (4, 6):
            out.append(dict(w=192, h=128, n=10, decode=0, **{'f:enc_mode': p}))
        for (c, qp, hl) in ((8, 36, 4), (8, 50, 4), (0, 36, 4), (0, 44, 3), (1, 52, 3)):
            out.append(dict(w=64, h=64, n=40, decode=0, content=c, **{'f:enc_mode': 8, 'f:qp': qp, 'f:hierarchical_levels': hl}))
    return out


def boundary_obus(pkts_path):
    """Number of OBUs in a .pkts file whose size field holds 127 / 128 / 16383 / 16384 (coverage statistic only)."""
    import struct
    cnt = {}
    try:
        d = open(pkts_path, 'rb').read()
    except OSError:
        return cnt
    i = 0
    while i + 12 <= len(d):
        n = struct.unpack('<I', d[i:i + 4])[0]; p = d[i + 12:i + 12 + n]; i += 12 + n
        j = 0
        while j < len(p):
            h = p[j]; k = j + 1 + ((h >> 2) & 1)
            if not (h >> 1) & 1:
                break
            sz = 0; sh = 0
            while k < len(p):
                b = p[k]; sz |= (b & 127) << sh; sh += 7; k += 1
                if not b & 128:
                    break
            if sz in (127, 128, 16383, 16384):
                cnt[sz] = cnt.get(sz, 0) + 1
            j = k + sz
    return cnt


LEB_SRC = 'Source/Lib/Encoder/Codec/EbEntropyCoding.c'
LEB_DEC = 'Source/Lib/Decoder/Codec/EbDecBitstream.c'


def leb_correspondence(ck):
    """The C-level LEB128 models (coq/theories/Leb128C.v) against the real routines: the text of svt_aom_uleb_size_in_bytes /
    svt_aom_uleb_encode sliced from the working tree and the decoder's EbDecBitstream.c, on boundary + random values and byte strings."""
    import re
    hd = os.path.join(CACHE, 'h', 'c02l'); os.makedirs(hd, exist_ok=True)
    parts = []
    src = open(os.path.join(REPO, LEB_SRC), errors='replace').read()
    for cst in ('k_maximum_leb_128_size', 'k_maximum_leb_128_value'):
        m = re.search(r'^[^\n;{}]*\b%s\b\s*=[^;]*;' % cst, src, flags=re.M)
        if m:
            parts.append(m.group(0))
    for fn in ('svt_aom_uleb_size_in_bytes', 'svt_aom_uleb_encode', 'write_uleb_obu_size', 'obu_mem_move'):
        t = slicer.slice_function(LEB_SRC, fn)
        if t is None:
            ck.obligation('slice %s from %s' % (fn, LEB_SRC), False, 'definition not found')
            return
        parts.append(t)
    write_if_changed(os.path.join(hd, 'leb_sliced.inc'), '\n'.join(parts) + '\n')
    ok, log = build.cc(os.path.join(hd, 'leb'), [os.path.join(VERIF, 'harness', 'unit', 'leb_harness.c'), os.path.join(REPO, LEB_DEC)], flags='-I%s -w' % hd)
    ck.obligation('compile sliced svt_aom_uleb_* + EbDecBitstream.c (LEB128 harness)', ok, log[-400:])
    okm, mbin, mlog = obs.build_obs('C02L')
    ck.obligation('extract Leb128C + build driver', okm, mlog[-300:])
    if not (ok and okm):
        return
    nrnd = 3000 if ck.tier == 'quick' else 60000
    tot = dict(n=0, bad=0, size=0, encode=0, rejected=0, decode=0, decode_len8=0, obu=0)
    for seed in ([ck.seed, ck.seed + 101] if ck.tier == 'quick' else [ck.seed + 101 * i for i in range(6)]):
        rc, out = sh('%s %d %d > %s/cases.txt && %s < %s/cases.txt' % (os.path.join(hd, 'leb'), seed, nrnd, hd, mbin, hd), timeout=900)
        m = re.search(r'DONE n=(\d+) bad=(\d+) size=(\d+) encode=(\d+) rejected=(\d+) decode=(\d+) decode_len8=(\d+) obu=(\d+)', out)
        if not m:
            ck.obligation('LEB128 correspondence run completed (seed %d)' % seed, False, out[-300:])
            continue
        for k_, v_ in zip(('n', 'bad', 'size', 'encode', 'rejected', 'decode', 'decode_len8', 'obu'), m.groups()):
            tot[k_] += int(v_)
        flags = [l for l in open(os.path.join(hd, 'cases.txt')) if 'OVERWRITE' in l or 'ON_ERROR' in l]
        diffs = [l for l in out.split('\n') if l.startswith('DIFF')]
        if flags:
            ck.violation('leb128_write_outside_coded_bytes', 'svt_aom_uleb_encode writes outside the coded bytes / on a refused value: ' + flags[0].strip()[:200],
                         dict(harness='harness/unit/leb_harness.c', seed=seed, line=flags[0].strip(), sliced=os.path.join(hd, 'leb_sliced.inc')), True)
        if diffs:
            # which property does the real code break on this input?  (round trip / minimal size / domain) decided on the C results alone
            ck.violation('leb128_model_differs', 'the library\'s LEB128 routine and its C-level model (Leb128C.v: c02_c_leb128_roundtrip, c02_c_uleb_encode_accepts_iff, c02_c_uleb_size_minimal, c02_c_finish_obu_layout) differ: ' + diffs[0][:300],
                         dict(harness='harness/unit/leb_harness.c', seed=seed, nrnd=nrnd, first_differences=diffs[:10], sliced=os.path.join(hd, 'leb_sliced.inc'),
                              replay='%s %d %d | %s' % (os.path.join(hd, 'leb'), seed, nrnd, mbin)), True)
    ck.obligation('LEB128: real routines == C-level model on every case', tot['bad'] == 0 and tot['n'] > 0, 'differences: %d of %d' % (tot['bad'], tot['n']))
    ck.evals += tot['n']
    ck.cov['leb128_correspondence'] = dict(cases=tot['n'], size_calls=tot['size'], encode_calls=tot['encode'], encode_refused=tot['rejected'], decode_calls=tot['decode'],
                                           decode_stopped_at_8_bytes=tot['decode_len8'], obu_closings=tot['obu'], generator='size-class boundaries 128^k-1,128^k,128^k+1 for k=0..9 x space 0..11; 2^56-1, 2^56, 2^63, 2^64-1, space SIZE_MAX; random values of every bit length 0..64; decoder on encoder output + random tail at byte offsets 0..7 and on non-encoder byte strings (unterminated runs, over-long zero encodings); obu_mem_move + write_uleb_obu_size on random buffers with payloads of 0,1,2,126..129,255,256,16382..16385 and random sizes below 20000, headers of 1 and 2 bytes')


def run(ck):
    ck.trust('Coq 8.16.1 kernel (parser soundness lemmas)', 'the parser is a transcription of the AV1 syntax tables for the OBU header, sequence header and frame-header start (no third-party parser in the sandbox to cross-check it; the library\'s own decoder parses the same streams in C01/C19)',
             'extraction (ExtrOcamlBasic only) + obs/c02.ml', 'harness/scn/svt_scn.c', 'gcc')
    ck.prove('Properties_C02', extra_modules=['Proofs_C02', 'OBU', 'Leb128', 'Leb128C'])
    leb_correspondence(ck)
    ok, binp, stamp = e2e.driver(ck)
    okm, mbin, mlog = obs.build_obs('C02')
    ck.obligation('extract + build verified parser', okm, mlog[-300:])
    if not (ok and okm):
        ck.violation('tie_broken', 'scenario driver or parser does not build', dict(log=mlog[-500:]), False)
        return
    scs = scenarios(ck.rng, ck.tier)
    res = e2e.run_many(binp, stamp, scs, timeout=120)
    npk = 0; nbad = 0; sizes = {}; nhdr = 0; bnd = {}
    for a, r in zip(scs, res):
        ck.case(e2e.describe(a))
        if r['outcome'] != 'ok' or not r['hist']['hdr']:
            ck.violation('encode_%s:%s' % (r['outcome'].split('(')[0], e2e.describe({k: v for k, v in a.items() if k != 'decode'})), 'encode did not complete (%s): %s' % (r['outcome'], e2e.describe(a)), dict(scenario=a, cmd=r.get('cmd')), True)
            continue
        pk = scn.read_packets(r['prefix'] + '.pkts')
        for k_, v_ in boundary_obus(r['prefix'] + '.pkts').items():
            bnd[str(k_)] = bnd.get(str(k_), 0) + v_
        # reference = the sequence header OBU of the first packet (TD is 2 bytes); the one returned by
        # svt_av1_enc_stream_header is compared separately below
        first = pk[0][1] if pk else b''
        inband = first[2:2 + 2 + first[3]].hex() if len(first) > 4 and first[2] == 0x0a else ''
        if inband and inband != r['hist']['hdr']['bytes']:
            nhdr += 1
            if nhdr == 1:
                ck.violation('stream_header_differs_from_inband', 'svt_av1_enc_stream_header returns sequence header %s but the packets carry %s (%s)' % (r['hist']['hdr']['bytes'], inband, e2e.describe(a)),
                             dict(scenario=a, stream_header=r['hist']['hdr']['bytes'], inband=inband, cmd=r.get('cmd')), True)
        inp = 'R %s\n' % (inband or r['hist']['hdr']['bytes']) + ''.join('P %d %s\n' % (1 if i == 0 else 0, b.hex()) for i, (pts, b) in enumerate(pk))
        rc, out = sh(mbin, input=inp, timeout=300)
        lines = [l for l in out.split('\n') if l and (l[0] in '01' or l in ('ok', 'badref'))]
        if len(lines) != len(pk) + 1:
            ck.obligation('parser ran on every packet', False, '%d/%d for %s' % (len(lines), len(pk) + 1, e2e.describe(a)))
            continue
        for i, ((pts, b), v) in enumerate(zip(pk, lines[1:])):
            npk += 1
            k = '1B' if len(b) < 128 + 3 else ('2B' if len(b) < 16384 else '3B+')
            sizes[k] = sizes.get(k, 0) + 1
            if not v.startswith('1'):
                nbad += 1
                if nbad <= 3:
                    ck.violation('malformed_tu:' + v[2:40].replace(' ', '_'), 'packet %d (pts %d, %d bytes) of "%s" is not a well-formed temporal unit: %s' % (i, pts, len(b), e2e.describe(a), v[2:]),
                                 dict(scenario=a, packet_index=i, packet_hex=b.hex()[:4000], stream_header=r['hist']['hdr']['bytes'], reason=v[2:], cmd=r.get('cmd')), True)
    ck.cov['traces_validated_against_impl'] = npk
    ck.cov['input_distribution'] = dict(scenarios=len(scs), packets=npk, packets_by_size_field_length=sizes, obus_with_size_field_at_leb128_boundary=bnd)
    ck.cov['rule'] = 'picture sizes whose sequence header ends on / off a byte boundary, key frames every 6 frames, hierarchy depths 0..4, tiles, low QP noise (multi-byte size fields), open GOP, screen content, 10 bit, VBR, film grain, superres; every packet parsed'
    ck.sample(dict(scenario=e2e.describe(scs[1])))
    br = ck.broken_obligations()
    if br and not ck.violations:
        ck.violation('obligation_broken', 'C02 proof/tie no longer checks: ' + '; '.join('%s (%s)' % (n, d[:200]) for n, d in br[:3]), dict(broken=[dict(name=n, detail=d) for n, d in br]), False)
    ck.cov['explanation'] = 'verified parser accepted %d of %d real packets; acceptance implies exact OBU framing, one temporal delimiter first, one displayed frame, sequence header fully parsed and byte-identical to the stream header' % (npk - nbad, npk)
