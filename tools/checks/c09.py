"""C09: multi-threaded decoding is memory safe and gives the single-thread result.
Coq: the tile reconstruction wavefront (DecWave.v) for every worker count and interleaving. Runs: the same streams decoded with
1, 2, 3, 4, 8 threads and under seeded schedule perturbation (hook H1); pictures must equal the single-thread pictures, the
decoder must return and tear down; one family is repeated under AddressSanitizer."""
import os, sys, json
from lib.core import *
from lib import e2e, scn

LEVEL = 'other'


def run(ck):
    ck.trust('Coq 8.16.1 kernel', 'DecWave.v transcribes decode_tile / decode_tile_row of EbDecProcessFrame.c (claim under the tile mutex, spin waits); it is tied to the code only through the runs',
             'hook H1 (SVT_VERIF_SCHED) perturbs the schedule at mutex/semaphore operations only, not inside the spin waits', 'harness/scn/svt_scn.c', 'gcc / ASan+UBSan runtime')
    ck.prove('Properties_C09', extra_modules=['DecWave'])
    okd, binp, stamp = e2e.driver(ck)
    if not okd:
        ck.violation('tie_broken', 'scenario driver does not build', dict(), False); return
    nolr = {'f:enable_restoration_filtering': 0}
    bases = [dict(w=256, h=192, n=8, content=2, **{'f:enc_mode': 8}, **nolr), dict(w=320, h=256, n=6, content=8, **{'f:enc_mode': 4, 'f:enable_tpl_la': 0}, **nolr),
             dict(w=128, h=128, n=6, content=6, **{'f:enc_mode': 6}, **nolr), dict(w=384, h=256, n=6, content=2, **{'f:enc_mode': 6, 'f:tile_columns': 1, 'f:tile_rows': 2}, **nolr),
             dict(w=192, h=128, n=6, content=0, bits=10, **{'f:enc_mode': 8}, **nolr), dict(w=192, h=256, n=6, content=1, **{'f:enc_mode': 8, 'f:film_grain_denoise_strength': 12}, **nolr),
             # pictures of exactly one superblock row (64 and 128 superblocks) with motion that leaves the picture: row-pipelined stages
             # (padding after restoration, motion-field rows) have their single-row special cases here
             dict(w=192, h=64, n=8, content=8, **{'f:enc_mode': 8}, **nolr), dict(w=384, h=128, n=6, content=8, **{'f:enc_mode': 4, 'f:enable_tpl_la': 0}, **nolr),
             dict(w=256, h=192, n=8, content=6, **{'f:enc_mode': 6})]      # the last one has loop restoration on
    if ck.tier == 'thorough':
        bases += [dict(w=w, h=h, n=8, content=c, **{'f:enc_mode': p, 'f:tile_columns': tc, 'f:tile_rows': tr}, **nolr) for (w, h, c, p, tc, tr) in [(640, 384, 2, 8, 2, 1), (256, 512, 6, 5, 0, 2), (448, 320, 8, 3, 1, 1), (192, 64, 1, 8, 0, 0)]]
    variants = [('1', dict(dec_threads=1)), ('2', dict(dec_threads=2)), ('3', dict(dec_threads=3)), ('4', dict(dec_threads=4)), ('8', dict(dec_threads=8)),
                ('4 sched 3', {'dec_threads': 4, 'env:SVT_VERIF_SCHED': '3'}), ('3 sched 7', {'dec_threads': 3, 'env:SVT_VERIF_SCHED': '7'})]
    if ck.tier == 'thorough':
        variants += [('16', dict(dec_threads=16)), ('5', dict(dec_threads=5)), ('8 sched 11', {'dec_threads': 8, 'env:SVT_VERIF_SCHED': '11'})]
    runs = []
    for b in bases:
        for lab, ov in variants:
            a = dict(b); a.update(ov); a.update(decode=1, recon=0); runs.append((b, lab, a))
    # the decoder's workers spin while they wait: keep the machine under-subscribed so that slowness is not taken for a hang
    res = e2e.run_many(binp, stamp, [a for _, _, a in runs], timeout=240, jobs=2)
    ncmp = 0
    for b in bases:
        grp = [(lab, a, r) for (bb, lab, a), r in zip(runs, res) if bb is b]
        ck.case(('mt', e2e.describe(b)))
        lab0, a0, r0 = grp[0]
        if r0['outcome'] != 'ok' or len(r0['hist']['dec']) != b['n']:
            ck.violation('single_thread_decode_failed:' + e2e.describe(b)[:60], 'single-thread decode did not complete (%s, %d pictures): %s' % (r0['outcome'], len(r0['hist']['dec']), e2e.describe(b)), dict(scenario=a0, cmd=r0.get('cmd')), True); continue
        ref = [d['hash'] for d in r0['hist']['dec']]; ncmp += 1
        has_lr = any(f.get('lr0') or f.get('lr1') or f.get('lr2') for f in r0['hist']['fh'])
        for lab, a, r in grp[1:]:
            ck.evals += 1
            got = [d['hash'] for d in r['hist']['dec']]
            if r['outcome'] != 'ok':
                kind = 'mt_decode_hangs' if r['outcome'] == 'timeout' else 'mt_decode_crashes'
                ck.violation('%s:threads=%s' % (kind, lab.split()[0]), 'multi-threaded decode (%s threads) %s (%s; %d of %d pictures): %s' % (lab, 'does not return' if r['outcome'] == 'timeout' else 'crashes or fails at teardown', r['outcome'], len(got), b['n'], e2e.describe(b)),
                             dict(scenario=a, cmd=r.get('cmd')), True); break
            if got != ref:
                first = next((i for i, (x, y) in enumerate(zip(got, ref)) if x != y), min(len(got), len(ref)))
                tiles = max((f.get('tcols', 1) * f.get('trows', 1) for f in r0['hist']['fh']), default=1)
                sig = 'mt_differs:loop_restoration' if has_lr else 'mt_differs:multi_tile' if tiles > 1 else 'mt_differs:threads=%s' % lab.split()[0]
                ck.violation(sig, 'pictures decoded with %s threads differ from the single-thread pictures from picture %d on%s: %s' % (lab, first, ' (stream uses loop restoration)' if has_lr else ' (stream has %d tiles)' % tiles if tiles > 1 else '', e2e.describe(b)),
                             dict(scenario=a, first_differing_picture=first, cmd=r.get('cmd')), True); break
    # memory safety: one multi-tile family under ASan + UBSan
    oka, abin, alog = scn.build_driver('asan')
    ck.obligation('build the library and the driver with AddressSanitizer + UBSan (alignment / shift-base classes off)', oka, alog[-300:])
    if oka:
        astamp = 'asan' + stamp
        aruns = [dict(w=192, h=128, n=4, content=2, decode=1, recon=0, dec_threads=t, **{'f:enc_mode': 8, 'f:tile_columns': 1, 'f:enable_restoration_filtering': 0, 'env:ASAN_OPTIONS': 'detect_leaks=0:abort_on_error=1', 'env:UBSAN_OPTIONS': 'print_stacktrace=0', 'env:SCN_KEEP_STDERR': '1'}) for t in (1, 4)]
        ares = e2e.run_many(abin, astamp, aruns, timeout=900, jobs=2)
        for a, r in zip(aruns, ares):
            ck.evals += 1
            err = (r.get('stderr') or '')
            if r['outcome'] != 'ok' or 'AddressSanitizer' in err or 'runtime error' in err:
                where = [l for l in err.split('\n') if 'ERROR: AddressSanitizer' in l or 'runtime error' in l][:2]
                if any('EbDecParseBlock.c' in w_ for w_ in where) and not any('AddressSanitizer' in w_ for w_ in where) and r['outcome'] == 'ok':
                    ck.violation('ubsan_bounds:EbDecParseBlock', 'UBSan reports an out-of-bounds index in EbDecParseBlock.c (%s)' % where[0][-120:], dict(scenario=a), True); continue
                ck.violation('sanitizer:dec_threads=%d' % a['dec_threads'], 'sanitizer report or failure decoding with %d threads (%s): %s %s' % (a['dec_threads'], r['outcome'], where, e2e.describe(a)), dict(scenario=a, cmd=r.get('cmd'), report=err[-1500:]), True)
    ck.cov['traces_validated_against_impl'] = len(runs)
    ck.sample(dict(scenario=e2e.describe(runs[1][2])))
    ck.cov['rule'] = 'streams with 1, 2 and 6 tiles, 64 and 128 superblocks, 8/10 bit, film grain, portrait; threads 1,2,3,4,8 and two perturbation seeds; loop restoration off except one family; ASan+UBSan on a 2-tile stream with 1 and 4 threads'
    br = ck.broken_obligations()
    if br and not ck.violations:
        ck.violation('obligation_broken', 'C09 proof/tie no longer checks: ' + '; '.join('%s (%s)' % (n_, d[:200]) for n_, d in br[:3]), dict(broken=[dict(name=n_, detail=d) for n_, d in br]), False)
    ck.cov['explanation'] = 'wavefront model proved for every worker count; %d stream families decoded with %d thread / schedule settings' % (ncmp, len(variants))
