"""C17: concurrent encoder and decoder instances do not interfere. Instances with different configurations run at the same time in
one process (threads, staggered starts); each must produce exactly the packets / recon / decoded pictures it produces alone.
Static part: the set of writable file-scope objects of the two libraries may not grow beyond the reviewed list.
Coq: the dispatch tables are process-global - the last initialisation wins (regenerated tables)."""
import os, sys, re, json, itertools
from lib.core import *
from lib import build, e2e, scn
from checks import c06

LEVEL = 'other'


def run(ck):
    ck.trust('Coq 8.16.1 kernel (vm_compute witness)', 'harness/unit/multi_inst.c (one thread per instance, recon hashes combined order-independently)', 'nm for the list of writable file-scope objects', 'gcc')
    try:
        c06.regenerate(); ck.obligation('translate(dispatch tables -> gen/DispatchGen.v)', True, '')
    except Exception as e:
        ck.obligation('translate(dispatch tables -> gen/DispatchGen.v)', False, repr(e)[:300])
    ck.prove('Properties_C17', extra_modules=['Dispatch'], gen_modules=['DispatchGen'])
    okl, d, log = build.ensure_lib('rel')
    lp = build.lib_paths('rel')
    mb = os.path.join(CACHE, 'h', 'c17', 'multi')
    okh, hlog = build.cc(mb, [os.path.join(VERIF, 'harness/unit/multi_inst.c')], flags='-w -I%s/Source/API' % REPO, libs='%s %s' % (lp['enc'], lp['dec'])) if okl else (False, log[-300:])
    ck.obligation('build the multi-instance harness against the current library', okh, hlog[-300:])
    if not okh:
        ck.violation('tie_broken', 'multi-instance harness does not build', dict(), False); return
    # ---- process-wide mutable state must not grow
    rc, out = sh("nm --defined-only %s %s 2>/dev/null | awk '$2 ~ /^[BbDd]$/ {print $3}' | sort -u" % (lp['enc'], lp['dec']), timeout=120)
    now = set(x for x in out.split('\n') if x)
    try:
        disp = set(e['ptr'] for e in json.load(open(os.path.join(CACHE, 'DispatchGen.meta.json')))['entries'])
    except Exception:
        disp = set()
    reviewed = set(json.load(open(os.path.join(VERIF, 'tools/checks/c17_globals.json')))['names'])
    new = sorted(n for n in now if n not in disp and n not in reviewed and not re.search(r'\.\d+$', n) or (re.search(r'\.\d+$', n) and re.sub(r'\.\d+$', '', n) not in set(re.sub(r'\.\d+$', '', r) for r in reviewed) and n not in disp))
    ck.obligation('no writable file-scope object beyond the reviewed list (%d dispatched pointers, %d others)' % (len(disp), len(reviewed)), not new, 'new process-wide mutable objects: %s' % new[:8])
    ck.cov['writable_globals'] = len(now)
    # ---- concurrent runs
    okd, binp, stamp = e2e.driver(ck)
    streams = {}
    if okd:
        for nm_, a in dict(s1=dict(w=192, h=128, n=6, content=2, **{'f:enc_mode': 8}), s2=dict(w=256, h=128, n=5, content=6, bits=10, **{'f:enc_mode': 8}), s3=dict(w=192, h=128, n=6, content=8, **{'f:enc_mode': 8, 'f:tile_columns': 1})).items():
            a = dict(a); a.update(decode=0, recon=0)
            r = e2e.run_many(binp, stamp, [a], timeout=200)[0]
            if not (r.get('prefix') and os.path.exists(r['prefix'] + '.pkts')):
                r = e2e.run_many(binp, stamp, [a], timeout=200, use_cache=False)[0]
            streams[nm_] = r['prefix'] + '.pkts'
    E = lambda w, h, bits, preset, lp_, cpu, grain, content, n: 'E:%dx%d:%d:%d:%d:%x:%d:%d:%d' % (w, h, bits, preset, lp_, cpu, grain, content, n)
    inst = dict(p8=E(192, 128, 8, 8, 2, 0xffff, 0, 2, 12), p5=E(192, 128, 8, 5, 2, 0xffff, 0, 2, 12), p6=E(192, 128, 8, 6, 2, 0xffff, 0, 1, 10), p4=E(192, 128, 8, 4, 2, 0xffff, 0, 2, 8),
                ten=E(192, 128, 10, 8, 2, 0xffff, 0, 1, 10), conly=E(192, 128, 8, 8, 2, 0, 0, 2, 10), lp1=E(256, 128, 8, 8, 1, 0xffff, 0, 0, 10), lp4=E(256, 128, 8, 7, 4, 0xffff, 0, 2, 10),
                g1=E(192, 128, 8, 8, 2, 0xffff, 20, 1, 10), g2=E(256, 128, 8, 8, 2, 0xffff, 10, 2, 10), big=E(320, 192, 8, 8, 4, 0xffff, 0, 2, 8),
                sb128=E(640, 384, 8, 4, 4, 0xffff, 0, 2, 5), sb64=E(640, 384, 8, 8, 4, 0xffff, 0, 2, 6))
    for k, p in streams.items():
        inst['d' + k] = 'D:%s:1' % p
        inst['dm' + k] = 'D:%s:4' % p
    groups = [('p8', 'p5'), ('p5', 'p8'), ('p8', 'p6'), ('p5', 'p4'), ('p8', 'ten'), ('p8', 'conly'), ('lp1', 'lp4'), ('g1', 'g2'), ('p8', 'big'), ('p8', 'p8'), ('p8', 'p5', 'ten'), ('p6', 'lp4', 'conly'),
              ('p8', 'ds1'), ('ten', 'ds2'), ('p5', 'dms3'), ('ds1', 'ds2'), ('dms1', 'ds3'), ('sb128', 'sb64')]
    if ck.tier == 'thorough':
        groups += [(a, b) for a, b in itertools.combinations(['p8', 'p5', 'p6', 'p4', 'ten', 'conly', 'lp1', 'lp4', 'g1', 'big'], 2) if (a, b) not in groups][:30]
    groups = [g for g in groups if all(x in inst for x in g)]
    def run_spec(names, delays, serial=False):
        cmd = '%s%s %s' % ('MULTI_SERIAL_INIT=1 ' if serial else '', mb, ' '.join("'%s:%d'" % (inst[n], dl) for n, dl in zip(names, delays)))
        rc_, o = sh(cmd.replace(mb, 'timeout 500 ' + mb, 1), timeout=560)
        res = [re.match(r'I (\d+) (\w+) packets=(\d+) pk=(\w+) rec=(\w+) pics=(\d+) dec=(\w+)', l) for l in o.split('\n') if l.startswith('I ')]
        return rc_, [m.groups()[1:] for m in res if m], cmd
    from concurrent.futures import ThreadPoolExecutor
    used = sorted(set(x for g in groups for x in g))
    with ThreadPoolExecutor(4) as ex:
        solo_res = list(ex.map(lambda n: run_spec([n], [0]), used))
    solo = {}
    for n, (rc_, r, cmd) in zip(used, solo_res):
        if rc_ != 0 or len(r) != 1 or r[0][0] != 'ok':
            ck.violation('solo_run_failed:%s' % n, 'instance %s does not complete when run alone (exit %d): %s' % (n, rc_, inst[n]), dict(cmd=cmd), True)
        else:
            solo[n] = r[0]
    jobs = []
    for g in groups:
        if not all(x in solo for x in g):
            continue
        # creation / initialisation / teardown serialised by the application (only the streaming overlaps), and fully concurrent
        for serial in (True, False):
            for delays in ([0] * len(g), [0, 7, 40][:len(g)], [25, 0, 3][:len(g)]) if ck.tier == 'thorough' else ([0] * len(g), [0, 7, 40][:len(g)]) if serial else ([0] * len(g),):
                jobs.append((g, delays, serial))
    with ThreadPoolExecutor(2) as ex:
        outs = list(ex.map(lambda j: run_spec(list(j[0]), j[1], j[2]), jobs))
    reported = set()
    for (g, delays, serial), (rc_, r, cmd) in zip(jobs, outs):
        ck.case((g, serial)); ck.evals += 1
        kinds = ('' if serial else 'concurrent_init:') + '+'.join(sorted(('dec' if x.startswith('d') else 'enc_sb128' if x == 'sb128' else 'enc_sb64' if x == 'sb64' else 'enc') for x in g))
        if rc_ != 0 or len(r) != len(g):
            sig = 'concurrent_%s:%s' % ('hang' if rc_ in (124, 142) else 'crash', kinds)
            if sig not in reported:
                reported.add(sig)
                ck.violation(sig, 'instances %s running at the same time (start delays %s ms): the process %s (exit %d)' % (' + '.join(g), delays, 'does not finish' if rc_ in (124, 142) else 'crashes', rc_), dict(instances={x: inst[x] for x in g}, cmd=cmd), True)
            continue
        for x, got in zip(g, r):
            if got != solo[x]:
                sig = 'concurrent_differs:%s' % kinds
                if (sig, x) not in reported:
                    reported.add((sig, x))
                    ck.violation(sig, 'instance %s gives different output next to %s (start delays %s ms) than alone: %s vs %s' % (x, ' + '.join(y for y in g if y != x) or x, delays, got, solo[x]), dict(instances={y: inst[y] for y in g}, differing=x, cmd=cmd), True)
    ck.cov['traces_validated_against_impl'] = len(jobs) + len(used)
    ck.sample(dict(group=groups[0], specs=[inst[x] for x in groups[0]]))
    ck.cov['rule'] = 'pairs / triples of encoders differing in preset (reference-count classes 8/6 vs 5 vs 4), bit depth, asm level, thread count, film grain, size; encoder + decoder; decoder + decoder; 128- vs 64-superblock encoders; simultaneous and staggered starts'
    br = ck.broken_obligations()
    if br and not ck.violations:
        ck.violation('obligation_broken', 'C17 proof/tie no longer checks: ' + '; '.join('%s (%s)' % (n_, d_[:200]) for n_, d_ in br[:3]), dict(broken=[dict(name=n_, detail=d_) for n_, d_ in br]), False)
    ck.cov['explanation'] = '%d concurrent groups compared with %d solo runs' % (len(jobs), len(used))
