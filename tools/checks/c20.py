"""C20: disabled coding tools never appear and the requested tiling is used. Coq-verified monitor (ToolGate.v) applied to the
independently parsed frame headers and per-block mode information of every coded frame of real encodes: each switch off (and on,
for non-vacuity) x presets x contents that provoke the tool x tile layouts."""
import os, sys, json
from lib.core import *
from lib import obs, e2e

LEVEL = 'other'
CFG_KEYS = ['disable_dlf_flag', 'cdef_level', 'enable_restoration_filtering', 'palette_level', 'intrabc_mode', 'enable_global_motion', 'enable_warped_motion',
            'obmc_level', 'filter_intra_level', 'disable_cfl_flag', 'inter_intra_compound', 'superres_mode', 'tile_columns', 'tile_rows']
DEFAULTS = dict(disable_dlf_flag=0, cdef_level=-1, enable_restoration_filtering=-1, palette_level=-1, intrabc_mode=-1, enable_global_motion=1, enable_warped_motion=-1,
                obmc_level=-1, filter_intra_level=-1, disable_cfl_flag=-1, inter_intra_compound=-1, superres_mode=0, tile_columns=0, tile_rows=0)
RULES = ['loop filter off but levels signalled', 'CDEF off but strengths signalled', 'loop restoration off but a restoration type signalled', 'palette off but palette blocks',
         'intra block copy off but used', 'global motion off but non-translational global parameters', 'warped motion off but warped blocks', 'OBMC off but OBMC blocks',
         'filter intra off but used', 'chroma-from-luma off but CfL blocks', 'inter-intra off but inter-intra blocks', 'superres off but frame scaled', 'tile layout differs from the requested one']
OFF = dict(disable_dlf_flag=1, cdef_level=0, enable_restoration_filtering=0, palette_level=0, intrabc_mode=0, enable_global_motion=0, enable_warped_motion=0, obmc_level=0,
           filter_intra_level=0, disable_cfl_flag=1, inter_intra_compound=0)
OBS_KEYS = ['lf0', 'lf1', 'cdef_bits', 'cdef_y0', 'cdef_uv0', 'lr0', 'lr1', 'lr2', 'pal', 'ibc', 'intrabc', 'gm', 'warpblk', 'obmc', 'fintra', 'cfl', 'interintra', 'sden', 'fw', 'upw',
            'tcl', 'trl', 'tcols', 'trows', 'seq_sb128', 'fh']


def run(ck):
    ck.trust('Coq 8.16.1 kernel', 'extraction (ExtrOcamlBasic only) + obs/c20.ml', 'the frame headers and block mode information come from the library\'s own decoder parse (EbDecHandle internals read by harness/scn/svt_scn.c): an encoder and decoder that agree on a wrong syntax would not be seen',
             'gcc')
    ck.prove('Properties_C20', extra_modules=['ToolGate'])
    okb, mbin, blog = obs.build_obs('C20') if os.path.exists(os.path.join(COQ, 'theories', 'ToolGate.vo')) else (False, '', 'monitor did not compile')
    ck.obligation('extract + build monitor', okb, blog[-300:])
    okd, binp, stamp = e2e.driver(ck)
    if not okd or not okb:
        ck.violation('tie_broken', 'scenario driver or monitor does not build', dict(), False); return
    # contents that provoke the tools: 8 zoom/rotate texture (palette, OBMC, warp, filter intra, CfL, inter-intra, global motion), 5 screen-like (palette, intra block copy), 6 mixed motion
    provoke = [dict(w=256, h=192, n=8, content=8, **{'f:enc_mode': 2}), dict(w=192, h=128, n=7, content=5, **{'f:enc_mode': 3, 'f:screen_content_mode': 1}),
               dict(w=256, h=192, n=8, content=8, **{'f:enc_mode': 6}), dict(w=192, h=128, n=8, content=6, **{'f:enc_mode': 4, 'f:qp': 45})]
    if ck.tier == 'quick':
        provoke = [provoke[0], provoke[1], provoke[2]]
    runs = []
    for b in provoke:
        runs.append(('all default', dict(b)))
        a = dict(b); a.update({'f:' + k: v for k, v in OFF.items()}); runs.append(('every switch off', a))
        for k, v in OFF.items():
            if ck.tier == 'thorough' or k in ('disable_dlf_flag', 'palette_level', 'obmc_level', 'enable_restoration_filtering', 'cdef_level', 'filter_intra_level', 'intrabc_mode', 'disable_cfl_flag'):
                a = dict(b); a['f:' + k] = v; runs.append((k + ' off', a))
    # loop filter off x tiles (the loop filter of multi-tile pictures runs in another stage), tile layouts x sizes
    for tc, tr in [(1, 0), (0, 1), (1, 1), (2, 1)]:
        runs.append(('dlf off, tiles', dict(w=256, h=128, n=8, content=2, **{'f:enc_mode': 8, 'f:qp': 50, 'f:disable_dlf_flag': 1, 'f:tile_columns': tc, 'f:tile_rows': tr})))
        runs.append(('cdef+lr off, tiles', dict(w=256, h=128, n=6, content=6, **{'f:enc_mode': 6, 'f:cdef_level': 0, 'f:enable_restoration_filtering': 0, 'f:tile_columns': tc, 'f:tile_rows': tr})))
    sizes = [(128, 128), (192, 64), (320, 192), (384, 128), (136, 264)] + ([(640, 384), (200, 200), (128, 512)] if ck.tier == 'thorough' else [])
    for (w, h) in sizes:
        for tc, tr in ([(0, 0), (1, 0), (0, 1), (1, 1), (2, 2), (4, 0), (0, 6), (3, 1)] if ck.tier == 'thorough' else [(1, 1), (2, 0), (0, 2), (4, 3)]):
            runs.append(('tiles', dict(w=w, h=h, n=4, content=2, **{'f:enc_mode': 8, 'f:tile_columns': tc, 'f:tile_rows': tr})))
    for lab, a in runs:
        a['decode'] = 1; a['recon'] = 0
    res = e2e.run_many(binp, stamp, [a for _, a in runs], timeout=600, jobs=8)
    seen_tool = {}
    lines = []; index = []
    for (lab, a), r in zip(runs, res):
        ck.case((lab, a['w'], a['h'], a.get('f:enc_mode'), a.get('content'), a.get('f:tile_columns', 0), a.get('f:tile_rows', 0)))
        if r['outcome'] != 'ok' or not r['hist']['fh']:
            if r['hist'].get('end', '') and 'rejected' in (r['hist'].get('end') or ''):
                ck.notes.append('configuration rejected by set_parameter (not a C20 case): ' + e2e.describe(a)); continue
            ck.violation('encode_failed:' + lab, 'encode or decode did not complete (%s): %s' % (r['outcome'], e2e.describe(a)), dict(scenario=a, cmd=r.get('cmd')), True); continue
        c = dict(DEFAULTS); c.update({k[2:]: v for k, v in a.items() if k.startswith('f:') and k[2:] in DEFAULTS})
        lines.append('C ' + ' '.join(str(c[k]) for k in CFG_KEYS)); index.append(None)
        for f in r['hist']['fh']:
            if f.get('sef'):
                continue
            lines.append('O ' + ' '.join(str(f.get(k, 0)) for k in OBS_KEYS)); index.append((lab, a, f, r))
            for k in ('pal', 'ibc', 'gm', 'warpblk', 'obmc', 'fintra', 'cfl', 'interintra', 'lf0', 'cdef_bits', 'cdef_y0', 'lr0', 'lr1'):
                if f.get(k, 0):
                    seen_tool[k] = seen_tool.get(k, 0) + 1
    rc, out = sh(mbin, input='\n'.join(lines) + '\n', timeout=300)
    ans = out.strip().split('\n')
    oi = [i for i in index if i is not None]
    ck.obligation('monitor answered every frame', len(ans) == len(oi) and 'ERR' not in out, out[-200:] if len(ans) != len(oi) else '')
    reported = set()
    for (lab, a, f, r), an in zip(oi, ans):
        ck.evals += 1
        if an.startswith('0'):
            k = int(an.split()[1]) if len(an.split()) > 1 else -1
            sig = 'tool_gate:%s' % (RULES[k].split(' but')[0].replace(' ', '_') if 0 <= k < len(RULES) else 'rule%d' % k)
            key = (sig, lab)
            if key in reported or len(reported) >= 6:
                continue
            reported.add(key)
            ck.violation(sig + ':' + lab.replace(' ', '_'), '%s (packet %d: %s) with %s' % (RULES[k] if 0 <= k < len(RULES) else 'rule %d' % k, f['pkt'], {x: f.get(x) for x in OBS_KEYS if f.get(x)}, e2e.describe(a)),
                         dict(scenario=a, frame=f, rule=k, cmd=r.get('cmd')), True)
    ck.cov['frames_monitored'] = len(oi)
    ck.cov['tools_seen_when_enabled'] = seen_tool
    ck.sample(dict(scenario=e2e.describe(runs[1][1]), frame={k: oi[0][2].get(k) for k in OBS_KEYS} if oi else {}))
    ck.cov['traces_validated_against_impl'] = len(runs)
    ck.cov['rule'] = 'contents that provoke each tool with everything default (non-vacuity: counts of frames using each tool are reported), with every switch off, with single switches off; loop filter / CDEF / restoration off x 1..4x2 tiles; tile_columns/rows 0..6 x sizes incl. fewer superblocks than requested tiles'
    br = ck.broken_obligations()
    if br and not ck.violations:
        ck.violation('obligation_broken', 'C20 proof/tie no longer checks: ' + '; '.join('%s (%s)' % (n_, d[:200]) for n_, d in br[:3]), dict(broken=[dict(name=n_, detail=d) for n_, d in br]), False)
    ck.cov['explanation'] = 'verified monitor accepted %d coded frames of %d encodes; tools observed when enabled: %s' % (len(oi), len(runs), seen_tool)
