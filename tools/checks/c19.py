"""C19: intra refresh period and key frames as random-access points. Verified placement monitor on decoder-parsed frame
types of real streams; suffix decodes from every shown key frame; the closed-GOP suffix theorem for any decoding function."""
import os, sys, json
from lib.core import *
from lib import e2e, obs, streaminfo

LEVEL = 'other'


def scenarios(rng, tier):
    out = []
    combos = [(5, 2, 2, 14), (3, 3, 2, 13), (7, 2, 1, 17), (4, 4, 1, 12), (9, 3, 2, 21), (15, 4, 2, 34), (1, 0, 2, 7), (2, 1, 1, 9), (6, 2, 2, 15), (-1, 3, 2, 12), (8, 0, 2, 19)]
    if tier == 'thorough':
        combos += [(P, hl, rt, 3 * (P + 1) + 2) for P in (3, 5, 7, 11, 16, 31) for hl in (0, 1, 2, 3, 4) for rt in (1, 2)] + [(255, 3, 2, 260), (256, 2, 2, 262), (1024, 3, 2, 1030)]
    for P, hl, rt, N in combos:
        out.append(dict(w=128, h=96, n=N, suffix=1, **{'f:enc_mode': 8, 'f:intra_period_length': P, 'f:hierarchical_levels': hl, 'f:intra_refresh_type': rt}))
    # a period beyond 1024 (counter width boundaries) on a long stream
    out.append(dict(w=128, h=64, n=1032, suffix=0, decode=1, content=3, **{'f:enc_mode': 8, 'f:intra_period_length': 1025, 'f:hierarchical_levels': 3, 'f:intra_refresh_type': 2}))
    return out


def run(ck):
    ck.trust('Coq 8.16.1 kernel (monitor soundness; intra_placement and closed_gop_suffix theorems)', 'frame types / order hints as parsed by libSvtAv1Dec from the produced stream (harness reads the decoder\'s FrameHeader)',
             'libSvtAv1Dec as the decoder for the suffix decodes', 'extraction + obs/mon.ml', 'gcc')
    ck.prove('Properties_C19', extra_modules=['Monitors', 'IntraPlacement'])
    ok, binp, stamp = e2e.driver(ck)
    okm, mbin, mlog = obs.build_obs('MON')
    ck.obligation('extract + build verified monitors', okm, mlog[-300:])
    if not (ok and okm):
        ck.violation('tie_broken', 'scenario driver or monitor does not build', dict(log=mlog[-500:]), False); return
    scs = scenarios(ck.rng, ck.tier)
    res = e2e.run_many(binp, stamp, scs, timeout=240)
    lines = []; meta = []; nsuffix = 0
    for a, r in zip(scs, res):
        ck.case(e2e.describe(a))
        h = r['hist']
        if r['outcome'] != 'ok' or len(h['pkts']) != a['n']:
            ck.violation('encode_%s:%s' % (r['outcome'].split('(')[0], e2e.describe({k: v for k, v in a.items() if k.startswith('f:') or k == 'n'})), 'encode/decode did not complete (%s, %d packets): %s' % (r['outcome'], len(h['pkts']), e2e.describe(a)), dict(scenario=a, cmd=r.get('cmd')), True)
            continue
        disp = streaminfo.displayed(h)
        P = a['f:intra_period_length']; rt = a['f:intra_refresh_type']
        if any(d is None for d in disp):
            ck.violation('undetermined_display:' + e2e.describe(a)[:60], 'cannot determine which coded frame packet %d displays' % [i for i, d in enumerate(disp) if d is None][0], dict(scenario=a), True); continue
        intra = [1 if d['type'] in (0, 2) else 0 for d in disp]
        lines.append('C19 %d %d %s' % (a['n'], P, ' '.join(map(str, intra)))); meta.append((a, r, disp))
        # IDR refresh: the intra frames are shown key frames
        if rt == 2:
            badk = [k for k, d in enumerate(disp) if intra[k] and not (d['type'] == 0 and d['show'] == 1)]
            if badk:
                ck.violation('intra_not_key:' + e2e.describe({k: v for k, v in a.items() if k.startswith('f:')}), 'IDR refresh: intra frame at display position %d is not a shown key frame (type %d, show_frame %d): %s' % (badk[0], disp[badk[0]]['type'], disp[badk[0]]['show'], e2e.describe(a)), dict(scenario=a, position=badk[0]), True)
        # a key frame refreshes every reference slot (the hypothesis of c19_key_frame_suffix)
        badr = [f for f in streaminfo.coded_frames(h) if f['type'] == 0 and f['refresh'] != 255]
        if badr:
            ck.violation('key_frame_partial_refresh:' + e2e.describe({k: v for k, v in a.items() if k.startswith('f:')}), 'a key frame (packet %d) refreshes only slots %s: %s' % (badr[0]['pkt'], bin(badr[0]['refresh']), e2e.describe(a)), dict(scenario=a, packet=badr[0]['pkt'], refresh=badr[0]['refresh']), True)
        # random access: decoding from a shown key frame gives the same pictures as decoding from the start
        full = {d['pkt']: d['hash'] for d in h['dec']}
        for s in h['decs']:
            nsuffix += 1
            if full.get(s['pkt']) != s['hash']:
                ck.violation('suffix_decode_differs:' + e2e.describe({k: v for k, v in a.items() if k.startswith('f:')}), 'decoding from the key-frame packet %d gives a different picture for packet %d than decoding from the start: %s' % (s['start'], s['pkt'], e2e.describe(a)),
                             dict(scenario=a, start_packet=s['start'], packet=s['pkt'], suffix_hash=s['hash'], full_hash=full.get(s['pkt']), cmd=r.get('cmd')), True)
                break
    rc, out = sh(mbin, input='\n'.join(lines) + '\n', timeout=300)
    verdicts = [l.strip() for l in out.split('\n') if l.strip() in ('0', '1')]
    ck.obligation('monitor ran on every history', len(verdicts) == len(lines), '%d/%d' % (len(verdicts), len(lines)))
    for (a, r, disp), v in zip(meta, verdicts):
        if v != '1':
            pos = [k for k, d in enumerate(disp) if d['type'] in (0, 2)]
            ck.violation('intra_placement:' + e2e.describe({k: v2 for k, v2 in a.items() if k.startswith('f:')}), 'intra period %d: intra-coded frames at display positions %s of %d, expected exactly the multiples of %d: %s' % (
                a['f:intra_period_length'], pos[:12], a['n'], a['f:intra_period_length'] + 1, e2e.describe(a)), dict(scenario=a, intra_positions=pos, cmd=r.get('cmd')), True)
    ck.cov['traces_validated_against_impl'] = len(lines)
    ck.cov['suffix_pictures_compared'] = nsuffix
    ck.cov['rule'] = 'intra periods 1..15 (+ -1, and 1025 on a 1032-frame stream) x hierarchy 0..4 x CRA/IDR; stream lengths of 2-3 periods; every shown key frame used as a random-access point'
    ck.sample(dict(scenario=e2e.describe(scs[0])))
    br = ck.broken_obligations()
    if br and not ck.violations:
        ck.violation('obligation_broken', 'C19 proof/tie no longer checks: ' + '; '.join('%s (%s)' % (n, d[:200]) for n, d in br[:3]), dict(broken=[dict(name=n, detail=d) for n, d in br]), False)
    ck.cov['explanation'] = 'placement monitor (verified) accepted %d of %d streams; %d suffix-decoded pictures equal the full decode' % (sum(1 for v in verdicts if v == '1'), len(lines), nsuffix)
