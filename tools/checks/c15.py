"""C15: teardown at any point releases every resource. Sessions of the real encoder / decoder are torn down (deinit, deinit_handle)
after handle creation, after a rejected / accepted configuration, after init, mid-stream and after draining, under an allocation
and OS-object ledger (--wrap of malloc/calloc/realloc/posix_memalign/free/pthread_create/mutex/semaphore creation): every call
must return, no library thread, heap block, mutex or semaphore may remain, repeated sessions must not grow.
Coq: constructor / destructor discipline (CtorCalc.v) + regenerated table: every allocated structure field has a release site."""
import os, sys, re, json, struct
from lib.core import *
from lib import build
sys.path.insert(0, os.path.join(VERIF, 'translators'))

LEVEL = 'other'
WRAPS = '-Wl,' + ','.join('--wrap=%s' % s for s in ['malloc', 'calloc', 'realloc', 'posix_memalign', 'free', 'pthread_create', 'pthread_mutex_init', 'pthread_mutex_destroy', 'sem_init', 'sem_destroy'])
# fields whose release does not name the field in a macro: released through a local alias (checked by reading the destructor); no leak in the ledger runs
ALIAS_EXCEPTIONS = {'na_unit_dbl_ptr': 'pointer-to-pointer table filled in a loop, the objects are released through their owning fields',
                    'prediction_structure_config_array': 'released through the local alias `config` in prediction_structure_config_array_dctor',
                    'save_enhanced_picture_ptr': 'released through aliases in the picture destructor path; no block left in the ledger runs with stat_report',
                    'save_enhanced_picture_bit_inc_ptr': 'as save_enhanced_picture_ptr'}


def regenerate():
    import tr_fields
    known = set(ALIAS_EXCEPTIONS)
    for f in load_findings().get('findings', []):
        m = re.fullmatch(r'field_never_released:(\w+)', f.get('signature', '') or '')
        if m:
            known.add(m.group(1))
    txt, m = tr_fields.coq(known)
    write_if_changed(os.path.join(GEN, 'FieldsGen.v'), txt)
    return m


def build_res():
    ok, d, log = build.ensure_lib('rel')
    if not ok:
        return False, None, log[-400:]
    lp = build.lib_paths('rel')
    out = os.path.join(CACHE, 'h', 'c15', 'res')
    ok, log = build.cc(out, [os.path.join(VERIF, 'harness/unit/res_harness.c')], flags='-w -no-pie -I%s/Source/API %s' % (REPO, WRAPS), libs='%s %s' % (lp['enc'], lp['dec']))
    return ok, out, log[-500:]


def stream_file(ck):
    from lib import e2e, scn
    okd, binp, stamp = e2e.driver(ck)
    p = os.path.join(CACHE, 'h', 'c15', 'stream.bin')
    if okd:
        a = dict(w=128, h=96, n=4, content=2, decode=0, recon=0, **{'f:enc_mode': 8, 'f:tile_columns': 1})
        r = e2e.run_many(binp, stamp, [a], timeout=120)[0]; pk = scn.read_packets(r.get('prefix', '') + '.pkts')
        if not pk:
            r = e2e.run_many(binp, stamp, [a], timeout=120, use_cache=False)[0]; pk = scn.read_packets(r.get('prefix', '') + '.pkts')
        open(p, 'wb').write(b''.join(struct.pack('<I', len(x)) + x for _, x in pk))
    return p


POINTS = {0: 'after handle creation', 1: 'after a rejected configuration', 2: 'after an accepted configuration', 3: 'after init', 4: 'mid-stream', 5: 'after draining'}


def run(ck):
    ck.trust('Coq 8.16.1 kernel', 'translators/tr_fields.py (textual scan of the allocation / release macros; a field is identified by the last component of the lvalue)', 'ledger = link-time --wrap of the C allocation and pthread / semaphore creation functions in harness/unit/res_harness.c: memory obtained by other means (mmap) is not seen', 'gcc')
    try:
        m = regenerate(); ck.obligation('translate(allocation / release macro sites -> gen/FieldsGen.v)', True, '%d fields' % len(m['names']))
        ck.cov['fields'] = len(m['names'])
    except Exception as e:
        m = None; ck.obligation('translate(allocation / release macro sites -> gen/FieldsGen.v)', False, repr(e)[:300])
    ck.prove('Properties_C15', extra_modules=['CtorCalc', 'Properties_C16'], gen_modules=['FieldsGen'])
    if m:
        known = set(ALIAS_EXCEPTIONS)
        for n in m['names']:
            r = m['fields'][n]
            if r['alloc'] and not r['free'] and n not in known:
                ck.violation('field_never_released:%s' % n, 'structure field %s is allocated (%s) and released nowhere in the encoder / common sources' % (n, ', '.join(r['alloc'][:3])), dict(field=n, allocation_sites=r['alloc']), True)
    ok, rb, log = build_res()
    ck.obligation('build the resource-ledger harness against the current library', ok, log)
    if not ok:
        ck.violation('tie_broken', 'resource harness does not build', dict(), False); return
    sp = stream_file(ck)
    cases = []
    evar = [0, 1, 2, 4, 8, 16, 64, 128] if ck.tier == 'quick' else [0, 1, 2, 3, 4, 5, 8, 9, 16, 32, 36, 64, 65, 128, 144]
    for v in evar:
        for p in (0, 1, 2, 3):
            cases.append(('E', v, p, 0, 0, 1))
    for v in evar:
        cases.append(('E', v, 5, 8, 8, 2))                       # full sessions, twice: growth
    cases += [('E', 0, 4, 5, 0, 1), ('E', 1, 4, 6, 6, 1), ('E', 0, 4, 14, 3, 1), ('E', 4, 4, 10, 2, 1), ('E', 0, 4, 40, 0, 1), ('E', 4, 4, 60, 3, 1)]
    for v in (0, 2, 4, 6):
        for p in (0, 2, 3):
            cases.append(('D', v, p, 0, 0, 1))
        cases.append(('D', v, 4, 1, 0, 1)); cases.append(('D', v, 4, 4, 0, 3))
    from concurrent.futures import ThreadPoolExecutor
    def one(c):
        k, v, p, ns, ng, cyc = c
        return sh('RES_STREAM=%s timeout 200 %s %s teardown %d %d %d %d %d' % (sp, rb, k, v, p, ns, ng, cyc), timeout=260)
    with ThreadPoolExecutor(6) as ex:
        outs = list(ex.map(one, cases))
    for c, (rc, out) in zip(cases, outs):
        k, v, p, ns, ng, cyc = c
        ck.case((k, v, p, ns > 20, cyc)); ck.evals += 1
        what = '%s variant %d, teardown %s%s' % ('encoder' if k == 'E' else 'decoder', v, POINTS[p], (' (%d sent, up to %d packets retrieved)' % (ns, ng)) if p >= 4 and k == 'E' else (' (%d frames, %d sessions)' % (ns, cyc)) if p >= 4 else '')
        mt = ':mt' if (k == 'D' and v & 4) else ''
        tag = '%s:point%d%s' % (k, p, mt)
        m_ = re.search(r'TEAR (\w+) (\w+) (\w+) (\w+) (\w+) live=(-?\d+)/(-?\d+) threads=(-?\d+) sync=(-?\d+) growth=(-?\d+)', out)
        replay = dict(how='RES_STREAM=%s %s %s teardown %d %d %d %d %d' % (sp, rb, k, v, p, ns, ng, cyc))
        if not m_:
            kind = 'teardown_hangs' if rc in (124, 142) or 'Alarm' in out else 'teardown_crashes'
            ck.violation('%s:%s' % (kind, tag), '%s: %s (exit status %d)' % (what, 'a call does not return' if kind == 'teardown_hangs' else 'the process crashes', rc), replay, True); continue
        rcs = m_.groups()[:5]; live, liveb, thr, sync, growth = [int(x) for x in m_.groups()[5:]]
        if rcs[3] not in ('0', 'ffff') or rcs[4] != '0':
            ck.violation('teardown_error:%s' % tag, '%s: deinit returned %s, deinit_handle %s' % (what, rcs[3], rcs[4]), replay, True)
        if thr != 0:
            ck.violation('threads_left:%s' % tag, '%s: %d library threads still exist after deinit_handle' % (what, thr), replay, True)
        if live != 0:
            ck.violation('memory_left:%s' % tag, '%s: %d heap blocks (%d bytes) allocated by the library are still live after deinit_handle' % (what, live, liveb), replay, True)
        if sync != 0:
            ck.violation('sync_objects_left:%s' % tag, '%s: %d mutexes / semaphores created by the library were never destroyed' % (what, sync), replay, True)
        if growth > 0:
            ck.violation('growth:%s' % tag, '%s: live heap grows by %d bytes per session' % (what, growth), replay, True)
    ck.sample(dict(case=cases[5]))
    ck.cov['traces_validated_against_impl'] = len(cases)
    ck.cov['rule'] = 'encoder variants (recon, 10 bit, 1 / 2 / 3 / 4 logical processors, screen content, preset 4, stat report) x teardown after handle creation / rejected / accepted configuration / init; full sessions twice (growth); mid-stream with 5..60 pictures sent and 0..6 packets retrieved; decoder with 1 and 4 threads, 8/16-bit pipeline, 0..4 frames, 3 sessions'
    br = ck.broken_obligations()
    if br and not ck.violations:
        ck.violation('obligation_broken', 'C15 proof/tie no longer checks: ' + '; '.join('%s (%s)' % (n_, d_[:200]) for n_, d_ in br[:3]), dict(broken=[dict(name=n_, detail=d_) for n_, d_ in br]), False)
    ck.cov['explanation'] = '%d teardown scenarios under the allocation / OS-object ledger' % len(cases)
