#!/usr/bin/env python3
"""check.py Cxx --tier quick|thorough [--replay FILE]
exit 0: property held on everything explored (known findings are printed as KNOWN-FINDING lines);
exit 1: a line `VIOLATION property=<id> replay=<path>` was printed."""
import sys, os, argparse, importlib, traceback
sys.path.insert(0, os.path.dirname(os.path.abspath(__file__)))
from lib import core


def main():
    ap = argparse.ArgumentParser()
    ap.add_argument('pid')
    ap.add_argument('--tier', default=os.environ.get('VERIF_TIER', 'quick'), choices=['quick', 'thorough'])
    ap.add_argument('--replay')
    a = ap.parse_args()
    seed = int(os.environ.get('VERIF_SEED', '1') or 1)
    mod = importlib.import_module('checks.' + a.pid.lower())
    ck = core.Check(a.pid, a.tier, seed, mod.LEVEL)
    ck.replay = a.replay
    try:
        if a.replay and hasattr(mod, 'replay'):
            mod.replay(ck, a.replay)
        else:
            mod.run(ck)
    except Exception as e:
        tb = traceback.format_exc()
        ck.obligation('check machinery ran to completion', False, tb[-800:])
        ck.violation('machinery_error', 'the check itself failed: %s' % tb[-600:], dict(error=tb), False)
    sys.exit(ck.finish())


if __name__ == '__main__':
    main()
