"""Registry of the checks that exist; tools/gen_manifest.py turns it into MANIFEST.json."""
CHECKS = {
    'C22': dict(
        category='proof', design_ref='DESIGN.md §6 C22',
        technique='Coq theorem over a model regenerated from the C source (clang AST -> Gallina) + exhaustive C/model correspondence',
        text=('rel_dist_copies_order_across_wrap: for two pictures less than half an order-hint period apart every C copy returns their true signed distance from the hints alone (before and after the wrap); plain_hint_comparison_refuted: a plain < on hints does not. '
              'rel_dist_all_copies: each of the five C copies of the order-hint distance helper, translated to Gallina from /repo on every run, '
              'is proved (for all 1<=bits<=31 (the range a C int shift admits; AV1 uses <= 8) and all integers a,b) to return the signed distance modulo 2^bits in [-2^(bits-1),2^(bits-1)), and 0 when order hints are disabled. '
              'The same C text is run exhaustively (bits<=8, all a,b) against the spec and against the generated model.'),
        note=('Trusted: Coq kernel, translators/cast.py on clang\'s typed AST, extraction+OCaml driver, gcc. The long-stream / queue wrap-around clause is exercised end to end (150- and 270-picture streams in the quick tier, 400 and 700 in the thorough tier: recon = decode at every position, packets in order); no two order hints are compared directly anywhere in Source/Lib (textual obligation) '
              '(long encode decoded and monitored), not proved of the whole encoder.')),
    'C25': dict(
        category='proof', design_ref='DESIGN.md §6 C25',
        technique='Coq theorems (induction over arbitrary operation lists) on an executable range-coder model + byte-exact differential run against the real writer and reader',
        text=('ec_roundtrip: for every list of symbol/boolean operations over valid inverse CDFs (2..16 symbols), with or without adaptation, of any length, the model reader applied to the bytes the model writer emits '
              'returns exactly the written symbols and ends with exactly the writer\'s probability tables; tell_covers_bytes: emitted bytes = ceil(tell/8). The model computes thresholds, termination value, byte output, tell and '
              'CDF adaptation exactly as the C does; it is tied to /repo by comparing bytes, tell after every op, decoded symbols and both tables with the real writer (EbBitstreamUnit.c, aom_write_symbol/update_cdf) '
              'and the real reader (EbDecBitstreamUnit.h/EbDecBitReader.h) on thousands of generated op lists plus an exhaustive small space; the property is also evaluated directly on the real coder\'s outputs.'),
        note=('Trusted: Coq kernel; extraction (ExtrOcamlBasic) + OCaml driver; gcc. The model has unbounded-precision low/dif; that the 32-bit windows, the pre-carry buffer and carry propagation of the C implement it '
              'is established by the byte-exact correspondence (not by a refinement theorem). Validity of adapted tables (ops_ok) is a hypothesis decided on every generated case by the extracted ops_okb.')),
    'C23': dict(
        category='proof', design_ref='DESIGN.md §6 C23',
        technique='Coq invariant proofs over all step sequences (deque-level model) + ring-level executable model run in lockstep with the real code, one critical section at a time',
        text=('srm_conservation / srm_no_lost_wakeup / srm_sem_consistent / srm_posting_order: for every sequence of enabled atomic steps (= every interleaving of any number of threads), any number of objects and FIFOs, '
              'a muxing queue never loses or duplicates an object, never leaves an object queued while a process waits, keeps each FIFO semaphore equal to its unclaimed items, and delivers in posting order to a single consumer. '
              'The ring-level model (circular buffers with head/tail/NULL-slot test, live counts, release enable, shutdown) is executed step for step against the real EbSystemResourceManager.c (harness #includes the .c, '
              'so every critical section is driven individually under a seeded scheduler); result and complete structure dump must agree after every step, and the spec predicates (exclusive hand-out, conservation, order, '
              'wake-up, release exactly at last reference, shutdown) are evaluated on the real structure. srm_released_object_is_protected / srm_release_pushes_only_on_last (SRMrelease.v): the release that returns an object leaves the released marker, and any number (< 2^32 - 1) of surplus releases of that wrapper changes neither queue; a quarter of the scenarios issue such surplus releases on the real code.'),
        note=('Trusted: Coq kernel; extraction + OCaml driver; atomicity of the mutex-protected sections and POSIX semaphore semantics; gcc. The refinement ring layer -> deque layer is proved (RingRefine.v: step for step while no ring exceeds its capacity; the capacity window is evaluated on every real state, the capacity-1 process ring '
              'under non-blocking polling is exempt); srm_steps_are_critical_sections: every queue operation / reference-count write of every mutex-taking function of EbSystemResourceManager.c happens with a mutex held on every path '
              '(GuardFlow.v over skeletons regenerated by tr_locks.py; which calls and fields count as shared accesses is a fixed list); live counts / shutdown are in the ring model only. Threads blocked in get_empty are not woken by shutdown on the pinned tree (documented baseline behaviour, not exercised as a violation).')),
    'C24': dict(
        category='proof', design_ref='DESIGN.md §6 C24',
        technique='Coq protocol theorems (all interleavings) + verified decidable checker applied to the arrays the real init code produces for every grid of the domain',
        text=('For every grid accepted by grid_ok_b (proved sound in Coq): every reachable state of the assignment protocol - any number of workers, any interleaving of the two critical sections and the feedback tasks - '
              'satisfies the invariant, no segment starts before its left / upper neighbour segments have finished, a state with no enabled step has every segment done (completion), the per-segment superblock walks '
              'cover every superblock exactly once, and each superblock is walked after its left / upper / upper-left / upper-right neighbours. The extracted checker is run on the arrays the REAL enc_dec_segments_init '
              'writes, for all tile-group sizes 1..65 x 1..34 and 1..33 x 1..17 with the segment counts the encoder derives plus seeded arbitrary counts; a rejected grid is searched for a concrete failing schedule.'),
        note=('Trusted: Coq kernel; extraction with ExtrOcamlBasic + ExtrOcamlNatInt (nat => OCaml int, values < 2^20) for this checker; the transcription of the superblock walk into '
              'SegGrid.v (the init arrays themselves come from the real code on every run); the protocol model SegProto.v is tied by running its extracted step functions call by call against the current text of assign_enc_dec_segments '
              '(result, feedback row, dependency map, row cursors; seeded scheduler, 1 to 16 workers); atomicity of the two mutex-protected sections; gcc. "Earlier segment" in the walk-order theorem is the '
              'row<= / band<= order, which the protocol respects: seg_dependency_transitive (every earlier in-range segment has finished when a segment starts).')),
    'C12': dict(
        category='proof', design_ref='DESIGN.md §6 C12',
        technique='Coq theorem over a model regenerated from the C source (clang AST -> Gallina) against a documented-domain spec + differential run against the real API',
        text=('verify_iff_documented / set_parameter_rejects_iff: for every configuration within its C types, the model of copy_api_from_app + verify_settings (regenerated from /repo on every run, helpers inlined, '
              'C integer conversions explicit) rejects exactly the configurations outside DocDomain (one documented acceptance condition per validation site). The regenerated model is compared with the real code on '
              'thousands of boundary configurations (every constant of every site +-1, exhaustive products over coupled cells; direct calls of the static functions for volume, the public API in forked children on a sample), '
              'the property is evaluated against DocDomain on the real return codes, and every range printed in the user guide is probed on the real code (disagreements are listed known findings). DocDomain is stated over the effective configuration; for the one cell it reads that the copy stage derives '
              '(frame rate from numerator / denominator) frame_rate_cell_of_effective_configuration / frame_rate_conditions_in_caller_terms give the caller-level reading, and a caller-level oracle runs on the public API.'),
        note=('Trusted: Coq kernel; translators/cast.py+tr_verify.py (validated by the differential run); the transcription of the guide/header into DocDomain.v; extraction + OCaml driver; gcc. Out of scope of the model (named, '
              'decided by sp_in_scope): manual prediction structures. Cells whose C type cannot hold the out-of-range value are not probed.')),
    'C13': dict(
        category='proof', design_ref='DESIGN.md §6 C13',
        technique='Coq theorem over a model regenerated from the C source (one term per configuration cell) + dirty-prior dumps of the real handle creation',
        text=('defaults_independent: the Gallina translation of svt_svt_enc_init_parameter (regenerated from /repo on every run; 144 cells incl. array cells, pointer fields and aggregates) yields the same '
              'configuration for any two contents of the caller\'s prior memory (every cell is assigned); defaults_accepted: with every even picture size in 64..4096 x 64..2160 filled in, the defaults pass the regenerated validation model (via the C12 characterisation) and lie in the modelled scope. '
              'Tied to the code by dumping every cell after the real svt_av1_enc_init_handle on caller memory pre-filled with 0x00/0xFF/0xA5/random patterns (dumps must be identical and equal to the model) and by '
              'running the defaults through the real validation for all even widths, all even heights and 2000 random sizes.'),
        note=('Trusted: Coq kernel (vm_compute for the evaluated examples); translators/cast.py+tr_defaults.py; extraction + OCaml driver; gcc. "Yields identical output when encoding" is covered only through the identity '
              'of the returned configuration (the encoder reads nothing else from that memory); acceptance for every size is swept on the real code, proved only for the listed sizes.')),
    'C03': dict(
        category='other', design_ref='DESIGN.md §6 C03',
        technique='Coq-verified monitor (decision procedure proved equivalent to the specification) applied to real API histories + Coq theorem for the packet-ordering mechanism',
        text=('check_c03 is proved (Coq) sound and complete for C03_spec: exactly N packets, k-th packet pts/dts of the k-th submitted picture, EOS on exactly the last packet, one recon picture per display position. '
              'It is extracted and applied to histories of the real library over stream lengths around mini-GOP / intra-period boundaries x hierarchical levels 0..4 x intra periods x refresh types x pacing; '
              'incomplete encodes (watchdog) and packets after EOS are violations. The ordering mechanism (hierarchical decode order + undisplayed-frame stack => display order) is proved for every depth and length.'),
        note=('The universally quantified claim is proved only for the mechanism model; that picture decision / packetization implement it is observed on the scenarios run (partial). Trusted: Coq kernel, extraction + OCaml driver, '
              'harness/scn/svt_scn.c, watchdog timing. An EOS flag set on a buffer that also carries a picture is outside the stated protocol and not exercised.')),
    'C02': dict(
        category='other', design_ref='DESIGN.md §6 C02',
        technique='Coq-verified OBU / sequence-header parser (soundness lemmas proved) extracted and applied to every packet of real encodes + Coq theorems on C-level models of the LEB128 routines tied to the C text by an extracted-model correspondence run',
        text=('check_packet (Gallina, written from the AV1 syntax: leb128, OBU header, complete sequence header incl. trailing bits, start of the frame header) is proved to imply: the packet is exactly a sequence of OBUs '
              'laid end to end, each size field equals its payload length, the first OBU is the only temporal delimiter, exactly one frame is displayed, every sequence header parses completely and equals the reference. '
              'leb128 round trip is proved for every size < 2^56, also at the level of the library\'s own routines (Leb128C.v: svt_aom_uleb_size_in_bytes minimal for every 64-bit value, svt_aom_uleb_encode refuses exactly v >= 2^56 or size > available, dec_get_bits_leb128 reads back value / length / rest), those models being run against the sliced C text and EbDecBitstream.c. The extracted checker runs on every packet of encodes over sizes hitting the byte-boundary cases of the sequence header, key-frame periods, hierarchy depths, '
              'tiles, multi-byte size fields, open GOP, screen content, 10 bit, VBR, film grain, superres; the stream-header call is compared with the in-band header.'),
        note=('The property for all inputs is decided only on the scenarios run (partial); the parser is a hand transcription of the AV1 syntax (trusted; cross-checked only by the library\'s own decoder accepting the same '
              'streams in other checks). Frame headers are parsed only as far as needed to tell displayed frames; tile-group payloads are not parsed.')),
    'C01': dict(
        category='other', design_ref='DESIGN.md §6 C01',
        technique='Coq theorems for the entropy / framing / pairing layers + differential run: encoder recon vs the library\'s own decoder, per display position',
        text=('The layers of C01 that are logic are proved elsewhere in this development and imported here (C25 entropy coder round trip for every symbol list, C02 OBU framing, C03 one packet and one recon picture per display position); '
              'the equality of the reconstructed and decoded pictures themselves is compared on real encodes over presets, tiles, screen-content tools, superres, film grain, loop filters on/off, rate control, qp extremes, overlays, '
              '10 bit, hierarchies and sizes, matched by display position.'),
        note=('Partial by nature: the pixel reconstruction process (prediction, transforms, loop filters, film grain) is not modelled in Coq. The only decoder in the sandbox is libSvtAv1Dec, which shares Source/Lib/Common kernels with the encoder; '
              '"independent conforming decoders" cannot be reached here.')),
    'C18': dict(
        category='other', design_ref='DESIGN.md §6 C18',
        technique='Coq theorem for the clamp stage + Coq-verified bounds monitor on the base_q_idx of every coded frame of real encodes',
        text=('c18_qidx_in_bounds: for every value rate control or QP scaling may produce, the index written after the clamp lies between the indices of the configured min and max QP (table checked against the source on every run); '
              'c18_cqp_exact for fixed QP. check_c18_bounds (proved equivalent to the bound specification) runs on the base_q_idx of every coded frame - hidden frames included, parsed by the decoder - of VBR/CVBR encodes with tight and '
              'equal bounds, QP scaling on and off, configured qp inside and outside the bounds, per-picture QPs supplied in the buffer header (0, 20, 35, 1, 63 with use_qp_file), and fixed-QP encodes with exact-index expectation. The forms the clamp model is written from are re-read from the source on every run: every write of base_q_idx in rate_control_kernel is a table lookup of the clipped picture_qp, the clipped fixed-offset index, or CLIP3 between the table entries of the QP bounds, and every assignment of picture_qp is the configured qp or a clip between min_qp_allowed and max_qp_allowed.'),
        note='Which branch of rate_control_kernel a frame takes is observed, not proved: the 7k lines of rate control are universally quantified inputs of the clamp model. Partial.'),
    'C19': dict(
        category='other', design_ref='DESIGN.md §6 C19',
        technique='Coq theorems (intra-period counter; closed-GOP suffix for any decoding function) + Coq-verified placement monitor and suffix decodes on real streams',
        text=('c19_intra_placement: the intra-period counter flags picture k iff k is a multiple of P+1, for every P>=1 and k; c19_closed_gop_suffix / c19_key_frame_suffix: for ANY decoding function, decoding a suffix whose frames '
              'only read slots written since the random-access point does not depend on the earlier decoder state. On real streams: the verified placement monitor on decoder-parsed frame types by display position (periods 1..15, -1, 1025), '
              'IDR frames are shown key frames refreshing all 8 slots, and every shown key frame is used as a random-access point with the suffix decode compared to the full decode.'),
        note='That picture decision implements the counter as modelled, and that no frame after a key frame reads an older slot, is observed on the scenarios (the latter follows from refresh_frame_flags = 0xFF, which is checked). Partial.'),
    'C26': dict(
        category='other', design_ref='DESIGN.md §6 C26',
        technique='Coq-verified equality monitor between reported and recomputed SSE on real encodes',
        text=('check_c26 (proved equivalent to "reported = recomputed mod 2^32" per plane and packet) runs on every packet of stat-report encodes: the SSE is recomputed by the driver from the submitted picture and the reconstructed '
              'picture of the same display position (equal to the decoded picture by C01) over sizes that are and are not multiples of 8, four content types, temporal filtering on/off, qp 63 on extreme content, VBR.'),
        note='Arithmetic of the recomputation (64-bit accumulation cannot overflow for any accepted size) is proved; which buffers the library uses is observed. Partial.'),
    'C04': dict(
        category='other', design_ref='DESIGN.md §6 C04/C05',
        technique='Coq theorems for the hand-off structure under all interleavings + metamorphic encodes under seeded schedule perturbation (hook H1)',
        text=('Proved / imported: a reorder queue releases in numeric order for every arrival order within its window (c04_reorder_confluent, any depth, any stream length), single-consumer FIFOs deliver in posting order under '
              'every interleaving (C23), every superblock sees the same completed neighbours under every interleaving of EncDec workers (C24). The same encode is run unperturbed and under several perturbation seeds '
              '(yields / micro-sleeps around every mutex and semaphore operation); packets and recon must be byte-identical and every run must terminate under a watchdog.'),
        note=('Partial: determinism is proved of the hand-off structure only; data races on shared picture state and the schedules actually reached are exhibited only by the runs. One-pass VBR/CVBR is schedule dependent on the pinned tree '
              '(known finding D15): the rate-control task queue is a multi-producer FIFO whose consumer does not commute.')),
    'C05': dict(
        category='other', design_ref='DESIGN.md §6 C04/C05',
        technique='Coq theorems (reorder confluence; wavefront for every grid and worker count) + metamorphic encodes across logical-processor counts, pinning and socket',
        text=('c05_reorder_confluent and the C24 theorems show that what the thread count changes (segment grid, number of workers, arrival order at reorder queues) cannot change which neighbours a superblock sees nor the '
              'order in which results are released. The same inputs are encoded with logical processors 0,1,2,3,4,8,16, pinned/unpinned and socket 0; packets and recon must be byte-identical.'),
        note='Partial: whether some coding decision reads the core count or a segment count is observed on the scenarios run (CQP; VBR/CVBR excluded because of finding D15), not proved.'),
    'C21': dict(
        category='proof', design_ref='DESIGN.md §6 C21',
        technique='Coq theorem on a model of the input copy and padding regeneration (all sizes, strides, borders), the extracted model run against the real copy / pad functions plane by plane + metamorphic encodes across caller buffer layouts',
        text=('c21_copy_pad_visible_only: for every picture size, block-aligned size, border widths and stride between the width and the regenerated area, the internal picture after copy + in-place padding regeneration '
              '(every sample, borders included) is a function of the visible samples only, whatever the stride padding and the previous buffer content. The extracted model is compared, sample for sample, with the real row copy (memcpy of `stride` bytes, as copy_frame_buffer does) + pad_input_picture + generate_padding '
              'on 400 (quick) generated planes with random garbage in the internal buffer and in the stride padding (aligned / unaligned sizes, zero and non-zero borders, strides from the width up to the regenerated area). On the real encoder the same visible pictures are submitted tightly packed '
              'and with strides +1/+8/+32/+64 whose padding holds zeros, 0xFF or random bytes, buffers scribbled and freed right after send_picture; packets and recon must be byte-identical (8 and 10 bit, sizes that are and are not multiples of 8/64).'),
        note=('Trusted: Coq kernel; extraction + OCaml driver; harness/unit/pad_harness.c reproduces the copy loop of copy_frame_buffer (the 8-bit path; 10-bit packing is covered by the metamorphic runs only). That every later stage reads the internal picture only is observed by the metamorphic runs, not proved.')),
    'C27': dict(
        category='proof', design_ref='DESIGN.md §6 C27',
        technique='Coq theorems: abstract hand-off model (all call orders) + pool sizes regenerated from the C source proved to cover the pipeline window; correspondence of the regenerated model with the real function; pacing patterns on the real encoder',
        text=('c27_output_independent_of_pacing / c27_pool_covering_window_completes / c27_short_pool_never_completes (Pacing.v: N pictures, pool P, window D, any interleaving of submit, end-of-stream, retrieve / retrieve nothing and '
              'pipeline steps): completed schedules hand over the same pictures in the same order, a pool covering the window cannot deadlock and completes within 3N+1 events, a shorter pool never completes. '
              'c27_reference_pools_cover_structure: the reference and PA-reference pools cover what a mini-GOP of 2^hl pictures keeps in flight (the pinned sizes for six layers did not: fixed a3ea7f5). c27_pools_cover_window: for every configuration of the validated domain, every core count and size class, the input-buffer pool and picture-control-set pool computed by load_default_buffer_configuration_settings '
              '(regenerated from /repo on every run) are at least the window (PoolSpec.v); c27_encoder_progress composes both. The regenerated model is compared with the real function on ~12000 inputs (21 outputs each); the real '
              'encoder is run under a watchdog with drain-after-every-send, every 2/3/7, random polling, pauses, drain only at the end, recon on/off, lp 1/2/4: drain-after-every-send must complete and all completed patterns must be byte-identical.'),
        note=('Trusted: Coq kernel; translators/cast.py+tr_buffers.py; the window formula of PoolSpec.v (a specification transcribed from the hold rules of the stages; on the pinned tree the lp=1,2 pools equal it exactly); the abstract model has one window and '
              'in-order completion - recon-pool back-pressure and out-of-order completion are exhibited by the runs only (known finding D23: blocking get_packet after EOS with recon can stall).')),
    'C06': dict(
        category='other', design_ref='DESIGN.md §6 C06',
        technique='Coq theorems on a model of the dispatch macros with the tables regenerated from the rtcd sources + pointer-level correspondence + metamorphic encodes across use_cpu_flags',
        text=('c06_no_flags_selects_c_reference / c06_variant_needs_its_flag / c06_never_beyond_cpu / c06_choice_depends_on_listed_bits_only: for every flag word and every entry, the dispatch chooses the C reference when no flag is set and a SIMD variant '
              'only when its flag is both requested and detected (the last listed such variant); c06_library_masks_requested_flags: load_default_buffer_configuration_settings leaves requested & detected in use_cpu_flags (regenerated from EbEncHandle.c). '
              'The model is compared with the pointers the real setup_common_rtcd_internal / setup_rtcd_internal install for ~60 flag words x 781 pointers, and the same inputs are encoded with C only, ..SSE2, ..SSSE3, ..SSE4.1, ..SSE4.2, ..AVX, ..AVX2 and ALL: '
              'packets and recon must be byte-identical (8/10 bit, noise, flat, extremes, gradients, screen content, presets 4-8).'),
        note=('Partial: the theorems decide the dispatch mechanism only; that the selected kernels compute the same function is C07 (differential), and identity of the whole encoder output is observed on the scenarios run. AVX-512 builds are not exercised (the build here has EN_AVX512_SUPPORT=0 and the CPU flags detected are reported in the evidence).')),
    'C07': dict(
        category='other', design_ref='DESIGN.md §6 C07',
        technique='Coq theorem (all sample values) for the lane-sum path of the AVX2 variance kernels instantiated in the source + differential runs of every covered SIMD variant against its C reference, generated from the dispatch tables',
        text=('c07_variance_sum_exact / c07_variance_instances_within_lane_range / c07_variance_value_agrees: for every AVX2 variance kernel the current source instantiates (block size, reduction helper, strip height regenerated from variance_avx2.c), '
              'and for all byte differences, the 16-bit lane accumulation cannot wrap and the kernel returns the C reference value. For the other kernels: the dispatch tables of the current source are turned into a differential runner '
              '(507 SIMD variants: all 8-bit and 16-bit intra predictors, variance, SAD, SADx4, OBMC SAD / variance, spatial distortion, residual, SSE, NxM SAD, picture average) called directly next to their C references on zeros, max, '
              'alternating, random, large-DC-offset, ramp and sparse-extreme samples, tight / padded strides, unaligned starts, bit depths 8 and 10, widths 4..128.'),
        note=('Partial: only the variance sum path is proved (LaneSum.v transcribes which lanes meet before widening; the transcribed helpers are pinned by a digest of their text); transforms, convolutions, loop filters, CDEF, restoration, quantisers '
              'and the high-bit-depth kernels behind CONVERT_TO_SHORTPTR (253 + 18 pointers) are not called by the runner - they are reached only through the whole-encoder runs of C06. AVX-512 variants are not built here.')),
    'C20': dict(
        category='other', design_ref='DESIGN.md §6 C20',
        technique='Coq-verified monitor (decision procedure proved equivalent to the rule specification; tile-layout function with its own theorem) applied to independently parsed frame headers and per-block mode information of real encodes',
        text=('c20_monitor_sound: the extracted check accepts a history exactly when, for every coded frame, each tool whose switch is off shows no use (loop-filter levels, CDEF bits/strengths, restoration types, palette / intra-block-copy / OBMC / warped / '
              'filter-intra / CfL / inter-intra block counts, non-translational global motion, superres scaling) and the signalled tile_cols/rows (log2 and count) equal the requested layout limited by the number of superblocks; c20_requested_tiles_used: '
              'that limit is the identity whenever the frame has that many evenly dividing superblocks. Applied to every coded frame of encodes of contents that provoke each tool (counts of frames using each tool when enabled are reported for non-vacuity), '
              'with every switch off, single switches off, filters off x multi-tile layouts, tile_columns/rows 0..6 x sizes with fewer superblocks than requested tiles.'),
        note=('Partial: the monitor is verified, the claim about the encoder is observed on the scenarios run. Headers and block modes are read from the library\'s own decoder parse through EbDecHandle internals (no independent AV1 parser is available offline), '
              'so a syntax error shared by encoder and decoder would not be seen; superres on/off is checked through the frame-size fields only.')),
    'C08': dict(
        category='other', design_ref='DESIGN.md §6 C08',
        technique='Differential: decoder output against the encoder reconstruction over tools / sizes / bit depths / film grain / both decoder pipeline depths + Coq theorem for the shared film-grain random generator (regenerated from the C source) against the AV1 specification',
        text=('c08_grain_rng_matches_spec: get_random_number of grainSynthesis.c, translated from /repo on every run, equals the 16-bit LFSR of section 7.18.3.2 for every register value and bit count (the one component the reference shares with the decoder). '
              'For 11 (quick) stream families - landscape and portrait, 8/10 bit, 64 and 128 superblocks, screen content, tiles, superres, film grain on moving and on static noisy sources (parameter inheritance) - the pictures returned by svt_av1_dec_get_picture with '
              'is_16bit_pipeline 0 and 1 must equal the encoder reconstruction of the same display position sample for sample, in order, and the decoder must not crash or hang.'),
        note=('Partial: no independent AV1 decoder (aomdec, dav1d) nor foreign-encoder streams are available offline, so the reference is the encoder\'s own reconstruction (independent code for prediction, transforms, filters; shared code for film-grain synthesis) '
              'and only streams the SVT encoder can produce are covered. The portrait-size decoder crash found by this check is fixed in /repo (864c3b0).')),
    'C09': dict(
        category='other', design_ref='DESIGN.md §6 C09',
        technique='Coq theorems (every worker count, every interleaving) on a model of the tile reconstruction wavefront + metamorphic decodes across thread counts and perturbed schedules (hook H1) + ASan/UBSan decode',
        text=('c09_wavefront_invariant / c09_decode_after_neighbours / c09_no_deadlock / c09_terminates (DecWave.v: rows claimed in order under the tile mutex, spin wait on the parser and on the upper-right neighbour): a row never has two owners, every superblock '
              'is decoded exactly once and only after its left, upper and upper-right neighbours, some step is enabled until the tile is complete (the spin waits cannot deadlock) and every interleaving terminates. The same streams (1, 2 and 8 tiles, 64 and 128 superblocks, '
              '8/10 bit, film grain, portrait) are decoded with 1, 2, 3, 4, 8 threads and under two perturbation seeds: pictures must equal the single-thread pictures, the decoder must return and tear down; a two-tile stream is decoded with 1 and 4 threads under ASan+UBSan.'),
        note=('Partial: the model covers the reconstruction stage of one tile and is a transcription (tied to the code by the runs only); loop filter, CDEF, restoration and motion-field projection jobs, and data races on picture memory, are exhibited only by the runs. '
              'Known findings D25 (loop restoration rows differ with >= 2 threads) and D26 (multi-tile streams, >= 4 threads: schedule-dependent wrong blocks); the teardown double free is fixed in /repo. TSan is not used (it cannot follow the spin waits on plain volatile flags without drowning in reports).')),
    'C10': dict(
        category='other', design_ref='DESIGN.md §6 C10',
        technique='Sanitizer campaign on structure-aware mutations located with a Coq-verified OBU walk (theorem: in-bounds, always progresses) + valid streams and whole-stream splices that must decode cleanly',
        text=('c10_obu_walk_in_bounds: on any byte string the OBU walk of OBU.v either fails or splits off one OBU consisting of input bytes only, consuming at least 2 and at most all of them (no loop, no look-ahead). The check uses that walk to place mutations: '
              'truncation at OBU boundaries, bit flips in headers and anywhere, overwrites, size-field and type edits, drop / duplicate / reorder, partial splices, random strings, the annex-B flag; plus the valid streams themselves (10 geometries / tools) and splices '
              'of two whole valid streams (a new sequence header with another geometry or bit depth). Every case runs in a fresh single-threaded decoder under ASan+UBSan with a watchdog: each call must return, no report, teardown must succeed. '
              'Failures on conforming input are always violations; failures on malformed input are matched against the known sites.'),
        note=('Partial: memory safety of the real decoder is decided by the runs, not by theorems. The campaign uses a fixed internal seed so that the failure signatures of the unchanged tree are stable. Known findings: D6 (bit readers read up to 8 bytes past the caller\'s buffer, on valid streams), '
              'D14 (UBSan index out of bounds in EbDecParseBlock.c on valid streams), D28 (no validation of malformed input: 18 crash sites). Fixed in /repo: endless loop on any parse error, bit-depth change without re-initialisation, portrait-size overflow.')),
    'C14': dict(
        category='proof', design_ref='DESIGN.md §6 C14',
        technique='Coq-verified lock-discipline checker (sound for all execution paths) applied to control-flow skeletons regenerated from the C sources + executable protocol specification run against the real API in lockstep',
        text=('c14_checker_sound + c14_lock_discipline_holds: for every library function that calls svt_block_on_mutex / svt_release_mutex (45 in the current source; skeleton of locks, branches, loops, breaks, returns regenerated from clang\'s AST with macros expanded on every run), '
              'every execution path - any branch choices, any number of loop iterations - returns with every mutex it took released, never re-locks a held mutex and never releases one it does not hold (except the functions listed as recorded findings). '
              'c14_null_calls_are_errors / c14_rejected_configuration_keeps_handle_usable: the protocol specification (ApiProto.v) answers Err without state change to every NULL-argument call and accepts a valid configuration after any number of rejected / NULL ones. '
              'About 130 (quick) call scripts - legal sessions with each NULL-handle / NULL-buffer call at each position, rejected configurations before the valid one, decoder sessions - run against the real library, one process per script under a watchdog; result classes must equal the specification and no call may crash or block.'),
        note=('Trusted: Coq kernel; translators/tr_locks.py (the path semantics of the skeleton language is proved, the extraction of the skeleton from the AST is not; function discovery is textual); the protocol specification is hand-written from the API header and tied by the script runs. '
              'Blocking other than on mutexes (semaphore waits, full pools) is outside the theorem and covered by the scripts / C27 only. Known finding D29 (temporal filtering returns with temp_filt_mutex held on allocation failure). Fixed in /repo: set_parameter mutex leak, NULL dereferences, decoder deinit.')),
    'C15': dict(
        category='other', design_ref='DESIGN.md §6 C15',
        technique='Resource ledger (link-time --wrap of the allocation and OS-object creation functions) around real sessions torn down at every protocol point + Coq theorems on the constructor / destructor discipline + regenerated table: every allocated structure field has a release site',
        text=('c15_build_then_destroy_restores (CtorCalc.v): destroying what a safe constructor built returns every resource exactly once. c15_every_allocated_field_has_a_release_site: in the table regenerated from the allocation / release macros of the encoder and common sources '
              '(361 fields) no field is allocated somewhere and released nowhere (four reviewed alias exceptions). Encoder sessions (variants: recon, 10 bit, 4 processors, screen content, preset 4) and decoder sessions (1 / 4 threads, 8 / 16-bit pipeline) are torn down with deinit + deinit_handle '
              'after handle creation, after a rejected and an accepted configuration, after init, mid-stream (5..60 pictures sent, 0..6 packets retrieved) and after draining, twice or three times in a row: every call must return, no thread, heap block, mutex or semaphore of the library may remain, and the live heap must not grow per session.'),
        note=('Partial: the claim about the library is observed on the sessions run; memory obtained outside malloc/calloc/realloc/posix_memalign is not seen. Known findings D13 (mid-stream teardown can hang), D32 (mutexes / semaphores never destroyed), D33 (un-retrieved packet buffers leak), '
              'D34 (multi-threaded decoder leaks 14 mutexes per session). Fixed in /repo: decoder teardown crashes before the first frame.')),
    'C16': dict(
        category='other', design_ref='DESIGN.md §6 C16',
        technique='Coq theorem: the EB_NEW / destructor discipline unwinds a single failure at any position (CtorCalc.v) + single-failure injection at every distinct creation site of the real build (allocation, thread, mutex, semaphore)',
        text=('c16_eb_new_unwinds_any_single_failure: an object whose fields are built by safe constructors and are all covered by its destructor is safe - for every position of the one failing creation, everything built so far is released exactly once and the failure is reported. '
              'On the real library the k-th creation is made to fail during svt_av1_enc_init_handle / set_parameter / init and during the decoder\'s first frames, with k chosen so that every distinct creation site of the build (414 encoder sites, by return address) fails at least once '
              '(first and last occurrence and a stride in the thorough tier): the failing call must return an error, teardown must return, nothing may remain.'),
        note=('Partial: the discipline is proved of the model; which constructors of the library follow it is decided by the injection runs, site by site. Known findings: D12 (six encoder constructors crash when unwinding), D36 (lp_group survives a failed init_handle), D37 (some failed creations are swallowed), '
              'D41 (hang), D38 (the decoder has no unwinding at all - every decoder-side failure signature is listed as known, so the check is blind to new decoder-side regressions). Fixed in /repo: crash of the handle destructor for any failure inside svt_av1_enc_init_handle.')),
    'C17': dict(
        category='other', design_ref='DESIGN.md §6 C17',
        technique='Concurrent instances in one process compared with solo runs + static list of writable file-scope objects that may not grow + Coq statement on the process-global dispatch tables (regenerated)',
        text=('c17_dispatch_tables_are_process_global / c17_last_initialisation_wins_witness: in the model regenerated from the rtcd sources the kernel tables after two initialisations are those of the second, and they differ between C-only and AVX2 (harmless only because the variants are bit-exact, C07). '
              'Pairs and triples of encoder instances differing in preset (reference-count classes), bit depth, asm level, thread count, film grain and size, encoder + decoder, decoder + decoder, 128- vs 64-superblock encoders run simultaneously and with staggered starts, once with creation / initialisation / teardown serialised by the application and once fully concurrent; '
              'every instance must give the packets, recon and decoded pictures of its solo run. The writable .data/.bss objects of both libraries must stay within the reviewed list (238 besides the 781 dispatched pointers).'),
        note=('Partial: interference is exhibited by the runs only; TSan is not used. Known findings D10 (128- and 64-superblock encoders share block geometry: crash), D39 (two decoders share the allocation registry: crash), D40 (concurrent creation / teardown of encoders races on process-wide state).')),
    'C11': dict(
        category='other', design_ref='DESIGN.md §6 C11',
        technique='Sanitizer sessions of the real encoder over configurations x contents x sizes + large incompressible encodes + Coq theorems on the bitstream buffer size regenerated from the source',
        text=('c11_bitstream_buffer_covers_small_pictures: the size of the per-picture / per-tile bitstream buffers (EB_OUTPUTSTREAMBUFFERSIZE_MACRO translated from EbDefinitions.h on every run) is at least 3 bytes per luma sample for every area up to 666 666 samples; '
              'c11_bitstream_buffer_too_small_refuted: for 1600x900 it is smaller than the raw 8-bit picture (finding D24, replayed on the real encoder: heap overflow and crash with noise at qp 0). '
              'Full sessions (init .. EOS .. teardown) run under ASan+UBSan and a watchdog: noise at qp 0-4 in 8 and 10 bit, extremes at qp 63, sizes that are not multiples of 8, flat, screen content, 128 superblocks, tiles, film grain, superres, portrait, VBR; any report, crash, hang, missing or error-flagged packet is a violation.'),
        note=('Partial: memory safety is decided by the runs only; the 3-bytes-per-sample margin is a measured constant. Known findings D24 (fixed-size bitstream buffer), D42 (ME lambda tables have 52 entries, indexed with qp up to 63). Fixed in /repo: stack under-read in perform_md_reference_pruning.')),
}

NOT_BUILT_REASON = 'check not built yet in this development (work in progress); no claim is made'
