"""Registry of the checks that exist; tools/gen_manifest.py turns it into MANIFEST.json."""
CHECKS = {
    'C22': dict(
        category='proof', design_ref='DESIGN.md §6 C22',
        technique='Coq theorem over a model regenerated from the C source (clang AST -> Gallina) + exhaustive C/model correspondence',
        text=('rel_dist_all_copies: each of the five C copies of the order-hint distance helper, translated to Gallina from /repo on every run, '
              'is proved (for all bits>=1 and all integers a,b, no bound) to return the signed distance modulo 2^bits in [-2^(bits-1),2^(bits-1)), and 0 when order hints are disabled. '
              'The same C text is run exhaustively (bits<=8, all a,b) against the spec and against the generated model.'),
        note=('Trusted: Coq kernel, translators/cast.py on clang\'s typed AST, extraction+OCaml driver, gcc. The long-stream / queue wrap-around clause is exercised end to end by the thorough tier only '
              '(long encode decoded and monitored), not proved of the whole encoder.')),
}

NOT_BUILT_REASON = 'check not built yet in this development (work in progress); no claim is made'
