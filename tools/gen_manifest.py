#!/usr/bin/env python3
import json, os, sys
sys.path.insert(0, os.path.dirname(os.path.abspath(__file__)))
import registry
V = os.path.dirname(os.path.dirname(os.path.abspath(__file__)))
props = [json.loads(l)['id'] for l in open(os.path.join(V, 'properties.jsonl'))]
hooks_commits = []
try:
    hooks_commits = json.load(open(os.path.join(V, 'hooks.json')))['source_commits']
except OSError:
    pass
m = dict(version=1,
         setup_cmd='python3 tools/setup.py',
         hooks=dict(guard='SVT_AV1_VERIF', enable='checks build /repo with -DSVT_AV1_VERIF in CMAKE_C_FLAGS (tools/lib/build.py) and compile unit harnesses with -DSVT_AV1_VERIF',
                    baseline_off_cmd='bash tools/baseline_off.sh', source_commits=hooks_commits, add_only=True),
         engines=[dict(name='coq', path='coq/', serves_properties=sorted(registry.CHECKS), kind_free_text='Coq 8.16.1 project (theories/ hand models+proofs, gen/ regenerated models), extraction to OCaml drivers under obs/'),
                  dict(name='check.py', path='tools/check.py', serves_properties=sorted(registry.CHECKS), kind_free_text='driver: static gate, regenerate, prove, correspond, search, known findings, evidence')],
         checks=[], notes='See DESIGN.md. Every check regenerates/rebuilds from /repo\'s working tree.', not_applicable=[])
for pid in props:
    c = registry.CHECKS.get(pid)
    if not c:
        m['not_applicable'].append(dict(property_id=pid, reason=registry.NA.get(pid, registry.NOT_BUILT_REASON) if hasattr(registry, 'NA') else registry.NOT_BUILT_REASON))
        continue
    m['checks'].append(dict(property_id=pid, quick_cmd='python3 tools/check.py %s --tier quick' % pid,
                            thorough_cmd='python3 tools/check.py %s --tier thorough' % pid,
                            evidence_file='evidence/%s.json' % pid, replay_cmd_template='python3 tools/check.py %s --replay {path}' % pid,
                            engine='check.py', level_claimed=dict(category=c['category'], text=c['text'], design_ref=c['design_ref']),
                            level_note=c['note'], technique=c['technique']))
json.dump(m, open(os.path.join(V, 'MANIFEST.json'), 'w'), indent=1)
print('MANIFEST.json: %d checks, %d not_applicable' % (len(m['checks']), len(m['not_applicable'])))
