#!/bin/bash
# run every registered quick check on the current tree; summary lines only
cd /verif
for id in $(python3 -c "import sys; sys.path.insert(0,'tools'); import registry; print(' '.join(sorted(registry.CHECKS)))"); do
  timeout ${VERIF_CHECK_TIMEOUT:-1800} python3 tools/check.py $id --tier ${1:-quick} 2>&1 | grep -E "^(VIOLATION|C[0-9]+ tier)" | cut -c1-260
done
