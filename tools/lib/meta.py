"""Metamorphic comparison: the same input encoded under variants of something the output must not depend on."""
from . import e2e


def digest(h):
    return (tuple((p['pts'], p['size'], p['hash'], p['flags'] & 1) for p in h['pkts']), tuple(sorted((x['pts'], x['hash']) for x in h['recon'])))


def compare(ck, binp, stamp, bases, variants, what, timeout=180, jobs=None, sig_prefix='differs', repeat_on_diff=True, env_for=None):
    """bases: list of scenario dicts; variants: list of (label, dict overrides). Every base x variant is run; all variants of one
    base must give identical packets and recon. Returns number of bases compared."""
    runs = []
    for b in bases:
        for lab, ov in variants:
            a = dict(b); a.update(ov); runs.append(a)
    res = e2e.run_many(binp, stamp, runs, timeout=timeout, jobs=jobs)
    i = 0; ncmp = 0
    for b in bases:
        group = []
        for lab, ov in variants:
            group.append((lab, runs[i], res[i])); i += 1
        ck.case(e2e.describe(b))
        bad = [(lab, r['outcome']) for lab, a, r in group if r['outcome'] != 'ok' or len(r['hist']['pkts']) != b['n']]
        if bad:
            ck.violation('encode_%s:%s' % (bad[0][1].split('(')[0], what + '=' + str(bad[0][0])), 'encode did not complete (%s) with %s=%s: %s' % (bad[0][1], what, bad[0][0], e2e.describe(b)),
                         dict(scenario=b, variant=bad[0][0], outcomes=bad), True)
            continue
        ref = digest(group[0][2]['hist'])
        ncmp += 1
        for lab, a, r in group[1:]:
            d = digest(r['hist'])
            if d != ref:
                if repeat_on_diff:
                    # run-to-run noise would make this meaningless: repeat both once without cache
                    rr = e2e.run_many(binp, stamp, [group[0][1], a], timeout=timeout, use_cache=False)
                    if all(x['outcome'] == 'ok' for x in rr) and digest(rr[0]['hist']) == digest(rr[1]['hist']):
                        ck.notes.append('difference between %s=%s and %s=%s did not repeat (%s)' % (what, group[0][0], what, lab, e2e.describe(b)))
                        ck.violation('nondeterministic:%s' % what, 'the same encode gives different output on repetition (%s=%s vs %s): %s' % (what, group[0][0], lab, e2e.describe(b)), dict(scenario=b, variants=[group[0][0], lab]), True)
                        break
                pk0 = group[0][2]['hist']['pkts']; pk1 = r['hist']['pkts']
                first = next((k for k in range(min(len(pk0), len(pk1))) if pk0[k]['hash'] != pk1[k]['hash']), None)
                ck.violation('%s:%s' % (sig_prefix, what), 'output differs between %s=%s and %s=%s (first differing packet %s): %s' % (what, group[0][0], what, lab, first, e2e.describe(b)),
                             dict(scenario=b, variant_a=group[0][0], variant_b=lab, first_differing_packet=first, cmd_a=group[0][2].get('cmd'), cmd_b=r.get('cmd')), True)
                break
    return ncmp
