"""Generated C driver around the public encoder API for configuration cases (C12, C13, C14 share it)."""
import os, sys
from .core import VERIF, CACHE
sys.path.insert(0, os.path.join(VERIF, 'translators'))


def c_lvalue(f):
    return 'cfg->' + f[1]


def gen_source(fields):
    setters = []; dumps = []
    for i, f in enumerate(fields):
        if f[3] == 'blob':
            setters.append('    case %d: break; /* %s: aggregate, not set */' % (i, f[1]))
            dumps.append('    { const unsigned char *b = (const unsigned char *)&%s; unsigned long long hh = 1469598103934665603ULL; int allz = 1; for (size_t i = 0; i < sizeof(%s); i++) { hh = (hh ^ b[i]) * 1099511628211ULL; if (b[i]) allz = 0; } printf(" %%llu", allz ? 0ULL : (hh >> 2) | 1ULL); }' % (c_lvalue(f), c_lvalue(f)))
            continue
        if f[3] == 'ptr':
            setters.append('    case %d: %s = (void *)(uintptr_t)v; break;' % (i, c_lvalue(f)))
            dumps.append('    printf(" %%llu", (unsigned long long)(uintptr_t)%s);' % c_lvalue(f))
        else:
            setters.append('    case %d: %s = v; break;' % (i, c_lvalue(f)))
            dumps.append('    printf(" %%lld", (long long)%s);' % c_lvalue(f))
    return r'''
#include <stdio.h>
#include <stdlib.h>
#include <string.h>
#include <stdint.h>
#include <unistd.h>
#include <signal.h>
#include <sys/wait.h>
#ifdef DIRECT
/* direct mode: this translation unit IS EbEncHandle.c, so its static functions can be called one by one */
#include "EbEncHandle.c"
#include <setjmp.h>
static sigjmp_buf jb;
static void on_sig(int s) { siglongjmp(jb, s); }
#else
#include "EbSvtAv1Enc.h"
#endif
#define NFIELDS %d
static void set_field(EbSvtAv1EncConfiguration *cfg, int idx, long long v) {
    switch (idx) {
%s
    default: break;
    }
}
static void dump_fields(const EbSvtAv1EncConfiguration *cfg) {
%s
    printf("\n");
}
/* fill pattern for the caller's memory before svt_av1_enc_init_handle: 0 zero, 1 0xFF, 2 0xA5, 3+ pseudo-random */
static void fill(EbSvtAv1EncConfiguration *cfg, int pat) {
    unsigned char *b = (unsigned char *)cfg; unsigned x = 2463534242u + (unsigned)pat * 7919u;
    for (size_t i = 0; i < sizeof *cfg; i++) {
        if (pat == 0) b[i] = 0; else if (pat == 1) b[i] = 0xFF; else if (pat == 2) b[i] = 0xA5;
        else { x ^= x << 13; x ^= x >> 17; x ^= x << 5; b[i] = (unsigned char)x; }
    }
}
int main(int argc, char **argv) {
    if (argc < 2) return 2;
    if (!strcmp(argv[1], "defaults")) {            /* defaults <pattern> : dump what init_handle writes */
        EbSvtAv1EncConfiguration cfg; EbComponentType *h = NULL;
        fill(&cfg, argc > 2 ? atoi(argv[2]) : 0);
        EbErrorType e = svt_av1_enc_init_handle(&h, NULL, &cfg);
        printf("%%x", (unsigned)e); dump_fields(&cfg);
        return 0;
    }
#ifdef DIRECT
    if (!strcmp(argv[1], "direct")) {              /* copy_api_from_app + verify_settings called directly, one case per line */
        static char line[1 << 16];
        EbSvtAv1EncConfiguration base; EbComponentType *h = NULL;
        memset(&base, 0, sizeof base);
        int so = dup(1); int nul = open("/dev/null", 1); fflush(stdout); dup2(nul, 1);
        svt_av1_enc_init_handle(&h, NULL, &base);
        signal(SIGSEGV, on_sig); signal(SIGFPE, on_sig); signal(SIGBUS, on_sig);
        while (fgets(line, sizeof line, stdin)) {
            EbSvtAv1EncConfiguration cfg = base;
            char *p = line; char *end;
            for (;;) {
                long idx = strtol(p, &end, 10); if (end == p) break; p = end;
                long long v = (long long)strtoull(p, &end, 10); if (end == p) break; p = end;
                set_field(&cfg, (int)idx, v);
            }
            SequenceControlSet *scs = calloc(1, sizeof *scs);
            scs->static_config = base;
            int sig = sigsetjmp(jb, 1);
            char buf[64];
            if (sig == 0) {
                set_default_configuration_parameters(scs);
                copy_api_from_app(scs, &cfg);
                EbErrorType e = verify_settings(scs);
                snprintf(buf, sizeof buf, "rc %%x\n", (unsigned)e);
            } else snprintf(buf, sizeof buf, "crash %%d\n", sig);
            fflush(stdout); if (write(so, buf, strlen(buf)) < 0) return 3;
            free(scs);
        }
        return 0;
    }
#endif
    if (!strcmp(argv[1], "run")) {                 /* stdin: one case per line "idx val idx val ..." */
        static char line[1 << 16];
        int wd = argc > 2 ? atoi(argv[2]) : 10;
        while (fgets(line, sizeof line, stdin)) {
            fflush(stdout);
            pid_t pid = fork();
            if (pid == 0) {
                alarm(wd);
                int fd = open("/dev/null", 1); dup2(fd, 2);
                EbSvtAv1EncConfiguration cfg; EbComponentType *h = NULL;
                memset(&cfg, 0, sizeof cfg);
                EbErrorType e = svt_av1_enc_init_handle(&h, NULL, &cfg);
                if (e != EB_ErrorNone) { printf("init %%x\n", (unsigned)e); fflush(stdout); _exit(0); }
                char *p = line; char *end;
                for (;;) {
                    long idx = strtol(p, &end, 10); if (end == p) break; p = end;
                    long long v = (long long)strtoull(p, &end, 10); if (end == p) break; p = end;
                    set_field(&cfg, (int)idx, v);
                }
                int so = dup(1); int nul = open("/dev/null", 1); fflush(stdout); dup2(nul, 1);
                e = svt_av1_enc_set_parameter(h, &cfg);
                fflush(stdout); dup2(so, 1);
                printf("rc %%x\n", (unsigned)e); fflush(stdout);
                _exit(0);
            }
            int st = 0; waitpid(pid, &st, 0);
            if (WIFSIGNALED(st)) { printf(WTERMSIG(st) == SIGALRM ? "timeout\n" : "crash %%d\n", WTERMSIG(st)); }
            fflush(stdout);
        }
        return 0;
    }
    return 2;
}
''' % (len(fields), '\n'.join(setters), '\n'.join(dumps))
