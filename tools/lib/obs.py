"""Extraction + OCaml driver build: one small binary per property under .cache/obs/."""
import os
from .core import sh, locked, CACHE, COQ, VERIF

OBS = os.path.join(CACHE, 'obs')


def build_obs(pid, extra_deps=()):
    """Extract coq/extraction/Extract_<pid>.v (requires the .vo files to be built) and compile obs/<pid>.ml.
    Returns (ok, binary_path, log)."""
    tag = pid.lower()
    d = os.path.join(OBS, tag); os.makedirs(d, exist_ok=True)
    exv = os.path.join(COQ, 'extraction', 'Extract_%s.v' % pid)
    drv = os.path.join(VERIF, 'obs', '%s.ml' % tag)
    binp = os.path.join(d, tag)
    with locked('obs_' + tag):
        rc, out = sh('coqc -Q %s/theories SV -Q %s/gen SVG %s' % (COQ, COQ, exv), cwd=d, timeout=600)
        if rc:
            return False, binp, out
        ml = os.path.join(d, 'ex_%s.ml' % tag)
        allml = os.path.join(d, 'all_%s.ml' % tag)
        with open(allml, 'w') as f:
            ext = open(ml).read()
            f.write(ext); f.write('\n')
            if 'type z =' in ext:
                f.write(open(os.path.join(VERIF, 'obs', 'zconv_z.ml')).read()); f.write('\n')
            glue = open(os.path.join(VERIF, 'obs', 'zconv.ml')).read()
            if 'type nat =' not in ext:   # ExtrOcamlNatInt in use (or nat unused): nat is OCaml int
                glue = glue.replace('let rec nat_of_int (n : int) : nat = if n <= 0 then O else S (nat_of_int (n - 1))', 'let nat_of_int (n : int) : int = n')
                glue = glue.replace('let rec int_of_nat (n : nat) : int = match n with O -> 0 | S m -> 1 + int_of_nat m', 'let int_of_nat (n : int) : int = n')
            f.write(glue); f.write('\n'); f.write(open(drv).read())
        rc, out2 = sh('ocamlfind ocamlopt -O3 -w -a %s -o %s 2>&1 || ocamlfind ocamlopt -w -a %s -o %s' % (allml, binp, allml, binp), cwd=d, timeout=600)
        return rc == 0, binp, out + out2
