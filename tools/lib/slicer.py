"""Function slicer: extract the text of a C function definition by name (brace matching on comment-stripped text)."""
import re, os
from .core import REPO


def strip_c_comments(src):
    def repl(m):
        s = m.group(0)
        if s.startswith('/'):
            return ' ' + '\n' * s.count('\n')
        return s
    return re.sub(r'//[^\n]*|/\*.*?\*/|"(?:\\.|[^"\\])*"|\'(?:\\.|[^\'\\])*\'', repl, src, flags=re.S)


def slice_function(relpath, name, occurrence=0):
    """Return the full text (signature + body) of the definition of `name` in REPO/relpath, or None."""
    path = relpath if os.path.isabs(relpath) else os.path.join(REPO, relpath)
    src = strip_c_comments(open(path, errors='replace').read())
    found = []
    for m in re.finditer(r'(^|\n)([A-Za-z_][^\n;{}()]*?\b%s\s*\()' % re.escape(name), src):
        start = m.start(2)
        # find matching ')' then optional whitespace then '{'
        i = m.end(2); d = 1
        while i < len(src) and d:
            d += (src[i] == '(') - (src[i] == ')'); i += 1
        j = i
        while j < len(src) and src[j].isspace():
            j += 1
        if j >= len(src) or src[j] != '{':
            continue
        d = 0; k = j
        while k < len(src):
            d += (src[k] == '{') - (src[k] == '}')
            k += 1
            if d == 0:
                break
        found.append(src[start:k])
    if len(found) <= occurrence:
        return None
    return found[occurrence]
