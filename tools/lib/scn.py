"""Scenario driver (harness/scn/svt_scn.c): build against the current library, run scenarios under a watchdog,
parse histories; results cached per (library build stamp, arguments) inside one check run directory."""
import os, sys, re, json, hashlib, time, subprocess
from .core import VERIF, CACHE, sh, locked, write_if_changed
from . import build, spharness
sys.path.insert(0, os.path.join(VERIF, 'translators'))

SCN_DIR = os.path.join(CACHE, 'scn')


def fields():
    import confmodel
    return confmodel.config_fields()


def field_index(name, _cache={}):
    if not _cache:
        for i, f in enumerate(fields()):
            _cache[f[1]] = i
    return _cache[name]


def build_driver(variant='rel'):
    ok, d, log = build.ensure_lib(variant)
    if not ok:
        return False, None, log[-800:]
    os.makedirs(SCN_DIR, exist_ok=True)
    fl = fields()
    src = spharness.gen_source(fl)
    m = re.search(r'static void set_field\(.*?\n}\n', src, flags=re.S)
    write_if_changed(os.path.join(SCN_DIR, 'scn_fields.inc'), m.group(0))
    lp = build.lib_paths(variant)
    out = os.path.join(SCN_DIR, 'svt_scn_' + variant)
    flags = '-w -DNDEBUG -DARCH_X86_64=1 -DEN_AVX512_SUPPORT=0 -DSAFECLIB_STR_NULL_SLACK=1 -include fcntl.h -I%s -I%s/b/%s/Source/Lib/Common/Codec' % (SCN_DIR, CACHE, variant)
    if variant == 'asan':
        flags += ' -fsanitize=address,undefined -fno-sanitize=alignment,shift-base'
    with locked('scn_' + variant):
        ok, log = build.cc(out, [os.path.join(VERIF, 'harness/scn/svt_scn.c')], flags=flags, libs='%s %s' % (lp['enc'], lp['dec']))
    return ok, out, log[-800:]


def parse_history(path):
    h = dict(calls=[], sends=[], pkts=[], recon=[], dec=[], hdr=None, end=None, extra=[], fh=[], decs=[])
    try:
        for line in open(path, errors='replace'):
            p = line.split()
            if not p:
                continue
            if p[0] == 'CALL':
                h['calls'].append((p[1], p[2]))
            elif p[0] == 'SEND':
                h['sends'].append(dict(k=int(p[1]), pts=int(p[2]), rc=p[3]))
            elif p[0] == 'PKT':
                h['pkts'].append(dict(k=int(p[1]), size=int(p[2]), pts=int(p[3]), dts=int(p[4]), flags=int(p[5], 16), pic_type=int(p[6]), qp=int(p[7]),
                                      luma_sse=int(p[8]), cb_sse=int(p[9]), cr_sse=int(p[10]), hash=p[11], priv=int(p[12])))
            elif p[0] == 'RECON':
                d = dict(k=int(p[1]), pts=int(p[2]), flags=int(p[3], 16), size=int(p[4]), hash=p[5])
                if len(p) > 6 and p[6].startswith('sse='):
                    d['sse'] = [int(x) for x in p[6][4:].split(',')]
                h['recon'].append(d)
            elif p[0] == 'DEC':
                h['dec'].append(dict(k=int(p[1]), hash=p[4], pkt=int(p[5]) if len(p) > 5 else -1))
                if len(p) > 6 and p[6].startswith('dsse='):
                    h['dec'][-1]['dsse'] = [int(x) for x in p[6][5:].split(',')]
            elif p[0] == 'DECS':
                h['decs'].append(dict(start=int(p[1]), idx=int(p[2]), hash=p[3], pkt=int(p[4])))
            elif p[0] == 'FH':
                d = dict(pkt=int(p[1]), chunk=int(p[2]))
                for kv in p[3:]:
                    if '=' in kv:
                        a, b = kv.split('=', 1)
                        d[a] = [int(x) for x in b.split(',')] if ',' in b else int(b)
                h['fh'].append(d)
            elif p[0] == 'HDR':
                h['hdr'] = dict(size=int(p[1]), hash=p[2], bytes=p[3] if len(p) > 3 else '')
            elif p[0] == 'EXTRA':
                h['extra'].append(' '.join(p[1:]))
            elif p[0] == 'END':
                h['end'] = ' '.join(p[1:])
    except OSError:
        pass
    return h


def read_packets(path):
    out = []
    try:
        b = open(path, 'rb').read()
    except OSError:
        return out
    i = 0
    while i + 12 <= len(b):
        sz = int.from_bytes(b[i:i + 4], 'little'); pts = int.from_bytes(b[i + 4:i + 12], 'little', signed=True)
        out.append((pts, b[i + 12:i + 12 + sz])); i += 12 + sz
    return out


_stamps = {}


def _bin_stamp(binp):
    try:
        st = os.stat(binp); k = (binp, st.st_mtime_ns, st.st_size)
        if k not in _stamps:
            _stamps[k] = hashlib.sha1(open(binp, 'rb').read()).hexdigest()[:16]
        return _stamps[k]
    except OSError:
        return ''


def run(binp, args, timeout=120, tag=None, env=None):
    """args: dict of scenario keys; cfg overrides as {'f:<field name>': value}. Returns dict(outcome, hist, prefix, wall)."""
    a = {}
    env = dict(env or {})
    for k, v in args.items():
        if k.startswith('env:'):
            env[k[4:]] = str(v)
        elif k.startswith('f:'):
            a['f%d' % field_index(k[2:])] = v
        else:
            a[k] = v
    # output files are named after the CONTENT of the driver binary as well: results cached for one build of the library must never point at
    # files written by another build (a change applied and reverted would otherwise leave the cached verdicts reading the other build's packets)
    key = hashlib.sha1((binp + _bin_stamp(binp) + json.dumps(a, sort_keys=True) + json.dumps(env, sort_keys=True)).encode()).hexdigest()[:16]
    d = os.path.join(SCN_DIR, 'runs'); os.makedirs(d, exist_ok=True)
    prefix = os.path.join(d, (tag or 's') + '_' + key)
    for ext in ('.hist', '.pkts'):
        try:
            os.remove(prefix + ext)
        except OSError:
            pass
    cmd = [binp, 'out=' + prefix] + ['%s=%s' % (k, v) for k, v in a.items()]
    t0 = time.time()
    e = dict(os.environ)
    if env:
        e.update(env)
    try:
        p = subprocess.run(cmd, stdout=subprocess.DEVNULL, stderr=subprocess.PIPE, timeout=timeout, env=e)
        rc = p.returncode; err = p.stderr.decode(errors='replace'); err = err[-2000:] if 'Sanitizer' not in err and 'runtime error' not in err else '\n'.join([l for l in err.split('\n') if 'Sanitizer' in l or 'runtime error' in l or l.lstrip().startswith('#')][:40])
        outcome = 'ok' if rc == 0 else ('crash(signal %d)' % -rc if rc < 0 else 'exit(%d)' % rc)
    except subprocess.TimeoutExpired as ex:
        outcome = 'timeout'; err = (ex.stderr or b'').decode(errors='replace')[-2000:]
    h = parse_history(prefix + '.hist')
    if outcome == 'ok' and not (h['end'] or '').startswith(('ok', 'set_parameter_rejected', 'init_handle_failed', 'enc_init_failed')):
        outcome = 'incomplete'
    return dict(outcome=outcome, hist=h, prefix=prefix, wall=time.time() - t0, stderr=err, args=args, cmd=' '.join(cmd))
