"""Shared end-to-end machinery: scenario execution in parallel with an on-disk cache keyed by the library build."""
import os, sys, json, hashlib, time
from concurrent.futures import ThreadPoolExecutor
from .core import CACHE, NCPU
from . import scn, build

_driver = {}


def driver(ck, variant='rel'):
    if variant not in _driver:
        ok, binp, log = scn.build_driver(variant)
        ck.obligation('build the library (%s, hooks on) and the scenario driver from /repo' % variant, ok, log[-500:])
        stamp = hashlib.sha1(open(binp, 'rb').read()).hexdigest()[:16] if ok else ''
        _driver[variant] = (ok, binp, stamp)
    return _driver[variant]


def run_many(binp, stamp, arglist, timeout=120, jobs=None, tag='s', use_cache=True):
    jobs = jobs or max(2, NCPU // 2)
    cdir = os.path.join(CACHE, 'scn', 'cache'); os.makedirs(cdir, exist_ok=True)
    def one(a):
        key = hashlib.sha1((stamp + json.dumps(a, sort_keys=True) + str(timeout)).encode()).hexdigest()[:20]
        cf = os.path.join(cdir, key + '.json')
        if use_cache and os.path.exists(cf):
            try:
                r = json.load(open(cf)); r['cached'] = True
                # only verdicts whose output files were written by this very build of the driver are reused
                if r.get('bin_stamp') == scn._bin_stamp(binp) and (r['outcome'] != 'ok' or os.path.exists(r['prefix'] + '.hist')):
                    return r
            except Exception:
                pass
        r = scn.run(binp, a, timeout=timeout, tag=tag)
        r['bin_stamp'] = scn._bin_stamp(binp)
        r.pop('stderr', None) if r['outcome'] == 'ok' else None
        if r['outcome'] != 'timeout':          # a watchdog expiry may be the machine, not the code: never remembered, and confirmed below
            try:
                json.dump(r, open(cf, 'w'))
            except Exception:
                pass
        return r
    with ThreadPoolExecutor(jobs) as ex:
        res = list(ex.map(one, arglist))
    # every watchdog expiry is run again with nothing else of this batch running: only a run that does not return then either counts as a hang
    for i, r in enumerate(res):
        if r['outcome'] == 'timeout' and not r.get('cached'):
            r2 = scn.run(binp, arglist[i], timeout=timeout, tag=tag)
            r2['first_attempt'] = 'timeout under load'
            if r2['outcome'] != 'timeout':
                r2.pop('stderr', None) if r2['outcome'] == 'ok' else None
            res[i] = r2
    return res


def describe(a):
    return ' '.join('%s=%s' % (k.replace('f:', ''), v) for k, v in sorted(a.items()))
