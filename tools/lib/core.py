"""Shared machinery for the /verif checks: paths, locks, Coq build, evidence, findings.

Every check is `python3 tools/check.py Cxx --tier quick|thorough`; this module
holds what all of them share.  Nothing here decides a property: it runs the
proof build, the translators / correspondence harnesses, and records what
happened.
"""
import os, sys, json, time, re, subprocess, fcntl, hashlib, random, shutil, contextlib

VERIF = os.path.dirname(os.path.dirname(os.path.dirname(os.path.abspath(__file__))))
REPO = os.environ.get('VERIF_REPO', '/repo')
CACHE = os.path.join(VERIF, '.cache')
COQ = os.path.join(VERIF, 'coq')
GEN = os.path.join(COQ, 'gen')
THEORIES = os.path.join(COQ, 'theories')
EVID = os.path.join(VERIF, 'evidence')
REPLAYS = os.path.join(CACHE, 'replays')
NCPU = os.cpu_count() or 4

for d in (CACHE, GEN, EVID, REPLAYS):
    os.makedirs(d, exist_ok=True)


def sh(cmd, timeout=600, cwd=None, env=None, input=None):
    """Run a shell command; returns (rc, stdout+stderr). rc 124 on timeout."""
    e = dict(os.environ)
    if env:
        e.update(env)
    try:
        p = subprocess.run(cmd, shell=isinstance(cmd, str), cwd=cwd, env=e, input=input,
                           stdout=subprocess.PIPE, stderr=subprocess.STDOUT, timeout=timeout, text=True,
                           errors='replace')
        return p.returncode, p.stdout
    except subprocess.TimeoutExpired as ex:
        out = ex.stdout or ''
        if isinstance(out, bytes):
            out = out.decode(errors='replace')
        return 124, out + '\n[timeout after %ss]' % timeout


@contextlib.contextmanager
def locked(name):
    path = os.path.join(CACHE, name + '.lock')
    with open(path, 'w') as f:
        fcntl.flock(f, fcntl.LOCK_EX)
        try:
            yield
        finally:
            fcntl.flock(f, fcntl.LOCK_UN)


def write_if_changed(path, text):
    """Write text to path only when it differs (keeps mtimes so make stays incremental)."""
    try:
        if open(path).read() == text:
            return False
    except OSError:
        pass
    os.makedirs(os.path.dirname(path), exist_ok=True)
    tmp = path + '.tmp%d' % os.getpid()
    with open(tmp, 'w') as f:
        f.write(text)
    os.replace(tmp, path)
    return True


def repo_tree_hash(paths=None):
    """Hash of the current working-tree content of the given repo paths (default: Source)."""
    h = hashlib.sha1()
    paths = paths or ['Source']
    for p in paths:
        full = os.path.join(REPO, p)
        if os.path.isfile(full):
            h.update(p.encode()); h.update(open(full, 'rb').read())
            continue
        for root, dirs, files in os.walk(full):
            dirs.sort()
            for fn in sorted(files):
                fp = os.path.join(root, fn)
                h.update(fp.encode())
                try:
                    h.update(open(fp, 'rb').read())
                except OSError:
                    pass
    return h.hexdigest()


# --------------------------------------------------------------------------
# Coq project
# --------------------------------------------------------------------------

STATIC_GATE = re.compile(r'\b(Admitted|admit|Axiom|Axioms|Parameter|Parameters|Conjecture|Conjectures|Hypothesis|Hypotheses|Variable|Variables)\b|Unset\s+Guard|Unset\s+Positivity|Unset\s+Universe|bypass_check|type-in-type|impredicative-set|Admit\s+Obligations|native_compute')
STMT = re.compile(r'^\s*(?:Local\s+|Global\s+|Program\s+)?(Theorem|Lemma|Corollary|Example|Fact|Remark|Proposition)\s+([A-Za-z_][A-Za-z_0-9\']*)', re.M)


def strip_comments(text):
    out = []; depth = 0; i = 0
    while i < len(text):
        if text.startswith('(*', i):
            depth += 1; i += 2; continue
        if text.startswith('*)', i) and depth:
            depth -= 1; i += 2; continue
        if depth == 0:
            out.append(text[i])
        elif text[i] == '\n':
            out.append('\n')
        i += 1
    return ''.join(out)


def static_gate():
    """No Admitted / Axiom / Parameter / guard switches anywhere in coq/.
    Variable/Hypothesis are allowed only inside a Section (checked by nesting)."""
    bad = []
    files = []
    for root, _, fs in os.walk(COQ):
        for fn in fs:
            if fn.endswith('.v'):
                files.append(os.path.join(root, fn))
    files.append(os.path.join(COQ, '_CoqProject'))
    for fp in sorted(files):
        try:
            text = strip_comments(open(fp).read())
        except OSError:
            continue
        depth = 0
        for ln, line in enumerate(text.split('\n'), 1):
            if re.match(r'\s*Section\s+\w+', line):
                depth += 1
            for m in STATIC_GATE.finditer(line):
                w = m.group(0)
                if re.match(r'Variable|Variables|Hypothesis|Hypotheses', w) and depth > 0:
                    continue
                bad.append('%s:%d: %s' % (os.path.relpath(fp, VERIF), ln, w))
            if re.match(r'\s*End\s+\w+\s*\.', line) and depth > 0:
                # closes either a Section or a Module; Modules are not counted as opening, so
                # only decrement when a section is open (modules inside sections are not used)
                depth -= 1
    return bad


def coq_project_files():
    fs = []
    for sub in ('theories', 'gen'):
        d = os.path.join(COQ, sub)
        for fn in sorted(os.listdir(d)):
            if fn.endswith('.v'):
                fs.append('%s/%s' % (sub, fn))
    return fs


def coq_makefile():
    """(Re)generate _CoqProject and Makefile.coq when the file list changed."""
    files = coq_project_files()
    proj = '-Q theories SV\n-Q gen SVG\n-arg -w -arg -notation-overridden,-deprecated-hint-without-locality,-deprecated-instance-without-locality\n' + '\n'.join(files) + '\n'
    changed = write_if_changed(os.path.join(COQ, '_CoqProject'), proj)
    if changed or not os.path.exists(os.path.join(COQ, 'Makefile.coq')):
        rc, out = sh('coq_makefile -f _CoqProject -o Makefile.coq', cwd=COQ)
        if rc:
            raise RuntimeError('coq_makefile failed: ' + out)


ERR_RE = re.compile(r'File "\./([^"]+)", line (\d+), characters [^:]*:\s*\nError:?(.*?)(?=\n(?:File "|make|COQC|coqc|$))', re.S)


def enclosing_statement(vfile, line):
    try:
        text = open(os.path.join(COQ, vfile)).read()
    except OSError:
        return None
    best = None
    for m in STMT.finditer(text):
        ln = text.count('\n', 0, m.start()) + 1
        if ln <= line:
            best = m.group(2)
    return best


def coq_make(targets, timeout=1800):
    """make -k the given .vo targets. Returns dict(ok, log, errors=[{file,line,stmt,msg}])."""
    with locked('coq'):
        coq_makefile()
        tg = ' '.join(targets)
        rc, out = sh('timeout %d make -k -j%d -f Makefile.coq %s' % (timeout, NCPU, tg), cwd=COQ, timeout=timeout + 30)
    errors = []
    for m in ERR_RE.finditer(out):
        f, ln, msg = m.group(1), int(m.group(2)), m.group(3).strip()
        errors.append(dict(file=f, line=ln, stmt=enclosing_statement(f, ln), msg=msg[:600]))
    if rc != 0 and not errors:
        errors.append(dict(file='?', line=0, stmt=None, msg=out[-800:]))
    return dict(ok=(rc == 0), log=out, errors=errors)


def statements_in(vfile):
    text = strip_comments(open(os.path.join(COQ, vfile)).read())
    return [(m.group(1), m.group(2), text.count('\n', 0, m.start()) + 1) for m in STMT.finditer(text)]


def print_assumptions(module, names, prefix='SV'):
    """Run coqc on a tiny file printing the assumptions of each theorem. Returns {name: text}."""
    tmpd = os.path.join(CACHE, 'pa'); os.makedirs(tmpd, exist_ok=True)
    fn = os.path.join(tmpd, 'PA_%s.v' % module)
    lines = ['From %s Require Import %s.' % (prefix, module)]
    for n in names:
        lines.append('Goal True. idtac "@@PA %s". Abort.' % n)
        lines.append('Print Assumptions %s.' % n)
    open(fn, 'w').write('\n'.join(lines) + '\n')
    rc, out = sh('coqc -Q %s/theories SV -Q %s/gen SVG %s' % (COQ, COQ, fn), cwd=tmpd, timeout=300)
    res = {}
    cur = None
    for line in out.split('\n'):
        if line.startswith('@@PA '):
            cur = line[5:].strip(); res[cur] = ''
        elif cur is not None:
            res[cur] += line + '\n'
    return {k: ' '.join(v.split()) for k, v in res.items()}, rc


# --------------------------------------------------------------------------
# Check object
# --------------------------------------------------------------------------

class Check:
    def __init__(self, pid, tier, seed, level):
        self.pid = pid; self.tier = tier; self.seed = seed; self.level = level
        self.t0 = time.time()
        self.rng = random.Random(seed)
        self.obligations = []      # (name, ok, detail)
        self.violations = []       # dict(signature, what, replay, found_input)
        self.known = []
        self.cov = dict(samples=[], trusted_base=[], explanation='')
        self.assumptions = []
        self.notes = []
        self.evals = 0
        self.distinct = set()

    # ---- proof obligations
    def prove(self, prop_module, extra_modules=(), gen_modules=()):
        """Static gate + build of Properties module closure; records one obligation per statement."""
        bad = static_gate()
        self.obligation('static_gate(no Admitted/Axiom/Parameter/guard switches in coq/)', not bad, '; '.join(bad[:5]))
        targets = ['theories/%s.vo' % prop_module] + ['theories/%s.vo' % m for m in extra_modules] + ['gen/%s.vo' % m for m in gen_modules]
        r = coq_make(targets)
        failed_by_file = {}
        for e in r['errors']:
            failed_by_file.setdefault(e['file'], []).append(e)
        names = []
        for vf in ['theories/%s.v' % prop_module] + ['theories/%s.v' % m for m in extra_modules] + ['gen/%s.v' % m for m in gen_modules]:
            if not os.path.exists(os.path.join(COQ, vf)):
                self.obligation(vf + ' exists', False, 'missing'); continue
            vo_ok = os.path.exists(os.path.join(COQ, vf + 'o')) and r['ok'] or (os.path.exists(os.path.join(COQ, vf + 'o')) and vf not in failed_by_file and os.path.getmtime(os.path.join(COQ, vf + 'o')) >= os.path.getmtime(os.path.join(COQ, vf)))
            errs = failed_by_file.get(vf, [])
            first_err_line = min([e['line'] for e in errs], default=None)
            for kind, name, ln in statements_in(vf):
                if vo_ok:
                    ok = True; det = ''
                elif first_err_line is not None:
                    # statements wholly before the failing one were accepted by coqc before it stopped
                    bad_stmt = errs[0]['stmt']
                    ok = (ln < first_err_line and name != bad_stmt)
                    det = '' if ok else ('%s:%d %s' % (vf, errs[0]['line'], errs[0]['msg'][:300]) if name == bad_stmt else 'not reached: file stopped at line %d' % first_err_line)
                else:
                    ok = False; det = 'dependency failed to build: ' + '; '.join('%s:%d %s' % (e['file'], e['line'], (e['stmt'] or '')) for e in r['errors'][:3])
                self.obligation('%s.%s' % (os.path.basename(vf)[:-2], name), ok, det)
                if vf.startswith('theories/' + prop_module) and kind in ('Theorem', 'Corollary'):
                    names.append(name)
        self.coq_ok = r['ok']
        self.coq_errors = r['errors']
        if r['ok'] and names:
            pa, rc = print_assumptions(prop_module, names)
            self.cov['print_assumptions'] = pa
            for n, t in pa.items():
                if 'Closed under the global context' not in t:
                    self.assumptions.append('theorem %s depends on: %s' % (n, t[:300]))
        self.cov['checker_cmd'] = 'cd coq && make -k -f Makefile.coq ' + ' '.join(targets) + '  (coqc 8.16.1, full .vo build)'
        return r['ok']

    def obligation(self, name, ok, detail=''):
        self.obligations.append((name, bool(ok), detail))

    def broken_obligations(self):
        return [(n, d) for n, ok, d in self.obligations if not ok]

    # ---- coverage bookkeeping
    def case(self, key, nontrivial=True):
        self.evals += 1
        if nontrivial:
            self.distinct.add(key if isinstance(key, (str, int, tuple)) else json.dumps(key, sort_keys=True))

    def sample(self, s):
        if len(self.cov['samples']) < 8:
            self.cov['samples'].append(s)

    def trust(self, *items):
        for i in items:
            if i not in self.cov['trusted_base']:
                self.cov['trusted_base'].append(i)

    # ---- violations
    def violation(self, signature, what, replay_obj, found_input=True):
        """Record a violation. replay_obj is JSON-serialisable; written to a replay file."""
        os.makedirs(os.path.join(REPLAYS, self.pid), exist_ok=True)
        h = hashlib.sha1(json.dumps(replay_obj, sort_keys=True, default=str).encode()).hexdigest()[:12]
        path = os.path.join(REPLAYS, self.pid, '%s_%s.json' % (re.sub(r'[^A-Za-z0-9_.-]+', '_', signature)[:60], h))
        body = dict(property=self.pid, signature=signature, what=what, found_failing_input=found_input, replay=replay_obj,
                    seed=self.seed, tier=self.tier)
        with open(path, 'w') as f:
            json.dump(body, f, indent=1, default=str)
        self.violations.append(dict(signature=signature, what=what, replay=path, found_input=found_input))

    # ---- finish
    def finish(self):
        kf = load_findings()
        unlisted = []
        for v in self.violations:
            m = match_finding(kf, self.pid, v['signature'])
            if m:
                self.known.append((m, v))
            else:
                unlisted.append(v)
        # safety net: a proof obligation / translation / correspondence that no longer checks is a violation even when the only
        # violations found are listed findings (the per-check code reports it with what it searched; this catches the rest)
        br = [(n, d) for n, ok, d in self.obligations if not ok]
        if br and not unlisted:
            self.violation('obligation_broken', '%s proof/tie no longer checks: ' % self.pid + '; '.join('%s (%s)' % (n, d[:200]) for n, d in br[:3]),
                           dict(broken=[dict(name=n, detail=d) for n, d in br], searched='the scenarios of this run: no failing input outside the listed findings'), False)
            unlisted.append(self.violations[-1])
        seen = set()
        for m, v in self.known:
            if m['id'] in seen:
                continue
            seen.add(m['id'])
            print('KNOWN-FINDING: property=%s %s [%s]' % (self.pid, m['what'], m['id']))
        for v in unlisted:
            tail = '' if v['found_input'] else ' no-failing-input-found'
            print('VIOLATION property=%s replay=%s%s' % (self.pid, v['replay'], tail))
            print('  what: ' + v['what'][:500])
        nob = len(self.obligations); ndis = sum(1 for _, ok, _ in self.obligations if ok)
        cov = self.cov
        cov['obligations'] = nob; cov['discharged'] = ndis
        cov['obligation_list'] = [dict(name=n, discharged=ok, detail=d) for n, ok, d in self.obligations]
        cov.setdefault('checker_cmd', 'python3 tools/check.py %s --tier %s' % (self.pid, self.tier))
        cov['evaluations'] = max(self.evals, cov.get('evaluations', 0))
        cov['distinct_nontrivial'] = max(len(self.distinct), cov.get('distinct_nontrivial', 0))
        cov['known_findings_matched'] = sorted(seen)
        cov['violations_unlisted'] = [dict(signature=v['signature'], what=v['what'][:300], replay=v['replay']) for v in unlisted]
        if self.notes:
            cov['notes'] = self.notes
        ev = dict(property_id=self.pid, tier=self.tier, seed=self.seed, level=self.level, coverage=cov,
                  assumptions=self.assumptions, wall_s=round(time.time() - self.t0, 2), violations=len(unlisted))
        with open(os.path.join(EVID, self.pid + '.json'), 'w') as f:
            json.dump(ev, f, indent=1, default=str)
        print('%s tier=%s seed=%d obligations=%d/%d evaluations=%d distinct=%d known=%d violations=%d wall=%.1fs' % (
            self.pid, self.tier, self.seed, ndis, nob, cov['evaluations'], cov['distinct_nontrivial'], len(seen), len(unlisted), time.time() - self.t0))
        return 1 if unlisted else 0


def load_findings():
    try:
        return json.load(open(os.path.join(VERIF, 'known_findings.json')))
    except OSError:
        return dict(findings=[], fixed=[])


def match_finding(kf, pid, signature):
    for f in kf.get('findings', []):
        if f['property'] != pid:
            continue
        if f.get('signature') == signature:
            return f
        if f.get('signature_re') and re.fullmatch(f['signature_re'], signature):
            return f
    return None
