"""Library build variants (cmake+ninja, incremental, from /repo's working tree) and small harness builds."""
import os, time
from .core import sh, locked, CACHE, REPO, VERIF, NCPU

BDIR = os.path.join(CACHE, 'b')
GUARD = 'SVT_AV1_VERIF'

VARIANTS = {
    # name: (cmake build type, shared?, extra C flags)
    'rel': ('Release', False, '-D%s' % GUARD),
    'relshared': ('Release', True, '-D%s' % GUARD),
    'asan': ('Debug', False, '-D%s -DNDEBUG -O1 -g -fsanitize=address,undefined -fno-sanitize=alignment,shift-base -fno-omit-frame-pointer' % GUARD),
}

INCLUDES = ['Source/API', 'Source/Lib/Common/Codec', 'Source/Lib/Common/C_DEFAULT', 'Source/Lib/Common/ASM_SSE2',
            'Source/Lib/Common/ASM_SSSE3', 'Source/Lib/Common/ASM_SSE4_1', 'Source/Lib/Common/ASM_AVX2',
            'Source/Lib/Encoder/Codec', 'Source/Lib/Encoder/Globals', 'Source/Lib/Encoder/C_DEFAULT',
            'Source/Lib/Encoder/ASM_SSE2', 'Source/Lib/Encoder/ASM_SSSE3', 'Source/Lib/Encoder/ASM_SSE4_1', 'Source/Lib/Encoder/ASM_AVX2',
            'Source/Lib/Decoder/Codec', 'Source/App/EncApp', 'third_party/fastfeat']


def inc_flags():
    return ' '.join('-I%s/%s' % (REPO, p) for p in INCLUDES)


def ensure_lib(variant='rel', timeout=3000):
    """Configure (once) and ninja-build the variant from the current working tree. Returns (ok, dir, log)."""
    bt, shared, cflags = VARIANTS[variant]
    d = os.path.join(BDIR, variant)
    with locked('build_' + variant):
        os.makedirs(BDIR, exist_ok=True)
        log = ''
        if not os.path.exists(os.path.join(d, 'build.ninja')):
            cmd = ('cmake -G Ninja -S %s -B %s -DCMAKE_BUILD_TYPE=%s -DBUILD_TESTING=OFF -DBUILD_SHARED_LIBS=%s '
                   '-DCMAKE_OUTPUT_DIRECTORY=%s/bin "-DCMAKE_C_FLAGS=%s" "-DCMAKE_CXX_FLAGS=%s"' % (
                       REPO, d, bt, 'ON' if shared else 'OFF', d, cflags, cflags))
            if variant == 'asan':
                cmd += ' "-DCMAKE_EXE_LINKER_FLAGS=-fsanitize=address,undefined"'
            rc, log = sh(cmd, timeout=600)
            if rc:
                return False, d, log
        rc, out = sh('ninja -C %s' % d, timeout=timeout)
        return rc == 0, d, log + out


def lib_paths(variant='rel'):
    d = os.path.join(BDIR, variant, 'bin')
    return dict(dir=d, enc=os.path.join(d, 'libSvtAv1Enc.a'), dec=os.path.join(d, 'libSvtAv1Dec.a'),
                encapp=os.path.join(d, 'SvtAv1EncApp'), decapp=os.path.join(d, 'SvtAv1DecApp'))


def cc(out, sources, flags='', libs='', timeout=600, compiler='gcc'):
    """Compile a small harness. `sources` may include /repo .c files (they are compiled from the working tree)."""
    os.makedirs(os.path.dirname(out), exist_ok=True)
    cmd = '%s -D%s -O1 -g %s %s %s -o %s %s -lpthread -lm' % (compiler, GUARD, inc_flags(), flags, ' '.join(sources), out, libs)
    rc, log = sh(cmd, timeout=timeout)
    return rc == 0, log
