"""Per-display-position view of a history: which coded frame each packet displays (from the decoder-parsed headers)."""


def coded_frames(h):
    return [f for f in h['fh'] if f.get('sef') == 0]


def displayed(h, oh_bits=7):
    """For packet k: the coded frame it displays (dict) or None."""
    out = []
    by_oh = {}
    per_pkt = {}
    for f in h['fh']:
        per_pkt.setdefault(f['pkt'], []).append(f)
    npk = len(h['pkts'])
    for k in range(npk):
        fs = per_pkt.get(k, [])
        shown = None
        for f in fs:
            if f['sef'] == 0:
                by_oh[f['oh']] = f
                if f['show'] == 1:
                    shown = f
        if shown is None and any(f['sef'] == 1 for f in fs):
            shown = by_oh.get(k % (1 << oh_bits))
        out.append(shown)
    return out
