#!/usr/bin/env python3
"""Offline setup after a fresh restore: regenerate generated models, build the Coq project from clean,
build the library variants the checks use (hooks on) and the OCaml drivers."""
import os, sys, time, glob, shutil
sys.path.insert(0, os.path.dirname(os.path.abspath(__file__)))
from lib import core, build
import registry

t0 = time.time()
# clean Coq products
for pat in ('theories/*.vo*', 'theories/*.glob', 'theories/.*.aux', 'gen/*.vo*', 'gen/*.glob', 'gen/.*.aux', 'Makefile.coq*', '.Makefile.coq.d'):
    for f in glob.glob(os.path.join(core.COQ, pat)):
        os.remove(f)
# regenerate every generated model from /repo
sys.path.insert(0, os.path.join(core.VERIF, 'translators'))
import importlib
for mod in sorted(glob.glob(os.path.join(core.VERIF, 'tools', 'checks', 'c*.py'))):
    name = os.path.basename(mod)[:-3]
    m = importlib.import_module('checks.' + name)
    if hasattr(m, 'regenerate'):
        try:
            m.regenerate()
        except Exception as e:
            print('regenerate', name, 'failed:', e)
core.coq_makefile()
rc, out = core.sh('make -k -j%d -f Makefile.coq' % core.NCPU, cwd=core.COQ, timeout=3600)
print(out[-3000:])
print('coq build rc=%d (%.0fs)' % (rc, time.time() - t0))
for v in ('rel', 'asan'):
    ok, d, log = build.ensure_lib(v)
    print('lib', v, 'ok' if ok else 'FAILED', '(%.0fs)' % (time.time() - t0))
    if not ok:
        print(log[-2000:])
print('setup done in %.0fs' % (time.time() - t0))
