#!/bin/bash
# try.sh <seed> <check> [check...] : apply a stored seed to /repo, run the given quick checks, revert. Prints summary lines.
S=$1; shift
cd /verif
git -C /repo status --short | grep -v '^??' && { echo "repo not clean"; exit 2; }
P=/verif/seeded/$S/patch.diff; [ -f /verif/seeded/$S/patch_current.diff ] && P=/verif/seeded/$S/patch_current.diff
git -C /repo apply $P || { echo "patch does not apply"; exit 2; }
for c in "$@"; do
  timeout 3000 python3 tools/check.py $c --tier ${TIER:-quick} 2>&1 | grep -E "^(VIOLATION|  what|C[0-9]+ tier)" | cut -c1-330
done
git -C /repo checkout -- .
git -C /repo status --short | grep -v '^??'
echo "== $S done"
