#!/usr/bin/env python3
"""Print the prompt given to an independent sub-agent that seeds a breaking change for one property.
The agent gets only the property text and a scratch worktree: nothing from /verif."""
import json, sys
pid = sys.argv[1]; variant = sys.argv[2] if len(sys.argv) > 2 else ''
p = [json.loads(l) for l in open('/verif/properties.jsonl') if json.loads(l)['id'] == pid][0]
wt = '/tmp/seed/%s%s' % (pid, variant)
print(f'''You are testing a verification effort for the SVT-AV1 video codec library (C, multi-threaded). Your job: produce ONE realistic change to the library source that BREAKS the following semantic property, while the code still compiles and the existing test suite still passes.

PROPERTY ({pid}): {p['title']}
Statement: {p['statement']}
Quantified over: {p['quantifier']['text']}

Your private scratch git worktree of the repository is {wt} (a detached checkout of the pinned commit). Work ONLY inside {wt} (and scratch files under {wt}/_seed/). Do NOT touch /repo, do NOT read or touch /verif, do not commit anything. No network is available.

What kind of change: a plausible maintainer mistake (a refactor gone subtly wrong, an off-by-one, a dropped lock/step, a wrong constant, two sites that each look fine alone) in the library code under Source/Lib that makes the property false. It must need something SPECIFIC to manifest — a particular interleaving, a particular size/configuration, a multi-step sequence of operations, an unusual input, a boundary value, or two cooperating sites — NOT something that any ordinary use (e.g. the default `SvtAv1EncApp` encode of a few frames at a common size) would expose at once. {variant and 'Choose a change of a DIFFERENT kind / in a different function than the most obvious one.' or ''}

Requirements you must verify yourself:
1. With your change applied the library still builds:  cmake -G Ninja -S {wt} -B {wt}/_seed/build -DCMAKE_BUILD_TYPE=Release -DBUILD_TESTING=ON -DBUILD_SHARED_LIBS=ON -DCMAKE_OUTPUT_DIRECTORY={wt}/_seed/bin && ninja -C {wt}/_seed/build SvtAv1EncApp SvtAv1DecApp SvtAv1ApiTests   (about 2-3 minutes on this machine; it is busy, be patient. Build these named targets, not `all`: the default target also tries to git-clone libaom for the e2e tests, which fails offline and is unrelated).
2. The existing pinned tests still pass: run  LD_LIBRARY_PATH={wt}/_seed/bin {wt}/_seed/bin/SvtAv1ApiTests --gtest_filter='EncParam*:EncApi*'  — the expected baseline result (also WITHOUT your change) is exactly 42 tests PASSED and 10 FAILED (those 10 fail on the pinned tree too: EncParamIntraPeridLenTest, EncParamIntraRefreshTypeTest, EncParamHierarchicalLvlTest, EncParamEnableWarpedMotionTest, EncParamSearchAreaWidthTest, EncParamSearchAreaHeightTest, EncParamSceneChangeDectTest, EncParamMinQPAllowTest, EncParamEnableAltRefsTest, EncParamAltRefsFramesNumTest). The same 42 must pass with your change.
3. A demonstration — a small C program or shell script under {wt}/_seed/demo/ (with a run.sh that builds and runs it against a given worktree path as $1, exit code 0 = property holds, non-zero = property violated) — that FAILS with your change and PASSES on the unchanged tree. It may link the built library, compile individual library source files directly (e.g. Source/Lib/Common/Codec/EbSystemResourceManager.c with EbThreads.c EbMalloc.c EbLog.c and -I Source/API -I Source/Lib/Common/Codec), or drive SvtAv1EncApp / SvtAv1DecApp (in _seed/bin; SvtAv1DecApp can decode the encoder's .ivf output, `SvtAv1EncApp -i in.yuv -w W -h H -n N -b out.ivf -o recon.yuv`, raw yuv420p input you generate yourself). Keep demo inputs small (e.g. 64x64..256x128, few frames) so it runs in under a minute. Confirm both outcomes (use `git stash` or `git diff > patch; git checkout .` to test the unchanged tree, rebuilding as needed).

Note: the pinned tree has some pre-existing defects, e.g.: pictures exactly one superblock (64 px) wide with height >= 128 hang; `--hierarchical-levels 5 --lp 2` hangs; rate-control modes 1/2 are non-deterministic; svt_av1_enc_set_parameter returns on a rejected configuration with an internal mutex still held (a second set_parameter on the same handle then blocks); several API functions crash on a NULL handle; svt_svt_enc_init_parameter leaves a few fields (render_width/height, is_16bit_pipeline, rc stats buffers, enable_qp_scaling_flag, enable_denoise_flag, in_loop_me_flag, vbv_bufsize, pred_struct[], manual_pred_struct_entry_num) unassigned; the application-private pointer is not carried to packets; the documented ranges of some parameters disagree with what the validation accepts; --keyint 0 gives INTRA_ONLY frames. Your demo must PASS on the unchanged tree, so stay away from behaviour that already misbehaves, and choose a change whose effect is NEW.

Deliverables, all under {wt}/_seed/out/ :
 - patch.diff   (output of `git -C {wt} diff -- Source` with ONLY your library change; no build outputs)
 - demo/        (copy of your demonstration incl. run.sh)
 - meta.json    with keys: property ("{pid}"), summary (what the change is), needs (what specific condition it needs in order to manifest), demo_cmd, demo_result_with_change, demo_result_without_change, tests_with_change (e.g. "42 passed / 10 failed (baseline set)")
Finish by replying with the content of meta.json and the patch. Do not leave the change half-verified: if you cannot make a demo that distinguishes the two trees, pick a different change.''')
