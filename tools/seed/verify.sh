#!/bin/bash
# verify.sh <ID> [worktree] : confirm a seeded change independently, then store it under /verif/seeded/<ID>/
# - demo fails with the patch, passes without; library builds with the patch; the 42 baseline API tests pass with it.
ID=$1; WT=${2:-/tmp/seed/$ID}; OUT=$WT/_seed/out; DST=/verif/seeded/$ID
set -u
mkdir -p $DST; cp -r $OUT/patch.diff $OUT/meta.json $DST/ 2>/dev/null; rm -rf $DST/demo; cp -r $OUT/demo $DST/demo
cd $WT || exit 2
git checkout -q -- Source && git apply $DST/patch.diff || { echo "patch does not apply"; exit 2; }
NEEDBIN=0; grep -q "_seed/bin\|SvtAv1EncApp\|libSvtAv1" $DST/demo/run.sh && NEEDBIN=1
build() { ninja -C $WT/_seed/build SvtAv1EncApp SvtAv1DecApp SvtAv1ApiTests > $WT/_seed/build.log 2>&1; }
if [ ! -f $WT/_seed/build/build.ninja ]; then cmake -G Ninja -S $WT -B $WT/_seed/build -DCMAKE_BUILD_TYPE=Release -DBUILD_TESTING=ON -DBUILD_SHARED_LIBS=ON -DCMAKE_OUTPUT_DIRECTORY=$WT/_seed/bin > /dev/null 2>&1; fi
build; B1=$?
T=$(LD_LIBRARY_PATH=$WT/_seed/bin nort timeout 300 $WT/_seed/bin/SvtAv1ApiTests --gtest_filter='EncParam*:EncApi*' 2>&1 | grep -E "^\[  PASSED  \]|tests, listed below" | tr '\n' ' ')
nort timeout 1500 bash $DST/demo/run.sh $WT > $DST/demo_with_patch.log 2>&1; R1=$?
git checkout -q -- Source
if [ $NEEDBIN = 1 ]; then build; fi
nort timeout 1500 bash $DST/demo/run.sh $WT > $DST/demo_without_patch.log 2>&1; R0=$?
echo "ID=$ID build_with_patch_rc=$B1 tests_with_patch='$T' demo_with_patch_rc=$R1 demo_without_patch_rc=$R0" | tee $DST/verify.txt
